#!/bin/sh
# Builds the checker from files on disk (offline) and runs its own unit tests.
set -eu
cd "$(dirname "$0")"
export GOFLAGS=-mod=mod GOPROXY=off GOWORK=off
unset GOTOOLCHAIN GOSUMDB 2>/dev/null || true
mkdir -p bin evidence
go build -o bin/echverif ./cmd/echverif
go vet ./cmd/... ./internal/...
go test -count=1 ./internal/... 
