#!/bin/bash
# tools_propseeds.sh <ID>... : run the seeded changes and hand variants of the
# given properties against their own check (development aid; uses $ECHVERIF or
# bin/echverif as built).
cd "$(dirname "$0")"
for id in "$@"; do
  for d in seeded/$id-* variants/$id-*; do
    [ -f "$d/patch.diff" ] || continue
    r=$(./seedtest.sh $PWD/$d/patch.diff $id 2>&1 | grep -E "^\[$id\]   $id" | sed -E 's/^\[C[0-9]+\]   (C[0-9A-Za-z.\-]+) .*/\1/' | sort -u | tr '\n' ' ')
    echo "$d: ${r:-MISSED}"
  done
done
