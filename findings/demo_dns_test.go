package dns

// Demonstrations for D7 and D14 (see demo_ech_test.go for how to run; copy to
// /repo/dns/zz_demo_test.go).

import (
	"reflect"
	"testing"
	"time"
)

// D7: a compression pointer that jumps back to a label in front of itself
// must not make DecodeMessage loop.
func TestD7(t *testing.T) {
	msg := []byte{0, 0, 0, 0, 0, 1, 0, 0, 0, 0, 0, 0, 0x01, 'a', 0xC0, 0x0C}
	done := make(chan error, 1)
	go func() {
		_, err := DecodeMessage(msg)
		done <- err
	}()
	select {
	case err := <-done:
		if err == nil {
			t.Fatal("cyclic name accepted")
		}
	case <-time.After(2 * time.Second):
		t.Fatal("DecodeMessage did not return within 2 s")
	}
}

// D14: names are encoded the same way at every site: a trailing dot is
// ignored and the root name is a single zero byte.
func TestD14(t *testing.T) {
	for _, m := range []Message{
		{Question: []Question{{Name: "", Type: 2, Class: 1}}},
		{Question: []Question{{Name: "example.com.", Type: 1, Class: 1}}},
		{Answer: []RR{{Name: "example.com.", Type: 5, Class: 1, TTL: 1, Data: "target.example."}}},
		{Answer: []RR{{Name: "example.com", Type: 2, Class: 1, TTL: 1, Data: ""}}},
		{Answer: []RR{{Name: "example.com", Type: 65, Class: 1, TTL: 1, Data: HTTPS{Priority: 1, Target: "svc.example."}}}},
	} {
		b := m.Bytes()
		got, err := DecodeMessage(b)
		if err != nil {
			t.Errorf("%+v: decode of own encoding %x: %v", m, b, err)
			continue
		}
		if b2 := got.Bytes(); !reflect.DeepEqual(b, b2) {
			t.Errorf("%+v: re-encoding differs:\n %x\n %x", m, b, b2)
		}
		if len(m.Question) > 0 && len(got.Question) != 1 {
			t.Errorf("%+v: question lost", m)
		}
	}
}
