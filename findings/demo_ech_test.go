package ech

// Demonstrations for the defects D1-D6, D8-D10, D12, D13 of /verif/DESIGN.md
// section 6. Not part of /repo: copy into /repo (package ech) to run, e.g.
//
//	cp /verif/findings/demo_ech_test.go /repo/zz_demo_test.go
//	(cd /repo && go test -count=1 -run 'TestD[0-9]+' .) ; rm /repo/zz_demo_test.go
//
// Every test fails (or panics / hangs) on the pinned tree and passes after the
// corresponding "fix:" commit. They are documentation of the findings; the
// registered checks do not execute them.

import (
	"bytes"
	"context"
	"crypto/ecdh"
	"errors"
	"io"
	"net"
	"net/http"
	"net/http/httptest"
	"slices"
	"strings"
	"sync"
	"testing"
	"time"

	"github.com/c2FmZQ/ech/dns"
	"github.com/c2FmZQ/ech/internal/hpke"
)

type recConn struct {
	fakeConn
	mu        sync.Mutex
	deadlines []time.Time
	closed    bool
}

func (c *recConn) SetDeadline(t time.Time) error {
	c.mu.Lock()
	defer c.mu.Unlock()
	c.deadlines = append(c.deadlines, t)
	return nil
}

func (c *recConn) Close() error {
	c.mu.Lock()
	defer c.mu.Unlock()
	c.closed = true
	return nil
}

func demoKey(t *testing.T, id uint8, name string) (Key, Config) {
	t.Helper()
	priv, cfg, err := NewConfig(id, []byte(name))
	if err != nil {
		t.Fatal(err)
	}
	return Key{Config: cfg, PrivateKey: priv.Bytes()}, cfg
}

func demoPub(t *testing.T, cfg Config) any {
	t.Helper()
	spec, err := cfg.Spec()
	if err != nil {
		t.Fatal(err)
	}
	k, err := hpkeParsePub(spec.KEM, spec.PublicKey)
	if err != nil {
		t.Fatal(err)
	}
	return k
}

// D1: a hello rejected by NewConn must produce a fatal alert.
func TestD1(t *testing.T) {
	h := newClientHello("public", "tls1.3", "ech_outer_extensions")
	fc := newFakeConn(h.bytes())
	_, err := NewConn(context.Background(), fc)
	if !errors.Is(err, ErrIllegalParameter) {
		t.Fatalf("err = %v", err)
	}
	got := fc.Writer.(*bytes.Buffer).Bytes()
	if want := []byte{0x15, 3, 3, 0, 2, 2, 47}; !bytes.Equal(got, want) {
		t.Fatalf("alert bytes = %x, want %x", got, want)
	}
}

func acceptedConn(t *testing.T, extra []byte) (*Conn, *fakeConn) {
	t.Helper()
	key, cfg := demoKey(t, 7, "public.example.com")
	inner := newClientHello("private", "tls1.3", "echExtInner")
	outer := newClientHello("public", "tls1.3", cfg, demoPub(t, cfg), inner)
	fc := newFakeConn(append(outer.bytes(), extra...))
	c, err := NewConn(context.Background(), fc, WithKeys([]Key{key}))
	if err != nil {
		t.Fatalf("NewConn: %v", err)
	}
	if !c.ECHAccepted() {
		t.Fatal("not accepted")
	}
	return c, fc
}

// D2: a zero-length handshake record after an accepted ECH must not panic Read.
func TestD2(t *testing.T) {
	c, _ := acceptedConn(t, []byte{0x16, 3, 3, 0, 0, 0x17, 3, 3, 0, 1, 0xaa})
	b := make([]byte, 65536)
	var got []byte
	for {
		n, err := c.Read(b)
		got = append(got, b[:n]...)
		if err != nil {
			break
		}
	}
	if !bytes.HasSuffix(got, []byte{0x16, 3, 3, 0, 0, 0x17, 3, 3, 0, 1, 0xaa}) {
		t.Fatalf("tail not delivered: %x", got[max(0, len(got)-16):])
	}
}

// D3: a zero-length record written by the backend must not panic Write.
func TestD3(t *testing.T) {
	c, fc := acceptedConn(t, nil)
	rec := []byte{0x16, 3, 3, 0, 0}
	if n, err := c.Write(rec); n != 5 || err != nil {
		t.Fatalf("Write = %d, %v", n, err)
	}
	if got := fc.Writer.(*bytes.Buffer).Bytes(); !bytes.Equal(got, rec) {
		t.Fatalf("forwarded %x", got)
	}
}

// D4: protected records may be up to 2^14+256 bytes long (RFC 8446 5.2).
func TestD4(t *testing.T) {
	const n = 16384 + 256
	rec := append([]byte{0x17, 3, 3, byte(n >> 8), byte(n & 0xff)}, make([]byte, n)...)
	if r, err := readRecord(newFakeConn(rec)); err != nil || len(r) != len(rec) {
		t.Fatalf("readRecord: len %d err %v", len(r), err)
	}
	c, fc := acceptedConn(t, nil)
	if w, err := c.Write(rec); w != len(rec) || err != nil {
		t.Fatalf("Write = %d, %v", w, err)
	}
	if got := fc.Writer.(*bytes.Buffer).Bytes(); !bytes.Equal(got, rec) {
		t.Fatalf("forwarded %d bytes", len(got))
	}
	rec[3], rec[4] = byte((n+1)>>8), byte((n+1)&0xff)
	if _, err := readRecord(newFakeConn(append(rec, 0))); !errors.Is(err, ErrDecodeError) {
		t.Fatalf("oversized record: err = %v", err)
	}
}

// D5: keys sharing a config id must not disturb each other, in either order,
// on the first hello and on the retried hello.
func TestD5(t *testing.T) {
	keyA, cfgA := demoKey(t, 7, "public.example.com")
	keyB, _ := demoKey(t, 7, "other.example.com")
	for name, keys := range map[string][]Key{"target-first": {keyA, keyB}, "target-last": {keyB, keyA}, "alone": {keyA}} {
		t.Run(name, func(t *testing.T) {
			inner := newClientHello("private", "tls1.3", "echExtInner")
			outer := newClientHello("public", "tls1.3", cfgA, demoPub(t, cfgA), inner)
			outer2 := newClientHello("public", "tls1.3", cfgA, outer.hpkeCtx, inner)
			fc := newFakeConn(append(outer.bytes(), outer2.bytes()...))
			c, err := NewConn(context.Background(), fc, WithKeys(keys))
			if err != nil {
				t.Fatalf("NewConn: %v", err)
			}
			if !c.ECHAccepted() || c.ServerName() != "private.example.com" {
				t.Fatalf("accepted=%v name=%q", c.ECHAccepted(), c.ServerName())
			}
			b := make([]byte, 65536)
			n, err := c.Read(b)
			if err != nil || !bytes.Equal(b[:n], inner.bytes()) {
				t.Fatalf("first flight mismatch: %v", err)
			}
			if _, err := c.Write(helloRetryReq()); err != nil {
				t.Fatalf("Write HRR: %v", err)
			}
			n, err = c.Read(b)
			if err != nil || !bytes.Equal(b[:n], inner.bytes()) {
				t.Fatalf("second flight: n=%d err=%v", n, err)
			}
		})
	}
}

// D6: after NewConn returned successfully, cancelling its context must not
// touch the connection's deadlines any more.
func TestD6(t *testing.T) {
	h := newClientHello("public", "tls1.3")
	bad := 0
	for i := 0; i < 300; i++ {
		rc := &recConn{fakeConn: *newFakeConn(h.bytes())}
		ctx, cancel := context.WithCancel(context.Background())
		if _, err := NewConn(ctx, rc); err != nil {
			t.Fatal(err)
		}
		rc.mu.Lock()
		before := len(rc.deadlines)
		pending := before > 0 && !rc.deadlines[before-1].IsZero()
		rc.mu.Unlock()
		cancel()
		time.Sleep(200 * time.Microsecond)
		rc.mu.Lock()
		if len(rc.deadlines) != before || pending {
			bad++
		}
		rc.mu.Unlock()
	}
	if bad > 0 {
		t.Fatalf("deadline touched after return (or left pending) in %d/300 runs", bad)
	}
}

// D8: an over-long scheme (or any over-long constructed query name) must be
// refused with an error, not a panic.
func TestD8(t *testing.T) {
	defer func() {
		if r := recover(); r != nil {
			t.Fatalf("panic: %v", r)
		}
	}()
	r, err := NewResolver("https://127.0.0.1:1/dns-query")
	if err != nil {
		t.Fatal(err)
	}
	ctx, cancel := context.WithTimeout(context.Background(), 200*time.Millisecond)
	defer cancel()
	if _, err := r.Resolve(ctx, strings.Repeat("a", 300)+"://example.com"); !errors.Is(err, ErrInvalidName) {
		t.Fatalf("err = %v, want ErrInvalidName", err)
	}
	if _, err := r.Resolve(ctx, strings.Repeat("a", 64)+"://example.com:8443"); !errors.Is(err, ErrInvalidName) {
		t.Fatalf("err = %v, want ErrInvalidName", err)
	}
}

// D9: Targets must not write into the record's ALPN backing array.
func TestD9(t *testing.T) {
	alpn := make([]string, 1, 4)
	alpn[0] = "h2"
	full := alpn[:2]
	full[1] = "sentinel"
	r := ResolveResult{Port: 443, Address: []net.IP{{192, 0, 2, 1}}, HTTPS: []dns.HTTPS{{Priority: 1, ALPN: alpn}}}
	for range r.Targets("tcp") {
	}
	if full[1] != "sentinel" {
		t.Fatalf("backing array overwritten: %q", full[1])
	}
}

// D10: an entry is never served beyond the smallest TTL of the response.
func TestD10(t *testing.T) {
	now := time.Unix(1_700_000_000, 0)
	saved := timeNow
	timeNow = func() time.Time { return now }
	defer func() { timeNow = saved }()

	calls := 0
	var answer []dns.RR
	ts := httptest.NewServer(http.HandlerFunc(func(w http.ResponseWriter, req *http.Request) {
		body, _ := io.ReadAll(req.Body)
		q, err := dns.DecodeMessage(body)
		if err != nil {
			t.Errorf("DecodeMessage: %v", err)
			return
		}
		calls++
		w.Write(dns.Message{ID: q.ID, QR: 1, Question: q.Question, Answer: answer}.Bytes())
	}))
	defer ts.Close()
	r, err := NewResolver(ts.URL)
	if err != nil {
		t.Fatal(err)
	}
	ctx := context.Background()

	answer = []dns.RR{
		{Name: "a.example", Type: 1, Class: 1, TTL: 0, Data: net.IP{192, 0, 2, 1}},
		{Name: "a.example", Type: 1, Class: 1, TTL: 300, Data: net.IP{192, 0, 2, 2}},
	}
	if _, err := r.resolveOne(ctx, "a.example", "A"); err != nil {
		t.Fatal(err)
	}
	if _, err := r.resolveOne(ctx, "a.example", "A"); err != nil {
		t.Fatal(err)
	}
	if calls != 2 {
		t.Errorf("TTL [0,300]: upstream asked %d times, want 2 (zero TTL is not cacheable)", calls)
	}

	calls = 0
	answer = []dns.RR{{Name: "c.example", Type: 5, Class: 1, TTL: 5, Data: "d.example"}}
	if _, err := r.resolveOne(ctx, "c.example", "HTTPS"); err != nil {
		t.Fatal(err)
	}
	now = now.Add(6 * time.Second)
	if _, err := r.resolveOne(ctx, "c.example", "HTTPS"); err != nil {
		t.Fatal(err)
	}
	if calls != 2 {
		t.Errorf("CNAME-only TTL 5: upstream asked %d times after 6 s, want 2", calls)
	}
}

// D12: a duplicated ECH extension must not panic the AAD computation.
func TestD12(t *testing.T) {
	defer func() {
		if r := recover(); r != nil {
			t.Fatalf("panic: %v", r)
		}
	}()
	key, cfg := demoKey(t, 7, "public.example.com")
	inner := newClientHello("private", "tls1.3", "echExtInner")
	outer := newClientHello("public", "tls1.3", cfg, demoPub(t, cfg), inner)
	n := len(outer.Extensions)
	short := extension{Type: 0xfe0d, Data: []byte{0, 0, 1, 0, 3, 7, 0, 0, 0, 1, 0xff}}
	outer.Extensions = slices.Insert(outer.Extensions, n-1, short)
	fc := newFakeConn(outer.bytes())
	c, err := NewConn(context.Background(), fc, WithKeys([]Key{key}))
	if err == nil && c.ECHAccepted() {
		t.Fatal("accepted a hello with a duplicated ECH extension")
	}
}

// D13: non-zero padding in EncodedClientHelloInner must be refused.
func TestD13(t *testing.T) {
	key, cfg := demoKey(t, 7, "public.example.com")
	spec, _ := cfg.Spec()
	pub, _ := hpkeParsePub(spec.KEM, spec.PublicKey)
	inner := newClientHello("private", "tls1.3", "echExtInner")
	for _, pad := range [][]byte{{0, 0, 0, 0}, {0, 0, 1, 0}} {
		innerBytes := append(slices.Clone(inner.bytes()[9:]), pad...)
		outer := newClientHello("public", "tls1.3")
		enc, sender := hpkeSender(t, pub, cfg)
		outer.addClientHelloExtOuter(cfg[4], 3, enc, make([]byte, len(innerBytes)+16))
		outer.parse()
		aad, err := outer.marshalAAD()
		if err != nil {
			t.Fatal(err)
		}
		payload, _ := sender.Seal(aad, innerBytes)
		outer.Extensions = outer.Extensions[:len(outer.Extensions)-1]
		outer.addClientHelloExtOuter(cfg[4], 3, enc, payload)
		fc := newFakeConn(outer.bytes())
		c, err := NewConn(context.Background(), fc, WithKeys([]Key{key}))
		zero := !slices.ContainsFunc(pad, func(b byte) bool { return b != 0 })
		if zero && (err != nil || !c.ECHAccepted()) {
			t.Fatalf("zero padding: err=%v", err)
		}
		if !zero && !errors.Is(err, ErrIllegalParameter) {
			t.Fatalf("non-zero padding: err=%v accepted=%v", err, c.ECHAccepted())
		}
	}
}

func hpkeParsePub(kem uint16, b []byte) (*ecdh.PublicKey, error) {
	return hpke.ParseHPKEPublicKey(kem, b)
}

func hpkeSender(t *testing.T, pub *ecdh.PublicKey, cfg Config) ([]byte, *hpke.Sender) {
	t.Helper()
	enc, s, err := hpke.SetupSender(hpke.DHKEM_X25519_HKDF_SHA256, 1, 3, pub, append([]byte("tls ech\x00"), cfg...))
	if err != nil {
		t.Fatal(err)
	}
	return enc, s
}
