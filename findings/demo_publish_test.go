package publish

// Demonstration for D11 (copy to /repo/publish/zz_demo_test.go).

import (
	"context"
	"encoding/json"
	"net/http"
	"net/http/httptest"
	"net/url"
	"strings"
	"testing"
)

// D11: the same target listed twice is written once; the second occurrence
// sees the current value.
func TestD11(t *testing.T) {
	value := `alpn="h2" ech="b2xk"`
	patches := 0
	ts := httptest.NewServer(http.HandlerFunc(func(w http.ResponseWriter, req *http.Request) {
		switch {
		case req.Method == "PATCH":
			patches++
			var body struct {
				Data httpsData `json:"data"`
			}
			json.NewDecoder(req.Body).Decode(&body)
			value = body.Data.Value
			w.Write([]byte(`{"success":true}`))
		case strings.HasSuffix(req.URL.Path, "/dns_records"):
			b, _ := json.Marshal(map[string]any{"success": true,
				"result":      []map[string]any{{"id": "r1", "name": "www.example.com", "data": httpsData{Priority: 1, Target: ".", Value: value}}},
				"result_info": map[string]int{"count": 1, "page": 1, "per_page": 20, "total_pages": 1}})
			w.Write(b)
		default:
			w.Write([]byte(`{"success":true,"result":[{"id":"z1","name":"example.com"}]}`))
		}
	}))
	defer ts.Close()
	cf := NewCloudflarePublisher("token")
	u, _ := url.Parse(ts.URL)
	cf.baseURL = *u
	tg := Target{Zone: "example.com", Name: "www.example.com"}
	res := cf.PublishECH(context.Background(), []Target{tg, tg}, []byte("new"))
	if len(res) != 2 || res[0].Code != StatusUpdated || res[1].Code != StatusNoChange {
		t.Errorf("results = %v", res)
	}
	if patches != 1 {
		t.Errorf("PATCH issued %d times, want 1", patches)
	}
}
