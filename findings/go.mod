module findings

go 1.24
