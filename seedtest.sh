#!/bin/sh
# ./seedtest.sh <patch.diff> <ID>... : apply a patch to a scratch copy of
# /repo, run the given checks on it, report which fire. Development aid.
set -u
cd "$(dirname "$0")"
patch="$1"; shift
tmp=$(mktemp -d /tmp/seedtest.XXXXXX)
trap 'rm -rf "$tmp"' EXIT
rsync -a --exclude .git /repo/ "$tmp/"
if ! (cd "$tmp" && git apply --whitespace=nowarn "$patch") ; then echo "PATCH DOES NOT APPLY"; exit 3; fi
export GOFLAGS=-mod=mod GOPROXY=off GOWORK=off
mkdir -p "$tmp/.verif/evidence"
cp known_findings.jsonl "$tmp/.verif/" 2>/dev/null
for id in "$@"; do
  ${ECHVERIF:-./bin/echverif} -repo "$tmp" -verif "$tmp/.verif" quick "$id" | grep -v '^VIOLATION' | sed "s|^|[$id] |"
done
