#!/bin/bash
# tools_confirm_seeds.sh <srcdir> : for every <srcdir>/<P>/<k>/ produced by a
# sub-agent, confirm in a scratch worktree of /repo that (1) the patch applies
# and the tree builds and vets, (2) the existing suite still passes with it,
# (3) the demonstration fails with the patch and (4) passes without it. Writes
# <srcdir>/<P>/<k>/confirm.txt. Never touches /repo's working tree.
set -u
src="$1"
export GOFLAGS=-mod=mod GOPROXY=off
wt=/tmp/confirm-wt
git -C /repo worktree remove --force $wt 2>/dev/null
git -C /repo worktree add -q --detach $wt HEAD || exit 2
trap 'git -C /repo worktree remove --force $wt' EXIT
for d in "$src"/*/*/; do
  [ -f "$d/patch.diff" ] || continue
  meta="$d/meta.json"
  ddir=$(python3 -c "import json,sys;print(json.load(open('$meta')).get('demo_dir','.'))")
  drun=$(python3 -c "import json,sys;print(json.load(open('$meta')).get('demo_run',''))")
  out="$d/confirm.txt"; : > "$out"
  ( cd $wt && git checkout -q -- . && git clean -fdq )
  # demo without the patch
  cp "$d/demo_test.go" "$wt/$ddir/zz_seed_demo_test.go"
  ( cd "$wt/$ddir" && timeout 300 bash -c "$drun" ) > "$d/demo_clean.log" 2>&1
  echo "demo_without_patch_exit=$?" >> "$out"
  rm -f "$wt/$ddir/zz_seed_demo_test.go"
  # patch
  if ! ( cd $wt && git apply --whitespace=nowarn "$d/patch.diff" ) 2>>"$out"; then echo "apply=FAIL" >> "$out"; continue; fi
  echo "apply=ok" >> "$out"
  ( cd $wt && go build ./... && go vet ./... ) > "$d/build.log" 2>&1; echo "build_vet_exit=$?" >> "$out"
  rc=0
  for m in . publish; do ( cd $wt/$m && timeout 600 go test -vet=off -count=1 ./... ) >> "$d/suite.log" 2>&1 || rc=1; done
  echo "suite_with_patch_exit=$rc" >> "$out"
  cp "$d/demo_test.go" "$wt/$ddir/zz_seed_demo_test.go"
  ( cd "$wt/$ddir" && timeout 300 bash -c "$drun" ) > "$d/demo_patched.log" 2>&1
  echo "demo_with_patch_exit=$?" >> "$out"
  rm -f "$wt/$ddir/zz_seed_demo_test.go"
  echo "== $d: $(tr '\n' ' ' < "$out")"
done
