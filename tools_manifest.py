#!/usr/bin/env python3
"""Regenerates MANIFEST.json from the table below and validates it (and any
evidence files present) against the schemas in /root/.vp."""
import json, os, sys, glob

CLAIMS = {
 # id: (technique, level text, level note, design ref)
}
NOT_YET = "rule set not built yet in this round; see DESIGN.md section 5 for the planned structural clauses"

def load_claims():
    p = os.path.join(os.path.dirname(os.path.abspath(__file__)), "claims.json")
    return json.load(open(p))

def main():
    here = os.path.dirname(os.path.abspath(__file__))
    claims = load_claims()
    props = [json.loads(l) for l in open(os.path.join(here, "properties.jsonl"))]
    checks, na = [], []
    for p in props:
        c = claims.get(p["id"])
        if not c or c.get("not_applicable"):
            na.append({"property_id": p["id"], "reason": (c or {}).get("not_applicable", NOT_YET)})
            continue
        checks.append({
            "property_id": p["id"],
            "quick_cmd": f"./verif.sh quick {p['id']}",
            "thorough_cmd": f"./verif.sh thorough {p['id']}",
            "evidence_file": f"/verif/evidence/{p['id']}.json",
            "replay_cmd_template": f"./verif.sh quick {p['id']} --replay {{path}}",
            "engine": "echverif",
            "level_claimed": {"category": "other", "text": c["text"], "design_ref": c.get("design_ref", "DESIGN.md section 5, " + p["id"])},
            "level_note": c["note"],
            "technique": c["technique"],
        })
    m = {
        "version": 1,
        "setup_cmd": "./setup.sh",
        "hooks": {"guard": "verif", "enable": "none needed: the checks read the source of /repo, nothing is instrumented", "baseline_off_cmd": "cd /repo && export GOFLAGS=-mod=mod GOPROXY=off && for m in . publish quic; do (cd $m && go test -vet=off -count=1 ./...) || exit 1; done", "source_commits": [], "add_only": True},
        "engines": [{"name": "echverif", "path": "cmd/echverif", "serves_properties": [c["property_id"] for c in checks],
                     "kind_free_text": "repository-specific static analyser on go/types + go/ssa (x/tools v0.29.0): edge-dominance guards, canonical value terms with reaching definitions for locals, provenance/alias queries, constant-table and wire-grammar extraction; no repository code is executed"}],
        "checks": checks,
        "notes": "Static analysis only. Every claim is level 'other': a named structural necessary condition of the property, decided on the resolved program of /repo's working tree; what is not decided is stated in each evidence file. Genuine defects found are recorded in known_findings.jsonl (all repaired by 'fix:' commits in /repo).",
        "not_applicable": na,
    }
    json.dump(m, open(os.path.join(here, "MANIFEST.json"), "w"), indent=1)
    try:
        import jsonschema
    except ImportError:
        print("jsonschema not available; wrote MANIFEST.json unvalidated"); return
    jsonschema.validate(m, json.load(open("/root/.vp/MANIFEST.schema.json")))
    es = json.load(open("/root/.vp/EVIDENCE.schema.json"))
    n = 0
    for f in glob.glob(os.path.join(here, "evidence", "C*.json")):
        jsonschema.validate(json.load(open(f)), es); n += 1
    print(f"MANIFEST.json valid: {len(checks)} checks, {len(na)} not applicable; {n} evidence files valid")

main()
