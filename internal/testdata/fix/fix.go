// Package fix holds small functions on which the checker's engines are
// tested (positive and negative instances per matcher).
package fix

import (
	"errors"
	"sync"

	"golang.org/x/crypto/cryptobyte"
)

var ErrBad = errors.New("bad")

// --- guards

func OrGuard(a, b bool, x []byte) int {
	if a || b {
		return 0
	}
	return len(x) // reached only with !a && !b
}

func AndValue(a, b bool) int {
	ok := a && b
	if ok {
		return 1 // reached only with a && b
	}
	return 0
}

func Retry(isRetry bool, n int) (int, error) {
	if isRetry {
		if n == 0 {
			return 0, ErrBad
		}
	}
	return n, nil
}

// --- canonical terms: the two functions differ in local names only

type T struct {
	A, B int
	S    []byte
}

func TermsA(t *T, k int) int {
	sum := t.A + k
	tmp := sum
	if tmp > t.B {
		return tmp
	}
	return t.B
}

func TermsB(t *T, k int) int {
	x := t.A + k
	if x > t.B {
		return x
	}
	return t.B
}

// --- index safety

func SafeIndex(b []byte) byte {
	if len(b) > 5 {
		return b[5]
	}
	return 0
}

func UnsafeIndex(b []byte) byte {
	if len(b) >= 5 {
		return b[5] // off by one
	}
	return 0
}

func SafeSlice(b []byte, n int) []byte {
	if n < 0 || n > len(b) {
		return nil
	}
	return b[:n]
}

func UnsafeSlice(b []byte, n int) []byte {
	if n > len(b) {
		return nil
	}
	return b[:n] // n may be negative
}

func SafeSearch(xs []int, want int) int {
	p := 0
	for p < len(xs) && xs[p] != want {
		p++
	}
	if p == len(xs) {
		return -1
	}
	return xs[p]
}

func (t *T) FieldLen() byte {
	if len(t.S) >= 1 {
		return t.S[0]
	}
	return 0
}

func (t *T) FieldLenKilled() byte {
	if len(t.S) >= 1 {
		t.S = nil
		return t.S[0] // the store in between invalidates the test
	}
	return 0
}

// --- loops

func CursorGood(s cryptobyte.String) (int, error) {
	n := 0
	for !s.Empty() {
		var v uint16
		if !s.ReadUint16(&v) {
			return 0, ErrBad
		}
		n += int(v)
	}
	return n, nil
}

func CursorBad(s cryptobyte.String) int {
	n := 0
	for !s.Empty() {
		var v uint16
		if s.ReadUint16(&v) && v > 3 { // a failed read consumes nothing: spins on one trailing byte
			n++
		}
	}
	return n
}

func Budget(raw []byte) int {
	pos, steps := 0, 0
	for {
		if steps++; steps > 100 {
			return -1
		}
		if pos >= len(raw) {
			return pos
		}
		pos = int(raw[pos]) // may jump anywhere
	}
}

func NoBudget(raw []byte) int {
	pos := 0
	for {
		if pos >= len(raw) {
			return pos
		}
		pos = int(raw[pos])
	}
}

// --- grammar

type Msg struct {
	Kind uint8
	Name []byte
	IDs  []uint16
}

func (m *Msg) Marshal() ([]byte, error) {
	b := cryptobyte.NewBuilder(nil)
	b.AddUint8(m.Kind)
	b.AddUint16LengthPrefixed(func(b *cryptobyte.Builder) {
		b.AddBytes(m.Name)
	})
	b.AddUint8LengthPrefixed(func(b *cryptobyte.Builder) {
		for _, id := range m.IDs {
			b.AddUint16(id)
		}
	})
	return b.Bytes()
}

func Parse(buf []byte) (*Msg, error) {
	m := new(Msg)
	s := cryptobyte.String(buf)
	if !s.ReadUint8(&m.Kind) {
		return nil, ErrBad
	}
	var name cryptobyte.String
	if !s.ReadUint16LengthPrefixed(&name) {
		return nil, ErrBad
	}
	m.Name = append([]byte(nil), name...)
	var ids cryptobyte.String
	if !s.ReadUint8LengthPrefixed(&ids) {
		return nil, ErrBad
	}
	for !ids.Empty() {
		var id uint16
		if !ids.ReadUint16(&id) {
			return nil, ErrBad
		}
		m.IDs = append(m.IDs, id)
	}
	return m, nil
}

// --- fixtures for flattening (helpers that are not anchors get inlined)

var ErrShort = errors.New("short")

func readTwo(s *cryptobyte.String, a, b *uint8) bool {
	if !s.ReadUint8(a) {
		return false
	}
	return s.ReadUint8(b)
}

func decodePair(buf []byte) (uint8, uint8, error) {
	s := cryptobyte.String(buf)
	var a, b uint8
	if !readTwo(&s, &a, &b) {
		return 0, 0, ErrShort
	}
	if a == 0 {
		return 0, 0, ErrBad
	}
	return a, b, nil
}

// FlatCaller is an anchor; decodePair and readTwo are not.
func FlatCaller(buf []byte) (int, error) {
	a, b, err := decodePair(buf)
	if err != nil {
		return 0, err
	}
	return int(a) + int(b), nil
}

// FlatClosure calls a local literal through its variable, from a nested literal.
func FlatClosure(xs []int, f func(func())) int {
	total := 0
	add := func(x int) { total += x }
	f(func() {
		for _, x := range xs {
			add(x)
		}
	})
	return total
}

type acc struct{ n int }

func (a *acc) bump(b *cryptobyte.Builder) { b.AddUint8(uint8(a.n)) }

// FlatMethodValue passes a bound method as a builder callback.
func FlatMethodValue(n int) ([]byte, error) {
	a := &acc{n: n}
	b := cryptobyte.NewBuilder(nil)
	b.AddUint8LengthPrefixed(a.bump)
	return b.Bytes()
}

func lockedGet(m *sync.Mutex, p *int) int {
	m.Lock()
	defer m.Unlock()
	return *p
}

// FlatDefer calls a helper whose only defer is registered unconditionally.
func FlatDefer(m *sync.Mutex, p *int) int {
	return lockedGet(m, p) + 1
}

func watch(done <-chan struct{}, stopped chan<- struct{}, flag *bool) {
	defer close(stopped)
	<-done
	*flag = true
}

// FlatGo starts a declared function as a goroutine.
func FlatGo() bool {
	done := make(chan struct{})
	stopped := make(chan struct{})
	var flag bool
	go watch(done, stopped, &flag)
	defer func() {
		close(done)
		<-stopped
	}()
	return flag
}

type flatWatcher struct {
	done    chan struct{}
	stopped chan struct{}
	hit     bool
}

func startFlatWatcher(c chan int) *flatWatcher {
	w := &flatWatcher{done: make(chan struct{}), stopped: make(chan struct{})}
	go w.watch(c)
	return w
}

func (w *flatWatcher) watch(c chan int) {
	defer close(w.stopped)
	select {
	case <-w.done:
	case <-c:
		w.hit = true
	}
}

func (w *flatWatcher) stop() bool {
	close(w.done)
	<-w.stopped
	return w.hit
}

// FlatStruct keeps the state of its goroutine in a struct that only its own
// methods look into.
func FlatStruct(c chan int) (hit bool) {
	w := startFlatWatcher(c)
	defer func() {
		hit = w.stop()
	}()
	return false
}

type flatEmitter struct {
	seen  map[int]bool
	yield func(int) bool
}

func (e *flatEmitter) emit(v int) bool {
	if e.seen[v] {
		return true
	}
	e.seen[v] = true
	return e.yield(v)
}

// FlatMethod keeps the state of an enumeration in a struct whose method is
// called from several places (where an earlier version had a local closure
// named emit).
func FlatMethod(a, b []int, yield func(int) bool) {
	e := &flatEmitter{seen: map[int]bool{}, yield: yield}
	for _, v := range a {
		if !e.emit(v) {
			return
		}
	}
	for _, v := range b {
		if !e.emit(v) {
			return
		}
	}
}
