module fix

go 1.24

require golang.org/x/crypto v0.40.0
