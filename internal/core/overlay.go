package core

import (
	"bytes"
	"go/ast"
	"go/parser"
	"go/token"
	"os"
	"path/filepath"
	"sort"
	"strings"
)

// seqToSlice maps the lazily iterating library splitters to the function that
// returns the same pieces as a slice. `for x := range strings.SplitSeq(s, sep)`
// visits exactly the elements of strings.Split(s, sep), in order; the two
// differ only in when the pieces are cut and in what is allocated.
var seqToSlice = map[string]string{
	"strings.SplitSeq":      "Split",
	"strings.SplitAfterSeq": "SplitAfter",
	"strings.FieldsSeq":     "Fields",
	"bytes.SplitSeq":        "Split",
	"bytes.SplitAfterSeq":   "SplitAfter",
	"bytes.FieldsSeq":       "Fields",
}

// seqOverlay returns, for the Go files under dir that range over one of the
// library's sequence splitters, the same source with that loop written over the
// slice-returning sibling (`for _, x := range strings.Split(s, sep)`). The
// rule sets and engines know slice loops; go/ssa turns a range-over-func loop
// into a synthetic yield function with exit bookkeeping they do not follow.
// Only text inside the range clause changes, on its own line: positions
// reported against the overlay are those of the file on disk.
func seqOverlay(dir string) map[string][]byte {
	out := map[string][]byte{}
	filepath.WalkDir(dir, func(path string, d os.DirEntry, err error) error {
		if err != nil {
			return nil
		}
		if d.IsDir() {
			if n := d.Name(); path != dir && (strings.HasPrefix(n, ".") || n == "testdata" || n == "vendor") {
				return filepath.SkipDir
			}
			return nil
		}
		if !strings.HasSuffix(path, ".go") || strings.HasSuffix(path, "_test.go") {
			return nil
		}
		src, err := os.ReadFile(path)
		if err != nil || !bytes.Contains(src, []byte("Seq(")) {
			return nil
		}
		fset := token.NewFileSet()
		file, err := parser.ParseFile(fset, path, src, parser.SkipObjectResolution)
		if err != nil {
			return nil
		}
		// the names the file imports strings and bytes under
		alias := map[string]string{}
		for _, im := range file.Imports {
			p := strings.Trim(im.Path.Value, `"`)
			if p != "strings" && p != "bytes" {
				continue
			}
			name := p
			if im.Name != nil {
				name = im.Name.Name
			}
			alias[name] = p
		}
		type edit struct {
			at, end int
			text    string
		}
		var edits []edit
		ast.Inspect(file, func(n ast.Node) bool {
			rs, ok := n.(*ast.RangeStmt)
			if !ok || rs.Key == nil || rs.Value != nil {
				return true
			}
			call, ok := rs.X.(*ast.CallExpr)
			if !ok {
				return true
			}
			sel, ok := call.Fun.(*ast.SelectorExpr)
			if !ok {
				return true
			}
			pk, ok := sel.X.(*ast.Ident)
			if !ok {
				return true
			}
			to, ok := seqToSlice[alias[pk.Name]+"."+sel.Sel.Name]
			if !ok {
				return true
			}
			k := fset.Position(rs.Key.Pos()).Offset
			edits = append(edits, edit{k, k, "_, "})
			s := fset.Position(sel.Sel.Pos()).Offset
			edits = append(edits, edit{s, s + len(sel.Sel.Name), to})
			return true
		})
		if len(edits) == 0 {
			return nil
		}
		sort.Slice(edits, func(i, j int) bool { return edits[i].at > edits[j].at })
		b := append([]byte(nil), src...)
		for _, e := range edits {
			b = append(b[:e.at:e.at], append([]byte(e.text), b[e.end:]...)...)
		}
		abs, err := filepath.Abs(path)
		if err == nil {
			out[abs] = b
		}
		return nil
	})
	return out
}
