package core

import (
	"fmt"
	"io"
	"strings"

	"verif/third_party/xtools/go/ssa"
)

// Dump prints a function in the checker's vocabulary: per block its guards,
// and for every call, store, branch and return the canonical terms. It is a
// development aid (echverif dump <pkg> <func>).
func (p *Prog) Dump(w io.Writer, fn *ssa.Function) {
	for _, f := range Closures(fn) {
		fmt.Fprintf(w, "=== %s  (%s)\n", p.FuncName(f), p.Pos(f.Pos()))
		for _, b := range f.Blocks {
			var gs []string
			for _, g := range Guards(b) {
				gs = append(gs, p.GuardString(g))
			}
			fmt.Fprintf(w, " b%d %s  guards: %s\n", b.Index, b.Comment, strings.Join(gs, " ∧ "))
			for _, in := range b.Instrs {
				switch in := in.(type) {
				case *ssa.If:
					fmt.Fprintf(w, "    if %s -> b%d else b%d\n", p.X(in.Cond), b.Succs[0].Index, b.Succs[1].Index)
				case *ssa.Store:
					fmt.Fprintf(w, "    store %s := %s   [%s]\n", p.X(in.Addr), p.X(in.Val), p.InstrPos(in))
				case *ssa.MapUpdate:
					fmt.Fprintf(w, "    mapupdate %s{%s} := %s\n", p.X(in.Map), p.X(in.Key), p.X(in.Value))
				case *ssa.Return:
					var rs []string
					for _, r := range in.Results {
						rs = append(rs, p.X(r).String())
					}
					fmt.Fprintf(w, "    return %s   [%s]\n", strings.Join(rs, " ; "), p.InstrPos(in))
				case *ssa.Call:
					fmt.Fprintf(w, "    %s = %s   [%s]\n", in.Name(), p.X(in), p.InstrPos(in))
				case *ssa.Go:
					fmt.Fprintf(w, "    go %s\n", p.callExpr(nil, &in.Call, map[ssa.Value]bool{}, 0))
				case *ssa.Defer:
					fmt.Fprintf(w, "    defer %s\n", p.callExpr(nil, &in.Call, map[ssa.Value]bool{}, 0))
				case *ssa.Send:
					fmt.Fprintf(w, "    send %s <- %s\n", p.X(in.Chan), p.X(in.X))
				case *ssa.Select:
					fmt.Fprintf(w, "    %s = select blocking=%v %d states\n", in.Name(), in.Blocking, len(in.States))
				case *ssa.Jump:
					fmt.Fprintf(w, "    jump b%d\n", b.Succs[0].Index)
				case *ssa.Panic:
					fmt.Fprintf(w, "    panic %s\n", p.X(in.X))
				}
			}
		}
	}
}

// GuardString renders a guard as a signed term.
func (p *Prog) GuardString(g Guard) string {
	s := p.X(g.Cond).String()
	if !g.Pol {
		return "¬" + s
	}
	return s
}
