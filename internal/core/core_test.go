package core

import (
	"go/token"
	"go/types"
	"os"
	"path/filepath"
	"runtime"
	"strings"
	"testing"

	"verif/third_party/xtools/go/ssa"
)

func fixDir(t *testing.T) string {
	_, file, _, _ := runtime.Caller(0)
	return filepath.Join(filepath.Dir(file), "..", "testdata", "fix")
}

func loadFix(t *testing.T) *Prog {
	t.Helper()
	p, err := Load(fixDir(t))
	if err != nil {
		t.Fatal(err)
	}
	return p
}

func lastReturn(fn *ssa.Function) *ssa.Return {
	rs := Returns(fn)
	return rs[len(rs)-1]
}

func TestGuardsDisjunction(t *testing.T) {
	p := loadFix(t)
	fn := p.Func("fix", "OrGuard")
	var cont *ssa.BasicBlock
	for _, r := range Returns(fn) {
		if _, ok := r.Results[0].(*ssa.Const); !ok {
			cont = r.Block()
		}
	}
	fs := FactStrings(p.Facts(cont))
	if !strings.Contains(fs, "¬p0") || !strings.Contains(fs, "¬p1") {
		t.Fatalf("continuation of `if a || b {return}` should be guarded by ¬a and ¬b, got %q", fs)
	}
}

func TestGuardsPhiConjunction(t *testing.T) {
	p := loadFix(t)
	fn := p.Func("fix", "AndValue")
	for _, r := range Returns(fn) {
		if c, ok := r.Results[0].(*ssa.Const); ok && c.Int64() == 1 {
			fs := FactStrings(p.Facts(r.Block()))
			if !strings.Contains(fs, "p0") || !strings.Contains(fs, "p1") || strings.Contains(fs, "¬p1") {
				t.Fatalf("`ok := a && b; if ok` should expand to a and b, got %q", fs)
			}
			return
		}
	}
	t.Fatal("return 1 not found")
}

func TestPrunedCFG(t *testing.T) {
	p := loadFix(t)
	fn := p.Func("fix", "Retry")
	prm := fn.Params[0]
	cfg := Prune(fn, func(from *ssa.BasicBlock, succ int) bool {
		iff, ok := from.Instrs[len(from.Instrs)-1].(*ssa.If)
		if !ok || iff.Cond != ssa.Value(prm) {
			return true
		}
		return succ == 0 // isRetry is true
	})
	for _, r := range Returns(fn) {
		if c, ok := r.Results[1].(*ssa.Const); ok && c.Value == nil {
			found := false
			for _, g := range cfg.Guards(r.Block()) {
				if s := p.GuardString(g); strings.Contains(s, "p1 == 0") && !g.Pol {
					found = true
				}
			}
			if !found {
				t.Fatalf("with isRetry assumed, success must be guarded by n != 0")
			}
		}
	}
}

func TestTermsIgnoreLocalNames(t *testing.T) {
	p := loadFix(t)
	a, b := p.Func("fix", "TermsA"), p.Func("fix", "TermsB")
	ra, rb := Returns(a), Returns(b)
	if len(ra) != len(rb) {
		t.Fatal("different number of returns")
	}
	for i := range ra {
		sa, sb := p.X(ra[i].Results[0]).String(), p.X(rb[i].Results[0]).String()
		if sa != sb {
			t.Errorf("return %d: %q vs %q", i, sa, sb)
		}
		fa, fb := FactStrings(p.Facts(ra[i].Block())), FactStrings(p.Facts(rb[i].Block()))
		if fa != fb {
			t.Errorf("guards %d: %q vs %q", i, fa, fb)
		}
	}
}

func TestLoadRejectsBrokenTree(t *testing.T) {
	if _, err := Load(filepath.Join(fixDir(t), "does-not-exist")); err == nil {
		t.Fatal("loading a missing directory must fail")
	}
}

func loadFlat(t *testing.T, anchors ...string) *Prog {
	t.Helper()
	dir := t.TempDir()
	file := filepath.Join(dir, "anchors.txt")
	if err := os.WriteFile(file, []byte(strings.Join(anchors, "\n")+"\n"), 0o644); err != nil {
		t.Fatal(err)
	}
	old := AnchorsFile
	AnchorsFile = file
	defer func() { AnchorsFile = old }()
	p, err := Load(fixDir(t))
	if err != nil {
		t.Fatal(err)
	}
	return p
}

func callsTo(fn *ssa.Function, name string) int {
	n := 0
	for _, b := range fn.Blocks {
		for _, in := range b.Instrs {
			if c, ok := in.(ssa.CallInstruction); ok {
				if g := c.Common().StaticCallee(); g != nil && g.Name() == name {
					n++
				}
			}
		}
	}
	return n
}

// Helpers that are not anchors are inlined, transitively; the re-tests of what
// they returned are threaded away and every path keeps its own return.
func TestFlattenInlinesAndThreads(t *testing.T) {
	p := loadFlat(t, "fix.FlatCaller")
	fn := p.Func("fix", "FlatCaller")
	if n := callsTo(fn, "decodePair") + callsTo(fn, "readTwo"); n != 0 {
		t.Fatalf("%d calls to helpers left in FlatCaller", n)
	}
	if err := fn.SanityCheck(); err != nil {
		t.Fatal(err)
	}
	// each error return carries exactly one sentinel, as in the un-refactored shape
	var got []string
	for _, r := range Returns(fn) {
		e := p.X(r.Results[1])
		if e.Op == "const" {
			continue
		}
		if len(e.Alts()) != 1 {
			t.Fatalf("a return of FlatCaller carries several alternatives: %s", e)
		}
		got = append(got, e.String())
	}
	if len(got) != 2 {
		t.Fatalf("want two error returns (ErrShort, ErrBad), got %v", got)
	}
	// no conditional re-tests a boolean or an error that inlining merged
	for _, b := range fn.Blocks {
		if iff, ok := b.Instrs[len(b.Instrs)-1].(*ssa.If); ok {
			if ph, ok := iff.Cond.(*ssa.Phi); ok {
				t.Fatalf("block %d still branches on a merged value %s", b.Index, ph)
			}
		}
	}
	if len(p.Flattened) == 0 {
		t.Fatal("nothing recorded as flattened")
	}
}

// With every function an anchor, flattening is the identity.
func TestFlattenIdentityOnAnchors(t *testing.T) {
	p := loadFlat(t, "fix.FlatCaller", "fix.decodePair", "fix.readTwo")
	fn := p.Func("fix", "FlatCaller")
	if callsTo(fn, "decodePair") != 1 {
		t.Fatal("an anchor was inlined")
	}
}

// A literal called through its (write-once) variable from a nested literal.
func TestFlattenClosureThroughVariable(t *testing.T) {
	p := loadFlat(t, "fix.FlatClosure", "fix.FlatClosure$")
	fn := p.Func("fix", "FlatClosure")
	for _, l := range Closures(fn) {
		for _, b := range l.Blocks {
			for _, in := range b.Instrs {
				if c, ok := in.(*ssa.Call); ok {
					if g, _ := ssa.StaticInlinee(c); g != nil && strings.HasSuffix(g.Name(), "$1") && g.Parent() == fn && len(g.Params) == 1 {
						t.Fatalf("call of the literal `add` left in %s", l)
					}
				}
			}
		}
		if err := l.SanityCheck(); err != nil {
			t.Fatal(err)
		}
	}
}

// A bound method value is seen through: its wrapper is among the closures and
// contains the method's body.
func TestFlattenMethodValue(t *testing.T) {
	p := loadFlat(t, "fix.FlatMethodValue")
	fn := p.Func("fix", "FlatMethodValue")
	found := false
	for _, l := range Closures(fn) {
		if strings.HasPrefix(l.Synthetic, "bound method wrapper") {
			for _, b := range l.Blocks {
				for _, in := range b.Instrs {
					if c, ok := in.(*ssa.Call); ok && strings.Contains(c.String(), "AddUint8") {
						found = true
					}
				}
			}
		}
	}
	if !found {
		t.Fatal("the bound method's body was not inlined into its wrapper")
	}
}

// A helper with one unconditional defer is inlined; the deferred call is made
// where the helper returns.
func TestFlattenLowersDefer(t *testing.T) {
	p := loadFlat(t, "fix.FlatDefer")
	fn := p.Func("fix", "FlatDefer")
	if callsTo(fn, "lockedGet") != 0 {
		t.Fatal("call to lockedGet left")
	}
	if err := fn.SanityCheck(); err != nil {
		t.Fatal(err)
	}
	var seq []string
	for _, b := range fn.Blocks {
		for _, in := range b.Instrs {
			switch x := in.(type) {
			case *ssa.Call:
				if c := x.Call.StaticCallee(); c != nil {
					seq = append(seq, c.Name())
				}
			case *ssa.Defer, *ssa.RunDefers:
				t.Fatalf("defer machinery left in FlatDefer: %s", in)
			}
		}
	}
	if strings.Join(seq, ",") != "Lock,Unlock" {
		t.Fatalf("calls in FlatDefer: %v, want Lock then Unlock", seq)
	}
}

// `go helper(args)` becomes a literal of the starting function that captures
// the variables the arguments came from.
func TestFlattenRehomesGo(t *testing.T) {
	p := loadFlat(t, "fix.FlatGo", "fix.FlatGo$")
	fn := p.Func("fix", "FlatGo")
	var lit *ssa.Function
	for _, b := range fn.Blocks {
		for _, in := range b.Instrs {
			if g, ok := in.(*ssa.Go); ok {
				mc, ok := g.Call.Value.(*ssa.MakeClosure)
				if !ok {
					t.Fatalf("go statement still calls %s", g.Call.Value)
				}
				lit = mc.Fn.(*ssa.Function)
			}
		}
	}
	if lit == nil {
		t.Fatal("no go statement")
	}
	if err := lit.SanityCheck(); err != nil {
		t.Fatal(err)
	}
	if err := fn.SanityCheck(); err != nil {
		t.Fatal(err)
	}
	// the channel closed by the goroutine is the variable the deferred literal receives from
	var closed, received *ssa.Alloc
	for _, l := range Closures(fn) {
		for _, b := range l.Blocks {
			for _, in := range b.Instrs {
				switch x := in.(type) {
				case *ssa.Defer:
					if bi, ok := x.Call.Value.(*ssa.Builtin); ok && bi.Name() == "close" && l == lit {
						v := x.Call.Args[0]
						if ct, ok := v.(*ssa.ChangeType); ok {
							v = ct.X
						}
						closed = p.CellRoot(v.(*ssa.UnOp).X)
					}
				case *ssa.UnOp:
					if x.Op == token.ARROW && l != lit {
						received = p.CellRoot(x.X.(*ssa.UnOp).X)
					}
				}
			}
		}
	}
	if closed == nil || closed != received {
		t.Fatalf("closed %v, received %v: not the same variable", closed, received)
	}
}

// The overlay rewrites a loop over strings.SplitSeq into the slice loop it
// stands for, on the same line, and leaves other range-over-func loops alone.
func TestSeqOverlay(t *testing.T) {
	dir := t.TempDir()
	src := "package x\n\nimport (\n\t\"iter\"\n\tstr \"strings\"\n)\n\nfunc F(s string, it iter.Seq[string]) int {\n\tn := 0\n\tfor part := range str.SplitSeq(s, \".\") {\n\t\tn += len(part)\n\t}\n\tfor v := range it {\n\t\tn += len(v)\n\t}\n\tfor i := range str.Split(s, \",\") {\n\t\tn += i\n\t}\n\treturn n\n}\n"
	file := filepath.Join(dir, "x.go")
	if err := os.WriteFile(file, []byte(src), 0o644); err != nil {
		t.Fatal(err)
	}
	ov := seqOverlay(dir)
	if len(ov) != 1 {
		t.Fatalf("want one rewritten file, got %d", len(ov))
	}
	for _, b := range ov {
		got := string(b)
		if !strings.Contains(got, "for _, part := range str.Split(s, \".\") {") {
			t.Fatalf("loop not rewritten:\n%s", got)
		}
		if !strings.Contains(got, "for v := range it {") || !strings.Contains(got, "for i := range str.Split(s, \",\") {") {
			t.Fatalf("other loops changed:\n%s", got)
		}
		if strings.Count(got, "\n") != strings.Count(src, "\n") {
			t.Fatal("line structure changed")
		}
	}
}

// A local struct used only field by field (after its methods were inlined and
// the goroutine it starts was rehomed) is split into one variable per field.
func TestFlattenSplitsStruct(t *testing.T) {
	p := loadFlat(t, "fix.FlatStruct", "fix.FlatStruct$")
	fn := p.Func("fix", "FlatStruct")
	var goLit *ssa.Function
	for _, l := range Closures(fn) {
		if err := l.SanityCheck(); err != nil {
			t.Fatal(err)
		}
		for _, b := range l.Blocks {
			for _, in := range b.Instrs {
				switch x := in.(type) {
				case *ssa.Alloc:
					if _, isStruct := x.Type().Underlying().(*types.Pointer).Elem().Underlying().(*types.Struct); isStruct {
						t.Errorf("%s still has the struct variable %s", l, x)
					}
				case *ssa.FieldAddr:
					t.Errorf("%s still selects a field: %s", l, x)
				case *ssa.Go:
					mc, ok := x.Call.Value.(*ssa.MakeClosure)
					if !ok {
						t.Fatalf("go statement still calls %s", x.Call.Value)
					}
					goLit = mc.Fn.(*ssa.Function)
				}
			}
		}
	}
	if goLit == nil {
		t.Fatal("no go statement")
	}
	// the channel the goroutine closes is the one the deferred literal receives from
	var closed, received *ssa.Alloc
	for _, l := range Closures(fn) {
		for _, b := range l.Blocks {
			for _, in := range b.Instrs {
				switch x := in.(type) {
				case *ssa.Defer:
					if bi, ok := x.Call.Value.(*ssa.Builtin); ok && bi.Name() == "close" && l == goLit {
						closed = p.CellRoot(x.Call.Args[0].(*ssa.UnOp).X)
					}
				case *ssa.UnOp:
					if x.Op == token.ARROW && l != goLit && l != fn {
						received = p.CellRoot(x.X.(*ssa.UnOp).X)
					}
				}
			}
		}
	}
	if closed == nil || closed != received {
		t.Errorf("closed %v, received from %v", closed, received)
	}
}

// A method of a local state struct called where the anchors name a local
// literal becomes that literal again, and the struct dissolves into the
// variables it captures.
func TestFlattenRehomesMethod(t *testing.T) {
	p := loadFlat(t, "fix.FlatMethod", "fix.FlatMethod$emit")
	fn := p.Func("fix", "FlatMethod")
	var lit *ssa.Function
	calls := 0
	for _, b := range fn.Blocks {
		for _, in := range b.Instrs {
			switch x := in.(type) {
			case *ssa.Call:
				if mc, ok := x.Call.Value.(*ssa.MakeClosure); ok {
					lit = mc.Fn.(*ssa.Function)
					calls++
					if len(x.Call.Args) != 1 {
						t.Errorf("call of the literal with %d arguments", len(x.Call.Args))
					}
				}
			case *ssa.Alloc:
				if _, isStruct := x.Type().Underlying().(*types.Pointer).Elem().Underlying().(*types.Struct); isStruct {
					t.Errorf("still has the struct variable %s", x)
				}
			}
		}
	}
	if lit == nil || calls != 2 {
		t.Fatalf("literal %v called %d times", lit, calls)
	}
	if got := p.AnchorName(lit); got != "fix.FlatMethod$emit" {
		t.Errorf("anchor name %q", got)
	}
	if err := lit.SanityCheck(); err != nil {
		t.Fatal(err)
	}
	if len(lit.Params) != 1 || len(lit.FreeVars) != 2 {
		t.Errorf("literal has %d parameters and %d captured variables", len(lit.Params), len(lit.FreeVars))
	}
}

// An anchor name the tree no longer has is answered by the one declared
// function of the package that has the recorded signature and is no anchor.
func TestRenamedAnchor(t *testing.T) {
	p := loadFlat(t, "fix.EnumerateOnce\t([]int,[]int,func(int) bool)()")
	fn := p.Func("fix", "EnumerateOnce")
	if fn == nil || fn.Name() != "FlatMethod" {
		t.Fatalf("EnumerateOnce resolved to %v", fn)
	}
	if got := p.AnchorName(fn); got != "fix.EnumerateOnce" {
		t.Errorf("anchor name %q", got)
	}
	if !p.IsAnchor(fn) {
		t.Error("the renamed function is not treated as an anchor")
	}
}
