package core

import (
	"path/filepath"
	"runtime"
	"strings"
	"testing"

	"verif/third_party/xtools/go/ssa"
)

func fixDir(t *testing.T) string {
	_, file, _, _ := runtime.Caller(0)
	return filepath.Join(filepath.Dir(file), "..", "testdata", "fix")
}

func loadFix(t *testing.T) *Prog {
	t.Helper()
	p, err := Load(fixDir(t))
	if err != nil {
		t.Fatal(err)
	}
	return p
}

func lastReturn(fn *ssa.Function) *ssa.Return {
	rs := Returns(fn)
	return rs[len(rs)-1]
}

func TestGuardsDisjunction(t *testing.T) {
	p := loadFix(t)
	fn := p.Func("fix", "OrGuard")
	var cont *ssa.BasicBlock
	for _, r := range Returns(fn) {
		if _, ok := r.Results[0].(*ssa.Const); !ok {
			cont = r.Block()
		}
	}
	fs := FactStrings(p.Facts(cont))
	if !strings.Contains(fs, "¬p0") || !strings.Contains(fs, "¬p1") {
		t.Fatalf("continuation of `if a || b {return}` should be guarded by ¬a and ¬b, got %q", fs)
	}
}

func TestGuardsPhiConjunction(t *testing.T) {
	p := loadFix(t)
	fn := p.Func("fix", "AndValue")
	for _, r := range Returns(fn) {
		if c, ok := r.Results[0].(*ssa.Const); ok && c.Int64() == 1 {
			fs := FactStrings(p.Facts(r.Block()))
			if !strings.Contains(fs, "p0") || !strings.Contains(fs, "p1") || strings.Contains(fs, "¬p1") {
				t.Fatalf("`ok := a && b; if ok` should expand to a and b, got %q", fs)
			}
			return
		}
	}
	t.Fatal("return 1 not found")
}

func TestPrunedCFG(t *testing.T) {
	p := loadFix(t)
	fn := p.Func("fix", "Retry")
	prm := fn.Params[0]
	cfg := Prune(fn, func(from *ssa.BasicBlock, succ int) bool {
		iff, ok := from.Instrs[len(from.Instrs)-1].(*ssa.If)
		if !ok || iff.Cond != ssa.Value(prm) {
			return true
		}
		return succ == 0 // isRetry is true
	})
	for _, r := range Returns(fn) {
		if c, ok := r.Results[1].(*ssa.Const); ok && c.Value == nil {
			found := false
			for _, g := range cfg.Guards(r.Block()) {
				if s := p.GuardString(g); strings.Contains(s, "p1 == 0") && !g.Pol {
					found = true
				}
			}
			if !found {
				t.Fatalf("with isRetry assumed, success must be guarded by n != 0")
			}
		}
	}
}

func TestTermsIgnoreLocalNames(t *testing.T) {
	p := loadFix(t)
	a, b := p.Func("fix", "TermsA"), p.Func("fix", "TermsB")
	ra, rb := Returns(a), Returns(b)
	if len(ra) != len(rb) {
		t.Fatal("different number of returns")
	}
	for i := range ra {
		sa, sb := p.X(ra[i].Results[0]).String(), p.X(rb[i].Results[0]).String()
		if sa != sb {
			t.Errorf("return %d: %q vs %q", i, sa, sb)
		}
		fa, fb := FactStrings(p.Facts(ra[i].Block())), FactStrings(p.Facts(rb[i].Block()))
		if fa != fb {
			t.Errorf("guards %d: %q vs %q", i, fa, fb)
		}
	}
}

func TestLoadRejectsBrokenTree(t *testing.T) {
	if _, err := Load(filepath.Join(fixDir(t), "does-not-exist")); err == nil {
		t.Fatal("loading a missing directory must fail")
	}
}
