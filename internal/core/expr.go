package core

import (
	"fmt"
	"go/constant"
	"go/token"
	"go/types"
	"sort"
	"strings"

	"verif/third_party/xtools/go/ssa"
)

// Expr is a canonical, name-independent description of how an SSA value is
// computed: a DAG over parameters, constants, globals, fields, calls and
// operators. Local variables (Alloc cells, also when captured by closures)
// are resolved to the values stored into them, so renaming a local or
// introducing a temporary does not change the description.
type Expr struct {
	Op   string  // see below
	Name string  // field / callee / global / const literal / operator / type
	Args []*Expr // operands
	Val  ssa.Value
	Obj  types.Object // field var, global, called function
	Fn   *ssa.Function
	Idx  int // for "out": which argument of the call received the local's address (0 = receiver)
}

// Ops:
//   const   Name=literal
//   param   Name="p<i>" (receiver is p0 for methods)
//   global  Name=pkg.Name            (address or loaded value alike)
//   field   Name=field, Args[0]=base (address or loaded value alike)
//   index   Args[0]=base Args[1]=index
//   slice   Args[0]=base, then low/high/max ("_" const for absent)
//   bin     Name=op Args[0],Args[1]
//   un      Name=op Args[0]            (! - ^ <-)
//   deref   Args[0]                    (load through a non-cell pointer)
//   call    Name=callee Args=args      (receiver first)
//   ext     Name="#i" Args[0]=tuple
//   phi     Args=alternatives (sorted, deduplicated)
//   cell    Args=values that may be stored in the local (plus "zero")
//   out     Name=callee, Args[0]=call   (value written by a callee through &local)
//   conv    Name=type Args[0]
//   assert  Name=type Args[0]
//   new     Name=type                   (fresh allocation: &T{}, make, new)
//   closure Name=function
//   func    Name=function
//   lookup  Args[0]=map Args[1]=key
//   range   Args[0]                     (iteration over map/string/func)
//   rec     back reference inside a cyclic definition (loop φ)
//   opaque  anything else

const maxDepth = 40

// X returns the expression of v.
func (p *Prog) X(v ssa.Value) *Expr {
	return p.expr(v, map[ssa.Value]bool{}, 0)
}

func (p *Prog) expr(v ssa.Value, onPath map[ssa.Value]bool, depth int) *Expr {
	if v == nil {
		return &Expr{Op: "const", Name: "_"}
	}
	if onPath[v] {
		return &Expr{Op: "rec", Val: v}
	}
	if depth > maxDepth {
		return &Expr{Op: "opaque", Name: "…", Val: v}
	}
	onPath[v] = true
	defer delete(onPath, v)
	sub := func(x ssa.Value) *Expr { return p.expr(x, onPath, depth+1) }

	switch v := v.(type) {
	case *ssa.Const:
		return &Expr{Op: "const", Name: constString(v), Val: v}
	case *ssa.Parameter:
		for i, q := range v.Parent().Params {
			if q == v {
				if v.Parent().Parent() != nil {
					// parameter of a function literal: keep it apart from the
					// enclosing function's parameters, which literals also see
					depth := 0
					for f := v.Parent(); f.Parent() != nil; f = f.Parent() {
						depth++
					}
					return &Expr{Op: "param", Name: strings.Repeat("c", depth) + fmt.Sprint(i), Val: v}
				}
				return &Expr{Op: "param", Name: fmt.Sprintf("p%d", i), Val: v}
			}
		}
		return &Expr{Op: "param", Name: "p?", Val: v}
	case *ssa.FreeVar:
		if bound := p.binding(v); bound != nil {
			return sub(bound)
		}
		return &Expr{Op: "opaque", Name: "freevar", Val: v}
	case *ssa.Global:
		gname := v.Name()
		if o := v.Object(); o != nil {
			gname = p.VarName(o)
		}
		return &Expr{Op: "global", Name: p.shorten(v.Pkg.Pkg.Path()) + "." + gname, Val: v, Obj: v.Object()}
	case *ssa.Function:
		return &Expr{Op: "func", Name: p.FuncName(v), Val: v, Fn: v}
	case *ssa.Builtin:
		return &Expr{Op: "func", Name: v.Name(), Val: v}
	case *ssa.MakeClosure:
		fn, _ := v.Fn.(*ssa.Function)
		return &Expr{Op: "closure", Name: p.FuncName(fn), Val: v, Fn: fn}
	case *ssa.Alloc:
		return &Expr{Op: "new", Name: p.shorten(types.TypeString(deref(v.Type()), nil)), Val: v}
	case *ssa.MakeSlice:
		return &Expr{Op: "new", Name: p.shorten(types.TypeString(v.Type(), nil)), Val: v, Args: []*Expr{sub(v.Len)}}
	case *ssa.MakeMap:
		return &Expr{Op: "new", Name: p.shorten(types.TypeString(v.Type(), nil)), Val: v}
	case *ssa.MakeChan:
		return &Expr{Op: "new", Name: p.shorten(types.TypeString(v.Type(), nil)), Val: v}
	case *ssa.FieldAddr:
		fld := fieldOf(v.X.Type(), v.Field)
		return &Expr{Op: "field", Name: p.FieldName(fld), Args: []*Expr{p.baseOf(v.X, v, onPath, depth)}, Val: v, Obj: fld}
	case *ssa.Field:
		// a field of a struct value that was put together by a literal (possibly
		// one of several, merged by a φ - `ep := splitEndpoint(..)` after
		// inlining) is what the literal put there
		if alts := structFieldValues(v.X, v.Field, 0); alts != nil {
			if len(alts) == 1 {
				return sub(alts[0])
			}
			e := &Expr{Op: "phi", Val: v}
			for _, a := range alts {
				e.Args = append(e.Args, sub(a))
			}
			e.Args = dedupe(e.Args)
			if len(e.Args) == 1 {
				return e.Args[0]
			}
			return e
		}
		fld := fieldOf(v.X.Type(), v.Field)
		return &Expr{Op: "field", Name: p.FieldName(fld), Args: []*Expr{sub(v.X)}, Val: v, Obj: fld}
	case *ssa.IndexAddr:
		return &Expr{Op: "index", Args: []*Expr{p.baseOf(v.X, v, onPath, depth), sub(v.Index)}, Val: v}
	case *ssa.Index:
		// an element of a local array literal of constants: the constant, or
		// the alternatives in array order when the index varies
		if ld, ok := v.X.(*ssa.UnOp); ok && ld.Op == token.MUL {
			var elems []ssa.Value
			if g, ok := ld.X.(*ssa.Global); ok {
				elems = p.globalTable(g)
			}
			if elems != nil {
				if c, ok := v.Index.(*ssa.Const); ok && c.Value != nil {
					if k, ok := constant.Int64Val(c.Value); ok && k >= 0 && int(k) < len(elems) {
						return sub(elems[k])
					}
				}
				e := &Expr{Op: "phi", Name: "table", Val: v}
				for _, el := range elems {
					e.Args = append(e.Args, sub(el))
				}
				return e
			}
			if al, ok := ld.X.(*ssa.Alloc); ok {
				if elems := constTable(al, ld); elems != nil {
					if c, ok := v.Index.(*ssa.Const); ok && c.Value != nil {
						if k, ok := constant.Int64Val(c.Value); ok && k >= 0 && int(k) < len(elems) {
							return sub(elems[k])
						}
					}
					e := &Expr{Op: "phi", Name: "table", Val: v}
					for _, el := range elems {
						e.Args = append(e.Args, sub(el))
					}
					return e
				}
			}
		}
		return &Expr{Op: "index", Args: []*Expr{sub(v.X), sub(v.Index)}, Val: v}
	case *ssa.Lookup:
		return &Expr{Op: "lookup", Args: []*Expr{sub(v.X), sub(v.Index)}, Val: v}
	case *ssa.Slice:
		return &Expr{Op: "slice", Args: []*Expr{p.baseOf(v.X, v, onPath, depth), sub(v.Low), sub(v.High), sub(v.Max)}, Val: v}
	case *ssa.BinOp:
		return &Expr{Op: "bin", Name: v.Op.String(), Args: []*Expr{sub(v.X), sub(v.Y)}, Val: v}
	case *ssa.UnOp:
		switch v.Op {
		case token.MUL:
			return p.load(v, onPath, depth)
		default:
			return &Expr{Op: "un", Name: v.Op.String(), Args: []*Expr{sub(v.X)}, Val: v}
		}
	case *ssa.Call:
		return p.callExpr(v, &v.Call, onPath, depth)
	case *ssa.Extract:
		t := sub(v.Tuple)
		return &Expr{Op: "ext", Name: fmt.Sprintf("#%d", v.Index), Args: []*Expr{t}, Val: v}
	case *ssa.Phi:
		var alts []*Expr
		for _, e := range v.Edges {
			alts = append(alts, sub(e))
		}
		return &Expr{Op: "phi", Args: dedupe(alts), Val: v}
	case *ssa.ChangeType:
		return sub(v.X)
	case *ssa.ChangeInterface:
		return sub(v.X)
	case *ssa.MakeInterface:
		return sub(v.X)
	case *ssa.SliceToArrayPointer:
		return sub(v.X)
	case *ssa.Convert:
		return &Expr{Op: "conv", Name: p.shorten(types.TypeString(v.Type(), nil)), Args: []*Expr{sub(v.X)}, Val: v}
	case *ssa.MultiConvert:
		return &Expr{Op: "conv", Name: p.shorten(types.TypeString(v.Type(), nil)), Args: []*Expr{sub(v.X)}, Val: v}
	case *ssa.TypeAssert:
		return &Expr{Op: "assert", Name: p.shorten(types.TypeString(v.AssertedType, nil)), Args: []*Expr{sub(v.X)}, Val: v}
	case *ssa.Range:
		return &Expr{Op: "range", Args: []*Expr{sub(v.X)}, Val: v}
	case *ssa.Next:
		return &Expr{Op: "range", Args: []*Expr{sub(v.Iter)}, Val: v}
	case *ssa.Select:
		return &Expr{Op: "opaque", Name: "select", Val: v}
	}
	return &Expr{Op: "opaque", Name: fmt.Sprintf("%T", v), Val: v}
}

// baseOf renders the base of an address computation: a local cell is
// replaced by what it holds (so &x.f and x.f look alike), anything else is
// rendered as is.
func (p *Prog) baseOf(x ssa.Value, at ssa.Instruction, onPath map[ssa.Value]bool, depth int) *Expr {
	if root := p.cellRoot(x); root != nil && at != nil && p.cell(root).whole {
		return p.cellValue(root, at, nil, onPath, depth)
	}
	return p.expr(x, onPath, depth+1)
}

func (p *Prog) callExpr(v ssa.Value, c *ssa.CallCommon, onPath map[ssa.Value]bool, depth int) *Expr {
	sub := func(x ssa.Value) *Expr { return p.expr(x, onPath, depth+1) }
	e := &Expr{Op: "call", Val: v}
	if c.IsInvoke() {
		e.Name = "(" + p.shorten(types.TypeString(c.Value.Type(), nil)) + ")." + c.Method.Name()
		e.Obj = c.Method
		e.Args = append(e.Args, sub(c.Value))
	} else {
		switch f := c.Value.(type) {
		case *ssa.Function:
			e.Name, e.Fn, e.Obj = p.FuncName(f), f, f.Object()
		case *ssa.Builtin:
			e.Name = f.Name()
		case *ssa.MakeClosure:
			fn, _ := f.Fn.(*ssa.Function)
			e.Name, e.Fn = p.FuncName(fn), fn
		default:
			if fn := p.ResolveFuncValue(c.Value); fn != nil {
				e.Name, e.Fn = p.FuncName(fn), fn
			} else {
				e.Name = "dyn"
				e.Args = append(e.Args, sub(c.Value))
			}
		}
	}
	for _, a := range c.Args {
		e.Args = append(e.Args, sub(a))
	}
	return e
}

// ResolveFuncValue resolves a called function value that is a load of a
// local cell holding exactly one function literal or function.
func (p *Prog) ResolveFuncValue(v ssa.Value) *ssa.Function {
	return p.resolveFuncValue(v, map[ssa.Value]bool{})
}

func (p *Prog) resolveFuncValue(v ssa.Value, busy map[ssa.Value]bool) *ssa.Function {
	if busy[v] {
		// a variable defined in terms of itself (a := f(a) after inlining, a loop)
		return nil
	}
	busy[v] = true
	defer delete(busy, v)
	switch v := v.(type) {
	case *ssa.Function:
		return v
	case *ssa.MakeClosure:
		fn, _ := v.Fn.(*ssa.Function)
		return fn
	case *ssa.ChangeType:
		return p.resolveFuncValue(v.X, busy)
	case *ssa.UnOp:
		if v.Op != token.MUL {
			return nil
		}
		root := p.cellRoot(v.X)
		if root == nil {
			return nil
		}
		var found *ssa.Function
		for _, d := range p.cell(root).defs {
			if d.store == nil {
				return nil
			}
			f := p.resolveFuncValue(d.store.Val, busy)
			if f == nil || (found != nil && found != f) {
				return nil
			}
			found = f
		}
		return found
	}
	return nil
}

func (p *Prog) binding(fv *ssa.FreeVar) ssa.Value {
	fn := fv.Parent()
	mc := p.parents[fn]
	if mc == nil {
		return nil
	}
	for i, f := range fn.FreeVars {
		if f == fv && i < len(mc.Bindings) {
			return mc.Bindings[i]
		}
	}
	return nil
}

// cellRoot returns the Alloc that addr designates when addr is a local
// variable cell (directly or as a captured free variable), else nil.
func (p *Prog) cellRoot(addr ssa.Value) *ssa.Alloc {
	for i := 0; i < 8; i++ {
		switch a := addr.(type) {
		case *ssa.Alloc:
			return a
		case *ssa.FreeVar:
			addr = p.binding(a)
			if addr == nil {
				return nil
			}
		default:
			return nil
		}
	}
	return nil
}

type cellDef struct {
	store *ssa.Store          // a store of a value, or
	call  ssa.CallInstruction // a call that receives the cell's address
	fn    *ssa.Function
}

type cellInfo struct {
	alloc       *ssa.Alloc
	defs        []cellDef
	foreignDefs bool // some definition happens outside the owning function
	whole       bool // the whole value is stored at least once (a variable, not just an object built field by field)
	escapes     bool // address used in a way we do not track
}

func (p *Prog) cell(a *ssa.Alloc) *cellInfo {
	if ci := p.cells[a]; ci != nil {
		return ci
	}
	ci := &cellInfo{alloc: a}
	p.cells[a] = ci
	owner := a.Parent()
	for _, fn := range Closures(owner) {
		for _, b := range fn.Blocks {
			for _, in := range b.Instrs {
				switch in := in.(type) {
				case *ssa.Store:
					if p.cellRoot(in.Addr) == a {
						ci.whole = true
						ci.defs = append(ci.defs, cellDef{store: in, fn: fn})
						if fn != owner {
							ci.foreignDefs = true
						}
					} else if p.cellRoot(in.Val) == a {
						ci.escapes = true
					}
				case ssa.CallInstruction:
					c := in.Common()
					for _, arg := range c.Args {
						if p.cellRoot(arg) == a {
							ci.defs = append(ci.defs, cellDef{call: in, fn: fn})
							if fn != owner {
								ci.foreignDefs = true
							}
						}
					}
				}
			}
		}
	}
	return ci
}

// IsCellLoad reports whether v is a load of a local variable cell.
func (p *Prog) IsCellLoad(v ssa.Value) (*ssa.Alloc, bool) {
	u, ok := v.(*ssa.UnOp)
	if !ok || u.Op != token.MUL {
		return nil, false
	}
	a := p.cellRoot(u.X)
	return a, a != nil
}

// CellDefs returns the stores and address-taking calls that may define the
// local cell a (in its function and the literals nested in it).
func (p *Prog) CellDefs(a *ssa.Alloc) (stores []*ssa.Store, calls []ssa.CallInstruction) {
	for _, d := range p.cell(a).defs {
		if d.store != nil {
			stores = append(stores, d.store)
		} else {
			calls = append(calls, d.call)
		}
	}
	return
}

func (p *Prog) load(u *ssa.UnOp, onPath map[ssa.Value]bool, depth int) *Expr {
	root := p.cellRoot(u.X)
	if ia, ok := u.X.(*ssa.IndexAddr); ok && root == nil {
		// an element of a package-level array that is filled once, with
		// constants, by the package initialiser and never written again
		if g, ok := ia.X.(*ssa.Global); ok {
			if elems := p.globalTable(g); elems != nil {
				if c, ok := ia.Index.(*ssa.Const); ok && c.Value != nil {
					if k, ok := constant.Int64Val(c.Value); ok && k >= 0 && int(k) < len(elems) {
						return p.expr(elems[k], onPath, depth+1)
					}
				}
				e := &Expr{Op: "phi", Name: "table", Val: u}
				for _, el := range elems {
					e.Args = append(e.Args, p.expr(el, onPath, depth+1))
				}
				return e
			}
		}
	}
	if fa, ok := u.X.(*ssa.FieldAddr); ok && root == nil {
		// a field of a local struct variable that only receives literal values;
		// read where it is declared, or in a literal that captures it (then what
		// it held when the literal was created)
		al, _ := fa.X.(*ssa.Alloc)
		var at ssa.Instruction = u
		if fv, isFV := fa.X.(*ssa.FreeVar); isFV {
			if r2 := p.cellRoot(fv); r2 != nil {
				mc := p.parents[u.Parent()]
				for mc != nil && mc.Parent() != r2.Parent() {
					mc = p.parents[mc.Parent()]
				}
				if mc != nil {
					al, at = r2, mc
				}
			}
		}
		if al != nil {
			if _, isStruct := al.Type().Underlying().(*types.Pointer).Elem().Underlying().(*types.Struct); isStruct {
				if alts := structFieldOfLocal(al, fa.Field, at, 0); alts != nil {
					e := &Expr{Op: "phi", Val: u}
					for _, a := range alts {
						e.Args = append(e.Args, p.expr(a, onPath, depth+1))
					}
					e.Args = dedupe(e.Args)
					if len(e.Args) == 1 {
						return e.Args[0]
					}
					return e
				}
			}
		}
	}
	if ia, ok := u.X.(*ssa.IndexAddr); ok && root == nil {
		// an element of a local slice literal of constants ([]T{a, b, c},
		// typically ranged over): the constant, or the alternatives in order
		if elems := sliceLitTable(ia.X); elems != nil {
			if c, ok := ia.Index.(*ssa.Const); ok && c.Value != nil {
				if k, ok := constant.Int64Val(c.Value); ok && k >= 0 && int(k) < len(elems) {
					return p.expr(elems[k], onPath, depth+1)
				}
			}
			e := &Expr{Op: "phi", Name: "table", Val: u}
			for _, el := range elems {
				e.Args = append(e.Args, p.expr(el, onPath, depth+1))
			}
			return e
		}
	}
	if root == nil {
		inner := p.expr(u.X, onPath, depth+1)
		switch inner.Op {
		case "field", "index", "global":
			// a load through a field/element/global address reads that place
			cp := *inner
			cp.Val = u
			return &cp
		}
		return &Expr{Op: "deref", Args: []*Expr{inner}, Val: u}
	}
	// a struct variable written field by field and read whole: the value is made
	// of those fields (not the zero value no whole store has replaced)
	if _, isStruct := root.Type().Underlying().(*types.Pointer).Elem().Underlying().(*types.Struct); isStruct && root == u.X {
		for _, ref := range *root.Referrers() {
			if fa, ok := ref.(*ssa.FieldAddr); ok {
				for _, r2 := range *fa.Referrers() {
					if st, ok := r2.(*ssa.Store); ok && st.Addr == ssa.Value(fa) {
						return &Expr{Op: "new", Name: p.shorten(types.TypeString(deref(root.Type()), nil)), Val: u, Args: []*Expr{{Op: "const", Name: "value"}}}
					}
				}
			}
		}
	}
	return p.cellValue(root, u, u, onPath, depth)
}

// cellValue renders what local cell root may hold when instruction at runs.
func (p *Prog) cellValue(root *ssa.Alloc, at ssa.Instruction, val ssa.Value, onPath map[ssa.Value]bool, depth int) *Expr {
	defs, zero := p.reachingDefs(at, root)
	var alts []*Expr
	for _, d := range defs {
		if d.store != nil {
			alts = append(alts, p.expr(d.store.Val, onPath, depth+1))
		} else {
			cv, _ := d.call.(ssa.Value)
			ce := p.callExpr(cv, d.call.Common(), onPath, depth+1)
			idx := -1
			for i, a := range d.call.Common().Args {
				if p.cellRoot(a) == root {
					idx = i
					break
				}
			}
			alts = append(alts, &Expr{Op: "out", Name: ce.Name, Args: []*Expr{ce}, Val: cv, Fn: ce.Fn, Idx: idx})
		}
	}
	if zero {
		alts = append(alts, &Expr{Op: "const", Name: "zero"})
	}
	alts = dedupe(alts)
	if len(alts) == 1 {
		return alts[0]
	}
	return &Expr{Op: "cell", Args: alts, Val: val}
}

// reachingDefs computes which definitions of cell root may be observed by
// the load. It is flow-sensitive when every definition lives in the owning
// function; otherwise every definition (and the zero value) may reach.
func (p *Prog) reachingDefs(load ssa.Instruction, root *ssa.Alloc) (defs []cellDef, zero bool) {
	ci := p.cell(root)
	owner := root.Parent()
	if ci.foreignDefs {
		return ci.defs, true
	}
	isDef := map[ssa.Instruction]cellDef{}
	for _, d := range ci.defs {
		if d.store != nil {
			isDef[d.store] = d
		} else {
			isDef[d.call] = d
		}
	}
	var start ssa.Instruction = load
	forward := false
	if load.Parent() != owner {
		// a load inside a literal: what reaches the literal's creation, plus
		// anything the owner may store afterwards.
		// (the chain of creating instructions is followed, not the syntactic
		// nesting: a literal of an inlined helper is created in the function the
		// helper was inlined into)
		mc := p.parents[load.Parent()]
		for d := 0; mc != nil && mc.Parent() != owner && d < 8; d++ {
			mc = p.parents[mc.Parent()]
		}
		if mc == nil || mc.Parent() != owner {
			return ci.defs, true
		}
		start, forward = mc, true
	}
	seenDef := map[ssa.Instruction]bool{}
	add := func(d cellDef) {
		var k ssa.Instruction = d.call
		if d.store != nil {
			k = d.store
		}
		if !seenDef[k] {
			seenDef[k] = true
			defs = append(defs, d)
		}
	}
	visited := map[*ssa.BasicBlock]bool{}
	var back func(b *ssa.BasicBlock, from int)
	back = func(b *ssa.BasicBlock, from int) {
		for i := from; i >= 0; i-- {
			in := b.Instrs[i]
			if in == root {
				zero = true
				return
			}
			if d, ok := isDef[in]; ok {
				add(d)
				if d.store != nil {
					return // a store kills earlier definitions
				}
			}
		}
		if len(b.Preds) == 0 {
			zero = true
			return
		}
		for _, pr := range b.Preds {
			if !visited[pr] {
				visited[pr] = true
				back(pr, len(pr.Instrs)-1)
			}
		}
	}
	sb := start.Block()
	back(sb, InstrIndex(start)-1)
	if forward {
		idx := InstrIndex(start)
		for i := idx + 1; i < len(sb.Instrs); i++ {
			if d, ok := isDef[sb.Instrs[i]]; ok {
				add(d)
			}
		}
		for b := range Reachable(sb, nil) {
			if b == sb && !CanReach(sb, sb) {
				continue
			}
			for _, in := range b.Instrs {
				if d, ok := isDef[in]; ok {
					add(d)
				}
			}
		}
	}
	return defs, zero
}

func dedupe(xs []*Expr) []*Expr {
	seen := map[string]bool{}
	var out []*Expr
	for _, x := range xs {
		if x.Op == "phi" || x.Op == "cell" {
			for _, y := range x.Args {
				if s := y.String(); !seen[s] {
					seen[s] = true
					out = append(out, y)
				}
			}
			continue
		}
		if s := x.String(); !seen[s] {
			seen[s] = true
			out = append(out, x)
		}
	}
	sort.SliceStable(out, func(i, j int) bool { return out[i].String() < out[j].String() })
	return out
}

func (e *Expr) String() string {
	var b strings.Builder
	e.write(&b)
	return b.String()
}

func (e *Expr) write(b *strings.Builder) {
	list := func(xs []*Expr, sep string) {
		for i, x := range xs {
			if i > 0 {
				b.WriteString(sep)
			}
			x.write(b)
		}
	}
	switch e.Op {
	case "const", "param", "global":
		b.WriteString(e.Name)
	case "field":
		e.Args[0].write(b)
		b.WriteString("." + e.Name)
	case "index":
		e.Args[0].write(b)
		b.WriteString("[")
		e.Args[1].write(b)
		b.WriteString("]")
	case "lookup":
		e.Args[0].write(b)
		b.WriteString("{")
		e.Args[1].write(b)
		b.WriteString("}")
	case "slice":
		e.Args[0].write(b)
		b.WriteString("[")
		list(e.Args[1:], ":")
		b.WriteString("]")
	case "bin":
		b.WriteString("(")
		e.Args[0].write(b)
		b.WriteString(" " + e.Name + " ")
		e.Args[1].write(b)
		b.WriteString(")")
	case "un":
		b.WriteString(e.Name)
		e.Args[0].write(b)
	case "deref":
		b.WriteString("*")
		e.Args[0].write(b)
	case "call":
		b.WriteString(e.Name + "(")
		list(e.Args, ", ")
		b.WriteString(")")
	case "ext":
		e.Args[0].write(b)
		b.WriteString(e.Name)
	case "phi":
		b.WriteString("φ")
		if ph, ok := e.Val.(*ssa.Phi); ok && ph.Block() != nil {
			fmt.Fprintf(b, "%d", ph.Block().Index)
		}
		b.WriteString("{")
		list(e.Args, " | ")
		b.WriteString("}")
	case "cell":
		b.WriteString("var{")
		list(e.Args, " | ")
		b.WriteString("}")
	case "out":
		fmt.Fprintf(b, "out%d:", e.Idx)
		e.Args[0].write(b)
	case "conv":
		b.WriteString(e.Name + "(")
		e.Args[0].write(b)
		b.WriteString(")")
	case "assert":
		e.Args[0].write(b)
		b.WriteString(".(" + e.Name + ")")
	case "new":
		b.WriteString("new<" + e.Name + ">")
	case "closure":
		b.WriteString("closure<" + e.Name + ">")
	case "func":
		b.WriteString(e.Name)
	case "range":
		b.WriteString("range(")
		e.Args[0].write(b)
		b.WriteString(")")
	case "rec":
		b.WriteString("↺")
	default:
		b.WriteString("?" + e.Name)
	}
}

// Walk visits e and all sub-expressions (pre-order); f returning false prunes.
func (e *Expr) Walk(f func(*Expr) bool) {
	if e == nil || !f(e) {
		return
	}
	for _, a := range e.Args {
		a.Walk(f)
	}
}

// Any reports whether some sub-expression satisfies f.
func (e *Expr) Any(f func(*Expr) bool) bool {
	found := false
	e.Walk(func(x *Expr) bool {
		if found {
			return false
		}
		if f(x) {
			found = true
			return false
		}
		return true
	})
	return found
}

// Leaves returns the sub-expressions without operands.
func (e *Expr) Leaves() []*Expr {
	var out []*Expr
	e.Walk(func(x *Expr) bool {
		if len(x.Args) == 0 {
			out = append(out, x)
		}
		return true
	})
	return out
}

// Mentions reports whether the rendering of some sub-expression equals s.
func (e *Expr) Mentions(s string) bool {
	return e.Any(func(x *Expr) bool { return x.String() == s })
}

// Alts returns the alternatives of a φ/cell expression, or e itself.
func (e *Expr) Alts() []*Expr {
	if e.Op == "phi" || e.Op == "cell" {
		return e.Args
	}
	return []*Expr{e}
}

func constString(c *ssa.Const) string {
	if c.Value == nil {
		if _, ok := c.Type().Underlying().(*types.Basic); ok {
			return "nil"
		}
		switch c.Type().Underlying().(type) {
		case *types.Struct, *types.Array:
			return "zero"
		}
		return "nil"
	}
	switch c.Value.Kind() {
	case constant.String:
		return fmt.Sprintf("%q", constant.StringVal(c.Value))
	case constant.Bool:
		if constant.BoolVal(c.Value) {
			return "true"
		}
		return "false"
	}
	return c.Value.ExactString()
}

func deref(t types.Type) types.Type {
	if p, ok := t.Underlying().(*types.Pointer); ok {
		return p.Elem()
	}
	return t
}

func fieldOf(t types.Type, i int) *types.Var {
	t = deref(t)
	st, ok := t.Underlying().(*types.Struct)
	if !ok || i >= st.NumFields() {
		return types.NewVar(0, nil, fmt.Sprintf("f%d", i), types.Typ[types.Invalid])
	}
	return st.Field(i)
}

// ConstInt returns the integer value of a constant expression.
func (e *Expr) ConstInt() (int64, bool) {
	if e.Op != "const" {
		return 0, false
	}
	c, ok := e.Val.(*ssa.Const)
	if !ok || c.Value == nil || c.Value.Kind() != constant.Int {
		return 0, false
	}
	return c.Int64(), true
}

// CallExpr renders a call instruction that is not a value (go, defer).
func (p *Prog) CallExpr(ci ssa.CallInstruction) *Expr {
	v, _ := ci.(ssa.Value)
	return p.callExpr(v, ci.Common(), map[ssa.Value]bool{}, 0)
}

// Select returns the select instruction and case index when e is the
// "index" result (#0) of a select, as used in the dispatch comparisons that
// go/ssa emits after it.
func (e *Expr) Select() (*ssa.Select, bool) {
	ex, ok := e.Val.(*ssa.Extract)
	if !ok || ex.Index != 0 {
		return nil, false
	}
	s, ok := ex.Tuple.(*ssa.Select)
	return s, ok
}

// CellRoot is the exported form of cellRoot.
func (p *Prog) CellRoot(addr ssa.Value) *ssa.Alloc { return p.cellRoot(addr) }

// ReachingStores returns the values that the stores reaching a load of a
// local cell have stored; complete is false when the zero value or a write
// through a call may be observed as well.
func (p *Prog) ReachingStores(load *ssa.UnOp) (vals []ssa.Value, complete bool) {
	root := p.cellRoot(load.X)
	if root == nil {
		return nil, false
	}
	defs, zero := p.reachingDefs(load, root)
	complete = !zero
	for _, d := range defs {
		if d.store != nil {
			vals = append(vals, d.store.Val)
		} else {
			complete = false
		}
	}
	return vals, complete
}

// ClosureOf returns the MakeClosure that creates function literal fn.
func (p *Prog) ClosureOf(fn *ssa.Function) *ssa.MakeClosure { return p.parents[fn] }

// constTable: al is a local array filled, before the load ld of the whole
// array, by exactly one store of a constant per element through constant
// indexes, and used for nothing else. It returns the element values in order.
func constTable(al *ssa.Alloc, ld *ssa.UnOp) []ssa.Value {
	at, ok := al.Type().Underlying().(*types.Pointer).Elem().Underlying().(*types.Array)
	if !ok || at.Len() == 0 || at.Len() > 64 {
		return nil
	}
	elems := make([]ssa.Value, at.Len())
	for _, ref := range *al.Referrers() {
		switch r := ref.(type) {
		case *ssa.IndexAddr:
			c, ok := r.Index.(*ssa.Const)
			if !ok || c.Value == nil {
				return nil
			}
			k, ok := constant.Int64Val(c.Value)
			if !ok || k < 0 || k >= at.Len() || len(*r.Referrers()) != 1 {
				return nil
			}
			st, ok := (*r.Referrers())[0].(*ssa.Store)
			if !ok || st.Addr != ssa.Value(r) || elems[k] != nil || st.Block() != ld.Block() {
				return nil
			}
			if _, isConst := st.Val.(*ssa.Const); !isConst {
				return nil
			}
			// the store precedes the load
			before := false
			for _, in := range ld.Block().Instrs {
				if in == ssa.Instruction(st) {
					before = true
				}
				if in == ssa.Instruction(ld) {
					break
				}
			}
			if !before {
				return nil
			}
			elems[k] = st.Val
		case *ssa.UnOp:
			if r != ld {
				return nil
			}
		default:
			return nil
		}
	}
	for _, e := range elems {
		if e == nil {
			return nil
		}
	}
	return elems
}

// structFieldValues: the values field f of struct value x can hold when x is
// the value of composite literals (a load of a local that is filled field by
// field in its own block and otherwise only read), possibly several merged by
// φ-nodes. nil when x is anything else. A field the literal does not mention is
// reported as nil too (the zero value is not modelled here).
func structFieldValues(x ssa.Value, f int, depth int) []ssa.Value {
	if depth > 4 {
		return nil
	}
	switch v := x.(type) {
	case *ssa.Phi:
		var out []ssa.Value
		for _, e := range v.Edges {
			a := structFieldValues(e, f, depth+1)
			if a == nil {
				return nil
			}
			out = append(out, a...)
		}
		return out
	case *ssa.UnOp:
		if v.Op != token.MUL {
			return nil
		}
		al, ok := v.X.(*ssa.Alloc)
		if !ok {
			return nil
		}
		return structFieldOfLocal(al, f, v, depth)
	}
	return nil
}

// StructFieldValues: what field f of the struct value x can hold (x a value
// built by a composite literal, possibly through φ-nodes and whole-value
// stores), or nil when that is not known.
func StructFieldValues(x ssa.Value, f int) []ssa.Value { return structFieldValues(x, f, 0) }

// structFieldOfLocal: what field f of local struct variable al can hold when
// instruction at reads it.
func structFieldOfLocal(al *ssa.Alloc, f int, at ssa.Instruction, depth int) []ssa.Value {
	v := at
	{
		// every write to the variable: whole values and single fields; nothing
		// else may hold its address; no write may come after the read
		var out []ssa.Value
		for _, ref := range *al.Referrers() {
			switch r := ref.(type) {
			case *ssa.Store:
				if r.Addr != ssa.Value(al) || MayFollowOn(al, v, r) {
					return nil
				}
				a := structFieldValues(r.Val, f, depth+1)
				if a == nil {
					return nil
				}
				out = append(out, a...)
			case *ssa.FieldAddr:
				for _, r2 := range *r.Referrers() {
					switch u := r2.(type) {
					case *ssa.Store:
						if u.Addr != ssa.Value(r) || MayFollowOn(al, v, u) {
							return nil
						}
						if r.Field == f {
							out = append(out, u.Val)
						}
					case *ssa.UnOp:
						if u.Op != token.MUL {
							return nil
						}
					case *ssa.DebugRef:
					default:
						return nil
					}
				}
			case *ssa.UnOp:
				if r.Op != token.MUL {
					return nil
				}
			case *ssa.MakeClosure:
				// captured: fine as long as the literal only reads fields of it
				fn, _ := r.Fn.(*ssa.Function)
				for i, bv := range r.Bindings {
					if bv != ssa.Value(al) {
						continue
					}
					if fn == nil || i >= len(fn.FreeVars) || !readOnlyStructRef(fn.FreeVars[i], 0) {
						return nil
					}
				}
			case *ssa.DebugRef:
			default:
				return nil
			}
		}
		if len(out) == 0 {
			return nil
		}
		return out
	}
}

// readOnlyStructRef: the pointer is used only to read fields through it, here
// and in literals it is handed on to.
func readOnlyStructRef(ptr ssa.Value, depth int) bool {
	refs := ptr.Referrers()
	if refs == nil || depth > 4 {
		return false
	}
	for _, ref := range *refs {
		switch r := ref.(type) {
		case *ssa.FieldAddr:
			for _, r2 := range *r.Referrers() {
				switch u := r2.(type) {
				case *ssa.UnOp:
					if u.Op != token.MUL {
						return false
					}
				case *ssa.DebugRef:
				default:
					return false
				}
			}
		case *ssa.UnOp:
			if r.Op != token.MUL {
				return false
			}
		case *ssa.MakeClosure:
			fn, _ := r.Fn.(*ssa.Function)
			for i, bv := range r.Bindings {
				if bv != ptr {
					continue
				}
				if fn == nil || i >= len(fn.FreeVars) || !readOnlyStructRef(fn.FreeVars[i], depth+1) {
					return false
				}
			}
		case *ssa.DebugRef:
		default:
			return false
		}
	}
	return true
}

// sliceLitTable: v is the whole-array slice of a local array that is filled,
// in the block that creates it, by one store of a constant per element through
// constant indexes, and afterwards only read (indexed, ranged over, measured).
// It returns the element values in order.
func sliceLitTable(v ssa.Value) []ssa.Value {
	sl, ok := v.(*ssa.Slice)
	if !ok || sl.Low != nil || sl.High != nil || sl.Max != nil {
		return nil
	}
	al, ok := sl.X.(*ssa.Alloc)
	if !ok {
		return nil
	}
	at, ok := al.Type().Underlying().(*types.Pointer).Elem().Underlying().(*types.Array)
	if !ok || at.Len() == 0 || at.Len() > 64 {
		return nil
	}
	elems := make([]ssa.Value, at.Len())
	readOnly := func(ia *ssa.IndexAddr) bool {
		for _, r := range *ia.Referrers() {
			switch u := r.(type) {
			case *ssa.UnOp:
				if u.Op != token.MUL {
					return false
				}
			case *ssa.DebugRef:
			default:
				return false
			}
		}
		return true
	}
	for _, ref := range *al.Referrers() {
		switch r := ref.(type) {
		case *ssa.IndexAddr:
			c, ok := r.Index.(*ssa.Const)
			if !ok || c.Value == nil {
				return nil
			}
			k, ok := constant.Int64Val(c.Value)
			if !ok || k < 0 || k >= at.Len() || len(*r.Referrers()) != 1 {
				return nil
			}
			st, ok := (*r.Referrers())[0].(*ssa.Store)
			if !ok || st.Addr != ssa.Value(r) || elems[k] != nil || st.Block() != al.Block() {
				return nil
			}
			if _, isConst := st.Val.(*ssa.Const); !isConst {
				return nil
			}
			elems[k] = st.Val
		case *ssa.Slice:
			if r.Low != nil || r.High != nil || r.Max != nil {
				return nil
			}
			for _, r2 := range *r.Referrers() {
				switch u := r2.(type) {
				case *ssa.IndexAddr:
					if !readOnly(u) {
						return nil
					}
				case *ssa.Call:
					if bi, ok := u.Call.Value.(*ssa.Builtin); !ok || bi.Name() != "len" && bi.Name() != "cap" {
						return nil
					}
				case *ssa.Range, *ssa.DebugRef:
				default:
					return nil
				}
			}
		case *ssa.DebugRef:
		default:
			return nil
		}
	}
	for _, e := range elems {
		if e == nil {
			return nil
		}
	}
	return elems
}

// WithCreator evaluates f with the free variables of the literal mc creates
// resolved through mc's bindings. A literal has one creating instruction in
// source, but after flattening a helper that contains it may have been inlined
// at several call sites, each copy with bindings of its own.
func (p *Prog) WithCreator(mc *ssa.MakeClosure, f func()) {
	fn, ok := mc.Fn.(*ssa.Function)
	if !ok {
		f()
		return
	}
	old, had := p.parents[fn]
	p.parents[fn] = mc
	defer func() {
		if had {
			p.parents[fn] = old
		} else {
			delete(p.parents, fn)
		}
	}()
	f()
}

// globalTable returns the constant elements of a package-level array variable
// that only its package initialiser writes (one constant per element through
// constant indexes) and that no other instruction of the module refers to except
// to index it; nil otherwise.
func (p *Prog) globalTable(g *ssa.Global) []ssa.Value {
	if p.gtables == nil {
		p.gtables = map[*ssa.Global][]ssa.Value{}
	}
	if t, ok := p.gtables[g]; ok {
		return t
	}
	p.gtables[g] = nil
	pt, ok := g.Type().(*types.Pointer)
	if !ok {
		return nil
	}
	at, ok := pt.Elem().Underlying().(*types.Array)
	if !ok || at.Len() == 0 || at.Len() > 64 || g.Pkg == nil {
		return nil
	}
	if _, inMod := p.ByPath[g.Pkg.Pkg.Path()]; !inMod {
		return nil
	}
	elems := make([]ssa.Value, at.Len())
	var fns []*ssa.Function
	fns = append(fns, p.srcFuncs...)
	for _, sp := range p.ByPath {
		if init := sp.Func("init"); init != nil {
			fns = append(fns, init)
		}
	}
	var rands []*ssa.Value
	visited := map[*ssa.Function]bool{}
	for _, f := range fns {
		if visited[f] {
			continue
		}
		visited[f] = true
		isInit := f.Name() == "init" && f.Parent() == nil && f.Pkg == g.Pkg
		for _, b := range f.Blocks {
			for _, in := range b.Instrs {
				rands = in.Operands(rands[:0])
				uses := false
				for _, r := range rands {
					if *r == ssa.Value(g) {
						uses = true
					}
				}
				if !uses {
					continue
				}
				// the whole array: loaded (to be indexed or ranged over), or set
				// once by the initialiser from a literal of constants
				if ld, ok := in.(*ssa.UnOp); ok && ld.Op == token.MUL && ld.X == ssa.Value(g) {
					continue
				}
				if st, ok := in.(*ssa.Store); ok && st.Addr == ssa.Value(g) && isInit {
					if src, ok := st.Val.(*ssa.UnOp); ok && src.Op == token.MUL {
						if al, ok := src.X.(*ssa.Alloc); ok {
							if lit := constTable(al, src); lit != nil && elems[0] == nil {
								copy(elems, lit)
								continue
							}
						}
					}
					return nil
				}
				ia, ok := in.(*ssa.IndexAddr)
				if !ok {
					return nil // sliced, copied, passed on: give up
				}
				for _, ref := range *ia.Referrers() {
					switch r := ref.(type) {
					case *ssa.UnOp:
					case *ssa.Store:
						c, isC := ia.Index.(*ssa.Const)
						v, isV := r.Val.(*ssa.Const)
						if !isInit || r.Addr != ssa.Value(ia) || !isC || !isV || c.Value == nil {
							return nil
						}
						k, ok := constant.Int64Val(c.Value)
						if !ok || k < 0 || k >= at.Len() || elems[k] != nil {
							return nil
						}
						elems[k] = v
					default:
						return nil
					}
				}
			}
		}
	}
	for _, e := range elems {
		if e == nil {
			return nil
		}
	}
	p.gtables[g] = elems
	return elems
}
