package core

import (
	"bufio"
	"fmt"
	"go/ast"
	"go/token"
	"go/types"
	"os"
	"sort"
	"strings"

	"golang.org/x/tools/go/ast/astutil"

	"verif/third_party/xtools/go/ssa"
)

// Flattening (DESIGN 2.7). The rule sets are anchored at the functions and
// local function literals the repository has today; their names are listed in
// /verif/anchors.txt. A refactoring that moves part of an anchored function
// into a new helper (or a new local literal called directly) would hide that
// part from rules that look at the anchored function. Before any rule runs,
// every static call to a module function that is NOT an anchor is therefore
// replaced by a copy of the callee's body (ssa.InlineCall), and conditionals
// that only re-test a constant the inlined body has just produced are threaded
// away (ssa.ThreadConstantBranches). Both steps preserve behaviour, so they can
// neither hide a violation nor create one; on a tree whose functions are all
// anchors they do nothing at all.

// AnchorName is the name under which a function is listed in anchors.txt:
// FuncName for declared functions and methods, "<enclosing anchor name>$<local
// variable>" for a function literal bound to a local variable, and
// "<enclosing>$" for other literals.
func (p *Prog) AnchorName(fn *ssa.Function) string {
	if o := fn.Origin(); o != nil {
		fn = o
	}
	if fn.Parent() == nil {
		if old, ok := p.renamedTo[fn]; ok {
			return old
		}
		return p.FuncName(fn)
	}
	if n, ok := p.litNames[fn]; ok {
		return p.AnchorName(fn.Parent()) + "$" + n
	}
	return p.AnchorName(fn.Parent()) + "$" + p.litVarName(fn)
}

// litVarName: the local variable a function literal is assigned to, if any.
func (p *Prog) litVarName(fn *ssa.Function) string {
	lit, ok := fn.Syntax().(*ast.FuncLit)
	if !ok {
		return ""
	}
	file, _ := p.FileOf(lit.Pos())
	if file == nil {
		return ""
	}
	path, _ := astutil.PathEnclosingInterval(file, lit.Pos(), lit.End())
	for i, n := range path {
		if n != ast.Node(lit) || i+1 >= len(path) {
			continue
		}
		switch par := path[i+1].(type) {
		case *ast.AssignStmt:
			for k, r := range par.Rhs {
				if r == ast.Expr(lit) && k < len(par.Lhs) {
					if id, ok := par.Lhs[k].(*ast.Ident); ok {
						return id.Name
					}
				}
			}
		case *ast.ValueSpec:
			for k, r := range par.Values {
				if r == ast.Expr(lit) && k < len(par.Names) {
					return par.Names[k].Name
				}
			}
		}
	}
	return ""
}

// anchorSigs: the signature recorded with each declared anchor function
// ("name<TAB>signature" lines of anchors.txt).
var anchorSigs map[string]string

// SigKey renders the receiver, parameter and result types of a declared
// function (without parameter names): what stays the same when the function
// is only renamed.
func (p *Prog) SigKey(fn *ssa.Function) string {
	sig := fn.Signature
	var sb strings.Builder
	if r := sig.Recv(); r != nil {
		sb.WriteString("(" + p.shorten(types.TypeString(r.Type(), nil)) + ")")
	}
	tuple := func(t *types.Tuple) {
		sb.WriteString("(")
		for i := 0; i < t.Len(); i++ {
			if i > 0 {
				sb.WriteString(",")
			}
			sb.WriteString(p.shorten(types.TypeString(t.At(i).Type(), nil)))
		}
		sb.WriteString(")")
	}
	tuple(sig.Params())
	if sig.Variadic() {
		sb.WriteString("...")
	}
	tuple(sig.Results())
	return sb.String()
}

// resolveRenames: an anchor function that the tree no longer has under its
// name, while exactly one declared function of the same package that is not an
// anchor itself has the same receiver, parameter and result types, was
// renamed: that function answers to the old name (AnchorName, Func).
func (p *Prog) resolveRenames(anchors map[string]bool) []string {
	if len(anchorSigs) == 0 {
		return nil
	}
	have := map[string]*ssa.Function{}
	for _, f := range p.srcFuncs {
		if f.Parent() == nil {
			have[p.FuncName(f)] = f
		}
	}
	pkgOf := func(name string) string {
		// "(*ech.Conn).Read" / "ech.readRecord" -> "ech"
		s := strings.TrimLeft(name, "(*")
		if i := strings.Index(s, "."); i >= 0 {
			return s[:i]
		}
		return s
	}
	var log []string
	var missing []string
	for name := range anchorSigs {
		if _, ok := have[name]; !ok && !strings.Contains(name, "$") {
			missing = append(missing, name)
		}
	}
	sort.Strings(missing)
	taken := map[*ssa.Function]bool{}
	for _, name := range missing {
		var cands []*ssa.Function
		for n, f := range have {
			if anchors[n] || taken[f] || f.Synthetic != "" || pkgOf(n) != pkgOf(name) || p.SigKey(f) != anchorSigs[name] {
				continue
			}
			cands = append(cands, f)
		}
		if len(cands) != 1 {
			continue
		}
		if p.renamedTo == nil {
			p.renamedTo = map[*ssa.Function]string{}
			p.renamedFrom = map[string]*ssa.Function{}
		}
		taken[cands[0]] = true
		p.renamedTo[cands[0]] = name
		p.renamedFrom[name] = cands[0]
		log = append(log, fmt.Sprintf("%s answers to the anchor name %s (same signature, the only candidate)", p.FuncName(cands[0]), name))
	}
	return log
}

// ReadAnchors reads anchors.txt (one name per line, # comments).
func ReadAnchors(file string) (map[string]bool, error) {
	f, err := os.Open(file)
	if err != nil {
		return nil, err
	}
	defer f.Close()
	out := map[string]bool{}
	sc := bufio.NewScanner(f)
	for sc.Scan() {
		l := strings.TrimSpace(sc.Text())
		if l == "" || strings.HasPrefix(l, "#") {
			continue
		}
		if strings.HasPrefix(l, "type\t") || strings.HasPrefix(l, "var\t") {
			parseLayoutLine(l)
			continue
		}
		if i := strings.Index(l, "\t"); i >= 0 {
			if anchorSigs == nil {
				anchorSigs = map[string]string{}
			}
			anchorSigs[l[:i]] = l[i+1:]
			l = l[:i]
		}
		out[l] = true
	}
	return out, sc.Err()
}

// AnchorNames lists the anchor names of every source function of the module.
// AnchorSigs: SigKey of every declared source function, by anchor name.
func (p *Prog) AnchorSigs() map[string]string {
	out := map[string]string{}
	for _, f := range p.srcFuncs {
		if f.Synthetic != "" {
			continue
		}
		if f.Parent() == nil || p.litVarName(f) != "" {
			// (declared functions, and function literals that have a name)
			out[p.AnchorName(f)] = p.SigKey(f)
		}
	}
	return out
}

func (p *Prog) AnchorNames() []string {
	seen := map[string]bool{}
	for _, f := range p.srcFuncs {
		seen[p.AnchorName(f)] = true
	}
	var out []string
	for n := range seen {
		out = append(out, n)
	}
	sort.Strings(out)
	return out
}

// Flatten inlines the static calls to non-anchor module functions and
// threads the constant re-tests this leaves behind. It returns a description
// of what was done (for the evidence) or an error if the result is malformed.
func (p *Prog) Flatten(anchors map[string]bool) ([]string, error) {
	inMod := func(f *ssa.Function) bool {
		for f.Parent() != nil {
			f = f.Parent()
		}
		if o := f.Origin(); o != nil {
			f = o
		}
		if f.Pkg == nil {
			return false
		}
		_, ok := p.ByPath[f.Pkg.Pkg.Path()]
		return ok
	}
	// static call graph among module functions, to refuse recursion
	callees := func(f *ssa.Function) []*ssa.Function {
		var out []*ssa.Function
		for _, b := range f.Blocks {
			for _, in := range b.Instrs {
				if c, ok := in.(*ssa.Call); ok {
					if g, _ := ssa.StaticInlinee(c); g != nil && inMod(g) {
						out = append(out, g)
					}
				}
			}
		}
		return out
	}
	recursive := map[*ssa.Function]bool{}
	for _, f := range p.srcFuncs {
		seen := map[*ssa.Function]bool{}
		var visit func(g *ssa.Function) bool
		visit = func(g *ssa.Function) bool {
			for _, h := range callees(g) {
				if h == f {
					return true
				}
				if !seen[h] {
					seen[h] = true
					if visit(h) {
						return true
					}
				}
			}
			return false
		}
		if visit(f) {
			recursive[f] = true
		}
	}
	sentinel := p.sentinelGlobals()
	nonNil := func(v ssa.Value) bool {
		switch x := v.(type) {
		case *ssa.UnOp:
			if g, ok := x.X.(*ssa.Global); ok {
				return sentinel[g]
			}
		case *ssa.Call:
			if c := x.Call.StaticCallee(); c != nil {
				switch c.String() {
				case "errors.New", "fmt.Errorf":
					return true
				}
			}
		}
		return false
	}
	pick := func(callee *ssa.Function) bool {
		return callee != nil && inMod(callee) && ssa.CanInline(callee) && !recursive[callee] && !anchors[p.AnchorName(callee)]
	}
	pickTail := func(c *ssa.Call, callee *ssa.Function) bool {
		return callee != nil && inMod(callee) && ssa.CanInlineTail(c, callee) && !recursive[callee] && !anchors[p.AnchorName(callee)]
	}
	defer func() { p.markDeadHelpers(anchors, inMod) }()
	var log []string
	var funcs []*ssa.Function
	funcs = append(funcs, p.srcFuncs...)
	// generic instances are bodies of their own
	for f := range allInstances(p) {
		funcs = append(funcs, f)
	}
	// `go helper(args)` with a helper that is not an anchor: the goroutine's
	// body moves back into a literal of the function that starts it
	// the name of the local literal the method stands for: its own name, or the
	// name of the one named literal of f that the anchors list, the tree no
	// longer has and whose parameter and result types are the method's
	methodHint := func(f, callee *ssa.Function) string {
		pre := p.AnchorName(f) + "$"
		if anchors[pre+callee.Name()] {
			return callee.Name()
		}
		sig := p.SigKey(callee)
		if r := callee.Signature.Recv(); r != nil {
			sig = strings.TrimPrefix(sig, "("+p.shorten(types.TypeString(r.Type(), nil))+")")
		}
		existing := map[string]bool{}
		for _, g := range funcs {
			existing[p.AnchorName(g)] = true
		}
		found := ""
		for name, s := range anchorSigs {
			rest, ok := strings.CutPrefix(name, pre)
			if !ok || rest == "" || strings.Contains(rest, "$") || s != sig || existing[name] {
				continue
			}
			if found != "" && found != rest {
				return ""
			}
			found = rest
		}
		return found
	}
	rehome := func() (int, error) {
		rehomed := 0
		for _, f := range append([]*ssa.Function(nil), funcs...) {
			if !anchors[p.AnchorName(f)] && f.Parent() == nil {
				continue
			}
			// (instances of generic functions are left as they are: the rule sets
			// look at the generic bodies)
			top := f
			for top.Parent() != nil {
				top = top.Parent()
			}
			if o := top.Origin(); o != nil && o != top {
				continue
			}
			for again := true; again; {
				again = false
				for _, b := range f.Blocks {
					for _, in := range b.Instrs {
						g, ok := in.(*ssa.Go)
						if !ok || again {
							continue
						}
						if len(g.Call.Args) == 0 {
							continue // go func() { ... }(): the form wanted
						}
						if callee := g.Call.StaticCallee(); callee != nil && callee.Parent() == nil {
							// a declared function: only helpers, not the functions rules are anchored at
							if !inMod(callee) || recursive[callee] || anchors[p.AnchorName(callee)] || callee.Blocks == nil {
								continue
							}
						}
						// (a literal with parameters is rehomed whatever its name: the
						// literal that replaces it takes its place)
						w := f.RehomeGo(g)
						if w == nil {
							continue
						}
						f.Rebuild()
						if err := f.SanityCheck(); err != nil {
							return rehomed, fmt.Errorf("flatten: %v", err)
						}
						if err := w.SanityCheck(); err != nil {
							return rehomed, fmt.Errorf("flatten: %v", err)
						}
						p.srcFuncs = append(p.srcFuncs, w)
						funcs = append(funcs, w)
						log = append(log, fmt.Sprintf("%s <- go %s", p.FuncName(f), w.Name()))
						again = true
						rehomed++
					}
				}
			}
		}
		return rehomed, nil
	}
	// a pass may enable further inlining in functions visited earlier (a
	// literal returned by an inlined helper becomes callable by name): repeat
	type rehomeKey struct {
		f      *ssa.Function
		callee string
	}
	noRehome := map[rehomeKey]bool{}
	skippedAt := map[rehomeKey]int{}
	methodsGen := 0
	inline := func() error {
		for pass, changed := 0, true; changed && pass < 6; pass++ {
			changed = false
			for _, f := range funcs {
				if !anchors[p.AnchorName(f)] && f.Parent() == nil && !strings.HasPrefix(f.Synthetic, "bound method wrapper") {
					// a non-anchor function is only ever looked at through its inlined copies
					continue
				}
				n := 0
				for round := 0; round < 400; round++ {
					var target *ssa.Call
					for _, b := range f.Blocks {
						for _, in := range b.Instrs {
							if c, ok := in.(*ssa.Call); ok && target == nil {
								if g, _ := ssa.StaticInlinee(c); g != f && (pick(g) || pickTail(c, g)) {
									// (left for the next methods pass: a method of a local
									// struct that stands for a named literal of this function)
									if g.Parent() == nil && g.Signature.Recv() != nil && len(c.Call.Args) > 0 && methodHint(f, g) != "" && !noRehome[rehomeKey{f, g.Name()}] {
										if a := ssa.LocalStructOf(c.Call.Args[0]); a != nil && a.Parent() == f {
											// (once: if a methods pass has run since and the call is
											// still here, it cannot stand for a literal)
											k := rehomeKey{f, g.Name()}
											if at, seen := skippedAt[k]; !seen || at == methodsGen {
												skippedAt[k] = methodsGen
												continue
											}
										}
									}
									target = c
								}
							}
						}
					}
					if target == nil {
						break
					}
					g, _ := ssa.StaticInlinee(target)
					if !f.InlineCall(target) {
						return fmt.Errorf("flatten: cannot inline %s into %s", g, f)
					}
					f.Rebuild()
					log = append(log, fmt.Sprintf("%s <- %s", p.FuncName(f), p.AnchorName(g)))
					n++
				}
				if n == 0 && !(ssa.ThreadAllMerges && pass == 0) {
					continue
				}
				if n > 0 {
					changed = true
				}
				for round := 0; round < 400; round++ {
					if f.ThreadConstantBranches(nonNil) == 0 {
						break
					}
					f.Rebuild()
				}
				// (the duplicated test of a threaded branch is dead; without it the
				// block that held it is an empty hop, which Rebuild removes)
				f.DropDeadPure()
				if f.SplitSharedReturns() {
					f.Rebuild()
				}
				if err := f.SanityCheck(); err != nil {
					return fmt.Errorf("flatten: %v", err)
				}
			}
		}
		return nil
	}
	// a method of a local state struct, called where the tree the rules were
	// written for has a named local function literal of the same name (and so
	// an anchor `F$name`): the inverse refactoring is applied instead of
	// inlining a copy into every call site - the method's body becomes a literal
	// of the calling function that captures the struct (which the splitting
	// below then dissolves into the variables the literal had captured)
	methods := func() (int, error) {
		n := 0
		methodsGen++
		for _, f := range append([]*ssa.Function(nil), funcs...) {
			if (!anchors[p.AnchorName(f)] && f.Parent() == nil) || len(f.Blocks) == 0 {
				continue
			}
			top := f
			for top.Parent() != nil {
				top = top.Parent()
			}
			if o := top.Origin(); o != nil && o != top {
				continue
			}
			group := map[*ssa.Function][]*ssa.Call{}
			var order []*ssa.Function
			for _, b := range f.Blocks {
				for _, in := range b.Instrs {
					c, ok := in.(*ssa.Call)
					if !ok {
						continue
					}
					callee := c.Call.StaticCallee()
					if callee == nil || callee.Parent() != nil || !inMod(callee) || recursive[callee] || anchors[p.AnchorName(callee)] || callee.Signature.Recv() == nil {
						continue
					}
					if methodHint(f, callee) == "" {
						continue
					}
					if group[callee] == nil {
						order = append(order, callee)
					}
					group[callee] = append(group[callee], c)
				}
			}
			for _, callee := range order {
				calls := group[callee]
				var recv *ssa.Alloc
				same := true
				for _, c := range calls {
					a := ssa.LocalStructOf(c.Call.Args[0])
					if a == nil || a.Parent() != f || (recv != nil && a != recv) {
						same = false
						break
					}
					recv = a
				}
				if !same || recv == nil {
					noRehome[rehomeKey{f, callee.Name()}] = true
					continue
				}
				w := f.RehomeMethod(callee, calls, recv)
				if w == nil {
					// (it cannot stand for a literal here: inline it like any other)
					noRehome[rehomeKey{f, callee.Name()}] = true
					continue
				}
				f.Rebuild()
				if err := f.SanityCheck(); err != nil {
					return n, fmt.Errorf("flatten: %v", err)
				}
				if err := w.SanityCheck(); err != nil {
					return n, fmt.Errorf("flatten: %v", err)
				}
				if p.litNames == nil {
					p.litNames = map[*ssa.Function]string{}
				}
				p.litNames[w] = methodHint(f, callee)
				p.srcFuncs = append(p.srcFuncs, w)
				funcs = append(funcs, w)
				log = append(log, fmt.Sprintf("%s <- method %s as a literal", p.FuncName(f), p.FuncName(callee)))
				n++
			}
		}
		return n, nil
	}
	if _, err := rehome(); err != nil {
		return log, err
	}
	if _, err := methods(); err != nil {
		return log, err
	}
	if err := inline(); err != nil {
		return log, err
	}
	// (a helper that starts the goroutine, once inlined, leaves its go statement
	// in the anchor: that one is rehomed now)
	// (and a local struct only ever used field by field, once its methods are
	// inlined, is the same as one local variable per field)
	sroa := func() (int, error) {
		n := 0
		for _, f := range append([]*ssa.Function(nil), funcs...) {
			if f.Parent() != nil || len(f.Blocks) == 0 {
				continue
			}
			if !anchors[p.AnchorName(f)] && !strings.HasPrefix(f.Synthetic, "bound method wrapper") {
				continue
			}
			changed := f.SplitLocalStructs()
			sort.Slice(changed, func(i, j int) bool { return changed[i].String() < changed[j].String() })
			for _, g := range changed {
				g.Relift()
				if err := g.SanityCheck(); err != nil {
					return n, fmt.Errorf("flatten: split structs: %v", err)
				}
				log = append(log, fmt.Sprintf("%s: local struct split into its fields", p.FuncName(g)))
				n++
			}
		}
		return n, nil
	}
	for round := 0; round < 4; round++ {
		n, err := rehome()
		if err != nil {
			return log, err
		}
		m, err := sroa()
		if err != nil {
			return log, err
		}
		k, err := methods()
		if err != nil {
			return log, err
		}
		// (a hinted method call left alone by the last inlining pass and not
		// turned into a literal by this methods pass is inlined now)
		pending := 0
		for k2, at := range skippedAt {
			if at == methodsGen-1 {
				pending++
				_ = k2
			}
		}
		if n+m+k+pending == 0 {
			break
		}
		if err := inline(); err != nil {
			return log, err
		}
	}
	// a literal all of whose calls were inlined is no longer part of the program:
	// drop what keeps it formally alive (the variable it was bound to)
	if len(log) > 0 {
		for round := 0; round < 6; round++ {
			changed := false
			for _, f := range funcs {
				if pruneDeadLiteralBindings(f) {
					f.Rebuild()
					// variables the literal had captured can live in registers again
					f.Relift()
					if err := f.SanityCheck(); err != nil {
						return log, fmt.Errorf("flatten: %v", err)
					}
					changed = true
				}
			}
			// literals nothing creates any more
			created := map[*ssa.Function]bool{}
			var rands []*ssa.Value
			for _, f := range funcs {
				if p.deadLits[f] {
					continue
				}
				for _, b := range f.Blocks {
					for _, in := range b.Instrs {
						rands = in.Operands(rands[:0])
						for _, r := range rands {
							if g, ok := (*r).(*ssa.Function); ok && g.Parent() != nil {
								created[g] = true
							}
						}
					}
				}
			}
			for _, f := range funcs {
				for _, lists := range [][]*ssa.Function{f.AnonFuncs, f.InlinedAnonFuncs()} {
					for _, a := range lists {
						if changed && !created[a] && !p.deadLits[a] {
							if p.deadLits == nil {
								p.deadLits = map[*ssa.Function]bool{}
							}
							p.deadLits[a] = true
							log = append(log, fmt.Sprintf("%s: literal %s is no longer created", p.FuncName(f), a.Name()))
						}
					}
				}
			}
			if !changed {
				break
			}
		}
	}
	return log, nil
}

// pruneDeadLiteralBindings removes from f (1) loads of local variables and
// captured variables whose value is not used, (2) stores of function literals
// into local variables that nothing reads any more, and (3) the creation of
// literals whose value is not used. It reports whether f changed.
func pruneDeadLiteralBindings(f *ssa.Function) bool {
	dead := map[ssa.Instruction]bool{}
	unused := func(v ssa.Value) bool {
		refs := v.Referrers()
		if refs == nil {
			return false
		}
		for _, r := range *refs {
			if _, ok := r.(*ssa.DebugRef); !ok && !dead[r] {
				return false
			}
		}
		return true
	}
	for _, b := range f.Blocks {
		for _, in := range b.Instrs {
			if u, ok := in.(*ssa.UnOp); ok && u.Op == token.MUL && unused(u) {
				switch u.X.(type) {
				case *ssa.Alloc, *ssa.FreeVar:
					dead[u] = true
				}
			}
		}
	}
	// a variable that only receives function literals and is read by nobody:
	// neither here nor in the literals that capture it
	for _, b := range f.Blocks {
		for _, in := range b.Instrs {
			al, ok := in.(*ssa.Alloc)
			if !ok {
				continue
			}
			var stores []ssa.Instruction
			onlyLits := true
			for _, r := range *al.Referrers() {
				switch x := r.(type) {
				case *ssa.Store:
					if x.Addr != ssa.Value(al) {
						onlyLits = false
						break
					}
					v := x.Val
					if ct, ok := v.(*ssa.ChangeType); ok {
						v = ct.X
					}
					if _, isLit := v.(*ssa.MakeClosure); !isLit {
						onlyLits = false
					}
					stores = append(stores, x)
				case *ssa.UnOp:
					if !dead[x] {
						onlyLits = false
					}
				case *ssa.MakeClosure:
					fn, _ := x.Fn.(*ssa.Function)
					for i, bv := range x.Bindings {
						if bv == ssa.Value(al) && (fn == nil || i >= len(fn.FreeVars) || len(*fn.FreeVars[i].Referrers()) != 0) {
							onlyLits = false
						}
					}
				case *ssa.DebugRef:
				default:
					onlyLits = false
				}
			}
			if onlyLits && len(stores) > 0 {
				for _, s := range stores {
					dead[s] = true
				}
			}
		}
	}
	for _, b := range f.Blocks {
		for _, in := range b.Instrs {
			switch x := in.(type) {
			case *ssa.MakeClosure:
				if unused(x) {
					dead[x] = true
				}
			case *ssa.ChangeType:
				if _, isLit := x.X.(*ssa.MakeClosure); isLit && unused(x) {
					dead[x] = true
				}
			}
		}
	}
	// a second look: literals only used by a type change that just died
	for _, b := range f.Blocks {
		for _, in := range b.Instrs {
			if x, ok := in.(*ssa.MakeClosure); ok && !dead[x] && unused(x) {
				dead[x] = true
			}
		}
	}
	if len(dead) == 0 {
		return false
	}
	for _, b := range f.Blocks {
		keep := b.Instrs[:0:0]
		for _, in := range b.Instrs {
			if dr, ok := in.(*ssa.DebugRef); ok {
				if xi, ok := dr.X.(ssa.Instruction); ok && dead[xi] {
					continue
				}
			}
			if !dead[in] {
				keep = append(keep, in)
			}
		}
		b.Instrs = keep
	}
	return true
}

func allInstances(p *Prog) map[*ssa.Function]bool {
	out := map[*ssa.Function]bool{}
	for _, f := range p.srcFuncs {
		for _, b := range f.Blocks {
			for _, in := range b.Instrs {
				if c, ok := in.(ssa.CallInstruction); ok {
					if g := c.Common().StaticCallee(); g != nil && g.Origin() != nil && g.Origin() != g && g.Blocks != nil {
						if _, ok := p.ByPath[pkgPathOf(g.Origin())]; ok {
							out[g] = true
						}
					}
				}
			}
		}
	}
	return out
}

func pkgPathOf(f *ssa.Function) string {
	for f.Parent() != nil {
		f = f.Parent()
	}
	if f.Pkg == nil {
		return ""
	}
	return f.Pkg.Pkg.Path()
}

// sentinelGlobals: package-level variables of type error in the module that
// are assigned only by their package's initialiser (errors.New at package
// level): loads of them are never nil.
func (p *Prog) sentinelGlobals() map[*ssa.Global]bool {
	out := map[*ssa.Global]bool{}
	errT := types.Universe.Lookup("error").Type()
	for _, sp := range p.ByPath {
		for _, m := range sp.Members {
			if g, ok := m.(*ssa.Global); ok {
				if pt, ok := g.Type().(*types.Pointer); ok && types.Identical(pt.Elem(), errT) {
					out[g] = true
				}
			}
		}
	}
	for _, sp := range p.ByPath {
		for _, m := range sp.Members {
			fn, ok := m.(*ssa.Function)
			if !ok {
				continue
			}
			for _, f := range Closures(fn) {
				for _, b := range f.Blocks {
					for _, in := range b.Instrs {
						if st, ok := in.(*ssa.Store); ok {
							if g, ok := st.Addr.(*ssa.Global); ok && out[g] {
								init := fn.Name() == "init" && f == fn
								if !init {
									delete(out, g)
								} else if _, isCall := st.Val.(*ssa.Call); !isCall {
									delete(out, g)
								}
							}
						}
					}
				}
			}
		}
	}
	// methods may store too
	for _, f := range p.srcFuncs {
		if f.Name() == "init" {
			continue
		}
		for _, b := range f.Blocks {
			for _, in := range b.Instrs {
				if st, ok := in.(*ssa.Store); ok {
					if g, ok := st.Addr.(*ssa.Global); ok {
						delete(out, g)
					}
				}
			}
		}
	}
	return out
}

// markDeadHelpers records the non-anchor, unexported, declared functions that
// no function still refers to once their calls were inlined: the rule sets
// must not look at their now unused bodies (their code is judged where it was
// inlined).
func (p *Prog) markDeadHelpers(anchors map[string]bool, inMod func(*ssa.Function) bool) {
	cand := map[*ssa.Function]bool{}
	for _, f := range p.srcFuncs {
		if f.Parent() == nil && f.Object() != nil && !f.Object().Exported() && !anchors[p.AnchorName(f)] && f.Synthetic == "" && f.Name() != "init" && f.Name() != "main" {
			cand[f] = true
		}
	}
	if len(cand) == 0 {
		return
	}
	live := map[*ssa.Function]bool{}
	var work []*ssa.Function
	for _, f := range p.srcFuncs {
		if !cand[Root(f)] {
			work = append(work, f)
		}
	}
	var rands []*ssa.Value
	for len(work) > 0 {
		f := work[len(work)-1]
		work = work[:len(work)-1]
		for _, b := range f.Blocks {
			for _, in := range b.Instrs {
				rands = in.Operands(rands[:0])
				for _, r := range rands {
					g, ok := (*r).(*ssa.Function)
					if !ok {
						continue
					}
					if o := g.Origin(); o != nil {
						g = o
					}
					if cand[g] && !live[g] {
						live[g] = true
						for _, c := range Closures(g) {
							work = append(work, c)
						}
					}
				}
			}
		}
	}
	p.deadHelpers = map[*ssa.Function]bool{}
	for f := range cand {
		if !live[f] {
			p.deadHelpers[f] = true
		}
	}
}
