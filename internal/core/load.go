// Package core holds the shared machinery of the checker: loading the
// repository into typed syntax and SSA, guard (edge-dominance) computation,
// canonical value terms, provenance queries and the obligation/evidence
// bookkeeping.
package core

import (
	"fmt"
	"go/ast"
	"go/token"
	"go/types"
	"os"
	"path/filepath"
	"regexp"
	"sort"
	"strings"

	"golang.org/x/tools/go/packages"
	"verif/third_party/xtools/go/callgraph/cha"
	"verif/third_party/xtools/go/callgraph/vta"
	"verif/third_party/xtools/go/ssa"
	"verif/third_party/xtools/go/ssa/ssautil"
)

// Prog is one loaded Go module.
type Prog struct {
	Dir     string
	ModPath string
	Fset    *token.FileSet
	Pkgs    []*packages.Package
	SSA     *ssa.Program
	ByPath  map[string]*ssa.Package
	PkgByP  map[string]*packages.Package

	srcFuncs    []*ssa.Function
	parents     map[*ssa.Function]*ssa.MakeClosure
	deadLits    map[*ssa.Function]bool   // literals whose every call was inlined (flatten.go)
	litNames    map[*ssa.Function]string // literals made from methods of a local state struct: the method's name (flatten.go)
	renamedTo   map[*ssa.Function]string // declared functions that answer to an anchor name the tree no longer has
	renamedFrom map[string]*ssa.Function
	fieldAlias  map[*types.Var]string // renamed struct fields: the name they are recorded under (layouts.go)
	typeAlias   map[string]string     // renamed struct types: short qualified new name -> recorded name
	typeAliasRe *regexp.Regexp
	varAlias    map[*types.Var]string // renamed unexported package-level variables
	cells       map[*ssa.Alloc]*cellInfo
	exprMemo    map[ssa.Value]*Expr
	vtaEdges    map[ssa.CallInstruction][]*ssa.Function

	// Flattened lists the inlining steps applied (caller <- callee).
	Flattened   []string
	anchors     map[string]bool
	deadHelpers map[*ssa.Function]bool
	sentinels   map[*ssa.Global]bool
	gtables     map[*ssa.Global][]ssa.Value
}

// Load type-checks dir (patterns default to ./...) without test files and
// builds SSA for it and all dependencies. Any type error is fatal: a tree that
// does not build cannot be decided.
func Load(dir string, patterns ...string) (*Prog, error) {
	return LoadEnv(dir, nil, patterns...)
}

// LoadEnv is Load under additional environment settings (GOOS, GOARCH): the
// thorough tier decides the rules for other build configurations too.
func LoadEnv(dir string, extraEnv []string, patterns ...string) (*Prog, error) {
	if len(patterns) == 0 {
		patterns = []string{"./..."}
	}
	env := append(os.Environ(), "GOFLAGS=-mod=mod", "GOPROXY=off", "GOWORK=off")
	env = append(env, extraEnv...)
	cfg := &packages.Config{
		Mode:  packages.LoadAllSyntax | packages.NeedModule,
		Dir:   dir,
		Env:   env,
		Tests: false,
		// loops over the library's sequence splitters are read as loops over
		// the slices they stand for (overlay.go)
		Overlay: seqOverlay(dir),
	}
	pkgs, err := packages.Load(cfg, patterns...)
	if err != nil {
		return nil, fmt.Errorf("load %s: %w", dir, err)
	}
	if len(pkgs) == 0 {
		return nil, fmt.Errorf("load %s: no packages", dir)
	}
	var errs []string
	packages.Visit(pkgs, nil, func(p *packages.Package) {
		for _, e := range p.Errors {
			errs = append(errs, e.Error())
		}
	})
	if len(errs) > 0 {
		return nil, fmt.Errorf("load %s: %d type/load errors, first: %s", dir, len(errs), errs[0])
	}
	prog, ssaPkgs := ssautil.AllPackages(pkgs, ssa.InstantiateGenerics)
	prog.Build()
	p := &Prog{
		Dir:      dir,
		Fset:     prog.Fset,
		Pkgs:     pkgs,
		SSA:      prog,
		ByPath:   map[string]*ssa.Package{},
		PkgByP:   map[string]*packages.Package{},
		parents:  map[*ssa.Function]*ssa.MakeClosure{},
		cells:    map[*ssa.Alloc]*cellInfo{},
		exprMemo: map[ssa.Value]*Expr{},
	}
	for i, sp := range ssaPkgs {
		if sp == nil {
			return nil, fmt.Errorf("load %s: no SSA for %s", dir, pkgs[i].PkgPath)
		}
		p.ByPath[pkgs[i].PkgPath] = sp
		p.PkgByP[pkgs[i].PkgPath] = pkgs[i]
		if pkgs[i].Module != nil && p.ModPath == "" {
			p.ModPath = pkgs[i].Module.Path
		}
	}
	p.collectSrcFuncs()
	if len(p.srcFuncs) == 0 {
		return nil, fmt.Errorf("load %s: no source functions", dir)
	}
	current = p
	if AnchorsFile != "" {
		anchors, err := ReadAnchors(AnchorsFile)
		if err != nil {
			return nil, fmt.Errorf("load: %v", err)
		}
		renames := append(p.resolveLayouts(), p.resolveRenames(anchors)...)
		log, err := p.Flatten(anchors)
		if err != nil {
			return nil, err
		}
		log = append(renames, log...)
		p.Flattened = log
		if os.Getenv("ECHVERIF_FLATLOG") != "" {
			for _, l := range log {
				fmt.Fprintln(os.Stderr, "flatten:", l)
			}
		}
		p.anchors = anchors
		if len(log) > 0 {
			p.srcFuncs = nil
			p.parents = map[*ssa.Function]*ssa.MakeClosure{}
			p.collectSrcFuncs()
		}
	}
	return p, nil
}

// AnchorsFile names the list of anchor functions (see flatten.go); when empty
// the program is analysed as built.
var AnchorsFile string

func (p *Prog) collectSrcFuncs() {
	seen := map[*ssa.Function]bool{}
	var add func(f *ssa.Function)
	add = func(f *ssa.Function) {
		if f == nil || seen[f] || f.Blocks == nil || p.deadHelpers[f] {
			return
		}
		seen[f] = true
		p.srcFuncs = append(p.srcFuncs, f)
		for _, b := range f.Blocks {
			for _, in := range b.Instrs {
				if mc, ok := in.(*ssa.MakeClosure); ok {
					if cf, ok := mc.Fn.(*ssa.Function); ok {
						// after flattening a literal may be created both in its
						// (non-anchor) home function and in the copies inlined into
						// anchors: the rule sets look at it from the anchor
						if old, ok := p.parents[cf]; !ok || !p.isAnchorFn(old.Parent()) {
							p.parents[cf] = mc
						}
						// a method value x.m is a closure over a synthetic wrapper
						// that calls m: looked at like a literal
						if strings.HasPrefix(cf.Synthetic, "bound method wrapper") {
							defer add(cf)
						}
					}
				}
			}
		}
		for _, a := range f.AnonFuncs {
			if !p.deadLits[a] {
				add(a)
			}
		}
		for _, a := range f.InlinedAnonFuncs() {
			if !p.deadLits[a] {
				add(a)
			}
		}
	}
	paths := make([]string, 0, len(p.ByPath))
	for k := range p.ByPath {
		paths = append(paths, k)
	}
	sort.Strings(paths)
	for _, path := range paths {
		sp := p.ByPath[path]
		names := make([]string, 0, len(sp.Members))
		for n := range sp.Members {
			names = append(names, n)
		}
		sort.Strings(names)
		for _, n := range names {
			switch m := sp.Members[n].(type) {
			case *ssa.Function:
				add(m)
			case *ssa.Type:
				nt, ok := m.Type().(*types.Named)
				if !ok {
					continue
				}
				for i := 0; i < nt.NumMethods(); i++ {
					add(p.SSA.FuncValue(nt.Method(i)))
				}
			}
		}
	}
}

// SrcFuncs returns every function with a body declared in the loaded module
// packages, including function literals, in a deterministic order.
func (p *Prog) SrcFuncs() []*ssa.Function { return p.srcFuncs }

// PkgFuncs returns the source functions (with literals) of one package.
func (p *Prog) PkgFuncs(pkgPath string) []*ssa.Function {
	var out []*ssa.Function
	for _, f := range p.srcFuncs {
		if f.Pkg != nil && f.Pkg.Pkg.Path() == pkgPath {
			out = append(out, f)
		}
	}
	return out
}

// Func finds a function or method by package path and name. Method names are
// written "(*T).M" or "(T).M"; generic receivers are written without type
// arguments. It returns nil when absent.
func (p *Prog) Func(pkgPath, name string) *ssa.Function {
	sp := p.ByPath[pkgPath]
	if sp == nil {
		return nil
	}
	if fn := p.funcByName(sp, name); fn != nil {
		return fn
	}
	// renamed? (anchor names are written with the short package name)
	short := p.shorten(pkgPath)
	key := short + "." + name
	if strings.HasPrefix(name, "(*") {
		key = "(*" + short + "." + name[2:]
	} else if strings.HasPrefix(name, "(") {
		key = "(" + short + "." + name[1:]
	}
	if fn := p.renamedFrom[key]; fn != nil {
		return fn
	}
	// (anchor names of generic types carry the type parameters: (*ech.Dialer[T]).Dial)
	for old, fn := range p.renamedFrom {
		if stripTypeParams(old) == key {
			return fn
		}
	}
	return nil
}

func stripTypeParams(s string) string {
	var sb strings.Builder
	depth := 0
	for _, r := range s {
		switch {
		case r == '[':
			depth++
		case r == ']' && depth > 0:
			depth--
		case depth == 0:
			sb.WriteRune(r)
		}
	}
	return sb.String()
}

func (p *Prog) funcByName(sp *ssa.Package, name string) *ssa.Function {
	if !strings.HasPrefix(name, "(") {
		return sp.Func(name)
	}
	end := strings.Index(name, ").")
	if end < 0 {
		return nil
	}
	recv, meth := strings.TrimPrefix(name[1:end], "*"), name[end+2:]
	obj := sp.Pkg.Scope().Lookup(recv)
	tn, ok := obj.(*types.TypeName)
	if !ok {
		return nil
	}
	nt, ok := tn.Type().(*types.Named)
	if !ok {
		return nil
	}
	for i := 0; i < nt.NumMethods(); i++ {
		if m := nt.Method(i); m.Name() == meth {
			return p.SSA.FuncValue(m)
		}
	}
	return nil
}

// Closures returns fn and all function literals nested in it.
func Closures(fn *ssa.Function) []*ssa.Function {
	out := []*ssa.Function{fn}
	for _, a := range fn.AnonFuncs {
		if current != nil && current.deadLits[a] {
			continue
		}
		out = append(out, Closures(a)...)
	}
	// literals created through inlined copies of helper bodies
	for _, a := range fn.InlinedAnonFuncs() {
		if current != nil && current.deadLits[a] {
			continue
		}
		out = append(out, Closures(a)...)
	}
	// method values: the synthetic wrappers they close over
	for _, b := range fn.Blocks {
		for _, in := range b.Instrs {
			if mc, ok := in.(*ssa.MakeClosure); ok {
				if cf, ok := mc.Fn.(*ssa.Function); ok && strings.HasPrefix(cf.Synthetic, "bound method wrapper") {
					dup := false
					for _, o := range out {
						if o == cf {
							dup = true
						}
					}
					if !dup {
						out = append(out, Closures(cf)...)
					}
				}
			}
		}
	}
	return out
}

// Root returns the outermost function that (transitively) creates the literal
// fn: for source as written its enclosing declared function; after flattening
// a literal of an inlined helper belongs to the function the helper was
// inlined into.
func Root(fn *ssa.Function) *ssa.Function {
	for d := 0; fn.Parent() != nil && d < 16; d++ {
		fn = CreatorOf(fn)
	}
	return fn
}

// CreatorOf returns the function whose code creates the literal fn (its
// syntactic parent unless fn came with an inlined helper), or nil for a
// declared function.
func CreatorOf(fn *ssa.Function) *ssa.Function {
	if fn.Parent() == nil {
		return nil
	}
	if current != nil {
		if mc := current.parents[fn]; mc != nil && mc.Parent() != nil {
			return mc.Parent()
		}
	}
	return fn.Parent()
}

// current is the program most recently loaded (Root and CreatorOf consult its
// closure creation sites).
var current *Prog

// Pos renders a position relative to the module directory.
func (p *Prog) Pos(pos token.Pos) string {
	if !pos.IsValid() {
		return "-"
	}
	ps := p.Fset.Position(pos)
	rel, err := filepath.Rel(p.Dir, ps.Filename)
	if err != nil || strings.HasPrefix(rel, "..") {
		rel = ps.Filename
	}
	return fmt.Sprintf("%s:%d", rel, ps.Line)
}

// InstrPos returns the best available position of an instruction.
func (p *Prog) InstrPos(in ssa.Instruction) string {
	if in == nil {
		return "-"
	}
	if pos := in.Pos(); pos.IsValid() {
		return p.Pos(pos)
	}
	if v, ok := in.(ssa.Value); ok {
		for _, op := range operandsOf(v) {
			if op != nil && op.Pos().IsValid() {
				return p.Pos(op.Pos())
			}
		}
	}
	b := in.Block()
	if b != nil {
		for _, x := range b.Instrs {
			if x.Pos().IsValid() {
				return p.Pos(x.Pos())
			}
		}
		if b.Parent() != nil {
			return p.Pos(b.Parent().Pos())
		}
	}
	return "-"
}

func operandsOf(v ssa.Value) []ssa.Value {
	in, ok := v.(ssa.Instruction)
	if !ok {
		return nil
	}
	var out []ssa.Value
	for _, o := range in.Operands(nil) {
		if o != nil && *o != nil {
			out = append(out, *o)
		}
	}
	return out
}

// FuncName is a short, stable, human-readable name for fn: module-local
// packages are reduced to their last path element and type arguments of
// instantiations are dropped.
func (p *Prog) FuncName(fn *ssa.Function) string {
	if fn == nil {
		return "<nil>"
	}
	if o := fn.Origin(); o != nil {
		fn = o
	}
	// (a renamed function is known to the rules by the name it is recorded under)
	if old, ok := p.renamedTo[fn]; ok {
		return old
	}
	return p.shorten(fn.String())
}

func (p *Prog) shorten(s string) string {
	s = p.rawShorten(s)
	if p.typeAliasRe != nil {
		s = p.typeAliasRe.ReplaceAllStringFunc(s, func(m string) string { return p.typeAlias[m] })
	}
	return s
}

func (p *Prog) rawShorten(s string) string {
	if p.ModPath != "" {
		s = strings.ReplaceAll(s, p.ModPath+"/internal/hpke", "hpke")
		s = strings.ReplaceAll(s, p.ModPath+"/dns", "dns")
		s = strings.ReplaceAll(s, p.ModPath+"/publish", "publish")
		s = strings.ReplaceAll(s, p.ModPath, lastElem(p.ModPath))
	}
	s = strings.ReplaceAll(s, "github.com/c2FmZQ/ech/internal/hpke", "hpke")
	s = strings.ReplaceAll(s, "github.com/c2FmZQ/ech/publish", "publish")
	s = strings.ReplaceAll(s, "github.com/c2FmZQ/ech/dns", "dns")
	s = strings.ReplaceAll(s, "github.com/c2FmZQ/ech", "ech")
	s = strings.ReplaceAll(s, "golang.org/x/crypto/cryptobyte", "cryptobyte")
	s = strings.ReplaceAll(s, "github.com/hashicorp/golang-lru/v2", "lru")
	s = strings.ReplaceAll(s, "github.com/hashicorp/go-retryablehttp", "retryablehttp")
	return s
}

func lastElem(s string) string {
	if i := strings.LastIndex(s, "/"); i >= 0 {
		return s[i+1:]
	}
	return s
}

// FileOf returns the syntax file containing pos, and its package.
func (p *Prog) FileOf(pos token.Pos) (*ast.File, *packages.Package) {
	for _, pk := range p.Pkgs {
		for _, f := range pk.Syntax {
			if f.Pos() <= pos && pos <= f.End() {
				return f, pk
			}
		}
	}
	return nil, nil
}

// FuncDecl finds the syntax of a declared function or method (name as in Func).
func (p *Prog) FuncDecl(pkgPath, name string) (*ast.FuncDecl, *packages.Package) {
	pk := p.PkgByP[pkgPath]
	if pk == nil {
		return nil, nil
	}
	recv, meth := "", name
	if strings.HasPrefix(name, "(") {
		end := strings.Index(name, ").")
		recv, meth = strings.TrimPrefix(name[1:end], "*"), name[end+2:]
	}
	for _, f := range pk.Syntax {
		for _, d := range f.Decls {
			fd, ok := d.(*ast.FuncDecl)
			if !ok || fd.Name.Name != meth {
				continue
			}
			if recv == "" && fd.Recv == nil {
				return fd, pk
			}
			if recv != "" && fd.Recv != nil && len(fd.Recv.List) == 1 {
				t := fd.Recv.List[0].Type
				if s, ok := t.(*ast.StarExpr); ok {
					t = s.X
				}
				if ix, ok := t.(*ast.IndexExpr); ok {
					t = ix.X
				}
				if id, ok := t.(*ast.Ident); ok && id.Name == recv {
					return fd, pk
				}
			}
		}
	}
	return nil, nil
}

// DynCallees returns the functions a dynamic call (interface method call or
// call through a function value) may reach according to the VTA call graph
// (variable type analysis seeded with CHA) of the whole program. Computed on
// first use; used by the thorough tier to widen reachability scopes.
func (p *Prog) DynCallees(site ssa.CallInstruction) []*ssa.Function {
	if p.vtaEdges == nil {
		p.vtaEdges = map[ssa.CallInstruction][]*ssa.Function{}
		g := vta.CallGraph(ssautil.AllFunctions(p.SSA), cha.CallGraph(p.SSA))
		for _, n := range g.Nodes {
			for _, e := range n.Out {
				if e.Site != nil && e.Callee != nil && e.Callee.Func != nil {
					p.vtaEdges[e.Site] = append(p.vtaEdges[e.Site], e.Callee.Func)
				}
			}
		}
	}
	return p.vtaEdges[site]
}

// IsAnchor reports whether f (or the declared function that encloses it) is
// one of the functions the rule sets are anchored at.
func (p *Prog) IsAnchor(f *ssa.Function) bool { return p.isAnchorFn(f) }

func (p *Prog) isAnchorFn(f *ssa.Function) bool {
	if p.anchors == nil || f == nil {
		return true
	}
	for f.Parent() != nil {
		f = f.Parent()
	}
	return p.anchors[p.AnchorName(f)]
}

// DeadLiteral reports whether f is a function literal that flattening left
// without a creator: every call of it was inlined, so its body is looked at
// through those copies only.
func (p *Prog) DeadLiteral(f *ssa.Function) bool { return p.deadLits[f] }
