package core

import (
	"regexp"
	"strings"

	"verif/third_party/xtools/go/ssa"
)

// Fact is a guard in normal form: a comparison with the polarity folded into
// the operator and a constant (if any) on the right, or a bare boolean term.
type Fact struct {
	Op   string // == != < <= > >= true false
	L, R *Expr  // R is nil for true/false
	G    Guard
}

func (f Fact) String() string {
	switch f.Op {
	case "true":
		return f.L.String()
	case "false":
		return "¬" + f.L.String()
	}
	return f.L.String() + " " + f.Op + " " + f.R.String()
}

var negOp = map[string]string{"==": "!=", "!=": "==", "<": ">=", ">=": "<", ">": "<=", "<=": ">"}
var swapOp = map[string]string{"==": "==", "!=": "!=", "<": ">", ">": "<", "<=": ">=", ">=": "<="}

// FactOf normalises one guard.
func (p *Prog) FactOf(g Guard) Fact {
	e := p.X(g.Cond)
	return p.factOfExpr(e, g.Pol, g)
}

func (p *Prog) factOfExpr(e *Expr, pol bool, g Guard) Fact {
	for e.Op == "un" && e.Name == "!" {
		e, pol = e.Args[0], !pol
	}
	if e.Op == "bin" {
		if _, ok := negOp[e.Name]; ok {
			op, l, r := e.Name, e.Args[0], e.Args[1]
			if !pol {
				op = negOp[op]
			}
			if l.Op == "const" && r.Op != "const" {
				l, r, op = r, l, swapOp[op]
			}
			// a boolean compared with a constant
			if r.Op == "const" && (r.Name == "true" || r.Name == "false") && (op == "==" || op == "!=") {
				return p.factOfExpr(l, (r.Name == "true") == (op == "=="), g)
			}
			op, l, r = normCompare(op, l, r)
			return Fact{Op: op, L: l, R: r, G: g}
		}
	}
	if pol {
		return Fact{Op: "true", L: e, G: g}
	}
	return Fact{Op: "false", L: e, G: g}
}

// Facts returns the normalised guards of a block.
func (p *Prog) Facts(b *ssa.BasicBlock) []Fact {
	var out []Fact
	for _, g := range Guards(b) {
		out = append(out, p.FactOf(g))
	}
	return out
}

// EdgeFacts returns the normalised guards known on the edge from→to.
func (p *Prog) EdgeFacts(from, to *ssa.BasicBlock) []Fact {
	var out []Fact
	for _, g := range EdgeGuards(from, to) {
		out = append(out, p.FactOf(g))
	}
	return out
}

// FactStrings renders facts for reports.
func FactStrings(fs []Fact) string {
	var s []string
	for _, f := range fs {
		s = append(s, f.String())
	}
	return strings.Join(s, " ∧ ")
}

// HasFact reports whether some fact has operator op (any of the "|"-separated
// alternatives) and its sides match the regular expressions l and r (r is
// ignored for true/false facts). Expressions are matched on their canonical
// rendering, anchored.
func HasFact(fs []Fact, op, l, r string) bool {
	return FindFact(fs, op, l, r) != nil
}

func FindFact(fs []Fact, op, l, r string) *Fact {
	ops := strings.Split(op, "|")
	lre := regexp.MustCompile("^(?:" + l + ")$")
	var rre *regexp.Regexp
	if r != "" {
		rre = regexp.MustCompile("^(?:" + r + ")$")
	}
	for i := range fs {
		f := &fs[i]
		okOp := false
		for _, o := range ops {
			if o == f.Op {
				okOp = true
			}
		}
		if !okOp || !lre.MatchString(f.L.String()) {
			continue
		}
		if f.R != nil && rre != nil && !rre.MatchString(f.R.String()) {
			continue
		}
		return f
	}
	return nil
}

// Q quotes a literal for use inside the regular expressions of HasFact.
func Q(s string) string { return regexp.QuoteMeta(s) }

// normCompare folds equivalent spellings of a comparison into one:
// s == "" and s != "" become len(s) == 0 and len(s) > 0; for a length (never
// negative) != 0, >= 1 become > 0 and < 1, <= 0 become == 0.
func normCompare(op string, l, r *Expr) (string, *Expr, *Expr) {
	if r.Op == "const" && r.Name == `""` && (op == "==" || op == "!=") {
		l = &Expr{Op: "call", Name: "len", Args: []*Expr{l}}
		r = &Expr{Op: "const", Name: "0"}
		if op == "!=" {
			op = ">"
		}
		return op, l, r
	}
	if l.Op == "call" && l.Name == "len" && r.Op == "const" {
		switch {
		case r.Name == "0" && op == "!=":
			op = ">"
		case r.Name == "0" && op == "<=":
			op = "=="
		case r.Name == "1" && op == ">=":
			op, r = ">", &Expr{Op: "const", Name: "0"}
		case r.Name == "1" && op == "<":
			op, r = "==", &Expr{Op: "const", Name: "0"}
		}
	}
	return op, l, r
}

// Flipped returns the same comparison written the other way round (a < b as
// b > a); rules that look for one spelling try both.
func (f Fact) Flipped() Fact {
	if f.R == nil {
		return f
	}
	op, ok := swapOp[f.Op]
	if !ok {
		return f
	}
	return Fact{Op: op, L: f.R, R: f.L, G: f.G}
}
