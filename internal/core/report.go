package core

import (
	"bufio"
	"encoding/json"
	"fmt"
	"os"
	"path/filepath"
	"sort"
	"strings"
	"time"
)

// Ob is one obligation decided by a rule.
type Ob struct {
	Rule      string `json:"rule"`      // e.g. C04.G9
	Construct string `json:"construct"` // stable key: function role + what
	OK        bool   `json:"ok"`
	Undecided bool   `json:"undecided,omitempty"`
	Pos       string `json:"pos,omitempty"`
	Detail    string `json:"detail"`
}

// Run collects the outcome of one property's rule set on one tree.
type Run struct {
	Property string
	Tier     string
	Obs      []Ob
	Floors   map[string]int // rule -> minimum number of instances
	Funcs    map[string]bool
	Notes    []string
	Tables   map[string]any
	start    time.Time
}

func NewRun(property, tier string) *Run {
	return &Run{Property: property, Tier: tier, Floors: map[string]int{}, Funcs: map[string]bool{}, Tables: map[string]any{}, start: time.Now()}
}

// Check records an obligation.
func (r *Run) Check(rule, construct string, ok bool, pos, format string, args ...any) bool {
	r.Obs = append(r.Obs, Ob{Rule: rule, Construct: construct, OK: ok, Pos: pos, Detail: fmt.Sprintf(format, args...)})
	return ok
}

// Undecided records that a construct in a rule's scope could not be resolved
// or matched; this fails the check (DESIGN 2.2).
func (r *Run) Undecided(rule, construct, pos, format string, args ...any) {
	r.Obs = append(r.Obs, Ob{Rule: rule, Construct: construct, OK: false, Undecided: true, Pos: pos, Detail: "undecided: " + fmt.Sprintf(format, args...)})
}

// Floor demands at least n obligations for rule (anti-vacuity, DESIGN 2.3).
func (r *Run) Floor(rule string, n int) { r.Floors[rule] = n }

// Analysed notes a function that a rule looked at.
func (r *Run) Analysed(names ...string) {
	for _, n := range names {
		r.Funcs[n] = true
	}
}

func (r *Run) Note(format string, args ...any) {
	r.Notes = append(r.Notes, fmt.Sprintf(format, args...))
}

// Finalise turns unmet floors into failed obligations.
func (r *Run) Finalise() {
	count := map[string]int{}
	for _, o := range r.Obs {
		count[o.Rule]++
	}
	rules := make([]string, 0, len(r.Floors))
	for k := range r.Floors {
		rules = append(rules, k)
	}
	sort.Strings(rules)
	for _, rule := range rules {
		if count[rule] < r.Floors[rule] {
			r.Obs = append(r.Obs, Ob{Rule: rule, Construct: "floor", OK: false, Undecided: true,
				Detail: fmt.Sprintf("undecided: rule matched %d instances, expected at least %d (anti-vacuity floor)", count[rule], r.Floors[rule])})
		}
	}
}

// Failed returns the failed obligations.
func (r *Run) Failed() []Ob {
	var out []Ob
	for _, o := range r.Obs {
		if !o.OK {
			out = append(out, o)
		}
	}
	return out
}

// Finding is a line of known_findings.jsonl.
type Finding struct {
	Property  string `json:"property"`
	Rule      string `json:"rule"`
	Construct string `json:"construct"`
	Status    string `json:"status"` // open | fixed
	Commit    string `json:"commit,omitempty"`
	What      string `json:"what"`
}

func LoadFindings(path string) ([]Finding, error) {
	f, err := os.Open(path)
	if err != nil {
		if os.IsNotExist(err) {
			return nil, nil
		}
		return nil, err
	}
	defer f.Close()
	var out []Finding
	sc := bufio.NewScanner(f)
	sc.Buffer(make([]byte, 1<<20), 1<<20)
	for sc.Scan() {
		line := strings.TrimSpace(sc.Text())
		if line == "" {
			continue
		}
		var fd Finding
		if err := json.Unmarshal([]byte(line), &fd); err != nil {
			return nil, fmt.Errorf("%s: %w", path, err)
		}
		out = append(out, fd)
	}
	return out, sc.Err()
}

// Info describes a property's claim for the evidence file.
type Info struct {
	ID          string
	Explanation string
	Trusted     []string
	Assumptions []string
}

// Emit prints VIOLATION / KNOWN-FINDING lines, writes replay files and the
// evidence file, and returns the process exit status.
func (r *Run) Emit(verifDir string, info Info, findings []Finding, extra map[string]any) int {
	r.Finalise()
	evDir := filepath.Join(verifDir, "evidence")
	replayDir := filepath.Join(evDir, "replay")
	os.MkdirAll(replayDir, 0o755)
	// remove stale replay files of this property
	if old, _ := filepath.Glob(filepath.Join(replayDir, r.Property+"-*.json")); old != nil {
		for _, f := range old {
			os.Remove(f)
		}
	}
	open := map[string]Finding{}
	for _, f := range findings {
		if f.Property == r.Property && f.Status == "open" {
			open[f.Rule+"\x00"+f.Construct] = f
		}
	}
	violations, known := 0, 0
	for i, o := range r.Failed() {
		if f, ok := open[o.Rule+"\x00"+o.Construct]; ok {
			fmt.Printf("KNOWN-FINDING: property=%s %s\n", r.Property, f.What)
			known++
			continue
		}
		violations++
		name := fmt.Sprintf("%s-%s-%d.json", r.Property, sanitize(o.Rule), i)
		path := filepath.Join(replayDir, name)
		body, _ := json.MarshalIndent(map[string]any{
			"property": r.Property, "rule": o.Rule, "construct": o.Construct, "pos": o.Pos,
			"undecided": o.Undecided, "detail": o.Detail,
			"replay": fmt.Sprintf("./verif.sh quick %s --replay %s", r.Property, path),
		}, "", " ")
		os.WriteFile(path, body, 0o644)
		fmt.Printf("VIOLATION property=%s replay=%s\n", r.Property, path)
		fmt.Printf("  %s [%s] %s: %s\n", o.Rule, o.Construct, o.Pos, o.Detail)
	}
	perRule := map[string]map[string]int{}
	discharged := 0
	for _, o := range r.Obs {
		m := perRule[o.Rule]
		if m == nil {
			m = map[string]int{}
			perRule[o.Rule] = m
		}
		m["instances"]++
		if o.OK {
			m["discharged"]++
			discharged++
		}
	}
	for rule, fl := range r.Floors {
		if perRule[rule] == nil {
			perRule[rule] = map[string]int{}
		}
		perRule[rule]["floor"] = fl
	}
	samples := make([]Ob, 0, 12)
	seenRule := map[string]int{}
	for _, o := range r.Obs {
		if !o.OK || seenRule[o.Rule] < 2 {
			samples = append(samples, o)
			seenRule[o.Rule]++
		}
		if len(samples) >= 40 {
			break
		}
	}
	funcs := make([]string, 0, len(r.Funcs))
	for f := range r.Funcs {
		funcs = append(funcs, f)
	}
	sort.Strings(funcs)
	cov := map[string]any{
		"explanation":        info.Explanation,
		"obligations":        len(r.Obs),
		"discharged":         discharged,
		"rule_instances":     perRule,
		"functions_analysed": funcs,
		"samples":            samples,
		"checker_cmd":        fmt.Sprintf("./verif.sh %s %s", r.Tier, r.Property),
		"trusted_base":       info.Trusted,
		"known_findings":     known,
		"notes":              r.Notes,
	}
	if len(r.Tables) > 0 {
		cov["tables"] = r.Tables
	}
	for k, v := range extra {
		cov[k] = v
	}
	assumptions := append([]string{"the source files of /repo's working tree are what the Go toolchain builds (no build tags, no generated code)"}, info.Assumptions...)
	ev := map[string]any{
		"property_id": r.Property,
		"tier":        r.Tier,
		"seed":        0,
		"level":       "other",
		"coverage":    cov,
		"assumptions": assumptions,
		"wall_s":      time.Since(r.start).Seconds(),
		"violations":  violations,
	}
	body, _ := json.MarshalIndent(ev, "", " ")
	if err := os.WriteFile(filepath.Join(evDir, r.Property+".json"), body, 0o644); err != nil {
		fmt.Fprintf(os.Stderr, "cannot write evidence: %v\n", err)
		return 2
	}
	fmt.Printf("%s %s: %d obligations, %d discharged, %d violations, %d known findings, %d functions analysed, %.1fs\n",
		r.Property, r.Tier, len(r.Obs), discharged, violations, known, len(funcs), time.Since(r.start).Seconds())
	if violations > 0 {
		return 1
	}
	return 0
}

func sanitize(s string) string {
	return strings.Map(func(r rune) rune {
		if r >= 'a' && r <= 'z' || r >= 'A' && r <= 'Z' || r >= '0' && r <= '9' || r == '.' || r == '_' {
			return r
		}
		return '_'
	}, s)
}
