package core

import (
	"fmt"
	"go/types"
	"regexp"
	"sort"
	"strings"
)

// Renamed unexported struct types and fields. anchors.txt records, for every
// struct type of the tree the rules were written for, its fields in order with
// their types ("type<TAB>pkg.Name<TAB>field:type;field:type"). On a tree where
// a recorded field name is gone while the struct still has as many fields and
// the field in that place has the recorded type and a name the record does not
// know, that field was renamed: it answers to its old name (Expr field names,
// LookupField). A recorded type that is gone while exactly one unrecorded
// struct type of the package has the same sequence of field types was renamed.

type layoutField struct{ name, typ string }

var anchorLayouts map[string][]layoutField // "ech.cacheValue" -> fields

var anchorVars map[string]string // "ech.transportResolverKey" -> type

func parseLayoutLine(l string) {
	parts := strings.Split(l, "\t")
	if len(parts) == 3 && parts[0] == "var" {
		if anchorVars == nil {
			anchorVars = map[string]string{}
		}
		anchorVars[parts[1]] = parts[2]
		return
	}
	if len(parts) != 3 {
		return
	}
	var fs []layoutField
	for _, f := range strings.Split(parts[2], ";") {
		if i := strings.Index(f, ":"); i > 0 {
			fs = append(fs, layoutField{f[:i], f[i+1:]})
		}
	}
	if anchorLayouts == nil {
		anchorLayouts = map[string][]layoutField{}
	}
	anchorLayouts[parts[1]] = fs
}

// Layouts renders the struct layouts of the tree as it is (for anchors.txt).
func (p *Prog) Layouts() []string {
	var out []string
	for path, sp := range p.ByPath {
		scope := sp.Pkg.Scope()
		for _, n := range scope.Names() {
			tn, ok := scope.Lookup(n).(*types.TypeName)
			if !ok {
				continue
			}
			st, ok := tn.Type().Underlying().(*types.Struct)
			if !ok || st.NumFields() == 0 {
				continue
			}
			var fs []string
			for i := 0; i < st.NumFields(); i++ {
				fs = append(fs, st.Field(i).Name()+":"+p.rawShorten(types.TypeString(st.Field(i).Type(), nil)))
			}
			out = append(out, "type\t"+p.rawShorten(path)+"."+n+"\t"+strings.Join(fs, ";"))
		}
	}
	// unexported package-level variables (an exported one cannot be renamed
	// without changing the API)
	for path, sp := range p.ByPath {
		scope := sp.Pkg.Scope()
		for _, n := range scope.Names() {
			if v, ok := scope.Lookup(n).(*types.Var); ok && !v.Exported() {
				out = append(out, "var\t"+p.rawShorten(path)+"."+n+"\t"+p.rawShorten(types.TypeString(v.Type(), nil)))
			}
		}
	}
	sort.Strings(out)
	return out
}

func (p *Prog) resolveLayouts() []string {
	if len(anchorLayouts) == 0 {
		return nil
	}
	var log []string
	p.fieldAlias = map[*types.Var]string{}
	p.typeAlias = map[string]string{}
	p.varAlias = map[*types.Var]string{}
	defer func() {
		// variables: a recorded one that is gone, and exactly one unrecorded
		// variable of the package with its type
		for path, sp := range p.ByPath {
			short := p.rawShorten(path)
			scope := sp.Pkg.Scope()
			for old, typ := range anchorVars {
				if !strings.HasPrefix(old, short+".") || scope.Lookup(old[len(short)+1:]) != nil {
					continue
				}
				var cands []*types.Var
				for _, n := range scope.Names() {
					v, ok := scope.Lookup(n).(*types.Var)
					if !ok || v.Exported() {
						continue
					}
					if _, known := anchorVars[short+"."+n]; known {
						continue
					}
					if p.shorten(types.TypeString(v.Type(), nil)) == typ {
						cands = append(cands, v)
					}
				}
				if len(cands) == 1 {
					p.varAlias[cands[0]] = old[len(short)+1:]
				}
			}
		}
	}()
	for path, sp := range p.ByPath {
		short := p.rawShorten(path)
		scope := sp.Pkg.Scope()
		structs := map[string]*types.Struct{}
		for _, n := range scope.Names() {
			if tn, ok := scope.Lookup(n).(*types.TypeName); ok {
				if st, ok := tn.Type().Underlying().(*types.Struct); ok {
					structs[n] = st
				}
			}
		}
		sig := func(st *types.Struct) string {
			var ts []string
			for i := 0; i < st.NumFields(); i++ {
				ts = append(ts, p.rawShorten(types.TypeString(st.Field(i).Type(), nil)))
			}
			return strings.Join(ts, ";")
		}
		var recorded []string
		for name := range anchorLayouts {
			if strings.HasPrefix(name, short+".") && !strings.Contains(name[len(short)+1:], ".") {
				recorded = append(recorded, name)
			}
		}
		sort.Strings(recorded)
		for _, full := range recorded {
			old := full[len(short)+1:]
			rec := anchorLayouts[full]
			st := structs[old]
			if st == nil {
				// the type was renamed?
				var ts []string
				for _, f := range rec {
					ts = append(ts, f.typ)
				}
				want := strings.Join(ts, ";")
				var cands []string
				for n, s := range structs {
					if _, known := anchorLayouts[short+"."+n]; known {
						continue
					}
					// (field types that mention the renamed type itself differ by that name)
					if strings.ReplaceAll(sig(s), short+"."+n, full) == want {
						cands = append(cands, n)
					}
				}
				if len(cands) != 1 {
					continue
				}
				p.typeAlias[short+"."+cands[0]] = full
				log = append(log, fmt.Sprintf("type %s.%s answers to the recorded name %s (same field types, the only candidate)", short, cands[0], full))
				st = structs[cands[0]]
			}
			if st.NumFields() != len(rec) {
				continue
			}
			known := map[string]bool{}
			for _, f := range rec {
				known[f.name] = true
			}
			have := map[string]bool{}
			for i := 0; i < st.NumFields(); i++ {
				have[st.Field(i).Name()] = true
			}
			for i, f := range rec {
				cur := st.Field(i)
				if have[f.name] || known[cur.Name()] {
					continue
				}
				ct := p.rawShorten(types.TypeString(cur.Type(), nil))
				for nw, od := range p.typeAlias {
					ct = strings.ReplaceAll(ct, nw, od)
				}
				if ct != f.typ {
					continue
				}
				p.fieldAlias[cur] = f.name
				log = append(log, fmt.Sprintf("field %s.%s answers to the recorded name %s (same place, same type)", full, cur.Name(), f.name))
			}
		}
	}
	if len(p.typeAlias) > 0 {
		var alts []string
		for nw := range p.typeAlias {
			alts = append(alts, regexp.QuoteMeta(nw))
		}
		sort.Strings(alts)
		p.typeAliasRe = regexp.MustCompile(`\b(` + strings.Join(alts, "|") + `)\b`)
	}
	sort.Strings(log)
	return log
}

// VarName: the name rules know a package-level variable by.
func (p *Prog) VarName(v types.Object) string {
	if tv, ok := v.(*types.Var); ok {
		if old, ok := p.varAlias[tv]; ok {
			return old
		}
	}
	return v.Name()
}

// FieldName: the name rules know a struct field by (its recorded name if it
// was renamed).
func (p *Prog) FieldName(v *types.Var) string {
	if old, ok := p.fieldAlias[v]; ok {
		return old
	}
	return v.Name()
}

// LookupField finds a field of a named struct type of the module by the names
// the rules know them by.
func (p *Prog) LookupField(pkgPath, typ, name string) *types.Var {
	sp := p.ByPath[pkgPath]
	if sp == nil {
		return nil
	}
	tn, _ := sp.Pkg.Scope().Lookup(typ).(*types.TypeName)
	if tn == nil {
		short := p.rawShorten(pkgPath)
		for nw, od := range p.typeAlias {
			if od == short+"."+typ {
				tn, _ = sp.Pkg.Scope().Lookup(strings.TrimPrefix(nw, short+".")).(*types.TypeName)
			}
		}
	}
	if tn == nil {
		return nil
	}
	st, ok := tn.Type().Underlying().(*types.Struct)
	if !ok {
		return nil
	}
	for i := 0; i < st.NumFields(); i++ {
		if p.FieldName(st.Field(i)) == name {
			return st.Field(i)
		}
	}
	return nil
}
