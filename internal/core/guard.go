package core

import (
	"go/constant"
	"go/token"
	"go/types"

	"verif/third_party/xtools/go/ssa"
)

// A Guard is a branch decision that every execution reaching a block has
// taken: the edge If→successor dominates the block.
type Guard struct {
	Cond ssa.Value // the (negation-stripped) condition value
	Pol  bool      // the truth value Cond had on the edge
	If   *ssa.If
}

// Guards returns the necessary branch decisions of b, innermost first. An
// edge A→S counts when S dominates b and every other predecessor of S is
// dominated by S (loop back edges), so each path to b ran through A→S.
// Conditions that are φ-encoded short-circuit values (x := a && b) are
// expanded into their components.
func Guards(b *ssa.BasicBlock) []Guard {
	var out []Guard
	seenPhi := map[*ssa.Phi]bool{}
	for s := b; s != nil; s = s.Idom() {
		var fwd *ssa.BasicBlock
		n := 0
		for _, pr := range s.Preds {
			if s.Dominates(pr) {
				continue // back edge
			}
			fwd = pr
			n++
		}
		if n != 1 || len(fwd.Instrs) == 0 {
			continue
		}
		iff, ok := fwd.Instrs[len(fwd.Instrs)-1].(*ssa.If)
		if !ok || fwd.Succs[0] == fwd.Succs[1] {
			continue
		}
		out = append(out, expandCond(iff.Cond, fwd.Succs[0] == s, iff, seenPhi)...)
	}
	return out
}

// EdgeGuards returns what is known when the edge from→to is taken: the
// decision of that edge itself (if from ends in an If) plus Guards(from).
func EdgeGuards(from, to *ssa.BasicBlock) []Guard {
	var out []Guard
	if len(from.Instrs) > 0 {
		if iff, ok := from.Instrs[len(from.Instrs)-1].(*ssa.If); ok && from.Succs[0] != from.Succs[1] {
			out = append(out, expandCond(iff.Cond, from.Succs[0] == to, iff, map[*ssa.Phi]bool{})...)
		}
	}
	return append(out, Guards(from)...)
}

func expandCond(c ssa.Value, pol bool, iff *ssa.If, seen map[*ssa.Phi]bool) []Guard {
	for {
		u, ok := c.(*ssa.UnOp)
		if !ok || u.Op != token.NOT {
			break
		}
		c, pol = u.X, !pol
	}
	out := []Guard{{Cond: c, Pol: pol, If: iff}}
	if bo, isBin := c.(*ssa.BinOp); isBin && (bo.Op == token.EQL || bo.Op == token.NEQ) {
		out = append(out, expandNilTest(bo, pol, seen)...)
		return out
	}
	phi, ok := c.(*ssa.Phi)
	if !ok || seen[phi] {
		return out
	}
	seen[phi] = true
	// x := a && b  ==>  phi [false (a false), b]   : x true  => b true and a true
	// x := a || b  ==>  phi [true  (a true),  b]   : x false => b false and a false
	var other ssa.Value
	var otherPred *ssa.BasicBlock
	n := 0
	for i, e := range phi.Edges {
		if k, ok := e.(*ssa.Const); ok && k.Value != nil && k.Value.Kind() == constant.Bool && constant.BoolVal(k.Value) != pol {
			continue
		}
		// (on a pruned view the ways in that the assumptions rule out do not count)
		if curView != nil && !curView.edgeLive(phi.Block().Preds[i], phi.Block()) {
			continue
		}
		other, otherPred = e, phi.Block().Preds[i]
		n++
	}
	if n != 1 {
		return out
	}
	if k, ok := other.(*ssa.Const); ok && k.Value != nil && k.Value.Kind() == constant.Bool {
		_ = k
	} else {
		out = append(out, expandCond(other, pol, iff, seen)...)
	}
	for _, g := range EdgeGuards(otherPred, phi.Block()) {
		out = append(out, g)
	}
	return out
}

// Reachable returns the blocks reachable from b (including b) without
// passing through any block in stop.
func Reachable(b *ssa.BasicBlock, stop map[*ssa.BasicBlock]bool) map[*ssa.BasicBlock]bool {
	seen := map[*ssa.BasicBlock]bool{}
	var walk func(x *ssa.BasicBlock)
	walk = func(x *ssa.BasicBlock) {
		if seen[x] || stop[x] {
			return
		}
		seen[x] = true
		for _, s := range x.Succs {
			walk(s)
		}
	}
	walk(b)
	return seen
}

// CanReach reports whether to is reachable from from (from == to counts only
// through a cycle unless reflexive is set).
func CanReach(from, to *ssa.BasicBlock) bool {
	seen := map[*ssa.BasicBlock]bool{}
	var walk func(x *ssa.BasicBlock) bool
	walk = func(x *ssa.BasicBlock) bool {
		for _, s := range x.Succs {
			if s == to {
				return true
			}
			if !seen[s] {
				seen[s] = true
				if walk(s) {
					return true
				}
			}
		}
		return false
	}
	return walk(from)
}

// InstrIndex returns the index of in within its block.
func InstrIndex(in ssa.Instruction) int {
	for i, x := range in.Block().Instrs {
		if x == in {
			return i
		}
	}
	return -1
}

// Before reports whether instruction a is executed before b on every path
// that reaches b: a's block strictly dominates b's, or they share a block and
// a comes first.
func Before(a, b ssa.Instruction) bool {
	ba, bb := a.Block(), b.Block()
	if ba == bb {
		return InstrIndex(a) < InstrIndex(b)
	}
	return ba.Dominates(bb)
}

// MayFollow reports whether b may execute after a (same block later, or a
// CFG path from a's block to b's).
func MayFollow(a, b ssa.Instruction) bool {
	ba, bb := a.Block(), b.Block()
	if ba == bb && InstrIndex(a) < InstrIndex(b) {
		return true
	}
	return CanReach(ba, bb)
}

// MayFollowOn reports whether b may execute after a on the same object al: a
// local variable declared inside a loop is a new object each time round, so
// a way from a to b that passes the variable's own allocation does not count.
func MayFollowOn(al *ssa.Alloc, a, b ssa.Instruction) bool {
	ba, bb := a.Block(), b.Block()
	if ba == bb && InstrIndex(a) < InstrIndex(b) {
		return true
	}
	if al == nil || al.Block() == nil || al.Parent() != a.Parent() {
		return MayFollow(a, b)
	}
	stop := map[*ssa.BasicBlock]bool{al.Block(): true}
	for _, s := range ba.Succs {
		if Reachable(s, stop)[bb] {
			return true
		}
	}
	return false
}

// Returns lists the return instructions of fn.
func Returns(fn *ssa.Function) []*ssa.Return {
	var out []*ssa.Return
	for _, b := range fn.Blocks {
		if len(b.Instrs) == 0 || b == fn.Recover {
			continue // the recover block is only entered after a recovered panic
		}
		if r, ok := b.Instrs[len(b.Instrs)-1].(*ssa.Return); ok {
			out = append(out, r)
		}
	}
	return out
}

// Loops returns the natural loops of fn: header block → set of body blocks.
func Loops(fn *ssa.Function) map[*ssa.BasicBlock]map[*ssa.BasicBlock]bool {
	loops := map[*ssa.BasicBlock]map[*ssa.BasicBlock]bool{}
	for _, b := range fn.Blocks {
		for _, s := range b.Succs {
			if s.Dominates(b) { // back edge b -> s
				body := loops[s]
				if body == nil {
					body = map[*ssa.BasicBlock]bool{s: true}
					loops[s] = body
				}
				var walk func(x *ssa.BasicBlock)
				walk = func(x *ssa.BasicBlock) {
					if body[x] {
						return
					}
					body[x] = true
					for _, p := range x.Preds {
						walk(p)
					}
				}
				walk(b)
			}
		}
	}
	return loops
}

// HasIrreducible reports a retreating edge whose target does not dominate its
// source (goto into a loop); analyses based on natural loops refuse such code.
func HasIrreducible(fn *ssa.Function) bool {
	state := map[*ssa.BasicBlock]int{}
	bad := false
	var dfs func(b *ssa.BasicBlock)
	dfs = func(b *ssa.BasicBlock) {
		state[b] = 1
		for _, s := range b.Succs {
			switch state[s] {
			case 0:
				dfs(s)
			case 1:
				if !s.Dominates(b) {
					bad = true
				}
			}
		}
		state[b] = 2
	}
	if len(fn.Blocks) > 0 {
		dfs(fn.Blocks[0])
	}
	return bad
}

// PrunedCFG is a view of a function's control-flow graph with some edges
// removed (for example the false edge of `if isRetry` to study the retry
// case only). Dominators are recomputed on the view.
type PrunedCFG struct {
	Fn    *ssa.Function
	keep  func(from *ssa.BasicBlock, succ int) bool
	idom  map[*ssa.BasicBlock]*ssa.BasicBlock
	live  map[*ssa.BasicBlock]bool
	preds map[*ssa.BasicBlock][]*ssa.BasicBlock
}

// Prune builds the view; keep(from, i) tells whether the edge from→from.Succs[i] stays.
func Prune(fn *ssa.Function, keep func(from *ssa.BasicBlock, succ int) bool) *PrunedCFG {
	c := &PrunedCFG{Fn: fn, keep: keep, idom: map[*ssa.BasicBlock]*ssa.BasicBlock{}, live: map[*ssa.BasicBlock]bool{}, preds: map[*ssa.BasicBlock][]*ssa.BasicBlock{}}
	if len(fn.Blocks) == 0 {
		return c
	}
	entry := fn.Blocks[0]
	// reverse post-order over kept edges
	var order []*ssa.BasicBlock
	var dfs func(b *ssa.BasicBlock)
	dfs = func(b *ssa.BasicBlock) {
		c.live[b] = true
		for i, s := range b.Succs {
			if !keep(b, i) {
				continue
			}
			c.preds[s] = append(c.preds[s], b)
			if !c.live[s] {
				dfs(s)
			}
		}
		order = append(order, b)
	}
	dfs(entry)
	for i, j := 0, len(order)-1; i < j; i, j = i+1, j-1 {
		order[i], order[j] = order[j], order[i]
	}
	num := map[*ssa.BasicBlock]int{}
	for i, b := range order {
		num[b] = i
	}
	c.idom[entry] = entry
	intersect := func(a, b *ssa.BasicBlock) *ssa.BasicBlock {
		for a != b {
			for num[a] > num[b] {
				a = c.idom[a]
			}
			for num[b] > num[a] {
				b = c.idom[b]
			}
		}
		return a
	}
	for changed := true; changed; {
		changed = false
		for _, b := range order[1:] {
			var nd *ssa.BasicBlock
			for _, pr := range c.preds[b] {
				if c.idom[pr] == nil {
					continue
				}
				if nd == nil {
					nd = pr
				} else {
					nd = intersect(pr, nd)
				}
			}
			if nd != nil && c.idom[b] != nd {
				c.idom[b] = nd
				changed = true
			}
		}
	}
	return c
}

// Live reports whether b is reachable in the view.
func (c *PrunedCFG) Live(b *ssa.BasicBlock) bool { return c.live[b] }

// Dominates reports dominance in the view.
func (c *PrunedCFG) Dominates(a, b *ssa.BasicBlock) bool {
	if !c.live[a] || !c.live[b] {
		return false
	}
	for {
		if a == b {
			return true
		}
		n := c.idom[b]
		if n == nil || n == b {
			return false
		}
		b = n
	}
}

// Guards is Guards(b) computed on the view.
func (c *PrunedCFG) Guards(b *ssa.BasicBlock) []Guard {
	var out []Guard
	if !c.live[b] {
		return nil
	}
	seenPhi := map[*ssa.Phi]bool{}
	old := curView
	curView = c
	defer func() { curView = old }()
	for s := b; ; {
		var fwd *ssa.BasicBlock
		n := 0
		for _, pr := range c.preds[s] {
			if c.Dominates(s, pr) {
				continue
			}
			fwd = pr
			n++
		}
		if n == 1 && len(fwd.Instrs) > 0 {
			if iff, ok := fwd.Instrs[len(fwd.Instrs)-1].(*ssa.If); ok && fwd.Succs[0] != fwd.Succs[1] {
				out = append(out, expandCond(iff.Cond, fwd.Succs[0] == s, iff, seenPhi)...)
			}
		}
		nx := c.idom[s]
		if nx == nil || nx == s {
			break
		}
		s = nx
	}
	return out
}

// curView is the pruned view whose guards are being computed (nil: the whole graph).
var curView *PrunedCFG

// EdgeLive reports whether the view keeps an edge from a live block from to to.
func (c *PrunedCFG) EdgeLive(from, to *ssa.BasicBlock) bool { return c.edgeLive(from, to) }

func (c *PrunedCFG) edgeLive(from, to *ssa.BasicBlock) bool {
	if !c.live[from] {
		return false
	}
	for i, s := range from.Succs {
		if s == to && c.keep(from, i) {
			return true
		}
	}
	return false
}

// ReachableFrom returns the blocks reachable from b over kept edges.
func (c *PrunedCFG) ReachableFrom(b *ssa.BasicBlock) map[*ssa.BasicBlock]bool {
	seen := map[*ssa.BasicBlock]bool{}
	var walk func(x *ssa.BasicBlock)
	walk = func(x *ssa.BasicBlock) {
		if seen[x] {
			return
		}
		seen[x] = true
		for i, s := range x.Succs {
			if c.keep(x, i) {
				walk(s)
			}
		}
	}
	walk(b)
	return seen
}

// ReachableAvoiding returns the blocks reachable from b over kept edges
// without entering a block of avoid (b itself is entered whatever it is).
func (c *PrunedCFG) ReachableAvoiding(b *ssa.BasicBlock, avoid map[*ssa.BasicBlock]bool) map[*ssa.BasicBlock]bool {
	seen := map[*ssa.BasicBlock]bool{}
	var walk func(x *ssa.BasicBlock, first bool)
	walk = func(x *ssa.BasicBlock, first bool) {
		if seen[x] || (!first && avoid[x]) {
			return
		}
		seen[x] = true
		for i, s := range x.Succs {
			if c.keep(x, i) {
				walk(s, false)
			}
		}
	}
	walk(b, true)
	return seen
}

// expandNilTest: a test "φ == nil" / "φ != nil" with a known outcome rules
// out the edges of φ whose value is known to be of the other kind (a constant
// nil, a sentinel error variable, a freshly made interface value, or a value
// the edge itself has just compared with nil). What all remaining edges agree
// on is known as well:
//
//	if err == nil && n != sz { err = io.ErrShortWrite }
//	if err != nil { return }        // here: err == nil came in through the edge
//	                                // on which n == sz held
var nilActive = map[*ssa.Phi]bool{}

func expandNilTest(bo *ssa.BinOp, pol bool, seen map[*ssa.Phi]bool) []Guard {
	var phi *ssa.Phi
	var other ssa.Value
	if p, ok := bo.X.(*ssa.Phi); ok {
		phi, other = p, bo.Y
	} else if p, ok := bo.Y.(*ssa.Phi); ok {
		phi, other = p, bo.X
	}
	k, isConst := other.(*ssa.Const)
	if phi == nil || !isConst || k.Value != nil || seen[phi] {
		return nil
	}
	seen[phi] = true
	// (a φ at a loop head whose test guards the way round: the guards of its
	// edges ask for this very expansion again)
	if nilActive[phi] {
		return nil
	}
	nilActive[phi] = true
	defer delete(nilActive, phi)
	wantNil := (bo.Op == token.EQL) == pol
	var feasible [][]Guard
	for i, e := range phi.Edges {
		pred := phi.Block().Preds[i]
		eg := EdgeGuards(pred, phi.Block())
		kind := nilKind(e)
		for _, g := range eg {
			if b2, ok := g.Cond.(*ssa.BinOp); ok && (b2.Op == token.EQL || b2.Op == token.NEQ) {
				var o ssa.Value
				switch {
				case b2.X == e:
					o = b2.Y
				case b2.Y == e:
					o = b2.X
				default:
					continue
				}
				if c2, ok := o.(*ssa.Const); ok && c2.Value == nil {
					if (b2.Op == token.EQL) == g.Pol {
						kind = 1
					} else {
						kind = 2
					}
				}
			}
		}
		if kind == 1 && !wantNil || kind == 2 && wantNil {
			continue
		}
		feasible = append(feasible, eg)
	}
	if len(feasible) == 0 || len(feasible) == len(phi.Edges) {
		return nil
	}
	// what every feasible edge guarantees
	var out []Guard
	for _, g := range feasible[0] {
		all := true
		for _, fg := range feasible[1:] {
			has := false
			for _, h := range fg {
				if h.Cond == g.Cond && h.Pol == g.Pol {
					has = true
				}
			}
			if !has {
				all = false
			}
		}
		if all {
			out = append(out, g)
		}
	}
	return out
}

// nilKind: 1 = certainly nil, 2 = certainly not nil, 0 = unknown.
func nilKind(v ssa.Value) int {
	switch x := v.(type) {
	case *ssa.Const:
		if x.Value == nil {
			return 1
		}
	case *ssa.MakeInterface, *ssa.Alloc, *ssa.MakeClosure, *ssa.MakeMap, *ssa.MakeChan, *ssa.MakeSlice, *ssa.FieldAddr, *ssa.IndexAddr, *ssa.Function:
		return 2
	case *ssa.UnOp:
		if g, ok := x.X.(*ssa.Global); ok && x.Op == token.MUL && current != nil {
			if current.sentinels == nil {
				current.sentinels = current.sentinelGlobals()
			}
			if current.sentinels[g] || isStdSentinel(g) {
				return 2
			}
		}
	case *ssa.Call:
		if c := x.Call.StaticCallee(); c != nil {
			switch c.String() {
			case "errors.New", "fmt.Errorf":
				return 2
			}
		}
	}
	return 0
}

// isStdSentinel: exported error variables of the standard library (io.EOF,
// io.ErrShortWrite, ...) are initialised once with errors.New.
func isStdSentinel(g *ssa.Global) bool {
	if g.Pkg == nil || g.Object() == nil || !g.Object().Exported() {
		return false
	}
	pt, ok := g.Type().(*types.Pointer)
	if !ok || pt.Elem().String() != "error" {
		return false
	}
	switch g.Pkg.Pkg.Path() {
	case "io", "errors", "os", "net", "context", "io/fs", "net/http", "crypto/tls", "bufio", "bytes", "strings":
		return true
	}
	return false
}
