package props

import (
	"go/constant"
	"go/token"
	"go/types"
	"regexp"
	"sort"
	"strconv"
	"strings"

	"verif/third_party/xtools/go/ssa"

	"verif/internal/core"
)

// site is a call (call, go or defer) with its canonical expression.
type site struct {
	Fn    *ssa.Function
	Instr ssa.CallInstruction
	X     *core.Expr // Op "call": Name, Args (receiver first)
}

func (s site) Block() *ssa.BasicBlock { return s.Instr.Block() }

// callSites returns the calls in fns whose callee name matches re (anchored).
func callSites(p *core.Prog, fns []*ssa.Function, re string) []site {
	rx := regexp.MustCompile("^(?:" + re + ")$")
	var out []site
	for _, fn := range fns {
		for _, b := range fn.Blocks {
			for _, in := range b.Instrs {
				ci, ok := in.(ssa.CallInstruction)
				if !ok {
					continue
				}
				x := callX(p, ci)
				if rx.MatchString(x.Name) {
					out = append(out, site{Fn: fn, Instr: ci, X: x})
				}
			}
		}
	}
	return out
}

// callX renders any call instruction (call, go, defer).
func callX(p *core.Prog, ci ssa.CallInstruction) *core.Expr {
	if v, ok := ci.(*ssa.Call); ok {
		return p.X(v)
	}
	return p.CallExpr(ci)
}

// allCalls lists every call instruction of fns.
func allCalls(p *core.Prog, fns []*ssa.Function) []site {
	return callSites(p, fns, ".*")
}

// reachableFuncs returns fn, its literals, and every module function
// statically callable from them (transitively), literals included.
// deepCalls widens reachableFuncs with the VTA call graph (thorough tier).
var deepCalls bool

func reachableFuncs(p *core.Prog, roots ...*ssa.Function) []*ssa.Function {
	seen := map[*ssa.Function]bool{}
	var order []*ssa.Function
	var visit func(f *ssa.Function)
	visit = func(f *ssa.Function) {
		if f == nil || seen[f] || f.Blocks == nil {
			return
		}
		if o := f.Origin(); o != nil && o.Blocks != nil {
			f = o
			if seen[f] {
				return
			}
		}
		if f.Pkg == nil || !inModule(p, f) {
			return
		}
		seen[f] = true
		order = append(order, f)
		for _, a := range f.AnonFuncs {
			// (a literal all of whose calls were inlined is seen through its copies)
			if !p.DeadLiteral(a) {
				visit(a)
			}
		}
		for _, b := range f.Blocks {
			for _, in := range b.Instrs {
				ci, ok := in.(ssa.CallInstruction)
				if !ok {
					continue
				}
				c := ci.Common()
				if c.IsInvoke() {
					continue
				}
				if g := p.ResolveFuncValue(c.Value); g != nil {
					visit(g)
				}
				for _, a := range c.Args {
					if g := p.ResolveFuncValue(a); g != nil {
						visit(g)
					}
				}
			}
		}
	}
	for _, r := range roots {
		visit(r)
	}
	return order
}

func inModule(p *core.Prog, f *ssa.Function) bool {
	if f.Pkg == nil {
		if f.Parent() != nil {
			return inModule(p, f.Parent())
		}
		return false
	}
	_, ok := p.ByPath[f.Pkg.Pkg.Path()]
	return ok
}

func funcNames(p *core.Prog, fns []*ssa.Function) []string {
	var out []string
	for _, f := range fns {
		out = append(out, p.FuncName(f))
	}
	sort.Strings(out)
	return out
}

// field looks up a struct field object by package, type and field name.
func field(p *core.Prog, pkg, typ, name string) *types.Var {
	if v := p.LookupField(pkg, typ, name); v != nil {
		return v
	}
	sp := p.ByPath[pkg]
	if sp == nil {
		return nil
	}
	tn, ok := sp.Pkg.Scope().Lookup(typ).(*types.TypeName)
	if !ok {
		return nil
	}
	st, ok := tn.Type().Underlying().(*types.Struct)
	if !ok {
		return nil
	}
	for i := 0; i < st.NumFields(); i++ {
		if st.Field(i).Name() == name {
			return st.Field(i)
		}
	}
	return nil
}

// fieldStores lists the stores to the given field in fns.
func fieldStores(p *core.Prog, fns []*ssa.Function, f *types.Var) []*ssa.Store {
	var out []*ssa.Store
	for _, fn := range fns {
		for _, b := range fn.Blocks {
			for _, in := range b.Instrs {
				st, ok := in.(*ssa.Store)
				if !ok {
					continue
				}
				if fa, ok := st.Addr.(*ssa.FieldAddr); ok && fieldVar(fa) == f {
					out = append(out, st)
				}
			}
		}
	}
	return out
}

func fieldVar(fa *ssa.FieldAddr) *types.Var {
	t := fa.X.Type()
	if pt, ok := t.Underlying().(*types.Pointer); ok {
		t = pt.Elem()
	}
	st, ok := t.Underlying().(*types.Struct)
	if !ok {
		return nil
	}
	return st.Field(fa.Field)
}

// mentionsField reports whether e reads field f anywhere.
func mentionsField(e *core.Expr, f *types.Var) bool {
	return e.Any(func(x *core.Expr) bool { return x.Op == "field" && x.Obj == f })
}

// mentionsGlobal reports whether e refers to the package-level variable name
// ("ech.ErrDecodeError").
func mentionsGlobal(e *core.Expr, name string) bool {
	return e.Any(func(x *core.Expr) bool { return x.Op == "global" && x.Name == name })
}

// mentionsParam reports whether e refers to parameter pN of the function it
// was computed in.
func mentionsParam(e *core.Expr, name string) bool {
	return e.Any(func(x *core.Expr) bool { return x.Op == "param" && x.Name == name })
}

func matches(re, s string) bool {
	return regexp.MustCompile("^(?:" + re + ")$").MatchString(s)
}

// errorSentinels returns the package-level error variables mentioned by the
// error operand e, looking through fmt.Errorf argument arrays.
// wrappedOperands: the error values a fmt.Errorf call wraps with %w (those
// errors.Is finds again), or the operands of errors.Join; ok is false when the
// call is neither or its format is not a constant.
func wrappedOperands(p *core.Prog, c *ssa.Call) (out []ssa.Value, ok bool) {
	name := p.X(c).Name
	if name == "errors.Join" && len(c.Call.Args) == 1 {
		for _, a := range variadicArgs(p, c.Call.Args[0]) {
			out = append(out, a.Val)
		}
		return out, true
	}
	if name != "fmt.Errorf" || len(c.Call.Args) != 2 {
		return nil, false
	}
	fc, isC := c.Call.Args[0].(*ssa.Const)
	if !isC || fc.Value == nil || fc.Value.Kind() != constant.String {
		return nil, false
	}
	args := variadicArgs(p, c.Call.Args[1])
	ai := 0
	format := constant.StringVal(fc.Value)
	for i := 0; i < len(format); i++ {
		if format[i] != '%' {
			continue
		}
		i++
		for i < len(format) && strings.ContainsRune("+-# 0123456789.[]*", rune(format[i])) {
			i++
		}
		if i >= len(format) || format[i] == '%' {
			continue
		}
		if format[i] == 'w' && ai < len(args) {
			out = append(out, args[ai].Val)
		}
		ai++
	}
	return out, true
}

func errorSentinels(p *core.Prog, v ssa.Value) []string {
	set := map[string]bool{}
	var visit func(v ssa.Value, depth int)
	seen := map[ssa.Value]bool{}
	visit = func(v ssa.Value, depth int) {
		if v == nil || seen[v] || depth > 12 {
			return
		}
		seen[v] = true
		switch v := v.(type) {
		case *ssa.Global:
			set[p.X(v).Name] = true
		case *ssa.UnOp:
			if v.Op == token.MUL {
				if a, ok := p.IsCellLoad(v); ok {
					st, _ := p.CellDefs(a)
					for _, s := range st {
						visit(s.Val, depth+1)
					}
					return
				}
			}
			visit(v.X, depth+1)
		case *ssa.Call:
			name := p.X(v).Name
			if name == "fmt.Errorf" && len(v.Call.Args) == 2 {
				// only what %w wraps is found again by errors.Is
				if fc, ok := v.Call.Args[0].(*ssa.Const); ok && fc.Value != nil && fc.Value.Kind() == constant.String {
					args := variadicArgs(p, v.Call.Args[1])
					ai := 0
					format := constant.StringVal(fc.Value)
					for i := 0; i < len(format); i++ {
						if format[i] != '%' {
							continue
						}
						i++
						for i < len(format) && strings.ContainsRune("+-# 0123456789.[]*", rune(format[i])) {
							i++
						}
						if i >= len(format) || format[i] == '%' {
							continue
						}
						if format[i] == 'w' && ai < len(args) && args[ai].Val != nil {
							visit(args[ai].Val, depth+1)
						}
						ai++
					}
					return
				}
			}
			if name == "fmt.Errorf" || name == "errors.Join" {
				for _, a := range v.Call.Args {
					visit(a, depth+1)
				}
			}
		case *ssa.Slice:
			// variadic argument array: follow the stores into it
			visit(v.X, depth+1)
		case *ssa.Alloc:
			for _, ref := range *v.Referrers() {
				if ia, ok := ref.(*ssa.IndexAddr); ok {
					for _, r2 := range *ia.Referrers() {
						if st, ok := r2.(*ssa.Store); ok {
							visit(st.Val, depth+1)
						}
					}
				}
			}
		case *ssa.MakeInterface:
			visit(v.X, depth+1)
		case *ssa.ChangeInterface:
			visit(v.X, depth+1)
		case *ssa.Phi:
			for _, e := range v.Edges {
				visit(e, depth+1)
			}
		case *ssa.Extract:
			// error result of a module function: its own sentinels
			if c, ok := v.Tuple.(*ssa.Call); ok {
				if fn := c.Call.StaticCallee(); fn != nil && inModule(p, fn) && fn.Blocks != nil {
					for _, ret := range core.Returns(fn) {
						if v.Index < len(ret.Results) {
							visit(ret.Results[v.Index], depth+1)
						}
					}
				}
			}
		}
	}
	visit(v, 0)
	var out []string
	for k := range set {
		out = append(out, k)
	}
	sort.Strings(out)
	return out
}

func joinStr(xs []string) string { return strings.Join(xs, ", ") }

// isNilConst reports whether v is the nil / zero constant.
func isNilConst(v ssa.Value) bool {
	c, ok := v.(*ssa.Const)
	return ok && c.Value == nil
}

// retErr returns the last result of a return (the error by convention).
func retErr(r *ssa.Return) ssa.Value {
	if len(r.Results) == 0 {
		return nil
	}
	return r.Results[len(r.Results)-1]
}

// sameFn compares functions up to generic instantiation.
func sameFn(a, b *ssa.Function) bool {
	if a == nil || b == nil {
		return false
	}
	if a == b {
		return true
	}
	oa, ob := a, b
	if o := a.Origin(); o != nil {
		oa = o
	}
	if o := b.Origin(); o != nil {
		ob = o
	}
	return oa == ob
}

// withHelpers returns fn, its literals and the non-anchor module functions it
// (transitively) calls that could not be inlined (they use defer, say): the
// code a refactoring moved out of fn is still judged as part of fn.
func withHelpers(p *core.Prog, fn *ssa.Function) []*ssa.Function {
	seen := map[*ssa.Function]bool{}
	var out []*ssa.Function
	var visit func(f *ssa.Function)
	visit = func(f *ssa.Function) {
		if f == nil || seen[f] || f.Blocks == nil {
			return
		}
		seen[f] = true
		out = append(out, f)
		for _, l := range core.Closures(f) {
			if l != f {
				visit(l)
			}
		}
		for _, b := range f.Blocks {
			for _, in := range b.Instrs {
				if c, ok := in.(ssa.CallInstruction); ok {
					if g := c.Common().StaticCallee(); g != nil && inModule(p, g) && !p.IsAnchor(g) {
						if o := g.Origin(); o != nil && o.Blocks != nil {
							g = o
						}
						visit(g)
					}
				}
			}
		}
	}
	visit(fn)
	return out
}

// strPart is one piece of a string built by fmt.Sprintf or by concatenation:
// a literal, or a value with the verb it is formatted with ("s", "d", "v").
type strPart struct {
	Lit  string
	Val  *core.Expr
	Verb string
}

// stringParts flattens fmt.Sprintf(constant format, args...) and a + b + c into
// the same list of pieces, adjacent literals merged; ok is false for anything
// else (or a format with width/flags).
func stringParts(p *core.Prog, e *core.Expr) ([]strPart, bool) {
	var out []strPart
	add := func(x strPart) {
		if x.Val == nil && len(out) > 0 && out[len(out)-1].Val == nil {
			out[len(out)-1].Lit += x.Lit
			return
		}
		out = append(out, x)
	}
	var flat func(e *core.Expr) bool
	flat = func(e *core.Expr) bool {
		switch {
		case e.Op == "bin" && e.Name == "+":
			return flat(e.Args[0]) && flat(e.Args[1])
		case e.Op == "const" && strings.HasPrefix(e.Name, `"`):
			if u, err := strconv.Unquote(e.Name); err == nil {
				add(strPart{Lit: u})
				return true
			}
			return false
		case e.Op == "call" && (e.Name == "strconv.Itoa" && len(e.Args) == 1 || (e.Name == "strconv.FormatUint" || e.Name == "strconv.FormatInt") && len(e.Args) == 2 && e.Args[1].Name == "10"):
			// decimal rendering of an integer: what %d prints
			x := e.Args[0]
			for x.Op == "conv" && len(x.Args) == 1 {
				x = x.Args[0]
			}
			add(strPart{Val: x, Verb: "d"})
			return true
		case e.Op == "call" && (e.Name == "(*strings.Builder).String" || e.Name == "(*bytes.Buffer).String"):
			// a string assembled piece by piece, in straight-line code
			c, ok := e.Val.(*ssa.Call)
			if !ok {
				return false
			}
			ws, ok := builderWrites(p, c)
			if !ok {
				return false
			}
			for _, w := range ws {
				if w.loop != nil || !(w.instr.Block() == c.Block() || w.instr.Block().Dominates(c.Block())) {
					return false
				}
				if w.part.Val != nil {
					if !flat(w.part.Val) {
						return false
					}
				} else {
					add(w.part)
				}
			}
			return true
		case e.Op == "call" && e.Name == "fmt.Sprintf":
			c, ok := e.Val.(*ssa.Call)
			if !ok || len(e.Args) < 1 || e.Args[0].Op != "const" {
				return false
			}
			format, err := strconv.Unquote(e.Args[0].Name)
			if err != nil {
				return false
			}
			var args []*core.Expr
			if len(c.Call.Args) > 1 {
				args = variadicArgs(p, c.Call.Args[1])
			}
			ai := 0
			for i := 0; i < len(format); i++ {
				if format[i] != '%' {
					add(strPart{Lit: string(format[i])})
					continue
				}
				if i+1 >= len(format) {
					return false
				}
				i++
				switch format[i] {
				case '%':
					add(strPart{Lit: "%"})
				case 's', 'd', 'v':
					if ai >= len(args) {
						return false
					}
					add(strPart{Val: args[ai], Verb: string(format[i])})
					ai++
				default:
					return false
				}
			}
			return ai == len(args)
		}
		add(strPart{Val: e, Verb: "s"})
		return true
	}
	if !flat(e) {
		return nil, false
	}
	return out, true
}

// linOf writes an integer expression as a sum of atoms with integer
// coefficients plus a constant: +, -, constants, len(x) (of a slice
// expression: high minus low), conversions between integer types. ok is false
// for anything else at the top; unknown sub-terms become atoms of their own.
func linOf(e *core.Expr) (coef map[string]int64, k int64, ok bool) {
	coef = map[string]int64{}
	var walk func(e *core.Expr, sign int64, depth int) bool
	walk = func(e *core.Expr, sign int64, depth int) bool {
		if depth > 12 {
			return false
		}
		if c, isC := e.ConstInt(); isC {
			k += sign * c
			return true
		}
		switch {
		case e.Op == "conv" && len(e.Args) == 1:
			return walk(e.Args[0], sign, depth+1)
		case e.Op == "bin" && e.Name == "+":
			return walk(e.Args[0], sign, depth+1) && walk(e.Args[1], sign, depth+1)
		case e.Op == "bin" && e.Name == "-":
			return walk(e.Args[0], sign, depth+1) && walk(e.Args[1], -sign, depth+1)
		case e.Op == "call" && e.Name == "len" && len(e.Args) == 1 && e.Args[0].Op == "slice" && len(e.Args[0].Args) >= 3:
			sl := e.Args[0]
			// high (or the length of the sliced value) minus low
			if sl.Args[2].Name == "_" {
				if !walk(&core.Expr{Op: "call", Name: "len", Args: []*core.Expr{sl.Args[0]}}, sign, depth+1) {
					return false
				}
			} else if !walk(sl.Args[2], sign, depth+1) {
				return false
			}
			if sl.Args[1].Name != "_" {
				return walk(sl.Args[1], -sign, depth+1)
			}
			return true
		}
		coef[e.String()] += sign
		return true
	}
	ok = walk(e, 1, 0)
	for a, c := range coef {
		if c == 0 {
			delete(coef, a)
		}
	}
	return coef, k, ok
}

// A bWrite is one piece written into a local strings.Builder / bytes.Buffer.
type bWrite struct {
	part  strPart
	loop  *ssa.BasicBlock // innermost loop header of the write (nil: none)
	instr ssa.Instruction
}

// builderWrites lists, in control-flow order, what is written into the local
// builder whose String method str calls; ok is false when the builder is not
// a local variable used only through its Write*/String/Len/Grow methods.
func builderWrites(p *core.Prog, str *ssa.Call) ([]bWrite, bool) {
	if len(str.Call.Args) != 1 {
		return nil, false
	}
	al, ok := str.Call.Args[0].(*ssa.Alloc)
	if !ok {
		return nil, false
	}
	fn := str.Parent()
	// loops are counted from the builder's own scope: one that also contains
	// its declaration is the surrounding code
	loops := core.Loops(fn)
	loopOf := func(b *ssa.BasicBlock) *ssa.BasicBlock {
		h := innermostLoop(fn, b)
		if h != nil && loops[h][al.Block()] {
			return nil
		}
		return h
	}
	var out []bWrite
	for _, ref := range *al.Referrers() {
		c, ok := ref.(*ssa.Call)
		if !ok {
			if _, isDbg := ref.(*ssa.DebugRef); isDbg {
				continue
			}
			return nil, false
		}
		x := p.X(c)
		if len(c.Call.Args) == 0 || c.Call.Args[0] != ssa.Value(al) {
			return nil, false
		}
		name := lastDot(x.Name)
		switch name {
		case "String", "Len", "Grow", "Cap":
			continue
		case "WriteString":
			w := bWrite{loop: loopOf(c.Block()), instr: c}
			a := x.Args[1]
			if a.Op == "const" && strings.HasPrefix(a.Name, `"`) {
				u, err := strconv.Unquote(a.Name)
				if err != nil {
					return nil, false
				}
				w.part = strPart{Lit: u}
			} else {
				w.part = strPart{Val: a, Verb: "s"}
			}
			out = append(out, w)
		case "WriteByte", "WriteRune":
			a := x.Args[1]
			k, isC := a.ConstInt()
			if !isC || k < 0 || k > 127 {
				return nil, false
			}
			out = append(out, bWrite{part: strPart{Lit: string(rune(k))}, loop: loopOf(c.Block()), instr: c})
		default:
			return nil, false
		}
	}
	sort.SliceStable(out, func(i, j int) bool { return ord(out[i].instr) < ord(out[j].instr) })
	return out, true
}

// disjuncts: the boolean v is a φ-encoded `a || b || ...` (want true) or
// `a && b && ...` (want false) computed before it is tested, possibly carried
// round a loop: returns the facts any one of which gives v the wanted value
// (nil when v is not of that form).
func disjuncts(p *core.Prog, v ssa.Value, want bool) []core.Fact {
	return disjunctsRec(p, v, want, map[ssa.Value]bool{})
}

func disjunctsRec(p *core.Prog, v ssa.Value, want bool, seen map[ssa.Value]bool) []core.Fact {
	// !x has the wanted value when x has the other one
	if u, isNot := v.(*ssa.UnOp); isNot && u.Op == token.NOT {
		return disjunctsRec(p, u.X, !want, seen)
	}
	ph, ok := v.(*ssa.Phi)
	if !ok || seen[v] {
		return nil
	}
	seen[v] = true
	wantS := map[bool]string{true: "true", false: "false"}[want]
	var out []core.Fact
	for i, e := range ph.Edges {
		pred := ph.Block().Preds[i]
		if c, isC := e.(*ssa.Const); isC && c.Value != nil {
			if c.Value.ExactString() != wantS {
				continue
			}
			iff, isIf := pred.Instrs[len(pred.Instrs)-1].(*ssa.If)
			if !isIf {
				if ph.Block().Dominates(pred) {
					return nil // set to the wanted constant somewhere in a loop: not this form
				}
				continue // the initial value of a loop-carried flag
			}
			out = append(out, p.FactOf(core.Guard{Cond: iff.Cond, Pol: pred.Succs[0] == ph.Block(), If: iff}))
			continue
		}
		inner0 := e
		neg := false
		for {
			u, isNot := inner0.(*ssa.UnOp)
			if !isNot || u.Op != token.NOT {
				break
			}
			inner0, neg = u.X, !neg
		}
		if _, isPhi := inner0.(*ssa.Phi); isPhi {
			if seen[inner0] {
				continue
			}
			inner := disjunctsRec(p, inner0, want != neg, seen)
			if inner == nil {
				return nil
			}
			out = append(out, inner...)
			continue
		}
		out = append(out, p.FactOf(core.Guard{Cond: e, Pol: want}))
	}
	return out
}

// feasibleEdges: the incoming edges of φ ph that a nil test of a sibling φ
// (one of the same block), known to hold at block at, does not rule out. It is
// the shape of `x, err = f(); ... if err != nil { return }; use(x)` when x and
// err were assigned on several ways: the ways that left err non-nil do not
// reach the use.
func feasibleEdges(p *core.Prog, ph *ssa.Phi, at *ssa.BasicBlock) []int {
	type nilTest struct {
		sib   *ssa.Phi
		isNil bool
	}
	var tests []nilTest
	for _, g := range core.Guards(at) {
		bo, ok := g.Cond.(*ssa.BinOp)
		if !ok || bo.Op != token.EQL && bo.Op != token.NEQ {
			continue
		}
		x, y := bo.X, bo.Y
		if isNilConst(x) {
			x, y = y, x
		}
		sib, ok := x.(*ssa.Phi)
		if !ok || sib.Block() != ph.Block() || !isNilConst(y) {
			continue
		}
		// the test must come after the merge (not be one of the conditions that led to it)
		if g.If == nil || !(ph.Block() == g.If.Block() || ph.Block().Dominates(g.If.Block())) {
			continue
		}
		tests = append(tests, nilTest{sib, (bo.Op == token.EQL) == g.Pol})
	}
	var out []int
	for i := range ph.Edges {
		pred := ph.Block().Preds[i]
		ok := true
		for _, t := range tests {
			e := t.sib.Edges[i]
			known, isNil := false, false
			switch {
			case isNilConst(e):
				known, isNil = true, true
			default:
				for _, g := range core.EdgeGuards(pred, ph.Block()) {
					bo, isB := g.Cond.(*ssa.BinOp)
					if !isB || bo.Op != token.EQL && bo.Op != token.NEQ {
						continue
					}
					x, y := bo.X, bo.Y
					if isNilConst(x) {
						x, y = y, x
					}
					if x == e && isNilConst(y) {
						known, isNil = true, (bo.Op == token.EQL) == g.Pol
					}
				}
			}
			if known && isNil != t.isNil {
				ok = false
			}
		}
		if ok {
			out = append(out, i)
		}
	}
	return out
}

// otherFacts lists the facts that none of the allowed predicates accepts.
// Used where a rule states that something happens under exactly the given
// conditions: an extra condition makes the action rarer than the property
// allows (an over-restriction is as much a violation as a missing guard).
func otherFacts(fs []core.Fact, allowed ...func(core.Fact) bool) []string {
	var out []string
	seen := map[string]bool{}
	for _, f := range fs {
		ok := false
		for _, a := range allowed {
			if a(f) {
				ok = true
			}
		}
		// bookkeeping of range loops and of range-over-func bodies says nothing
		if !ok && (f.R != nil && f.R.Op == "call" && f.R.Name == "len" && f.Op == "<" || strings.Contains(f.String(), "rangefunc") || f.L != nil && f.L.Op == "cell" && f.R != nil && f.R.Op == "const" && strings.HasPrefix(f.R.Name, "-")) {
			ok = true
		}
		if !ok && !seen[f.String()] {
			seen[f.String()] = true
			out = append(out, shortStr(f.String()))
		}
	}
	return out
}
