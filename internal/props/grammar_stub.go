package props

import "verif/internal/core"

// clientHelloGrammar is replaced by the wire-grammar comparison (grammar.go).
func clientHelloGrammar(p *core.Prog, r *core.Run, rule string) {}
