package props

import (
	"go/constant"
	"go/token"
	"go/types"

	"verif/internal/core"

	"verif/third_party/xtools/go/ssa"
)

// A tableRef is a value read from a row of a local table: a slice or array
// literal of structs, built once in straight-line code and then only indexed
// (typically by a range loop): tbl[Index].Field.
type tableRef struct {
	Alloc  *ssa.Alloc    // the backing array (local table)
	Global *ssa.Global   // the variable (package-level table)
	Index  ssa.Value     // the row selector at the use
	Field  int           // field number within the row struct
	Rows   [][]ssa.Value // Rows[k][f]: what row k holds in field f (nil: zero value)
}

// structTableField resolves v as tbl[i].f for a local literal table, or
// returns nil. Recognised forms (go/ssa's renderings of `for _, a := range
// tbl { ... a.f ... }` and of `tbl[i].f`):
//
//	v = *(&a.f)   with a a local whose only store is *(&s[i]), s = slice T[:]
//	v = *(&(&s[i]).f)
//	v = (*(&s[i])).f                     (ssa.Field of a loaded row)
func structTableField(p *core.Prog, v ssa.Value) *tableRef {
	var fld int
	var row ssa.Value // address of the row: IndexAddr, or a local copy
	switch x := v.(type) {
	case *ssa.UnOp:
		if x.Op != token.MUL {
			return nil
		}
		fa, ok := x.X.(*ssa.FieldAddr)
		if !ok {
			return nil
		}
		fld, row = fa.Field, fa.X
	case *ssa.Field:
		ld, ok := x.X.(*ssa.UnOp)
		if !ok || ld.Op != token.MUL {
			return nil
		}
		fld, row = x.Field, ld.X
	default:
		return nil
	}
	// a local copy of the row: one store, of a loaded row
	if al, ok := row.(*ssa.Alloc); ok {
		var src ssa.Value
		n := 0
		for _, ref := range *al.Referrers() {
			if st, ok := ref.(*ssa.Store); ok && st.Addr == ssa.Value(al) {
				n++
				src = st.Val
			}
		}
		if n != 1 {
			return nil
		}
		// (ranging over an array value: the loop reads elements of a copy of the
		// whole array, taken once before the loop)
		if ix, ok := src.(*ssa.Index); ok {
			if whole, ok := ix.X.(*ssa.UnOp); ok && whole.Op == token.MUL {
				if arr, ok := whole.X.(*ssa.Alloc); ok {
					if rows := localStructRows(arr, false); rows != nil {
						return &tableRef{Alloc: arr, Index: ix.Index, Field: fld, Rows: rows}
					}
				}
			}
			return nil
		}
		ld, ok := src.(*ssa.UnOp)
		if !ok || ld.Op != token.MUL {
			return nil
		}
		row = ld.X
	}
	ia, ok := row.(*ssa.IndexAddr)
	if !ok {
		return nil
	}
	var arr *ssa.Alloc
	switch b := ia.X.(type) {
	case *ssa.Slice:
		if b.Low != nil || b.High != nil || b.Max != nil {
			return nil
		}
		arr, _ = b.X.(*ssa.Alloc)
	case *ssa.Alloc:
		arr = b
	case *ssa.UnOp:
		// a package-level table: a slice variable set once, by the package
		// initialiser, from a literal, and only read afterwards
		if g, ok := b.X.(*ssa.Global); ok && b.Op == token.MUL {
			if rows := globalStructRows(p, g); rows != nil {
				return &tableRef{Global: g, Index: ia.Index, Field: fld, Rows: rows}
			}
		}
		return nil
	}
	if arr == nil {
		return nil
	}
	rows := localStructRows(arr, false)
	if rows == nil {
		return nil
	}
	return &tableRef{Alloc: arr, Index: ia.Index, Field: fld, Rows: rows}
}

// same reports whether two references select a row of the same table with
// the same selector.
func (t *tableRef) same(u *tableRef) bool {
	return t.Alloc == u.Alloc && t.Global == u.Global && t.Index == u.Index
}

// localStructRows reads the rows of an array of structs that is filled element
// by element with constant indices in the block that creates it and afterwards
// only read (sliced whole, indexed, ranged over). With escapes set, one store
// of the whole-array slice (into the package-level variable) is accepted.
func localStructRows(arr *ssa.Alloc, escapes bool) [][]ssa.Value {
	at, ok := arr.Type().Underlying().(*types.Pointer).Elem().Underlying().(*types.Array)
	if !ok || at.Len() == 0 || at.Len() > 64 {
		return nil
	}
	stt, ok := at.Elem().Underlying().(*types.Struct)
	if !ok {
		return nil
	}
	rows := make([][]ssa.Value, at.Len())
	filled := make([]bool, at.Len())
	// every use of the array is a constant-index initialisation in the block
	// that creates it, a whole-array slice, or a read
	for _, ref := range *arr.Referrers() {
		switch r := ref.(type) {
		case *ssa.IndexAddr:
			c, isC := r.Index.(*ssa.Const)
			if !isC || c.Value == nil {
				// a read with a variable index
				for _, rr := range *r.Referrers() {
					if !isRead(rr) {
						return nil
					}
				}
				continue
			}
			k, ok := constant.Int64Val(c.Value)
			if !ok || k < 0 || k >= at.Len() {
				return nil
			}
			for _, rr := range *r.Referrers() {
				switch u := rr.(type) {
				case *ssa.Store:
					if u.Addr != ssa.Value(r) || filled[k] || u.Block() != arr.Block() {
						return nil
					}
					vals := rowValues(u.Val, stt.NumFields())
					if vals == nil {
						return nil
					}
					rows[k], filled[k] = vals, true
				case *ssa.FieldAddr:
					// element initialised field by field
					if rows[k] == nil {
						rows[k] = make([]ssa.Value, stt.NumFields())
					}
					for _, r3 := range *u.Referrers() {
						st, ok := r3.(*ssa.Store)
						if !ok || st.Addr != ssa.Value(u) || st.Block() != arr.Block() || rows[k][u.Field] != nil {
							if isRead(r3) {
								continue
							}
							return nil
						}
						rows[k][u.Field] = st.Val
					}
					filled[k] = true
				default:
					if !isRead(rr) {
						return nil
					}
				}
			}
		case *ssa.Slice:
			if r.Low != nil || r.High != nil || r.Max != nil {
				return nil
			}
			for _, rr := range *r.Referrers() {
				switch u := rr.(type) {
				case *ssa.IndexAddr:
					for _, r3 := range *u.Referrers() {
						if !isRead(r3) {
							return nil
						}
					}
				case *ssa.Call:
					if bi, ok := u.Call.Value.(*ssa.Builtin); !ok || bi.Name() != "len" {
						return nil
					}
				case *ssa.Range, *ssa.DebugRef:
				case *ssa.Store:
					if _, isG := u.Addr.(*ssa.Global); !escapes || !isG || u.Val != ssa.Value(r) {
						return nil
					}
				default:
					return nil
				}
			}
		case *ssa.UnOp:
			// the whole array read (for a range over its value): elements of the
			// copy are only read
			if r.Op != token.MUL {
				return nil
			}
			for _, rr := range *r.Referrers() {
				switch rr.(type) {
				case *ssa.Index, *ssa.DebugRef:
				default:
					return nil
				}
			}
		case *ssa.DebugRef:
		default:
			return nil
		}
	}
	for k := range rows {
		if !filled[k] {
			return nil
		}
	}
	return rows
}

var globalRows = map[*ssa.Global][][]ssa.Value{}

func globalStructRows(p *core.Prog, g *ssa.Global) [][]ssa.Value {
	if rows, ok := globalRows[g]; ok {
		return rows
	}
	globalRows[g] = nil
	if g.Pkg == nil {
		return nil
	}
	init := g.Pkg.Func("init")
	if init == nil {
		return nil
	}
	var rows [][]ssa.Value
	fns := append([]*ssa.Function{init}, p.SrcFuncs()...)
	seen := map[*ssa.Function]bool{}
	var rands []*ssa.Value
	for _, fn := range fns {
		if seen[fn] {
			continue
		}
		seen[fn] = true
		for _, b := range fn.Blocks {
			for _, in := range b.Instrs {
				uses := false
				rands = in.Operands(rands[:0])
				for _, r := range rands {
					if *r == ssa.Value(g) {
						uses = true
					}
				}
				if !uses {
					continue
				}
				switch x := in.(type) {
				case *ssa.Store:
					sl, ok := x.Val.(*ssa.Slice)
					if !ok || fn != init || x.Addr != ssa.Value(g) || rows != nil {
						return nil
					}
					arr, ok := sl.X.(*ssa.Alloc)
					if !ok || sl.Low != nil || sl.High != nil || sl.Max != nil {
						return nil
					}
					if rows = localStructRows(arr, true); rows == nil {
						return nil
					}
				case *ssa.UnOp:
					if x.Op != token.MUL {
						return nil
					}
					for _, ref := range *x.Referrers() {
						switch u := ref.(type) {
						case *ssa.IndexAddr:
							for _, r3 := range *u.Referrers() {
								if !isRead(r3) {
									return nil
								}
							}
						case *ssa.Call:
							if bi, ok := u.Call.Value.(*ssa.Builtin); !ok || bi.Name() != "len" {
								return nil
							}
						case *ssa.Range, *ssa.DebugRef:
						default:
							return nil
						}
					}
				case *ssa.DebugRef:
				default:
					return nil
				}
			}
		}
	}
	globalRows[g] = rows
	return rows
}

func isRead(in ssa.Instruction) bool {
	switch u := in.(type) {
	case *ssa.UnOp:
		return u.Op == token.MUL
	case *ssa.FieldAddr:
		for _, r := range *u.Referrers() {
			if !isRead(r) {
				return false
			}
		}
		return true
	case *ssa.DebugRef:
		return true
	}
	return false
}

// rowValues: the fields of a struct value built by a composite literal (a load
// of a local filled field by field in the same block).
func rowValues(v ssa.Value, n int) []ssa.Value {
	ld, ok := v.(*ssa.UnOp)
	if !ok || ld.Op != token.MUL {
		return nil
	}
	al, ok := ld.X.(*ssa.Alloc)
	if !ok {
		return nil
	}
	out := make([]ssa.Value, n)
	for _, ref := range *al.Referrers() {
		switch r := ref.(type) {
		case *ssa.FieldAddr:
			for _, rr := range *r.Referrers() {
				st, ok := rr.(*ssa.Store)
				if !ok || st.Addr != ssa.Value(r) || st.Block() != ld.Block() || out[r.Field] != nil {
					return nil
				}
				out[r.Field] = st.Val
			}
		case *ssa.UnOp:
			if r != ld {
				return nil
			}
		case *ssa.DebugRef:
		default:
			return nil
		}
	}
	return out
}

// forwardCounter: v is the position of a loop that visits 0, 1, 2, ... in
// order: the index of a range loop (go/ssa: φ(-1, i+1), used as i+1) or the
// counter of `for i := 0; ...; i++` (φ(0, i+1), used as i). Returns the φ.
func forwardCounter(v ssa.Value) *ssa.Phi {
	isInc := func(e ssa.Value, ph *ssa.Phi) bool {
		bo, ok := e.(*ssa.BinOp)
		if !ok || bo.Op != token.ADD || bo.X != ssa.Value(ph) {
			return false
		}
		c, ok := bo.Y.(*ssa.Const)
		return ok && c.Value != nil && c.Value.ExactString() == "1"
	}
	counter := func(ph *ssa.Phi, start string) bool {
		init, inc := 0, 0
		for _, e := range ph.Edges {
			switch {
			case isInc(e, ph):
				inc++
			default:
				c, ok := e.(*ssa.Const)
				if !ok || c.Value == nil || c.Value.ExactString() != start {
					return false
				}
				init++
			}
		}
		return init == 1 && inc >= 1
	}
	switch x := v.(type) {
	case *ssa.BinOp:
		if ph, ok := x.X.(*ssa.Phi); ok && isInc(x, ph) && counter(ph, "-1") {
			return ph
		}
	case *ssa.Phi:
		if counter(x, "0") {
			return x
		}
	}
	return nil
}

// rangeLoopOver reports whether header is the head of a `for i := range tbl`
// loop whose index (as used in the body) is idx: go/ssa's rangeindex idiom
// φ(-1, i+1) with the body using i+1.
func rangeLoopOver(header *ssa.BasicBlock, idx ssa.Value) bool {
	bo, ok := idx.(*ssa.BinOp)
	if !ok || bo.Op != token.ADD {
		return false
	}
	ph, ok := bo.X.(*ssa.Phi)
	if !ok || ph.Block() != header || ph.Comment != "rangeindex" {
		return false
	}
	c, ok := bo.Y.(*ssa.Const)
	return ok && c.Value != nil && c.Value.ExactString() == "1"
}
