package props

import (
	"path/filepath"
	"runtime"
	"strings"
	"testing"

	"verif/third_party/xtools/go/ssa"

	"verif/internal/core"
)

func loadFix(t *testing.T) *core.Prog {
	t.Helper()
	_, file, _, _ := runtime.Caller(0)
	p, err := core.Load(filepath.Join(filepath.Dir(file), "..", "testdata", "fix"))
	if err != nil {
		t.Fatal(err)
	}
	curProg = p
	return p
}

func failedOf(r *core.Run) map[string]bool {
	out := map[string]bool{}
	for _, o := range r.Failed() {
		out[o.Construct] = true
	}
	return out
}

func TestFourierMotzkin(t *testing.T) {
	x, y := newLin(0), newLin(0)
	x.c["x"], y.c["y"] = 1, 1
	// x >= 0, y - x - 1 >= 0  |-  y - 1 >= 0
	facts := []ineq{{x}, {y.add(x, -1).add(newLin(1), -1)}}
	if !proveLin(facts, y.add(newLin(1), -1)) {
		t.Fatal("should prove y >= 1")
	}
	if proveLin(facts, y.add(newLin(2), -1)) {
		t.Fatal("must not prove y >= 2")
	}
}

func TestIndexSafetyBothWays(t *testing.T) {
	p := loadFix(t)
	var fns []*ssa.Function
	for _, n := range []string{"SafeIndex", "UnsafeIndex", "SafeSlice", "UnsafeSlice", "SafeSearch", "(*T).FieldLen", "(*T).FieldLenKilled"} {
		f := p.Func("fix", n)
		if f == nil {
			t.Fatal("missing fixture " + n)
		}
		fns = append(fns, f)
	}
	r := core.NewRun("T", "quick")
	indexSafety(p, r, "T.I1", fns, 0)
	bad := map[string]bool{}
	for _, o := range r.Failed() {
		bad[strings.SplitN(o.Construct, ":", 2)[0]] = true
	}
	for _, n := range []string{"fix.SafeIndex", "fix.SafeSlice", "fix.SafeSearch", "(*fix.T).FieldLen"} {
		if bad[n] {
			t.Errorf("%s is safe but was reported", n)
		}
	}
	for _, n := range []string{"fix.UnsafeIndex", "fix.UnsafeSlice", "(*fix.T).FieldLenKilled"} {
		if !bad[n] {
			t.Errorf("%s is unsafe but was not reported", n)
		}
	}
}

func TestLoopVariantsBothWays(t *testing.T) {
	p := loadFix(t)
	kind := func(name string) string {
		fn := p.Func("fix", name)
		ls := classifyLoops(p, fn)
		if len(ls) != 1 {
			t.Fatalf("%s: %d loops", name, len(ls))
		}
		return ls[0].Kind
	}
	if k := kind("CursorGood"); k != "cursor" {
		t.Errorf("CursorGood: %q", k)
	}
	if k := kind("CursorBad"); k != "" {
		t.Errorf("CursorBad must have no variant, got %q", k)
	}
	if k := kind("Budget"); k != "budget" && k != "counter" {
		t.Errorf("Budget: %q", k)
	}
	if k := kind("NoBudget"); k != "" {
		t.Errorf("NoBudget must have no variant, got %q", k)
	}
	if k := kind("SafeSearch"); k != "counter" {
		t.Errorf("SafeSearch: %q", k)
	}
}

func TestGrammarTokens(t *testing.T) {
	p := loadFix(t)
	m := p.Func("fix", "(*Msg).Marshal")
	var b ssa.Value
	for _, s := range callSites(p, []*ssa.Function{m}, `cryptobyte\.NewBuilder`) {
		b, _ = s.Instr.(ssa.Value)
	}
	bt := normTokens(builderTokens(p, m, b, nil, 0))
	ps := p.Func("fix", "Parse")
	pt := normTokens(parserTokens(p, ps, firstCursorOf(p, ps)))
	want := "u8:Msg.Kind p16{ bytes:Msg.Name } p8{ loop{ u16:Msg.IDs[] } }"
	if bt != want {
		t.Errorf("builder tokens %q, want %q", bt, want)
	}
	if pt != want {
		t.Errorf("parser tokens %q, want %q", pt, want)
	}
}

func TestParserDiscipline(t *testing.T) {
	p := loadFix(t)
	r := core.NewRun("T", "quick")
	c04ParserDiscipline(p, r, "T.G12", []*ssa.Function{p.Func("fix", "CursorGood"), p.Func("fix", "CursorBad")}, map[string]bool{"fix.ErrBad": true})
	good, bad := false, false
	for _, o := range r.Obs {
		if strings.HasPrefix(o.Construct, "fix.CursorGood") && o.OK {
			good = true
		}
		if strings.HasPrefix(o.Construct, "fix.CursorBad") && !o.OK {
			bad = true
		}
	}
	if !good || !bad {
		t.Fatalf("discipline: good=%v bad=%v", good, bad)
	}
}

func TestEvalWrap(t *testing.T) {
	// uint8(min(len,255)+16) wraps for len >= 240; evaluated through the C11 rule on seeded variants.
	// Here: the evaluator on a constant tree.
	p := loadFix(t)
	fn := p.Func("fix", "TermsA")
	e := p.X(core.Returns(fn)[0].Results[0]) // p0.A + p1
	v, ok := evalInt(p, e, func(x *core.Expr) (int64, bool) {
		if x.Op == "field" && x.Name == "A" {
			return 40, true
		}
		if x.Op == "param" {
			return 2, true
		}
		return 0, false
	})
	if !ok || v != 42 {
		t.Fatalf("eval = %d %v", v, ok)
	}
}
