package props

import (
	"fmt"
	"go/token"
	"go/types"
	"sort"
	"strings"

	"verif/third_party/xtools/go/ssa"

	"verif/internal/core"
)

func init() {
	register(&Property{
		ID: "C19",
		Info: core.Info{
			Explanation: "Decides on the SSA of NewTransport and Transport.RoundTrip: " +
				"(PLAIN) the function stored in HTTPTransport.DialContext returns a nil connection and a non-nil error on every path and calls nothing but error constructors; " +
				"(HOST) transportResolver.host - the name the TLS layer verifies (C17.SNI) - derives only from the request URL's host (URL.Host, its SplitHostPort host part, or URL.Hostname()), never from the Host header field or a resolution result; " +
				"(AUTH) req.Host is filled from URL.Host, only when empty, before URL.Host is overwritten, and the host/port split also happens before; " +
				"(POOL) the value written to URL.Host (the connection-pool key) is a Sprintf whose three arguments are the port, the scheme and the host, separated by literal text; " +
				"(UPGRADE) Scheme becomes https only under {the origin has HTTPS records, scheme is http}, on the clone, and always then (with both assumed, no way to a return of RoundTrip goes round the store - a port in the URL, say, does not exempt it); the resolver folds http to https when it builds the HTTPS query name (the C14.N2 rules), so the origin's records are found for http URLs on any port; " +
				"(H3) useH3 becomes true only under {HTTP3Transport != nil, service-mode record, ALPN contains h3}; the scan moves on to a less-preferred record only past an alias record or a record that offers none of h3, h2, http/1.1 and no default ALPN; the h3 branch gives the HTTP/3 round-tripper a result filtered with {h3}/must-have, the other branch one filtered with {h2, http/1.1}; in the filter every 'keep' is under Priority != 0 and one of the three compatibility conditions; " +
				"(BIND) every response-carrying return of RoundTrip is dominated by the store of the caller's request into that response's Request field, and nothing is stored through the caller's request (all writes go to its Clone). " +
				"Not decided: what net/http does with the rewritten request (pooling, Host header emission) - library behaviour, trusted.",
			Assumptions: []string{"net/http.Transport keys its connection pool on scheme and URL.Host and uses DialTLSContext for https"},
		},
		Rules: c19Rules,
	})
}

func c19Rules(p *core.Prog, r *core.Run) {
	nt := p.Func(Ech, "NewTransport")
	rt := p.Func(Ech, "(*Transport).RoundTrip")
	if nt == nil || rt == nil {
		r.Undecided("C19.PLAIN", "transport", "-", "NewTransport / RoundTrip not found")
		return
	}
	lits := core.Closures(rt)
	r.Analysed(funcNames(p, core.Closures(nt))...)
	r.Analysed(funcNames(p, lits)...)
	reqP := rt.Params[1]
	receiverReadOnly(p, r, "C19.H3.stateless", rt, p.Func(Ech, "(*Dialer).Dial"), p.Func(Ech, "(*Dialer).dialOne"))

	// --- PLAIN
	nPlain := 0
	for _, st := range storesTo(p, core.Closures(nt), "DialContext") {
		nPlain++
		fn := p.ResolveFuncValue(st.Val)
		if fn == nil {
			r.Check("C19.PLAIN", "DialContext", false, p.InstrPos(st), "HTTPTransport.DialContext is set to %s, which is not a literal that refuses to dial", short(p.X(st.Val)))
			continue
		}
		ok := true
		for _, ret := range core.Returns(fn) {
			if len(ret.Results) != 2 || !isNilConst(ret.Results[0]) {
				ok = false
				continue
			}
			e := p.X(ret.Results[1])
			if !(e.Op == "call" && (e.Name == "errors.New" || e.Name == "fmt.Errorf")) {
				ok = false
			}
		}
		for _, s := range allCalls(p, core.Closures(fn)) {
			if s.X.Name != "errors.New" && s.X.Name != "fmt.Errorf" {
				ok = false
			}
		}
		r.Check("C19.PLAIN", "DialContext", ok, p.InstrPos(st), "the plaintext dialer returns (nil, error) on every path and calls nothing that could dial")
	}
	r.Check("C19.PLAIN", "DialContext:set", nPlain == 1, p.Pos(nt.Pos()), "NewTransport installs DialContext once (found %d)", nPlain)
	// DialTLSContext goes through the Dialer
	for _, st := range storesTo(p, core.Closures(nt), "DialTLSContext") {
		fn := p.ResolveFuncValue(st.Val)
		ok := false
		if fn != nil {
			for _, s := range allCalls(p, []*ssa.Function{fn}) {
				if strings.HasSuffix(s.X.Name, ".Dial") && strings.Contains(s.X.Name, "Dialer") {
					ok = true
				}
			}
		}
		r.Check("C19.PLAIN", "DialTLSContext", ok, p.InstrPos(st), "TLS connections are dialled through the ECH Dialer")
	}

	isClone := func(e *core.Expr) bool {
		return e.Op == "call" && e.Name == "(*net/http.Request).Clone" && e.Args[0].Val == ssa.Value(reqP)
	}
	cloneURLHost := func(e *core.Expr) bool {
		return e.Op == "field" && e.Name == "Host" && e.Args[0].Op == "field" && e.Args[0].Name == "URL" && isClone(e.Args[0].Args[0])
	}
	hostPart := func(e *core.Expr) bool {
		switch {
		case cloneURLHost(e):
			return true
		case e.Op == "ext" && e.Name == "#0" && e.Args[0].Op == "call" && e.Args[0].Name == "net.SplitHostPort" && cloneURLHost(e.Args[0].Args[0]):
			return true
		case e.Op == "call" && e.Name == "(*net/url.URL).Hostname" && e.Args[0].Op == "field" && e.Args[0].Name == "URL" && isClone(e.Args[0].Args[0]):
			return true
		}
		return false
	}

	// the store that overwrites URL.Host
	var urlHostStore *ssa.Store
	for _, st := range storesTo(p, lits, "Host") {
		if x := p.X(st.Addr); x.Args[0].Op == "field" && x.Args[0].Name == "URL" {
			urlHostStore = st
		}
	}

	// --- HOST
	nHost := 0
	for _, st := range storesTo(p, lits, "host") {
		// (the resolver object's field, not a like-named field of some helper struct)
		if fa, isFA := st.Addr.(*ssa.FieldAddr); !isFA || !strings.HasSuffix(deref2(fa.X.Type()).String(), "transportResolver") {
			continue
		}
		nHost++
		v := p.X(st.Val)
		ok := true
		for _, a := range v.Alts() {
			if !hostPart(a) {
				ok = false
			}
		}
		// taken before the pool key overwrites URL.Host
		early := true
		v.Walk(func(e *core.Expr) bool {
			if ld, isI := e.Val.(ssa.Instruction); isI && urlHostStore != nil && e.Op == "field" && e.Name == "Host" && ld.Parent() == urlHostStore.Parent() && core.MayFollow(urlHostStore, ld) {
				early = false
			}
			return true
		})
		r.Check("C19.HOST", fmt.Sprintf("transportResolver.host#%d", nHost), ok && early, p.InstrPos(st), "the name the TLS layer will verify is the host of the request URL (%v), read before the pool key replaces URL.Host (%v): %s", ok, early, short(v))
	}
	// every resolver object created gets its host
	nObj := 0
	for _, l := range lits {
		for _, b := range l.Blocks {
			for _, in := range b.Instrs {
				if al, ok := in.(*ssa.Alloc); ok && strings.HasSuffix(deref2(al.Type()).String(), "ech.transportResolver") {
					nObj++
				}
			}
		}
	}
	r.Check("C19.HOST", "transportResolver.host:stores", nHost >= 1 && nHost == nObj, p.Pos(rt.Pos()), "every transportResolver created for a round trip has its host set (%d objects, %d stores)", nObj, nHost)

	// --- AUTH
	nAuth := 0
	for _, st := range storesTo(p, lits, "Host") {
		x := p.X(st.Addr)
		if !(x.Op == "field" && isClone(x.Args[0])) {
			continue // URL.Host handled below
		}
		nAuth++
		v := p.X(st.Val)
		empty := false
		for _, f := range p.Facts(st.Block()) {
			if f.Op == "==" && f.R.Name == "0" && f.L.Op == "call" && f.L.Name == "len" && f.L.Args[0].Op == "field" && f.L.Args[0].Name == "Host" && isClone(f.L.Args[0].Args[0]) {
				empty = true
			}
		}
		before := urlHostStore != nil && !core.MayFollow(urlHostStore, st)
		r.Check("C19.AUTH", "req.Host", cloneURLHost(v) && empty && before, p.InstrPos(st), "the Host/:authority sent is the original URL.Host (%v), set only when the caller gave none (%v), before URL.Host is replaced by the pool key (%v)", cloneURLHost(v), empty, before)
		// ... and whenever the caller gave none: the emptiness test lies on every
		// way to the pool-key rewrite and nothing else decides about the store
		if empty && urlHostStore != nil {
			isEmptyTest := func(f core.Fact) bool {
				return (f.Op == "==" || f.Op == "!=" || f.Op == ">") && f.R != nil && f.R.Name == "0" && f.L.Op == "call" && f.L.Name == "len" && f.L.Args[0].Op == "field" && f.L.Args[0].Name == "Host" && isClone(f.L.Args[0].Args[0])
			}
			var test *ssa.BasicBlock
			for b := st.Block(); b != nil && test == nil; b = b.Idom() {
				if iff, ok := b.Instrs[len(b.Instrs)-1].(*ssa.If); ok && isEmptyTest(p.FactOf(core.Guard{Cond: iff.Cond, Pol: true, If: iff})) {
					test = b
				}
			}
			always := false
			extra := ""
			if test != nil {
				always = test.Dominates(urlHostStore.Block())
				base := map[string]bool{}
				for _, f := range p.Facts(test) {
					base[f.String()] = true
				}
				for _, f := range p.Facts(st.Block()) {
					if !base[f.String()] && !isEmptyTest(f) {
						extra = f.String()
					}
				}
			}
			r.Check("C19.AUTH", "req.Host:always", always && extra == "", p.InstrPos(st), "the emptiness test of req.Host lies on every way to the pool-key rewrite (%v) and is the only condition of the store (another one: %s)", always, extra)
		}
	}
	r.Check("C19.AUTH", "req.Host:stores", nAuth == 1, p.Pos(rt.Pos()), "one store to the clone's Host (found %d)", nAuth)
	for _, s := range callSites(p, []*ssa.Function{rt}, `net\.SplitHostPort`) {
		r.Check("C19.AUTH", "split:input", cloneURLHost(s.X.Args[0]) && urlHostStore != nil && !core.MayFollow(urlHostStore, s.Instr), p.InstrPos(s.Instr), "host and port are split from the request URL's host, before it is replaced: %s", short(s.X.Args[0]))
	}

	// --- POOL
	if urlHostStore == nil {
		r.Check("C19.POOL", "pool-key", false, p.Pos(rt.Pos()), "URL.Host is not rewritten into a pool key")
	} else {
		v := p.X(urlHostStore.Val)
		var hasPort, hasScheme, hasHost bool
		// the key, formatted or concatenated: three values, each between
		// non-empty literals
		parts, ok := stringParts(p, v)
		if ok {
			nVar := 0
			for i, part := range parts {
				if part.Val == nil {
					continue
				}
				nVar++
				if i == 0 || i == len(parts)-1 || parts[i-1].Val != nil || parts[i-1].Lit == "" || parts[i+1].Val != nil || parts[i+1].Lit == "" {
					ok = false
				}
				for _, alt := range part.Val.Alts() {
					switch {
					case alt.Op == "ext" && alt.Name == "#1" && alt.Args[0].Name == "net.SplitHostPort":
						hasPort = true
					case alt.Op == "call" && alt.Name == "(*net/url.URL).Port":
						hasPort = true
					case alt.Op == "field" && alt.Name == "Scheme":
						hasScheme = true
					case hostPart(alt):
						hasHost = true
					}
				}
			}
			ok = ok && nVar == 3
		}
		r.Check("C19.POOL", "pool-key", ok && hasPort && hasScheme && hasHost, p.InstrPos(urlHostStore), "the pool key combines port (%v), scheme (%v) and host (%v) with separators, so different origins never share pooled connections: %s", hasPort, hasScheme, hasHost, short(v))
	}

	// --- UPGRADE
	for _, st := range storesTo(p, lits, "Scheme") {
		x := p.X(st.Addr)
		onClone := x.Args[0].Op == "field" && x.Args[0].Name == "URL" && isClone(x.Args[0].Args[0])
		v := p.X(st.Val)
		fs := p.Facts(st.Block())
		hasRR, isHTTP := false, false
		for _, f := range fs {
			if f.Op == ">" && f.R.Name == "0" && f.L.Op == "call" && f.L.Name == "len" && f.L.Args[0].Op == "field" && f.L.Args[0].Name == "HTTPS" {
				hasRR = true
			}
			if f.Op == "==" && f.R.Name == `"http"` && f.L.Op == "field" && f.L.Name == "Scheme" {
				isHTTP = true
			}
		}
		r.Check("C19.UPGRADE", "scheme-upgrade", onClone && v.Name == `"https"` && hasRR && isHTTP, p.InstrPos(st), "http is upgraded to https only when the origin publishes HTTPS records (%v) and the scheme is http (%v), on the clone (%v)", hasRR, isHTTP, onClone)
		// ... and always then (a port in the URL, say, does not exempt it: the
		// records found are those of that very port, RFC 9460 9.5)
		// decided on the function's graph with both conditions assumed: every
		// return that the two tests lead to lies behind the store
		fn := st.Parent()
		cfg, hits := pruneBy(p, fn, []assumption{
			cmpAssume("records", ">", func(e *core.Expr) bool {
				return e.Op == "call" && e.Name == "len" && e.Args[0].Op == "field" && e.Args[0].Name == "HTTPS"
			}, isConstName("0")),
			cmpAssume("http", "==", func(e *core.Expr) bool { return e.Op == "field" && e.Name == "Scheme" }, isConstName(`"http"`)),
		})
		always := len(hits["records"]) > 0 && len(hits["http"]) > 0 && cfg.Live(st.Block())
		skipped := ""
		if always {
			from := cfg.ReachableFrom(hits["http"][0].Block())
			from2 := cfg.ReachableFrom(hits["records"][0].Block())
			for _, ret := range core.Returns(fn) {
				rb := ret.Block()
				if cfg.Live(rb) && from[rb] && from2[rb] && !cfg.Dominates(st.Block(), rb) {
					always = false
					skipped = p.InstrPos(ret)
				}
			}
		}
		// nothing reads the scheme before the upgrade except the upgrade's own
		// test: the default port and the pool key are those of the scheme the
		// request is sent with
		early := ""
		for _, b := range fn.Blocks {
			for _, in := range b.Instrs {
				ld, ok := in.(*ssa.UnOp)
				if !ok || ld.Op != token.MUL {
					continue
				}
				fa, ok := ld.X.(*ssa.FieldAddr)
				if !ok || fieldVar(fa) == nil || fieldVar(fa).Name() != "Scheme" || !core.MayFollow(ld, st) || ld.Block() == st.Block() {
					continue
				}
				own := false
				for _, f := range fs {
					if f.L.Val == ssa.Value(ld) {
						own = true
					}
				}
				if !own && len(*ld.Referrers()) > 0 {
					early = p.InstrPos(ld)
				}
			}
		}
		r.Check("C19.UPGRADE", "scheme-read-after-upgrade", early == "", p.InstrPos(st), "the scheme is not consulted (for the default port, the pool key) before the upgrade is decided (read at %q)", early)
		r.Check("C19.UPGRADE", "scheme-upgrade-always", always, p.InstrPos(st), "the upgrade happens whenever the origin publishes HTTPS records and the scheme is http: with both assumed, no way to a return goes round the store (one does: %q)", skipped)
	}
	r.Floor("C19.UPGRADE", 1)
	// the records that trigger the upgrade are found only if an http URL asks for
	// the https query name of its origin (RFC 9460 9.5)
	if rs := p.Func(Ech, "(*Resolver).Resolve"); rs != nil {
		c14QueryName(p, r, rs, "C19.UPGRADE.query")
	} else {
		r.Undecided("C19.UPGRADE.query", "Resolve", "-", "Resolve not found")
	}

	// --- H3
	c19H3(p, r, rt)
	// the scan takes the records in the order Resolve left them: sorted by priority
	if rs, rtg := p.Func(Ech, "(*Resolver).Resolve"), p.Func(Ech, "(*Resolver).resolveTarget"); rs != nil && rtg != nil {
		c14Sorted(p, r, rs, rtg, "C19.H3.sorted")
	} else {
		r.Undecided("C19.H3.sorted", "Resolve", "-", "Resolve / resolveTarget not found")
	}

	// --- BIND
	okBind := false
	for _, st := range storesTo(p, lits, "Request") {
		v := p.X(st.Val)
		okBind = v.Val == ssa.Value(reqP)
		r.Check("C19.BIND", "resp.Request", okBind, p.InstrPos(st), "the response is bound to the caller's original request")
	}
	r.Check("C19.BIND", "resp.Request:set", okBind, p.Pos(rt.Pos()), "resp.Request is set")
	// every response handed back - whichever round-tripper produced it - went through that store
	nResp := 0
	for _, ret := range core.Returns(rt) {
		if len(ret.Results) != 2 || isNilConst(ret.Results[0]) {
			continue
		}
		nResp++
		resp := p.X(ret.Results[0])
		bound := false
		for _, st := range storesTo(p, []*ssa.Function{rt}, "Request") {
			a := p.X(st.Addr)
			if a.Op == "field" && a.Args[0].String() == resp.String() && p.X(st.Val).Val == ssa.Value(reqP) && (st.Block() == ret.Block() || st.Block().Dominates(ret.Block())) {
				bound = true
			}
		}
		r.Check("C19.BIND", fmt.Sprintf("return#%d", nResp), bound, p.InstrPos(ret), "the response returned here (%s) had its Request set to the caller's request on every path (an early return from the HTTP/3 branch would hand back the internal clone with the pool-key URL)", short(resp))
	}
	r.Check("C19.BIND", "returns", nResp >= 1, p.Pos(rt.Pos()), "RoundTrip has %d response-carrying returns", nResp)
	nBad := 0
	for _, l := range lits {
		for _, b := range l.Blocks {
			for _, in := range b.Instrs {
				st, ok := in.(*ssa.Store)
				if !ok || p.CellRoot(st.Addr) != nil {
					continue
				}
				a := p.X(st.Addr)
				through := false
				cur := a
				for cur != nil && (cur.Op == "field" || cur.Op == "index" || cur.Op == "deref") {
					cur = cur.Args[0]
				}
				if cur != nil && cur.Val == ssa.Value(reqP) {
					through = true
				}
				if through {
					nBad++
					r.Check("C19.BIND", "store-through-request", false, p.InstrPos(st), "the caller's request is modified: %s", short(a))
				}
			}
		}
	}
	r.Check("C19.BIND", "request-untouched", nBad == 0, p.Pos(rt.Pos()), "no store goes through the caller's request (%d found)", nBad)
}

func c19H3(p *core.Prog, r *core.Run, rt *ssa.Function) {
	isContains := func(e *core.Expr, proto string) bool {
		if e.Op == "call" && e.Name == "slices.Contains" && len(e.Args) == 2 && e.Args[0].Op == "field" && e.Args[0].Name == "ALPN" && e.Args[1].Name == `"`+strings.TrimPrefix(proto, "=")+`"` {
			return true
		}
		// slices.ContainsFunc(ALPN, func(p string) bool { return p == "a" || p == "b" }):
		// a membership test for each protocol the predicate accepts
		if e.Op == "call" && e.Name == "slices.ContainsFunc" && len(e.Args) == 2 && e.Args[0].Op == "field" && e.Args[0].Name == "ALPN" && e.Args[1].Fn != nil {
			pred := e.Args[1].Fn
			if len(pred.Params) != 1 {
				return false
			}
			// every return is the parameter compared with a constant, or a
			// constant; the constants compared with are what it accepts
			accepts := map[string]bool{}
			okShape := true
			var visit func(v ssa.Value, depth int)
			visit = func(v ssa.Value, depth int) {
				switch x := v.(type) {
				case *ssa.Const:
				case *ssa.Phi:
					if depth > 4 {
						okShape = false
						return
					}
					for _, ed := range x.Edges {
						visit(ed, depth+1)
					}
				case *ssa.BinOp:
					c, isC := x.Y.(*ssa.Const)
					if x.Op == token.EQL && x.X == ssa.Value(pred.Params[0]) && isC && c.Value != nil {
						accepts[c.Value.ExactString()] = true
					} else {
						okShape = false
					}
				default:
					okShape = false
				}
			}
			for _, ret := range core.Returns(pred) {
				visit(ret.Results[0], 0)
			}
			// the tests leading to a `return true` constant
			for _, b := range pred.Blocks {
				if iff, ok := b.Instrs[len(b.Instrs)-1].(*ssa.If); ok {
					visit(iff.Cond, 0)
				}
			}
			if strings.HasPrefix(proto, "=") {
				// asked whether a positive answer means exactly this protocol
				return okShape && len(accepts) == 1 && accepts[`"`+proto[1:]+`"`]
			}
			return okShape && accepts[`"`+proto+`"`]
		}
		return false
	}
	// the scan loop: a loop over res.HTTPS in RoundTrip itself
	var hdr *ssa.BasicBlock
	var body map[*ssa.BasicBlock]bool
	for h, b := range core.Loops(rt) {
		if iff, ok := h.Instrs[len(h.Instrs)-1].(*ssa.If); ok {
			f := p.FactOf(core.Guard{Cond: iff.Cond, Pol: true, If: iff})
			if f.R != nil && f.R.Op == "call" && f.R.Name == "len" && f.R.Args[0].Op == "field" && f.R.Args[0].Name == "HTTPS" {
				hdr, body = h, b
			}
		}
	}
	if hdr == nil {
		r.Check("C19.H3", "scan-loop", false, p.Pos(rt.Pos()), "no scan over the HTTPS records to choose the protocol")
		return
	}
	// ways round the loop: the back edges, or - when they first meet in a block
	// that only advances the counter - the edges into that block
	type way struct {
		from *ssa.BasicBlock
		fs   []core.Fact
	}
	var ways []way
	for b := range body {
		for _, s := range b.Succs {
			if s != hdr {
				continue
			}
			latch := len(b.Preds) >= 2 && len(b.Succs) == 1
			for _, in := range b.Instrs {
				switch in.(type) {
				case *ssa.BinOp, *ssa.Phi, *ssa.Jump:
				default:
					latch = false
				}
			}
			if !latch {
				ways = append(ways, way{b, p.EdgeFacts(b, s)})
				continue
			}
			for _, pr := range b.Preds {
				ways = append(ways, way{pr, p.EdgeFacts(pr, b)})
			}
		}
	}
	for _, w := range ways {
		alias := false
		var noH3, ndalpn, noH2, noH11 bool
		for _, f := range w.fs {
			if f.Op == "==" && f.R != nil && f.R.Name == "0" && f.L.Op == "field" && f.L.Name == "Priority" {
				alias = true
			}
			if f.Op == "false" && isContains(f.L, "h3") {
				noH3 = true
			}
			if f.Op == "false" && isContains(f.L, "h2") {
				noH2 = true
			}
			if f.Op == "false" && isContains(f.L, "http/1.1") {
				noH11 = true
			}
			if f.Op == "true" && f.L.Op == "field" && f.L.Name == "NoDefaultALPN" {
				ndalpn = true
			}
		}
		ok := alias || (noH3 && ndalpn && noH2 && noH11)
		r.Check("C19.H3", fmt.Sprintf("scan:continue b%d", w.from.Index), ok, p.InstrPos(w.from.Instrs[len(w.from.Instrs)-1]),
			"the scan moves on to a less-preferred record only past an alias record (%v) or a record usable by neither protocol (no h3: %v, no-default-alpn: %v, no h2: %v, no http/1.1: %v); a usable TCP record must stop the scan so that a less-preferred h3 record cannot win", alias, noH3, ndalpn, noH2, noH11)
	}

	// the decision: a boolean whose value is, through φ-nodes, a constant on
	// every way it is reached, and which some If tests
	type leaf struct {
		val bool
		fs  []core.Fact
	}
	var leavesOf func(v ssa.Value, fs []core.Fact, depth int) ([]leaf, bool)
	leavesOf = func(v ssa.Value, fs []core.Fact, depth int) ([]leaf, bool) {
		switch x := v.(type) {
		case *ssa.Const:
			if x.Value != nil && (x.Value.ExactString() == "true" || x.Value.ExactString() == "false") {
				return []leaf{{x.Value.ExactString() == "true", fs}}, true
			}
		case *ssa.Phi:
			if depth > 4 {
				return nil, false
			}
			var out []leaf
			for i, e := range x.Edges {
				l, ok := leavesOf(e, append(append([]core.Fact{}, fs...), p.EdgeFacts(x.Block().Preds[i], x.Block())...), depth+1)
				if !ok {
					return nil, false
				}
				out = append(out, l...)
			}
			return out, true
		}
		return nil, false
	}
	var useH3 *ssa.Phi
	var leaves []leaf
	for _, b := range rt.Blocks {
		if iff, ok := b.Instrs[len(b.Instrs)-1].(*ssa.If); ok {
			if ph, ok := iff.Cond.(*ssa.Phi); ok && len(ph.Edges) >= 2 {
				if l, ok := leavesOf(ph, nil, 0); ok {
					hasTrue := false
					for _, x := range l {
						hasTrue = hasTrue || x.val
					}
					if hasTrue {
						useH3, leaves = ph, l
					}
				}
			}
		}
	}
	if useH3 == nil {
		r.Check("C19.H3", "useH3", false, p.Pos(rt.Pos()), "no protocol decision found after the scan")
		return
	}
	nTrue := 0
	for _, l := range leaves {
		if !l.val {
			continue
		}
		nTrue++
		var tr, svc, h3 bool
		for _, f := range l.fs {
			if f.Op == "!=" && f.R != nil && f.R.Name == "nil" && f.L.Op == "field" && f.L.Name == "HTTP3Transport" {
				tr = true
			}
			if f.Op == "!=" && f.R != nil && f.R.Name == "0" && f.L.Op == "field" && f.L.Name == "Priority" {
				svc = true
			}
			if f.Op == "true" && isContains(f.L, "=h3") {
				h3 = true
			}
		}
		r.Check("C19.H3", fmt.Sprintf("useH3:true-edge#%d", nTrue), tr && svc && h3, p.InstrPos(useH3), "HTTP/3 is chosen only with an HTTP/3 round-tripper (%v), on a service-mode record (%v) whose ALPN lists h3 (%v)", tr, svc, h3)
	}
	decided := func(fs []core.Fact) (pol, ok bool) {
		for _, f := range fs {
			if (f.Op == "true" || f.Op == "false") && f.L.Val == ssa.Value(useH3) {
				return f.Op == "true", true
			}
		}
		return false, false
	}

	// the dispatch: every RoundTrip call on a round-tripper, with the resolver
	// object it is given; when one call serves both protocols the round-tripper
	// and the filtered result are selected together beforehand (φ-nodes of one block)
	strip := func(v ssa.Value) ssa.Value {
		for {
			switch x := v.(type) {
			case *ssa.MakeInterface:
				v = x.X
			case *ssa.ChangeInterface:
				v = x.X
			case *ssa.ChangeType:
				v = x.X
			default:
				return v
			}
		}
	}
	// filter parameters of a filtered result value: the keys of the ALPN set and
	// the must-have flag the DeleteFunc predicate was created with
	filterOf := func(res ssa.Value, pick func(ssa.Value) ssa.Value) (keys []string, must string, ok bool) {
		ld, isLoad := strip(res).(*ssa.UnOp)
		var cell *ssa.Alloc
		if isLoad {
			cell, _ = ld.X.(*ssa.Alloc)
		}
		if cell == nil {
			// the anchored form: a call of the filter literal with (set, flag)
			if c, isCall := strip(res).(*ssa.Call); isCall {
				e := p.X(c)
				if e.Fn != nil && core.Root(e.Fn) == rt && len(c.Call.Args) == 2 && len(callSites(p, core.Closures(e.Fn), `slices\.DeleteFunc`)) == 1 {
					if m, isMap := strip(pick(strip(c.Call.Args[0]))).(*ssa.MakeMap); isMap {
						for _, ref := range *m.Referrers() {
							if mu, ok := ref.(*ssa.MapUpdate); ok {
								keys = append(keys, p.X(mu.Key).Name)
							}
						}
					}
					sort.Strings(keys)
					return keys, p.X(pick(c.Call.Args[1])).Name, true
				}
			}
			return nil, "", false
		}
		for _, ref := range *cell.Referrers() {
			fa, isFA := ref.(*ssa.FieldAddr)
			if !isFA || p.X(fa).Name != "HTTPS" {
				continue
			}
			for _, r2 := range *fa.Referrers() {
				st, isSt := r2.(*ssa.Store)
				if !isSt || !core.Before(st, ld) {
					continue
				}
				d, isCall := st.Val.(*ssa.Call)
				if !isCall || p.X(d).Name != "slices.DeleteFunc" {
					continue
				}
				mc, isMC := strip(d.Call.Args[1]).(*ssa.MakeClosure)
				if !isMC {
					continue
				}
				for _, bnd := range mc.Bindings {
					var vals []ssa.Value
					if al, isAl := bnd.(*ssa.Alloc); isAl {
						stores, _ := p.CellDefs(al)
						for _, cs := range stores {
							vals = append(vals, cs.Val)
						}
					} else if stt, isStruct := bnd.Type().Underlying().(*types.Struct); isStruct {
						// the settings as a struct captured by value (the receiver of a
						// method value used as the predicate)
						for i := 0; i < stt.NumFields(); i++ {
							vals = append(vals, core.StructFieldValues(bnd, i)...)
						}
					}
					for _, csVal := range vals {
						switch v := strip(pick(strip(csVal))).(type) {
						case *ssa.Const:
							if v.Value != nil && (v.Value.ExactString() == "true" || v.Value.ExactString() == "false") {
								must = v.Value.ExactString()
							}
						case *ssa.MakeMap:
							for _, ref := range *v.Referrers() {
								if mu, ok := ref.(*ssa.MapUpdate); ok {
									keys = append(keys, p.X(mu.Key).Name)
								}
							}
						}
					}
				}
				sort.Strings(keys)
				return keys, must, true
			}
		}
		return nil, "", false
	}
	type want struct {
		transport string
		keys      string
		must      string
	}
	wants := map[bool]want{true: {"HTTP3Transport", `"h3"`, "true"}, false: {"HTTPTransport", `"h2","http/1.1"`, "false"}}
	seenPol := map[bool]bool{}
	nDispatch := 0
	for _, s := range allCalls(p, []*ssa.Function{rt}) {
		if !strings.HasSuffix(s.X.Name, ".RoundTrip") || len(s.X.Args) != 2 {
			continue
		}
		nDispatch++
		call := s.Instr.Common()
		var recv ssa.Value
		if call.IsInvoke() {
			recv = call.Value
		} else {
			recv = call.Args[0]
		}
		// the resolver object given to this call
		var resolver *ssa.Alloc
		s.X.Args[len(s.X.Args)-1].Walk(func(e *core.Expr) bool {
			if al, ok := e.Val.(*ssa.Alloc); ok && e.Op == "new" && strings.HasSuffix(e.Name, "transportResolver") {
				resolver = al
			}
			return true
		})
		var resVal ssa.Value
		if resolver != nil {
			for _, ref := range *resolver.Referrers() {
				if fa, ok := ref.(*ssa.FieldAddr); ok && p.X(fa).Name == "result" {
					for _, r2 := range *fa.Referrers() {
						if st, ok := r2.(*ssa.Store); ok {
							resVal = st.Val
						}
					}
				}
			}
		}
		key := fmt.Sprintf("dispatch#%d", nDispatch)
		if resVal == nil {
			r.Check("C19.H3", key, false, p.InstrPos(s.Instr), "cannot find the resolution result handed to this round trip through the request context")
			continue
		}
		type dcase struct {
			recv, res ssa.Value
			fs        []core.Fact
			pick      func(ssa.Value) ssa.Value
		}
		same := func(v ssa.Value) ssa.Value { return v }
		var cases []dcase
		rph, isRP := strip(recv).(*ssa.Phi)
		vph, isVP := strip(resVal).(*ssa.Phi)
		if isRP && isVP && rph.Block() == vph.Block() {
			for i := range rph.Edges {
				cases = append(cases, dcase{rph.Edges[i], vph.Edges[i], append(p.Facts(s.Block()), p.EdgeFacts(rph.Block().Preds[i], rph.Block())...), same})
			}
		} else if isRP {
			// the round-tripper and the filter's parameters are selected together,
			// the filtering itself happens once afterwards: one case per way in,
			// with every selection of that block taken from the same way
			for i := range rph.Edges {
				pick := func(v ssa.Value) ssa.Value {
					if ph, ok := v.(*ssa.Phi); ok && ph.Block() == rph.Block() && i < len(ph.Edges) {
						return ph.Edges[i]
					}
					return v
				}
				cases = append(cases, dcase{rph.Edges[i], resVal, append(p.Facts(s.Block()), p.EdgeFacts(rph.Block().Preds[i], rph.Block())...), pick})
			}
		} else {
			cases = append(cases, dcase{recv, resVal, p.Facts(s.Block()), same})
		}
		for ci, c := range cases {
			pol, okPol := decided(c.fs)
			tr := p.X(strip(c.recv))
			trName := ""
			if tr.Op == "field" && tr.Args[0].Op == "param" && tr.Args[0].Name == "p0" {
				trName = tr.Name
			}
			keys, must, okF := filterOf(c.res, c.pick)
			w := wants[pol]
			if okPol {
				seenPol[pol] = true
			}
			r.Check("C19.H3", fmt.Sprintf("%s:case#%d", key, ci), okPol && okF && trName == w.transport && strings.Join(keys, ",") == w.keys && must == w.must, p.InstrPos(s.Instr),
				"with useH3=%v (decided here: %v) the request goes to %s with a result filtered (%v) with ALPN set [%s], must-have=%s (expected %s, [%s], %s)", pol, okPol, trName, okF, strings.Join(keys, ","), must, w.transport, w.keys, w.must)
		}
	}
	r.Check("C19.H3", "dispatch:both", seenPol[true] && seenPol[false], p.Pos(rt.Pos()), "both protocol branches dispatch a round trip (%d RoundTrip call sites)", nDispatch)

	// the filter only removes records: what RoundTrip puts into the HTTPS list
	// of the result it hands to the dialer is that list with records deleted,
	// never a record of its own making (Dial and Targets take every record in
	// the list for one the DNS published)
	if hf := field(p, Ech, "ResolveResult", "HTTPS"); hf != nil {
		nSt := 0
		for _, st := range fieldStores(p, core.Closures(rt), hf) {
			nSt++
			v := p.X(st.Val)
			ok := false
			for _, a := range v.Alts() {
				ok = a.Op == "call" && a.Name == "slices.DeleteFunc" && len(a.Args) == 2 && a.Args[0].Op == "field" && a.Args[0].Obj == hf
				if !ok {
					break
				}
			}
			r.Check("C19.H3", fmt.Sprintf("filter:only-removes#%d", nSt), ok, p.InstrPos(st), "the record list handed to the dialer is the resolver's with records removed: %s", short(v))
		}
	}
	// the filter predicate: the literal(s) given to slices.DeleteFunc
	filts := map[*ssa.Function]bool{}
	for _, s := range callSites(p, core.Closures(rt), `slices\.DeleteFunc`) {
		if cl := s.X.Args[1]; (cl.Op == "closure" || cl.Op == "func") && cl.Fn != nil {
			filts[cl.Fn] = true
		}
	}
	if len(filts) != 1 {
		r.Check("C19.H3", "filter", false, p.Pos(rt.Pos()), "expected one DeleteFunc predicate over the records, found %d", len(filts))
		return
	}
	var filt *ssa.Function
	for f := range filts {
		filt = f
	}
	isBoolCell := func(f core.Fact) bool {
		if f.G.Cond == nil {
			return false
		}
		_, isCell := p.IsCellLoad(f.G.Cond)
		return isCell && f.G.Cond.Type().String() == "bool"
	}
	// (a flag of the settings struct the predicate captured by value)
	isCapturedFlag := func(f core.Fact) bool {
		if f.G.Cond == nil || f.G.Cond.Type().String() != "bool" {
			return false
		}
		v := f.G.Cond
		for i := 0; i < 4; i++ {
			switch x := v.(type) {
			case *ssa.Field:
				v = x.X
				continue
			case *ssa.UnOp:
				if fa, ok := x.X.(*ssa.FieldAddr); ok && x.Op == token.MUL {
					// the receiver spilled into a local of the (inlined) method
					if al, ok := fa.X.(*ssa.Alloc); ok {
						stores, calls := p.CellDefs(al)
						if len(stores) == 1 && len(calls) == 0 {
							v = stores[0].Val
							continue
						}
					}
				}
			}
			break
		}
		fv, ok := v.(*ssa.FreeVar)
		return ok && fv.Parent() == filt
	}
	for i, ret := range core.Returns(filt) {
		if p.X(ret.Results[0]).Name != "false" {
			continue // "delete" is always safe
		}
		fs := p.Facts(ret.Block())
		svc := false
		var c1, c2, c3 bool
		var notMust, noALPN, defALPN, want11, wanted bool
		for _, f := range fs {
			if f.Op == "!=" && f.R != nil && f.R.Name == "0" && f.L.Op == "field" && f.L.Name == "Priority" {
				svc = true
			}
			if f.Op == "false" && (f.L.Op == "param" || isBoolCell(f) || isCapturedFlag(f)) {
				notMust = true
			}
			if f.Op == "==" && f.R != nil && f.R.Name == "0" && f.L.Op == "call" && f.L.Name == "len" && f.L.Args[0].Op == "field" && f.L.Args[0].Name == "ALPN" {
				noALPN = true
			}
			if f.Op == "false" && f.L.Op == "field" && f.L.Name == "NoDefaultALPN" {
				defALPN = true
			}
			if f.Op == "true" && f.L.Op == "lookup" && f.L.Args[1].Name == `"http/1.1"` {
				want11 = true
			}
			if f.Op == "true" && f.L.Op == "lookup" && f.L.Args[1].Op == "index" && f.L.Args[1].Args[0].Op == "field" && f.L.Args[1].Args[0].Name == "ALPN" {
				wanted = true
			}
			// slices.ContainsFunc(hh.ALPN, func(id string) bool { return set[id] })
			if f.Op == "true" && f.L.Op == "call" && f.L.Name == "slices.ContainsFunc" && len(f.L.Args) == 2 && f.L.Args[0].Op == "field" && f.L.Args[0].Name == "ALPN" && f.L.Args[1].Fn != nil {
				okPred := len(core.Returns(f.L.Args[1].Fn)) > 0
				for _, pr := range core.Returns(f.L.Args[1].Fn) {
					e := p.X(pr.Results[0])
					if !(e.Op == "lookup" && e.Args[1].Op == "param") {
						okPred = false
					}
				}
				if okPred {
					wanted = true
				}
			}
		}
		c1, c2, c3 = notMust && noALPN, defALPN && want11, wanted
		r.Check("C19.H3", fmt.Sprintf("filter:keep#%d", i), svc && (c1 || c2 || c3), p.InstrPos(ret), "a record is kept only if it is in service mode (%v) and compatible with the chosen protocol: no ALPN and not must-have (%v), default ALPN allowed and http/1.1 wanted (%v), or one of its ALPN ids is wanted (%v)", svc, c1, c2, c3)
	}
}
