package props

import (
	"fmt"
	"go/ast"
	"go/constant"
	"go/token"
	"strings"

	"verif/third_party/xtools/go/ssa"

	"verif/internal/core"
)

func init() {
	register(&Property{
		ID: "C14",
		Info: core.Info{
			Explanation: "Decides on the SSA of Resolve, resolveTarget and the lookup function: " +
				"(N1) taint: every name handed to a DNS lookup is either an alternative of a value on which validName() was tested true on the way (the caller's host and the _port._scheme. query name built with Sprintf alike), or comes from a decoded DNS record (bounded by the wire format and the decoder's name budget); " +
				"(N2) the query name is _<port>._<scheme>.<name> exactly under port not in {80,443}, _<scheme>.<name> exactly under scheme != https otherwise, and http is folded to https; " +
				"(N3) alias following: the HTTPS lookup is guarded by 'name not seen' and a constant chain limit with the name recorded before the lookup (seen-set variant), an alias is followed only under Priority == 0, and an error of the HTTPS lookup is fatal only if it is not ErrNonExistentDomain; " +
				"(N4) owner filter in the lookup: a record's data is used only under owner == want and type == asked type; want starts as the queried name and is replaced only by the target of a CNAME whose owner is the current want; " +
				"(N5) the rcode table maps 1..5 to the documented errors and they are wrapped with %w; any other non-zero code is an error too (C16.NOFAIL); the error also survives the cache: entries are stored only for successful lookups, or - should failures be remembered - every cache hit returns the stored error; " +
				"(N6) every loop reachable from Resolve has a termination variant; " +
				"(N7) service-mode records are sorted by Priority after the last append and before their targets are resolved; (N8) the A and the AAAA lookup of one stage use the same name value; (N9) the addresses of a record's target are looked up for every service-mode record that names one, under no further condition. " +
				"Not decided: behaviour against generated zones (needs execution).",
		},
		Rules: c14Rules,
	})
}

func c14Rules(p *core.Prog, r *core.Run) {
	rs := p.Func(Ech, "(*Resolver).Resolve")
	rt := p.Func(Ech, "(*Resolver).resolveTarget")
	one := p.Func(Ech, "(*Resolver).resolveOne")
	noc := p.Func(Ech, "(*Resolver).resolveOneNoCache")
	// the name validator, by role: a func(string) bool of the package that
	// compares len(name) with 255 and len(label) with 63
	var vn *ssa.Function
	for _, f := range p.PkgFuncs(Ech) {
		if f.Parent() != nil || f.Signature.Params().Len() != 1 || f.Signature.Results().Len() != 1 || f.Signature.Recv() != nil {
			continue
		}
		if f.Signature.Params().At(0).Type().String() != "string" || f.Signature.Results().At(0).Type().String() != "bool" {
			continue
		}
		has255, has63 := false, false
		for _, l := range core.Closures(f) {
			for _, b := range l.Blocks {
				for _, in := range b.Instrs {
					// a comparison with the limit, as a branch condition or as a returned value
					if bo, ok := in.(*ssa.BinOp); ok {
						if c, ok := bo.Y.(*ssa.Const); ok && c.Value != nil {
							switch c.Value.ExactString() {
							case "255":
								has255 = true
							case "63":
								has63 = true
							}
						}
					}
				}
			}
		}
		if has255 && has63 {
			vn = f
		}
	}
	if rs == nil || rt == nil || one == nil || noc == nil {
		r.Undecided("C14.N1", "resolver", "-", "Resolve / resolveTarget / resolveOne / resolveOneNoCache not found")
		return
	}
	r.Analysed(p.FuncName(rs), p.FuncName(rt), p.FuncName(one), p.FuncName(noc))

	// --- N1
	if vn == nil {
		r.Check("C14.N1", "validName", false, p.Pos(rs.Pos()), "no name validation function")
	} else {
		c14ValidName(p, r, vn)
	}
	var lookups []site
	for _, s := range allCalls(p, p.PkgFuncs(Ech)) {
		if s.X.Fn == one {
			lookups = append(lookups, s)
		}
	}
	flatten := func(e *core.Expr) []*core.Expr {
		var out []*core.Expr
		var walk func(x *core.Expr, d int)
		walk = func(x *core.Expr, d int) {
			if (x.Op == "phi" || x.Op == "cell") && d < 6 {
				for _, a := range x.Args {
					walk(a, d+1)
				}
				return
			}
			out = append(out, x)
		}
		walk(e, 0)
		return out
	}
	fromDecoder := func(x *core.Expr) bool {
		return x.Any(func(e *core.Expr) bool { return e.Op == "assert" && strings.HasPrefix(e.Name, "dns.") }) ||
			x.Op == "field" && x.Name == "Target" && x.Any(func(e *core.Expr) bool { return e.Op == "field" && e.Name == "HTTPS" })
	}
	for i, s := range lookups {
		name := s.X.Args[2]
		fs := p.Facts(s.Block())
		var validated []map[string]bool
		for _, f := range fs {
			if f.Op == "true" && f.L.Op == "call" && f.L.Fn == vn && vn != nil {
				set := map[string]bool{}
				for _, a := range flatten(f.L.Args[0]) {
					set[a.String()] = true
				}
				validated = append(validated, set)
			}
		}
		for _, alt := range flatten(name) {
			if alt.Op == "rec" {
				continue
			}
			key := fmt.Sprintf("%s:lookup#%d:%s", p.FuncName(core.Root(s.Fn)), i, shortKey(alt))
			if alt.Op == "param" && core.Root(s.Fn) == rt {
				continue // checked at resolveTarget's call sites below
			}
			if fromDecoder(alt) {
				r.Check("C14.N1", key, true, p.InstrPos(s.Instr), "name from a decoded DNS record")
				continue
			}
			ok := false
			for _, set := range validated {
				if set[alt.String()] {
					ok = true
				}
			}
			r.Check("C14.N1", key, ok, p.InstrPos(s.Instr), "name %s is queried only after validName() accepted it", short(alt))
		}
	}
	for i, s := range allCalls(p, p.PkgFuncs(Ech)) {
		if s.X.Fn != rt {
			continue
		}
		r.Check("C14.N1", fmt.Sprintf("resolveTarget:call#%d", i), fromDecoder(s.X.Args[2]), p.InstrPos(s.Instr), "resolveTarget is given a target name from a decoded HTTPS record: %s", short(s.X.Args[2]))
	}
	r.Floor("C14.N1", 8)

	// --- N2
	c14QueryName(p, r, rs, "C14.N2")

	// --- N3
	var httpsLookup site
	nH := 0
	for _, s := range lookups {
		if core.Root(s.Fn) == rs && s.X.Args[3].Name == `"HTTPS"` {
			httpsLookup = s
			nH++
		}
	}
	if nH != 1 {
		r.Check("C14.N3", "alias:lookup", false, p.Pos(rs.Pos()), "expected one HTTPS lookup site in Resolve, found %d", nH)
	} else {
		fs := p.Facts(httpsLookup.Block())
		unseen, limited := false, false
		var limit int64
		for _, f := range fs {
			if f.Op == "false" && f.L.Op == "lookup" && f.L.Args[0].Op == "new" {
				unseen = true
			}
			if f.Op == "<" && f.L.Op == "call" && f.L.Name == "len" && f.L.Args[0].Op == "new" && strings.HasPrefix(f.L.Args[0].Name, "map[") {
				if k, ok := f.R.ConstInt(); ok && k <= 16 {
					limited, limit = true, k
				}
			}
		}
		recorded := false
		for _, b := range rs.Blocks {
			for _, in := range b.Instrs {
				if mu, ok := in.(*ssa.MapUpdate); ok && core.Before(mu, httpsLookup.Instr) {
					if c, ok := mu.Value.(*ssa.Const); ok && c.Value != nil && c.Value.ExactString() == "true" && mu.Key == httpsLookup.Instr.Common().Args[2] {
						recorded = true
					}
				}
			}
		}
		r.Check("C14.N3", "alias:seen-set", unseen && limited && recorded, p.InstrPos(httpsLookup.Instr), "each HTTPS lookup is for a name not looked up before in this chain (%v), the chain is limited to a constant number of names (%v, limit %d) and the name is recorded before the lookup (%v)", unseen, limited, limit, recorded)
		// alias followed only under Priority == 0
		nameV := httpsLookup.Instr.Common().Args[2]
		if ph, ok := nameV.(*ssa.Phi); ok {
			nAlias := 0
			for i, e := range ph.Edges {
				x := p.X(e)
				if !(x.Op == "field" && x.Name == "Target") {
					continue
				}
				nAlias++
				prio := false
				for _, f := range p.EdgeFacts(ph.Block().Preds[i], ph.Block()) {
					if f.Op == "==" && f.R.Name == "0" && f.L.Op == "field" && f.L.Name == "Priority" {
						prio = true
					}
				}
				r.Check("C14.N3", "alias:followed-under-priority-0", prio, p.InstrPos(ph), "the next name in the chain is an HTTPS record's target only when that record is in alias mode (Priority == 0)")
			}
			r.Check("C14.N3", "alias:follow-edge", nAlias == 1, p.InstrPos(ph), "one edge follows an alias (found %d)", nAlias)
			// ... and the chain moves on in no other way: the name looked up next
			// is never anything but an alias target (not, say, another origin's name)
			if body := core.Loops(rs)[ph.Block()]; body != nil {
				for i, e := range ph.Edges {
					if !body[ph.Block().Preds[i]] {
						continue
					}
					x := p.X(e)
					for x.Op == "call" && matches(`strings\.(TrimSuffix|ToLower)`, x.Name) && len(x.Args) > 0 {
						x = x.Args[0]
					}
					if x.Op == "field" && x.Name == "Target" || e == ssa.Value(ph) {
						continue
					}
					r.Check("C14.N3", fmt.Sprintf("alias:other-way-round#%d", i), false, p.InstrPos(ph), "the HTTPS lookup is repeated for a name that is not an alias target: %s", short(x))
				}
			}
		} else {
			r.Check("C14.N3", "alias:chain", false, p.InstrPos(httpsLookup.Instr), "the HTTPS lookup is not in a loop that follows aliases")
		}
		// NXDOMAIN tolerated
		call := httpsLookup.Instr.(*ssa.Call)
		tol := false
		for _, ret := range core.Returns(rs) {
			ex, ok := retErr(ret).(*ssa.Extract)
			if !ok || ex.Tuple != ssa.Value(call) {
				continue
			}
			for _, f := range p.Facts(ret.Block()) {
				if f.Op == "false" && f.L.Op == "call" && f.L.Name == "errors.Is" && len(f.L.Args) == 2 && f.L.Args[1].Name == "ech.ErrNonExistentDomain" {
					tol = true
				}
			}
			if !tol {
				r.Check("C14.N3", "alias:nxdomain", false, p.InstrPos(ret), "an error of the HTTPS lookup aborts Resolve even when it is ErrNonExistentDomain (absence of HTTPS records must not be fatal)")
			}
		}
		r.Check("C14.N3", "alias:nxdomain-is-absence", tol, p.InstrPos(httpsLookup.Instr), "NXDOMAIN on the HTTPS lookup is treated as 'no HTTPS records'")
	}
	r.Floor("C14.N3", 4)

	// --- N4
	c14OwnerFilter(p, r, noc, "C14.N4")

	// --- N5
	c14Rcode(p, r, noc)
	c14CachedErrors(p, r, one, noc)

	// --- N6
	scope := []*ssa.Function{}
	for _, f := range reachableFuncs(p, rs) {
		if core.Root(f).Pkg != nil && core.Root(f).Pkg.Pkg.Path() == Ech {
			scope = append(scope, f)
		}
	}
	loopRules(p, r, "C14.N6", scope, func(fn *ssa.Function, lc loopClass) (string, string, bool) {
		if fn == rs && nH == 1 && core.Loops(fn)[lc.Header][httpsLookup.Block()] {
			// the alias loop: variant established by N3 (seen-set with constant limit)
			for _, o := range r.Obs {
				if o.Rule == "C14.N3" && o.Construct == "alias:seen-set" && o.OK {
					return "seen-set", "every iteration records a new name in a set whose size is limited by a constant (rule N3)", true
				}
			}
		}
		return "", "", false
	})
	r.Floor("C14.N6", 6)

	// --- N7
	c14Sorted(p, r, rs, rt, "C14.N7")

	// --- N9: every service-mode record that names a target has that target's
	// addresses looked up: inside the loop over the records the call is guarded by
	// nothing but "service mode" and "names a target"
	nRT := 0
	for _, t := range allCalls(p, []*ssa.Function{rs}) {
		if t.X.Fn != rt {
			continue
		}
		nRT++
		hdr := innermostLoop(rs, t.Instr.Block())
		if hdr == nil {
			r.Check("C14.N9", "targets:all-resolved", false, p.InstrPos(t.Instr), "target resolution is not inside a loop over the records")
			continue
		}
		outer := map[string]bool{}
		for _, f := range p.Facts(hdr) {
			outer[f.String()] = true
		}
		var extra []string
		for _, f := range p.Facts(t.Instr.Block()) {
			if outer[f.String()] {
				continue
			}
			isF := func(e *core.Expr, name string) bool { return e != nil && e.Op == "field" && e.Name == name }
			switch {
			case f.Op == "!=" && isF(f.L, "Priority") && f.R.Name == "0":
			case f.Op == ">" && isF(f.L, "Priority") && f.R.Name == "0":
			case f.Op == ">" && f.L.Op == "call" && f.L.Name == "len" && isF(f.L.Args[0], "Target") && f.R.Name == "0":
			case f.Op == "!=" && f.L.Op == "call" && f.L.Name == "len" && isF(f.L.Args[0], "Target") && f.R.Name == "0":
			case f.Op == "true" && strings.Contains(f.L.String(), "next"): // range bookkeeping
			case f.Op == "<" && f.R != nil && f.R.Op == "call" && f.R.Name == "len": // range index < len
			default:
				extra = append(extra, f.String())
			}
		}
		r.Check("C14.N9", "targets:all-resolved", len(extra) == 0, p.InstrPos(t.Instr), "inside the loop over the records, the target's addresses are looked up for every service-mode record that names a target; further conditions: %v", extra)
	}
	r.Check("C14.N9", "targets:resolve-site", nRT == 1, p.Pos(rs.Pos()), "one target-resolution site in Resolve (found %d)", nRT)
	// the addresses are filed under the target name as the record spells it:
	// that spelling is what Targets looks them up with
	nKey := 0
	for _, b := range rt.Blocks {
		for _, in := range b.Instrs {
			mu, ok := in.(*ssa.MapUpdate)
			if !ok {
				continue
			}
			if mx := p.X(mu.Map); !(mx.Op == "field" && mx.Name == "Additional") {
				continue
			}
			nKey++
			k := p.X(mu.Key)
			r.Check("C14.N9", fmt.Sprintf("targets:filed-under-name#%d", nKey), k.Op == "param", p.InstrPos(mu), "the target's addresses are stored under the name as given (%s)", short(k))
		}
	}
	r.Check("C14.N9", "targets:filed", nKey >= 1, p.Pos(rt.Pos()), "stores into ResolveResult.Additional examined: %d", nKey)

	// a target whose addresses cannot be found stays without addresses: its
	// failure never fails the lookup of the name (the other records, and the
	// name's own addresses, are still wanted)
	nTErr := 0
	for _, ret := range core.Returns(rs) {
		if len(ret.Results) == 0 || lastResultNil(ret) {
			continue
		}
		e := p.X(retErr(ret))
		fromTarget := e.Any(func(x *core.Expr) bool { return x.Op == "call" && x.Fn != nil && sameFn(x.Fn, rt) })
		if fromTarget {
			nTErr++
			r.Check("C14.N9", fmt.Sprintf("Resolve:target-error-fatal#%d", nTErr), false, p.InstrPos(ret), "Resolve fails with the error of a service-mode target's address lookup: %s", short(e))
		}
	}
	r.Check("C14.N9", "Resolve:target-errors-not-fatal", nTErr == 0, p.Pos(rs.Pos()), "no way out of Resolve carries the error of a target's address lookup (%d do)", nTErr)

	// --- N8
	for _, fn := range []*ssa.Function{rs, rt} {
		var a, aaaa ssa.Value
		for _, s := range lookups {
			if core.Root(s.Fn) != fn {
				continue
			}
			// one call site may serve both families (a loop over {"A", "AAAA"}),
			// provided the name does not change from one iteration to the next
			if len(s.X.Args[3].Alts()) > 1 {
				hdr := innermostLoop(s.Fn, s.Instr.Block())
				varies := s.X.Args[2].Any(func(e *core.Expr) bool {
					ph, ok := e.Val.(*ssa.Phi)
					return ok && hdr != nil && ph.Block() == hdr
				})
				if varies {
					continue
				}
			}
			for _, t := range s.X.Args[3].Alts() {
				switch t.Name {
				case `"A"`:
					a = s.Instr.Common().Args[2]
				case `"AAAA"`:
					aaaa = s.Instr.Common().Args[2]
				}
			}
		}
		r.Check("C14.N8", p.FuncName(fn)+":A-and-AAAA-same-name", a != nil && a == aaaa, p.Pos(fn.Pos()), "the A and the AAAA lookup use the same name value (addresses of both families belong to the same owner)")
	}
}

func shortKey(e *core.Expr) string {
	s := e.String()
	if len(s) > 60 {
		s = s[:60]
	}
	return s
}

// variadicArgs returns the expressions stored into a variadic argument array.
func variadicArgs(p *core.Prog, v ssa.Value) []*core.Expr {
	sl, ok := v.(*ssa.Slice)
	if !ok {
		return nil
	}
	al, ok := sl.X.(*ssa.Alloc)
	if !ok {
		return nil
	}
	var out []*core.Expr
	type kv struct {
		i int64
		e *core.Expr
	}
	var items []kv
	for _, ref := range *al.Referrers() {
		ia, ok := ref.(*ssa.IndexAddr)
		if !ok {
			continue
		}
		idx, _ := ia.Index.(*ssa.Const)
		for _, r2 := range *ia.Referrers() {
			if st, ok := r2.(*ssa.Store); ok && idx != nil {
				items = append(items, kv{idx.Int64(), p.X(st.Val)})
			}
		}
	}
	for i := int64(0); i < int64(len(items)); i++ {
		for _, it := range items {
			if it.i == i {
				out = append(out, it.e)
			}
		}
	}
	return out
}

// c14ValidName: validName enforces 255 / 63.
// liveAlts: the values v can have: v itself, or for a φ the values of the ways
// in that the view keeps (all of them without a view).
func liveAlts(cfg *core.PrunedCFG, v ssa.Value, depth int) []ssa.Value {
	ph, ok := v.(*ssa.Phi)
	if !ok || depth > 4 {
		return []ssa.Value{v}
	}
	var out []ssa.Value
	for i, e := range ph.Edges {
		if cfg != nil && !cfg.EdgeLive(ph.Block().Preds[i], ph.Block()) {
			continue
		}
		out = append(out, liveAlts(cfg, e, depth+1)...)
	}
	return out
}

func c14ValidName(p *core.Prog, r *core.Run, vn *ssa.Function) {
	cfg, hits := pruneBy(p, vn, []assumption{cmpAssume("len(name) > 255", ">", func(e *core.Expr) bool { return e.Op == "call" && e.Name == "len" && e.Args[0].Op == "param" }, isConstName("255"))})
	ok := len(hits["len(name) > 255"]) > 0
	for _, ret := range core.Returns(vn) {
		if !cfg.Live(ret.Block()) {
			continue
		}
		for _, v := range liveAlts(cfg, ret.Results[0], 0) {
			if p.X(v).Name != "false" {
				ok = false
			}
		}
	}
	r.Check("C14.N1", "validName:255", ok, p.Pos(vn.Pos()), "validName refuses names longer than 255 bytes")
	okL := false
	for _, b := range vn.Blocks {
		iff, isIf := b.Instrs[len(b.Instrs)-1].(*ssa.If)
		if !isIf {
			continue
		}
		f := p.FactOf(core.Guard{Cond: iff.Cond, Pol: true, If: iff})
		if f.Op == ">" && f.R != nil && f.R.Name == "63" && f.L.Op == "call" && f.L.Name == "len" {
			// the element comes from strings.Split(name, ".")
			if f.L.Args[0].Any(func(e *core.Expr) bool { return e.Op == "call" && e.Name == "strings.Split" && e.Args[1].Name == `"."` }) {
				if ret, isRet := b.Succs[0].Instrs[len(b.Succs[0].Instrs)-1].(*ssa.Return); isRet && p.X(ret.Results[0]).Name == "false" {
					okL = true
					// ... every label: no way round the loop goes past the test
					for h, body := range core.Loops(vn) {
						if !body[b] {
							continue
						}
						for lb := range body {
							for _, s := range lb.Succs {
								if s == h && lb != h && !(b == lb || b.Dominates(lb)) {
									okL = false
								}
							}
						}
					}
				}
			}
		}
	}
	// the same as a library search: !slices.ContainsFunc(strings.Split(name, "."), func(l) { return len(l) > 63 })
	if !okL {
		for _, s := range callSites(p, []*ssa.Function{vn}, `slices\.ContainsFunc`) {
			x := s.X
			if len(x.Args) != 2 || !(x.Args[0].Op == "call" && x.Args[0].Name == "strings.Split" && x.Args[0].Args[1].Name == `"."` && x.Args[0].Args[0].Op == "param") || x.Args[1].Fn == nil {
				continue
			}
			pred := len(core.Returns(x.Args[1].Fn)) > 0
			for _, ret := range core.Returns(x.Args[1].Fn) {
				e := p.X(ret.Results[0])
				if !(e.Op == "bin" && e.Name == ">" && e.Args[1].Name == "63" && e.Args[0].Op == "call" && e.Args[0].Name == "len" && e.Args[0].Args[0].Op == "param") {
					pred = false
				}
			}
			// validName is false whenever the search finds one
			neg := true
			for _, ret := range core.Returns(vn) {
				for _, rv := range liveAlts(nil, ret.Results[0], 0) {
					e := p.X(rv)
					if e.Op == "const" && e.Name == "false" {
						continue
					}
					if !(e.Op == "un" && e.Name == "!" && e.Args[0].Val == s.Instr.(ssa.Value)) && !(e.Op == "const" && e.Name == "true" && core.HasFact(p.Facts(ret.Block()), "false", `slices\.ContainsFunc\(.*`, "")) {
						neg = false
					}
				}
			}
			if pred && neg {
				okL = true
			}
		}
	}
	// the same with the labels produced one at a time by strings.Cut(rest, "."):
	// rest starts as the name and continues with what Cut left; every piece cut
	// off is tested
	if !okL {
		for _, b := range vn.Blocks {
			iff, isIf := b.Instrs[len(b.Instrs)-1].(*ssa.If)
			if !isIf {
				continue
			}
			f := p.FactOf(core.Guard{Cond: iff.Cond, Pol: true, If: iff})
			if !(f.Op == ">" && f.R != nil && f.R.Name == "63" && f.L.Op == "call" && f.L.Name == "len") {
				continue
			}
			ex, ok := f.L.Args[0].Val.(*ssa.Extract)
			if !ok || ex.Index != 0 {
				continue
			}
			cut, ok := ex.Tuple.(*ssa.Call)
			if !ok || p.X(cut).Name != "strings.Cut" || p.X(cut.Call.Args[1]).Name != `"."` {
				continue
			}
			rest, ok := cut.Call.Args[0].(*ssa.Phi)
			if !ok {
				continue
			}
			fromName, fromCut := false, true
			for _, e := range rest.Edges {
				if e == ssa.Value(vn.Params[0]) {
					fromName = true
					continue
				}
				if e2, ok := e.(*ssa.Extract); !ok || e2.Index != 1 || e2.Tuple != ssa.Value(cut) {
					fromCut = false
				}
			}
			// the test sits between the cut and the next round: it dominates every back edge
			dom := true
			for i := range rest.Edges {
				if pr := rest.Block().Preds[i]; pr != vn.Blocks[0] && core.CanReach(rest.Block(), pr) && !b.Dominates(pr) {
					dom = false
				}
			}
			if ret, isRet := b.Succs[0].Instrs[len(b.Succs[0].Instrs)-1].(*ssa.Return); isRet && p.X(ret.Results[0]).Name == "false" && fromName && fromCut && dom {
				// and a true result is only returned once Cut found no further separator
				okL = true
				for _, ret := range core.Returns(vn) {
					if p.X(ret.Results[0]).Name == "false" {
						continue
					}
					noMore := false
					for _, g := range p.Facts(ret.Block()) {
						if g.Op == "false" {
							if e2, ok := g.L.Val.(*ssa.Extract); ok && e2.Index == 2 && e2.Tuple == ssa.Value(cut) {
								noMore = true
							}
							if ph, ok := g.L.Val.(*ssa.Phi); ok {
								for _, e := range ph.Edges {
									if e2, ok := e.(*ssa.Extract); ok && e2.Index == 2 && e2.Tuple == ssa.Value(cut) {
										noMore = true
									}
								}
							}
						}
					}
					if !noMore {
						okL = false
					}
				}
			}
		}
	}
	r.Check("C14.N1", "validName:63", okL, p.Pos(vn.Pos()), "validName refuses any dot-separated label longer than 63 bytes")
}

func c14OwnerFilter(p *core.Prog, r *core.Run, noc *ssa.Function, rule string) {
	isOwner := func(e *core.Expr) bool {
		return e.Op == "call" && e.Name == "strings.TrimSuffix" && e.Args[0].Op == "field" && e.Args[0].Name == "Name" && e.Args[0].Args[0].Op == "index"
	}
	// the append of a.Data
	n := 0
	var wantPhi *ssa.Phi
	for _, s := range callSites(p, []*ssa.Function{noc}, `append`) {
		args := variadicArgs(p, s.Instr.Common().Args[1])
		if len(args) != 1 || !(args[0].Op == "field" && args[0].Name == "Data") {
			continue
		}
		n++
		owner, typ := false, false
		// (what holds at the top of the innermost loop around the append)
		base := map[string]bool{}
		var hdr *ssa.BasicBlock
		for h, body := range core.Loops(noc) {
			if body[s.Block()] && (hdr == nil || core.Loops(noc)[hdr][h]) {
				hdr = h
			}
		}
		if hdr != nil {
			for _, f := range p.Facts(hdr) {
				base[f.String()] = true
			}
			for _, sc := range hdr.Succs {
				if core.Loops(noc)[hdr][sc] {
					for _, f := range p.EdgeFacts(hdr, sc) {
						base[f.String()] = true
					}
				}
			}
		}
		var extra []string
		for _, f := range p.Facts(s.Block()) {
			isO := f.Op == "==" && (isOwner(f.L) || isOwner(f.R))
			isT := f.Op == "==" && f.L.Op == "field" && f.L.Name == "Type" && f.R.Op == "call" && f.R.Name == "dns.RRType" && f.R.Args[0].Op == "param"
			if hdr != nil && !isO && !isT && !base[f.String()] {
				extra = append(extra, f.String())
			}
		}
		r.Check(rule, "lookup:use-every-record", hdr != nil && len(extra) == 0, p.InstrPos(s.Instr), "every record of the right owner and type is returned: nothing else decides inside the answer loop (further conditions: %v)", extra)
		for _, f := range p.Facts(s.Block()) {
			if f.Op == "==" && (isOwner(f.L) || isOwner(f.R)) {
				owner = true
				other := f.R
				if isOwner(f.R) {
					other = f.L
				}
				if ph, ok := other.Val.(*ssa.Phi); ok {
					wantPhi = ph
				}
			}
			if f.Op == "==" && f.L.Op == "field" && f.L.Name == "Type" && f.R.Op == "call" && f.R.Name == "dns.RRType" && f.R.Args[0].Op == "param" {
				typ = true
			}
		}
		r.Check(rule, "lookup:use-record", owner && typ, p.InstrPos(s.Instr), "a record's data is returned only when its owner name equals the name being followed (%v) and its type is the type asked for (%v)", owner, typ)
	}
	// ... and what was collected is what is returned: not a prefix, a sample or
	// a reordering of it
	for i, ret := range core.Returns(noc) {
		if len(ret.Results) == 0 || !lastResultNil(ret) {
			continue
		}
		cut := ""
		for _, a := range p.X(ret.Results[0]).Alts() {
			if a.Op == "slice" || a.Op == "call" && a.Name != "append" {
				cut = short(a)
			}
		}
		r.Check(rule, fmt.Sprintf("lookup:returns-all#%d", i), cut == "", p.InstrPos(ret), "the lookup returns the list it collected, whole (%s)", cut)
	}
	r.Check(rule, "lookup:use-sites", n == 1, p.Pos(noc.Pos()), "one place collects record data (found %d)", n)
	if wantPhi == nil {
		r.Check(rule, "lookup:want", false, p.Pos(noc.Pos()), "the name being followed is not carried through the answer loop")
		return
	}
	// inputs of want: the queried name, or a CNAME target under owner == want && type == 5
	okIn := true
	nCname := 0
	seen := map[*ssa.Phi]bool{}
	var visit func(ph *ssa.Phi)
	visit = func(ph *ssa.Phi) {
		if seen[ph] {
			return
		}
		seen[ph] = true
		for i, e := range ph.Edges {
			if e == ssa.Value(wantPhi) {
				continue
			}
			if ph2, ok := e.(*ssa.Phi); ok {
				visit(ph2)
				continue
			}
			x := p.X(e)
			if x.Op == "call" && x.Name == "strings.TrimSuffix" && x.Args[0].Op == "param" {
				continue // the queried name
			}
			if x.Op == "call" && x.Name == "strings.TrimSuffix" && x.Args[0].Op == "assert" && x.Args[0].Args[0].Op == "field" && x.Args[0].Args[0].Name == "Data" {
				nCname++
				owner, cname := false, false
				for _, f := range p.EdgeFacts(ph.Block().Preds[i], ph.Block()) {
					if f.Op == "==" && (isOwner(f.L) && f.R.Val == ssa.Value(wantPhi) || isOwner(f.R) && f.L.Val == ssa.Value(wantPhi)) {
						owner = true
					}
					if f.Op == "==" && f.L.Op == "field" && f.L.Name == "Type" && f.R.Name == "5" {
						cname = true
					}
				}
				if !(owner && cname) {
					okIn = false
				}
				r.Check(rule, "lookup:follow-cname", owner && cname, p.InstrPos(ph), "the name being followed changes to a CNAME's target only when that CNAME (type 5: %v) is owned by the current name (%v): a CNAME attached to an unrelated owner must not redirect the lookup", cname, owner)
				continue
			}
			okIn = false
			r.Check(rule, "lookup:want-input", false, p.InstrPos(ph), "the name being followed is set from %s", short(x))
		}
	}
	visit(wantPhi)
	r.Check(rule, "lookup:want-chain", okIn && nCname == 1, p.InstrPos(wantPhi), "the followed name starts as the queried name and moves only along the in-answer CNAME chain")
}

// c14CachedErrors: the error a response code maps to must also reach the
// caller when the answer comes from the cache. Either no entry is ever stored
// for a failed lookup (today's code), or - if failures are remembered - no way
// out of resolveOne serves an entry with a constant nil error.
func c14CachedErrors(p *core.Prog, r *core.Run, one, noc *ssa.Function) {
	exp := field(p, Ech, "cacheValue", "expiration")
	if exp == nil {
		r.Undecided("C14.N5", "cache:errors", p.Pos(one.Pos()), "cacheValue.expiration not found")
		return
	}
	var lookup *ssa.Call
	for _, s := range allCalls(p, []*ssa.Function{one}) {
		if c, ok := s.Instr.(*ssa.Call); ok && s.X.Fn == noc {
			lookup = c
		}
	}
	negative := false
	var where ssa.Instruction
	for _, st := range fieldStores(p, p.PkgFuncs(Ech), exp) {
		ok := false
		for _, f := range p.Facts(st.Block()) {
			if ex, isEx := f.L.Val.(*ssa.Extract); isEx && lookup != nil && ex.Tuple == ssa.Value(lookup) && ex.Index == 2 && f.Op == "==" && f.R.Name == "nil" {
				ok = true
			}
		}
		if !ok {
			negative, where = true, st
		}
	}
	if !negative {
		r.Check("C14.N5", "cache:errors", true, p.Pos(one.Pos()), "cache entries are stored only under 'the lookup returned no error', so a cached answer never stands for a failed lookup")
		return
	}
	bad := 0
	for _, ret := range core.Returns(one) {
		if !lastResultNil(ret) {
			continue
		}
		if lookup != nil && (lookup.Block() == ret.Block() || lookup.Block().Dominates(ret.Block())) {
			continue // the fresh lookup's own success
		}
		if len(ret.Results) > 0 {
			if c, isC := ret.Results[0].(*ssa.Const); isC && c.IsNil() {
				continue
			}
		}
		bad++
		r.Check("C14.N5", fmt.Sprintf("cache:errors#%d", bad), false, p.InstrPos(ret), "entries are also stored for failed lookups (%s), but this cache hit returns a nil error: the documented error of the response code is lost on every later lookup", p.InstrPos(where))
	}
	r.Check("C14.N5", "cache:errors", bad == 0, p.Pos(one.Pos()), "entries are stored for failed lookups; every cache hit returns the stored error (%d do not)", bad)
}

func c14Rcode(p *core.Prog, r *core.Run, noc *ssa.Function) {
	want := map[int64]string{1: "ErrFormatError", 2: "ErrServerFailure", 3: "ErrNonExistentDomain", 4: "ErrNotImplemented", 5: "ErrQueryRefused"}
	got := map[int64]string{}
	if e, _ := globalLit(p, Ech, "rcode"); e != nil {
		if cl, ok := e.(*ast.CompositeLit); ok {
			for _, el := range cl.Elts {
				kv, ok := el.(*ast.KeyValueExpr)
				if !ok {
					continue
				}
				if v, ok := constOf(p, Ech, kv.Key); ok {
					k, _ := constant.Int64Val(constant.ToInt(v))
					if id, ok := kv.Value.(*ast.Ident); ok {
						got[k] = id.Name
					}
				}
			}
		}
	}
	// the error wrapped with %w: an entry of the table selected by the response
	// code, or (the table written as a switch) a documented error chosen on the
	// way where the response code equals its number
	isRC := func(e *core.Expr) bool {
		return e.Any(func(x *core.Expr) bool { return x.Op == "call" && x.Name == "(dns.Message).ResponseCode" })
	}
	wrapped := false
	bySwitch := map[int64]string{}
	var ways func(v ssa.Value, fs []core.Fact, depth int) bool
	ways = func(v ssa.Value, fs []core.Fact, depth int) bool {
		if ph, isPhi := v.(*ssa.Phi); isPhi && depth < 5 {
			all := true
			for i, e := range ph.Edges {
				pred := ph.Block().Preds[i]
				efs := append(append(append([]core.Fact{}, fs...), p.EdgeFacts(pred, ph.Block())...), p.Facts(pred)...)
				if !ways(e, efs, depth+1) {
					all = false
				}
			}
			return all
		}
		x := p.X(v)
		switch {
		case x.Op == "const":
			return true // no documented error for this code
		case (x.Op == "lookup" || x.Op == "index") && x.Args[0].Op == "global" && x.Args[0].Name == "ech.rcode" && isRC(x.Args[1]):
			return true
		case x.Op == "global" && strings.HasPrefix(x.Name, "ech.Err"):
			for _, f := range fs {
				if f.Op == "==" && f.R != nil && isRC(f.L) {
					if k, isK := f.R.ConstInt(); isK {
						bySwitch[k] = strings.TrimPrefix(x.Name, "ech.")
						return true
					}
				}
			}
		}
		return false
	}
	for _, s := range callSites(p, []*ssa.Function{noc}, `fmt\.Errorf`) {
		if !strings.Contains(s.X.Args[0].Name, "%w") {
			continue
		}
		for _, a := range variadicArgs(p, s.Instr.Common().Args[1]) {
			if a.Val == nil || a.Val.Type().String() != "error" {
				continue
			}
			if ways(a.Val, p.Facts(s.Block()), 0) {
				wrapped = true
			}
		}
	}
	if len(got) == 0 {
		got = bySwitch
	}
	ok := len(got) == len(want)
	for k, v := range want {
		if got[k] != v {
			ok = false
		}
	}
	r.Tables["rcode_map"] = fmt.Sprint(got)
	r.Check("C14.N5", "rcode:table", ok, p.Pos(noc.Pos()), "rcode table %v equals RFC 1035 4.1.1 codes 1..5 -> documented errors", got)
	r.Check("C14.N5", "rcode:wrapped", wrapped, p.Pos(noc.Pos()), "the mapped error is wrapped with %%w, keyed by the response's (extended) response code")
}

// c14QueryName: the RFC 9460 query-name rules (shared with C19.UPGRADE: the
// upgrade of http URLs depends on asking for the https records of the origin).
func c14QueryName(p *core.Prog, r *core.Run, rs *ssa.Function, rule string) {
	portF := func(e *core.Expr) bool { return e.Op == "field" && e.Name == "Port" && e.Args[0].Op == "new" }
	// the places that build a string: formatted, or concatenated (the outermost + only)
	var built []ssa.Instruction
	for _, b := range rs.Blocks {
		for _, in := range b.Instrs {
			switch x := in.(type) {
			case *ssa.Call:
				if p.X(x).Name == "fmt.Sprintf" {
					built = append(built, x)
				}
			case *ssa.BinOp:
				if x.Op != token.ADD || x.Type().String() != "string" {
					continue
				}
				outer := true
				for _, ref := range *x.Referrers() {
					if bo, ok := ref.(*ssa.BinOp); ok && bo.Op == token.ADD {
						outer = false
					}
				}
				if outer {
					built = append(built, x)
				}
			}
		}
	}
	for _, in := range built {
		parts, okParts := stringParts(p, p.X(in.(ssa.Value)))
		if !okParts || len(parts) == 0 || !strings.HasPrefix(parts[0].Lit, "_") {
			continue
		}
		fs := p.Facts(in.Block())
		not80 := false
		not443 := false
		notHTTPS := false
		for _, f := range fs {
			if f.Op == "!=" && portF(f.L) && f.R.Name == "80" {
				not80 = true
			}
			if f.Op == "!=" && portF(f.L) && f.R.Name == "443" {
				not443 = true
			}
			if f.Op == "!=" && f.R.Name == `"https"` {
				notHTTPS = true
			}
		}
		shape := ""
		for _, pt := range parts {
			if pt.Val != nil {
				shape += "%" + pt.Verb
			} else {
				shape += pt.Lit
			}
		}
		switch shape {
		case "_%d._%s.%s":
			ok := not80 && not443 && portF(parts[1].Val)
			r.Check(rule, "query-name:port-form", ok, p.InstrPos(in), "_<port>._<scheme>.<name> is used exactly when the port is neither 80 nor 443, with the port first")
		case "_%s.%s":
			// reached on the else side of the port test
			ok := notHTTPS && !(not80 && not443)
			r.Check(rule, "query-name:scheme-form", ok, p.InstrPos(in), "_<scheme>.<name> is used for ports 80/443 exactly when the scheme is not https")
		default:
			r.Check(rule, "query-name:other", false, p.InstrPos(in), "unexpected query-name format %s", shape)
		}
	}
	// http folds to https: some φ input "https" is selected under ToLower(scheme) == "http"
	folded := false
	for _, b := range rs.Blocks {
		for _, in := range b.Instrs {
			ph, ok := in.(*ssa.Phi)
			if !ok {
				continue
			}
			for i, e := range ph.Edges {
				if c, ok := e.(*ssa.Const); ok && c.Value != nil && c.Value.Kind() == constant.String && constant.StringVal(c.Value) == "https" {
					for _, f := range p.EdgeFacts(b.Preds[i], b) {
						if f.Op == "==" && f.R.Name == `"http"` && f.L.Op == "call" && f.L.Name == "strings.ToLower" {
							folded = true
						}
					}
				}
			}
		}
	}
	// the URI form is recognised by net/url.Parse: its siblings differ on inputs
	// the property names (ParseRequestURI refuses a fragment, so a URI with one
	// would be taken for a host name, scheme and port ignored)
	nParse := 0
	for _, s := range callSites(p, []*ssa.Function{rs}, `net/url\.[A-Za-z]*Parse[A-Za-z]*|\(\*net/url\.URL\)\.Parse`) {
		if len(s.X.Args) >= 1 && s.X.Args[len(s.X.Args)-1].Op == "param" {
			nParse++
			r.Check(rule, fmt.Sprintf("uri-form:parse#%d", nParse), s.X.Name == "net/url.Parse", p.InstrPos(s.Instr), "the name is tried as a URI with %s (net/url.Parse accepts every URI form, with or without path, query and fragment)", s.X.Name)
		}
	}
	r.Check(rule, "scheme:http-folds-to-https", folded, p.Pos(rs.Pos()), "scheme http (case-insensitively) is treated as https")
	r.Floor(rule, 3)

}

// c14Sorted: the HTTPS records are sorted by priority (shared with C19.H3: the
// protocol choice walks the records in order and stops at the first usable one).
func c14Sorted(p *core.Prog, r *core.Run, rs, rt *ssa.Function, rule string) {
	var sorts []site
	for _, s := range callSites(p, []*ssa.Function{rs}, `sort\.(Slice|SliceStable)|slices\.SortFunc|slices\.SortStableFunc`) {
		sorts = append(sorts, s)
	}
	okSort := false
	if len(sorts) == 1 {
		s := sorts[0]
		arg := s.X.Args[0]
		onHTTPS := arg.Op == "field" && arg.Name == "HTTPS"
		// ... or a local list that becomes result.HTTPS afterwards, as it is
		sortedVal := s.Instr.Common().Args[0]
		for {
			if mi, ok := sortedVal.(*ssa.MakeInterface); ok {
				sortedVal = mi.X
				continue
			}
			break
		}
		var isSorted func(v ssa.Value, depth int) bool
		isSorted = func(v ssa.Value, depth int) bool {
			if v == sortedVal || isNilConst(v) {
				return true
			}
			// the list lives in a variable (the less function captures it): a later
			// read of that variable, not written since, is the sorted list
			if l1, ok := v.(*ssa.UnOp); ok && l1.Op == token.MUL {
				if l2, ok := sortedVal.(*ssa.UnOp); ok && l2.Op == token.MUL && l1.X == l2.X {
					if cell, ok := l1.X.(*ssa.Alloc); ok {
						stores, calls := p.CellDefs(cell)
						clean := len(calls) == 0
						for _, st := range stores {
							if core.MayFollow(s.Instr, st) {
								clean = false
							}
						}
						return clean
					}
				}
			}
			if ph, ok := v.(*ssa.Phi); ok && depth < 4 {
				for _, e := range ph.Edges {
					if !isSorted(e, depth+1) {
						return false
					}
				}
				return true
			}
			return false
		}
		less := false
		if cl := s.X.Args[1]; cl.Op == "closure" && cl.Fn != nil {
			// every answer of the less function is the comparison of the two
			// priorities, or breaks a tie between equal ones
			prio := func(e *core.Expr, who string) bool {
				return e.Op == "field" && e.Name == "Priority" && e.Args[0].Op == "index" && e.Args[0].Args[1].Name == who
			}
			nCmp, nOther := 0, 0
			for _, ret := range core.Returns(cl.Fn) {
				x := p.X(ret.Results[0])
				if x.Op == "bin" && x.Name == "<" && prio(x.Args[0], "c0") && prio(x.Args[1], "c1") {
					nCmp++
					continue
				}
				tie := false
				for _, f := range p.Facts(ret.Block()) {
					if f.Op == "==" && f.R != nil && (prio(f.L, "c0") && prio(f.R, "c1") || prio(f.L, "c1") && prio(f.R, "c0")) {
						tie = true
					}
				}
				if !tie {
					nOther++
				}
			}
			less = nCmp >= 1 && nOther == 0
		}
		// no append to result.HTTPS may follow the sort; target resolution follows it
		later, handedOver := false, false
		for _, b := range rs.Blocks {
			for _, in := range b.Instrs {
				if st, ok := in.(*ssa.Store); ok {
					x := p.X(st.Addr)
					if x.Op == "field" && x.Name == "HTTPS" && !isNilConst(st.Val) && core.MayFollow(s.Instr, st) {
						if !onHTTPS && isSorted(st.Val, 0) {
							handedOver = true
							continue
						}
						later = true
					}
				}
			}
		}
		before := true
		for _, t := range allCalls(p, []*ssa.Function{rs}) {
			if t.X.Fn == rt && !core.MayFollow(s.Instr, t.Instr) {
				before = false
			}
		}
		onHTTPS = onHTTPS || handedOver
		okSort = onHTTPS && less && !later && before
		r.Check(rule, "sort:by-priority", okSort, p.InstrPos(s.Instr), "service-mode records are sorted ascending by Priority (%v on result.HTTPS: %v), nothing is appended afterwards (%v) and target resolution comes after it (%v)", less, onHTTPS, !later, before)
	} else {
		r.Check(rule, "sort:by-priority", false, p.Pos(rs.Pos()), "expected one sort of the HTTPS records, found %d", len(sorts))
	}

}
