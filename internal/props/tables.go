package props

import (
	"encoding/hex"
	"go/ast"
	"go/constant"
	"go/token"

	"verif/internal/core"
)

// globalLit finds the initialiser expression of a package-level variable.
func globalLit(p *core.Prog, pkgPath, name string) (ast.Expr, *ast.File) {
	pk := p.PkgByP[pkgPath]
	if pk == nil {
		return nil, nil
	}
	for _, f := range pk.Syntax {
		for _, d := range f.Decls {
			gd, ok := d.(*ast.GenDecl)
			if !ok || gd.Tok != token.VAR {
				continue
			}
			for _, sp := range gd.Specs {
				vs := sp.(*ast.ValueSpec)
				for i, n := range vs.Names {
					if n.Name == name && i < len(vs.Values) {
						return vs.Values[i], f
					}
				}
			}
		}
	}
	return nil, nil
}

// globalBytes returns the hex encoding of a []byte composite literal held by
// a package-level variable ("" if it is not one).
func globalBytes(p *core.Prog, pkgPath, name string) string {
	e, _ := globalLit(p, pkgPath, name)
	cl, ok := e.(*ast.CompositeLit)
	if !ok {
		return ""
	}
	pk := p.PkgByP[pkgPath]
	var out []byte
	for _, el := range cl.Elts {
		tv, ok := pk.TypesInfo.Types[el]
		if !ok || tv.Value == nil {
			return ""
		}
		v, ok := constant.Int64Val(tv.Value)
		if !ok || v < 0 || v > 255 {
			return ""
		}
		out = append(out, byte(v))
	}
	return hex.EncodeToString(out)
}

// constOf evaluates a constant expression of a package.
func constOf(p *core.Prog, pkgPath string, e ast.Expr) (constant.Value, bool) {
	pk := p.PkgByP[pkgPath]
	if pk == nil {
		return nil, false
	}
	tv, ok := pk.TypesInfo.Types[e]
	if !ok || tv.Value == nil {
		return nil, false
	}
	return tv.Value, true
}
