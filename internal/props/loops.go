package props

import (
	"fmt"
	"go/token"
	"go/types"
	"sort"
	"strings"

	"verif/third_party/xtools/go/ssa"

	"verif/internal/core"
)

// loopClass is the termination argument found for a natural loop.
type loopClass struct {
	Header *ssa.BasicBlock
	Kind   string // range | counter | cursor | shrink | rangefunc | event | flag-retry | seen-set | budget | ""
	Why    string
	Depth  int
}

// classifyLoops gives every natural loop of fn a termination variant or
// reports it as unclassified (Kind == "").
func classifyLoops(p *core.Prog, fn *ssa.Function) []loopClass {
	loops := core.Loops(fn)
	var heads []*ssa.BasicBlock
	for h := range loops {
		heads = append(heads, h)
	}
	sort.Slice(heads, func(i, j int) bool { return heads[i].Index < heads[j].Index })
	var out []loopClass
	for _, h := range heads {
		body := loops[h]
		lc := loopClass{Header: h}
		for _, h2 := range heads {
			if h2 != h && loops[h2][h] {
				lc.Depth++
			}
		}
		lc.Kind, lc.Why = classifyLoop(p, fn, h, body)
		out = append(out, lc)
	}
	return out
}

func inBody(body map[*ssa.BasicBlock]bool, v ssa.Value) bool {
	in, ok := v.(ssa.Instruction)
	if !ok {
		return false
	}
	return in.Block() != nil && body[in.Block()]
}

// induction reports whether phi (in the loop header) is only ever advanced
// by a positive constant on the back edges.
func induction(phi *ssa.Phi, body map[*ssa.BasicBlock]bool) bool {
	for i, e := range phi.Edges {
		pred := phi.Block().Preds[i]
		if !body[pred] {
			continue // entry value
		}
		bo, ok := e.(*ssa.BinOp)
		if !ok || bo.Op != token.ADD {
			// a nested loop may carry the value through its own φ
			if inner, ok := e.(*ssa.Phi); ok && inner != phi {
				good := true
				for _, ie := range inner.Edges {
					if ie == ssa.Value(phi) {
						continue
					}
					b2, ok := ie.(*ssa.BinOp)
					if !ok || b2.Op != token.ADD || !(b2.X == ssa.Value(inner) || b2.X == ssa.Value(phi)) || !posConst(b2.Y) {
						good = false
					}
				}
				if good {
					continue
				}
			}
			return false
		}
		if !(bo.X == ssa.Value(phi) && posConst(bo.Y)) {
			// (φ+1) form used by range loops: e is the incremented value whose X is phi
			return false
		}
	}
	return true
}

func posConst(v ssa.Value) bool {
	c, ok := v.(*ssa.Const)
	return ok && c.Value != nil && c.Int64() > 0
}

func classifyLoop(p *core.Prog, fn *ssa.Function, h *ssa.BasicBlock, body map[*ssa.BasicBlock]bool) (string, string) {
	// range over map/string/channel/function: a Next or a channel receive drives the loop
	for _, in := range h.Instrs {
		switch in := in.(type) {
		case *ssa.Next:
			return "range", "range over a map or string"
		case *ssa.UnOp:
			if in.Op == token.ARROW && in.CommaOk {
				return "event", "range over a channel (not a termination claim)"
			}
		case *ssa.Select:
			return "event", "select loop (not a termination claim)"
		}
	}
	for b := range body {
		for _, in := range b.Instrs {
			if _, ok := in.(*ssa.Select); ok && b == h {
				return "event", "select loop (not a termination claim)"
			}
		}
	}
	// the test that every iteration passes: at the top (the header), or, for a
	// loop go/ssa has rotated (`for i := range n`), at the bottom (a latch)
	tests := []*ssa.BasicBlock{h}
	for _, pr := range h.Preds {
		if body[pr] && pr != h && len(pr.Succs) == 2 && (!body[pr.Succs[0]] || !body[pr.Succs[1]]) {
			onlyLatch := true
			for _, q := range h.Preds {
				if body[q] && q != pr {
					onlyLatch = false
				}
			}
			if onlyLatch {
				tests = append(tests, pr)
			}
		}
	}
	for _, tb := range tests {
		iff, _ := tb.Instrs[len(tb.Instrs)-1].(*ssa.If)
		if iff == nil {
			continue
		}
		f := p.FactOf(core.Guard{Cond: iff.Cond, Pol: true, If: iff})
		stay := body[tb.Succs[0]] // the true edge stays in the loop
		// counter / range: φ (+c) < bound, bound loop-invariant
		if f.R != nil && (f.Op == "<" || f.Op == "<=" || f.Op == "!=") && stay || f.R != nil && (f.Op == ">=" || f.Op == ">" || f.Op == "==") && !stay {
			var phi *ssa.Phi
			l := f.L.Val
			if bo, ok := l.(*ssa.BinOp); ok && bo.Op == token.ADD && posConst(bo.Y) {
				l = bo.X
			}
			phi, _ = l.(*ssa.Phi)
			if phi != nil && phi.Block() == h {
				inv := !inBody(body, f.R.Val)
				if !inv {
					// len(x) / conversions of an invariant value
					inv = true
					f.R.Walk(func(e *core.Expr) bool {
						if len(e.Args) == 0 && e.Op != "const" && inBody(body, e.Val) {
							inv = false
						}
						return true
					})
					// field loads re-evaluated in the loop: invariant if the loop does not store that field
					if inv {
						f.R.Walk(func(e *core.Expr) bool {
							if e.Op == "field" && inBody(body, e.Val) && loopStoresField(body, e) {
								inv = false
							}
							return true
						})
					}
				}
				ok := inductionPhi(phi, body)
				if ok && inv {
					kind := "counter"
					if h.Comment == "rangeindex.loop" || h.Comment == "rangeint.loop" {
						kind = "range"
					}
					return kind, fmt.Sprintf("%s < %s with the left side only incremented and the bound loop-invariant", short(f.L), short(f.R))
				}
			}
		}
		// cursor: leaves when Empty(cursor)
		// (spelled Empty() or as a comparison of its length with zero)
		isEmptyTest := f.R == nil && f.L.Op == "call" && f.L.Name == "(cryptobyte.String).Empty"
		if f.R != nil && f.L.Op == "call" && f.L.Name == "len" && f.R.Op == "const" && f.R.Name == "0" && (f.Op == ">" || f.Op == "==" || f.Op == "!=") {
			if u, ok := f.L.Val.(*ssa.Call); ok && len(u.Call.Args) == 1 && strings.HasSuffix(u.Call.Args[0].Type().String(), "cryptobyte.String") {
				isEmptyTest = true
			}
		}
		if isEmptyTest {
			if u, ok := f.L.Val.(*ssa.Call); ok && len(u.Call.Args) == 1 {
				if cur := cursorCell(p, u.Call.Args[0]); cur != nil {
					if ph, isPhi := cur.(*ssa.Phi); isPhi && body[ph.Block()] {
						// the cursor pointer itself changes from one iteration to the next
						// (compression pointers): consuming reads prove nothing about progress
						if k, w := classifyBudget(p, h, body); k != "" {
							return k, w
						}
						return "", "the cursor is re-pointed inside the loop (reads on it do not measure progress) and no counter bounds the iterations"
					}
					return classifyCursor(p, h, body, cur)
				}
			}
		}
	}
	if k, w := classifyBudget(p, h, body); k != "" {
		return k, w
	}
	if k, w := classifyCut(p, h, body); k != "" {
		return k, w
	}
	// range-over-func bodies and others are handled by callers
	return "", "no termination variant recognised"
}

// classifyCut: `for more { before, rest, more = strings.Cut(rest, sep) ... }`
// with a non-empty constant separator: the loop goes round again only when the
// separator was found, and then the remainder is strictly shorter than the
// string that was cut.
func classifyCut(p *core.Prog, h *ssa.BasicBlock, body map[*ssa.BasicBlock]bool) (string, string) {
	// the form with the test inside: for { a, rest, found = Cut(rest, sep); ...; if !found { break } }
	for b := range body {
		for _, in := range b.Instrs {
			cut, ok := in.(*ssa.Call)
			if !ok {
				continue
			}
			if name := p.X(cut).Name; name != "strings.Cut" && name != "bytes.Cut" {
				continue
			}
			sep, ok := cut.Call.Args[1].(*ssa.Const)
			if !ok || sep.Value == nil || len(sep.Value.ExactString()) <= 2 {
				continue
			}
			rest, ok := cut.Call.Args[0].(*ssa.Phi)
			if !ok || rest.Block() != h {
				continue
			}
			good := true
			for i, e := range rest.Edges {
				pr := h.Preds[i]
				if !body[pr] {
					continue
				}
				ex, ok := e.(*ssa.Extract)
				if !ok || ex.Index != 1 || ex.Tuple != ssa.Value(cut) {
					good = false
					continue
				}
				found := false
				for _, f := range p.EdgeFacts(pr, h) {
					if ex2, ok := f.L.Val.(*ssa.Extract); ok && f.Op == "true" && ex2.Index == 2 && ex2.Tuple == ssa.Value(cut) {
						found = true
					}
				}
				if !found {
					good = false
				}
			}
			if good {
				return "shrink", fmt.Sprintf("the loop goes round again only when %s found the separator, and each round cuts the remainder it left: the remainder gets strictly shorter", p.X(cut).Name)
			}
		}
	}
	iff, ok := h.Instrs[len(h.Instrs)-1].(*ssa.If)
	if !ok || !body[h.Succs[0]] || body[h.Succs[1]] {
		return "", ""
	}
	more, ok := iff.Cond.(*ssa.Phi)
	if !ok || more.Block() != h {
		return "", ""
	}
	var cut *ssa.Call
	for i, e := range more.Edges {
		if !body[h.Preds[i]] {
			continue
		}
		ex, ok := e.(*ssa.Extract)
		if !ok || ex.Index != 2 {
			return "", ""
		}
		c, ok := ex.Tuple.(*ssa.Call)
		if !ok || (cut != nil && cut != c) {
			return "", ""
		}
		if name := p.X(c).Name; name != "strings.Cut" && name != "bytes.Cut" {
			return "", ""
		}
		cut = c
	}
	if cut == nil {
		return "", ""
	}
	sep, ok := cut.Call.Args[1].(*ssa.Const)
	if !ok || sep.Value == nil || len(sep.Value.ExactString()) <= 2 { // "" quoted
		return "", ""
	}
	rest, ok := cut.Call.Args[0].(*ssa.Phi)
	if !ok || rest.Block() != h {
		return "", ""
	}
	for i, e := range rest.Edges {
		if !body[h.Preds[i]] {
			continue
		}
		ex, ok := e.(*ssa.Extract)
		if !ok || ex.Index != 1 || ex.Tuple != ssa.Value(cut) {
			return "", ""
		}
	}
	return "shrink", fmt.Sprintf("the loop continues only while %s finds the separator, and each round cuts the remainder it left: the remainder gets strictly shorter", p.X(cut).Name)
}

// inductionPhi accepts the two shapes go/ssa produces: φ{start, φ+c} tested
// directly, and the range form φ{-1, t} with t = φ+1 computed in the header.
func inductionPhi(phi *ssa.Phi, body map[*ssa.BasicBlock]bool) bool {
	for i, e := range phi.Edges {
		if !body[phi.Block().Preds[i]] {
			continue
		}
		if !advances(e, phi, body, map[ssa.Value]bool{}) {
			return false
		}
	}
	return true
}

// advances: v equals phi plus a non-negative amount on every path, strictly
// positive... for termination we need strictly positive on the back edge.
func advances(v ssa.Value, phi *ssa.Phi, body map[*ssa.BasicBlock]bool, seen map[ssa.Value]bool) bool {
	if seen[v] {
		return true
	}
	seen[v] = true
	switch x := v.(type) {
	case *ssa.BinOp:
		if x.Op == token.ADD && posConst(x.Y) {
			return x.X == ssa.Value(phi) || reaches(x.X, phi, body, map[ssa.Value]bool{})
		}
	case *ssa.Phi:
		// inner loop φ: all its inputs must advance or be phi itself with a later strict advance... keep strict: every input advances
		if x == phi {
			return false
		}
		for _, e := range x.Edges {
			if e == ssa.Value(phi) {
				return false
			}
			if !advances(e, phi, body, seen) {
				return false
			}
		}
		return true
	}
	return false
}

// reaches: v is phi or phi advanced by non-negative steps (inner-loop φs).
func reaches(v ssa.Value, phi *ssa.Phi, body map[*ssa.BasicBlock]bool, seen map[ssa.Value]bool) bool {
	if v == ssa.Value(phi) {
		return true
	}
	if seen[v] {
		return true
	}
	seen[v] = true
	switch x := v.(type) {
	case *ssa.Phi:
		for _, e := range x.Edges {
			if !reaches(e, phi, body, seen) {
				return false
			}
		}
		return true
	case *ssa.BinOp:
		if x.Op == token.ADD && posConst(x.Y) {
			return reaches(x.X, phi, body, seen)
		}
	}
	return false
}

func loopStoresField(body map[*ssa.BasicBlock]bool, e *core.Expr) bool {
	for b := range body {
		for _, in := range b.Instrs {
			if st, ok := in.(*ssa.Store); ok {
				if fa, ok := st.Addr.(*ssa.FieldAddr); ok && fieldVar(fa) == e.Obj {
					return true
				}
			}
		}
	}
	return false
}

// cursorCell resolves the operand of Empty() to the cursor's cell: either a
// load of a local cell, or a load through a *cryptobyte.String parameter.
func cursorCell(p *core.Prog, v ssa.Value) ssa.Value {
	u, ok := v.(*ssa.UnOp)
	if !ok || u.Op != token.MUL {
		return nil
	}
	if a := p.CellRoot(u.X); a != nil {
		return a
	}
	return u.X // pointer parameter or other address
}

func sameCursor(p *core.Prog, addr ssa.Value, cur ssa.Value) bool {
	if a := p.CellRoot(addr); a != nil {
		return ssa.Value(a) == cur
	}
	return addr == cur
}

// classifyCursor: the loop runs while the cursor is not empty; every way
// round the loop performs a successful consuming read on that cursor.
func classifyCursor(p *core.Prog, h *ssa.BasicBlock, body map[*ssa.BasicBlock]bool, cur ssa.Value) (string, string) {
	// the cursor is not re-pointed in the body
	for b := range body {
		for _, in := range b.Instrs {
			if st, ok := in.(*ssa.Store); ok && sameCursor(p, st.Addr, cur) {
				return "", "the cursor is reassigned inside the loop"
			}
		}
	}
	// blocks with a consuming read on the cursor whose failure leaves the loop
	consuming := map[*ssa.BasicBlock]bool{}
	for b := range body {
		for _, in := range b.Instrs {
			c, ok := in.(*ssa.Call)
			if !ok {
				continue
			}
			x := p.X(c)
			if !matches(`\(\*cryptobyte\.String\)\.(ReadUint(8|16|24|32|64)(LengthPrefixed)?|ReadBytes|CopyBytes|Skip|ReadASN1.*)`, x.Name) {
				// a module decoder that takes the cursor and consumes from it counts when its error leaves the loop
				if x.Fn != nil && inModule(p, x.Fn) && len(c.Call.Args) >= 1 {
					takes := false
					for _, a := range c.Call.Args {
						if sameCursor(p, a, cur) {
							takes = true
						}
					}
					if takes && consumesOnSuccess(p, x.Fn) && errorLeaves(c, body) {
						consuming[b] = true
					}
				}
				continue
			}
			if !sameCursor(p, c.Call.Args[0], cur) {
				continue
			}
			if x.Name == "(*cryptobyte.String).ReadBytes" || x.Name == "(*cryptobyte.String).Skip" {
				n := x.Args[len(x.Args)-1]
				if k, ok := n.ConstInt(); !ok || k < 1 {
					continue
				}
			}
			if x.Name == "(*cryptobyte.String).CopyBytes" {
				// consumes len(buffer) octets: the buffer's length must be a known positive constant
				if k, ok := constSliceLen(p, c.Call.Args[1]); !ok || k < 1 {
					continue
				}
			}
			// tested, and the failing edge leaves the loop
			if failureLeaves(c, body) {
				consuming[b] = true
			}
		}
	}
	// removing the consuming blocks must break every cycle through the header
	seen := map[*ssa.BasicBlock]bool{}
	var cyc bool
	var walk func(b *ssa.BasicBlock)
	walk = func(b *ssa.BasicBlock) {
		for _, s := range b.Succs {
			if !body[s] {
				continue
			}
			if s == h {
				cyc = true
				return
			}
			if seen[s] || consuming[s] {
				continue
			}
			seen[s] = true
			walk(s)
		}
	}
	if !consuming[h] {
		walk(h)
	}
	if cyc {
		return "", "there is a way round the loop on which no read on the cursor is known to have succeeded (a failed read consumes nothing, so the loop can spin)"
	}
	return "cursor", fmt.Sprintf("runs while the cursor is non-empty; every iteration performs a successful consuming read on it (%d read blocks)", len(consuming))
}

// failureLeaves: the boolean result of the call is branched on and the false
// edge leaves the loop body.
func failureLeaves(c *ssa.Call, body map[*ssa.BasicBlock]bool) bool {
	ok := false
	var follow func(v ssa.Value, neg bool)
	follow = func(v ssa.Value, neg bool) {
		for _, ref := range *v.Referrers() {
			switch x := ref.(type) {
			case *ssa.If:
				fail := x.Block().Succs[1]
				if neg {
					fail = x.Block().Succs[0]
				}
				if !body[fail] {
					ok = true
				}
			case *ssa.UnOp:
				if x.Op == token.NOT {
					follow(x, !neg)
				}
			}
		}
	}
	follow(c, false)
	return ok
}

// errorLeaves: the error result of the call is tested and the non-nil edge
// leaves the loop.
func errorLeaves(c *ssa.Call, body map[*ssa.BasicBlock]bool) bool {
	test := func(v ssa.Value) bool {
		for _, r2 := range *v.Referrers() {
			bo, ok := r2.(*ssa.BinOp)
			if !ok {
				continue
			}
			for _, r3 := range *bo.Referrers() {
				if iff, ok := r3.(*ssa.If); ok {
					t := iff.Block().Succs[0]
					if bo.Op == token.EQL {
						t = iff.Block().Succs[1]
					}
					if !body[t] {
						return true
					}
				}
			}
		}
		return false
	}
	if c.Type().String() == "error" {
		// the error is the only result
		return test(c)
	}
	for _, ref := range *c.Referrers() {
		ex, ok := ref.(*ssa.Extract)
		if !ok || ex.Type().String() != "error" {
			continue
		}
		if test(ex) {
			return true
		}
	}
	return false
}

// consumesOnSuccess: a module decoder whose every nil-error return is
// preceded by at least one successful fixed-size read on its cursor parameter.
func consumesOnSuccess(p *core.Prog, fn *ssa.Function) bool {
	if fn.Blocks == nil {
		return false
	}
	for _, ret := range core.Returns(fn) {
		if !lastResultNil(ret) {
			continue
		}
		found := false
		for _, f := range p.Facts(ret.Block()) {
			if f.Op == "true" && f.L.Op == "call" && matches(`\(\*cryptobyte\.String\)\.(ReadUint(8|16|24|32)(LengthPrefixed)?)`, f.L.Name) {
				found = true
			}
		}
		if !found {
			return false
		}
	}
	return true
}

// loopRules reports every loop of the given functions under rule.
func loopRules(p *core.Prog, r *core.Run, rule string, fns []*ssa.Function, special func(fn *ssa.Function, lc loopClass) (string, string, bool)) (maxDepth int) {
	for _, fn := range fns {
		if core.HasIrreducible(fn) {
			r.Undecided(rule, p.FuncName(fn)+":irreducible", p.Pos(fn.Pos()), "irreducible control flow (goto into a loop)")
			continue
		}
		for _, lc := range classifyLoops(p, fn) {
			kind, why := lc.Kind, lc.Why
			if kind == "" && special != nil {
				if k, w, ok := special(fn, lc); ok {
					kind, why = k, w
				}
			}
			if kind != "range" && kind != "event" && lc.Depth+1 > maxDepth {
				maxDepth = lc.Depth + 1
			}
			pos := p.InstrPos(lc.Header.Instrs[len(lc.Header.Instrs)-1])
			r.Check(rule, fmt.Sprintf("%s:loop@b%d(%s)", p.FuncName(fn), lc.Header.Index, lc.Header.Comment), kind != "", pos, "loop variant: %s - %s", map[bool]string{true: kind, false: "NONE"}[kind != ""], why)
		}
	}
	return maxDepth
}

// classifyBudget: every back edge strictly increases some header counter that
// is compared with a constant on an exit test dominating that back edge, and
// no back edge decreases any such counter.
func classifyBudget(p *core.Prog, h *ssa.BasicBlock, body map[*ssa.BasicBlock]bool) (string, string) {
	var phis []*ssa.Phi
	for _, in := range h.Instrs {
		if ph, ok := in.(*ssa.Phi); ok && isIntType(ph.Type()) {
			phis = append(phis, ph)
		}
	}
	if len(phis) == 0 {
		return "", ""
	}
	sf := newSafety(p, nil)
	// step(ph, i): 1 strictly increasing, 0 unchanged/non-decreasing, -1 unknown
	step := func(ph *ssa.Phi, i int) int {
		e := ph.Edges[i]
		if e == ssa.Value(ph) {
			return 0
		}
		bo, ok := e.(*ssa.BinOp)
		if !ok || bo.Op != token.ADD || (bo.X != ssa.Value(ph) && bo.Y != ssa.Value(ph)) {
			return -1
		}
		inc := bo.Y
		if bo.Y == ssa.Value(ph) {
			inc = bo.X
		}
		lo, ok := sf.valLower(inc, map[*ssa.Phi]bool{})
		if !ok {
			if l, _, ok2 := sf.rng(inc, 0); ok2 {
				lo, ok = l, true
			}
		}
		// len(x)+1, 1+len(x) and similar
		if !ok {
			if b2, ok2 := inc.(*ssa.BinOp); ok2 && b2.Op == token.ADD {
				for _, pair := range [][2]ssa.Value{{b2.X, b2.Y}, {b2.Y, b2.X}} {
					if c, isC := pair[1].(*ssa.Const); isC && c.Value != nil && !ok {
						if l, ok3 := sf.valLower(pair[0], map[*ssa.Phi]bool{}); ok3 {
							lo, ok = l+c.Int64(), true
						}
					}
				}
			}
		}
		if !ok {
			return -1
		}
		if lo >= 1 {
			return 1
		}
		if lo >= 0 {
			return 0
		}
		return -1
	}
	// budget test: an If in the body comparing (ph + d) or ph with a constant, true edge leaving the loop
	tested := func(ph *ssa.Phi, pred *ssa.BasicBlock) (bool, string) {
		for b := range body {
			iff, ok := b.Instrs[len(b.Instrs)-1].(*ssa.If)
			if !ok {
				continue
			}
			f := p.FactOf(core.Guard{Cond: iff.Cond, Pol: true, If: iff})
			if f.R == nil || f.R.Op != "const" || !(f.Op == ">" || f.Op == ">=") {
				continue
			}
			if body[b.Succs[0]] {
				continue // the true edge must leave the loop
			}
			l := f.L.Val
			if bo, ok := l.(*ssa.BinOp); ok && bo.Op == token.ADD && (bo.X == ssa.Value(ph) || bo.Y == ssa.Value(ph)) {
				l = ph
			}
			if l != ssa.Value(ph) {
				continue
			}
			if b == pred || b.Dominates(pred) {
				return true, f.String()
			}
		}
		return false, ""
	}
	var why []string
	nBack := 0
	for i, pred := range h.Preds {
		if !body[pred] {
			continue
		}
		nBack++
		covered := false
		for _, ph := range phis {
			st := step(ph, i)
			if st == 1 {
				if ok, t := tested(ph, pred); ok {
					covered = true
					why = append(why, fmt.Sprintf("edge b%d: counter bounded by %s", pred.Index, shortStr(t)))
				}
			}
		}
		if !covered {
			return "", fmt.Sprintf("the way round the loop through b%d increases no counter that is tested against a constant", pred.Index)
		}
	}
	// counters used as budgets never decrease
	for _, ph := range phis {
		used := false
		for i, pred := range h.Preds {
			if body[pred] && step(ph, i) == 1 {
				used = true
			}
		}
		if !used {
			continue
		}
		for i, pred := range h.Preds {
			if body[pred] && step(ph, i) < 0 {
				return "", "a budget counter is modified other than by a non-negative increment"
			}
		}
	}
	if nBack == 0 {
		return "", ""
	}
	sort.Strings(why)
	return "budget", strings.Join(why, "; ")
}

// constSliceLen: the length of a slice made with a constant length.
func constSliceLen(p *core.Prog, v ssa.Value) (int64, bool) {
	switch b := v.(type) {
	case *ssa.MakeSlice:
		return p.X(b.Len).ConstInt()
	case *ssa.Slice:
		if al, ok := b.X.(*ssa.Alloc); ok && b.Low == nil {
			if at, ok := al.Type().Underlying().(*types.Pointer).Elem().Underlying().(*types.Array); ok {
				if b.High == nil {
					return at.Len(), true
				}
				if k, ok := p.X(b.High).ConstInt(); ok && k <= at.Len() {
					return k, true
				}
			}
		}
	}
	return 0, false
}

// vectorLoopsRunDry: a loop that reads items off a cursor leaves - other than
// by an error return - only when that cursor is empty: a vector is a sequence
// of whole items filling its length exactly, so a loop bounded by a count
// computed from the length (len/4 ...) silently drops a truncated last item.
func vectorLoopsRunDry(p *core.Prog, r *core.Run, fn *ssa.Function, rule string) {
	n := 0
	for h, body := range core.Loops(fn) {
		// cursors read inside the loop (local cursor variables only)
		curs := map[*ssa.Alloc]bool{}
		for b := range body {
			for _, in := range b.Instrs {
				c, ok := in.(*ssa.Call)
				if !ok || !matches(`\(\*cryptobyte\.String\)\.(Read.*|Skip|CopyBytes)`, p.X(c).Name) || len(c.Call.Args) == 0 {
					continue
				}
				// (a cursor declared inside the loop belongs to one iteration: it
				// is some inner loop's vector, not this one's)
				if al, ok := c.Call.Args[0].(*ssa.Alloc); ok && !body[al.Block()] {
					curs[al] = true
				}
			}
		}
		if len(curs) == 0 {
			continue
		}
		for b := range body {
			for _, s := range b.Succs {
				if body[s] {
					continue
				}
				// an error exit?
				t := s
				for k := 0; k < 4; k++ {
					if _, isJ := t.Instrs[len(t.Instrs)-1].(*ssa.Jump); isJ && len(t.Succs) == 1 && !body[t.Succs[0]] {
						t = t.Succs[0]
						continue
					}
					break
				}
				if ret, ok := t.Instrs[len(t.Instrs)-1].(*ssa.Return); ok && !lastResultNil(ret) {
					continue
				}
				n++
				dry := false
				for _, f := range p.EdgeFacts(b, s) {
					var arg ssa.Value
					switch {
					case f.Op == "true" && f.L.Op == "call" && f.L.Name == "(cryptobyte.String).Empty":
						if c, ok := f.L.Val.(*ssa.Call); ok && len(c.Call.Args) == 1 {
							arg = c.Call.Args[0]
						}
					case (f.Op == "==" || f.Op == "<=") && f.R != nil && f.R.Name == "0" && f.L.Op == "call" && f.L.Name == "len":
						if c, ok := f.L.Val.(*ssa.Call); ok && len(c.Call.Args) == 1 {
							arg = c.Call.Args[0]
						}
					}
					if ld, ok := arg.(*ssa.UnOp); ok && ld.Op == token.MUL {
						if al, ok := ld.X.(*ssa.Alloc); ok && curs[al] {
							dry = true
						}
					}
				}
				_ = h
				r.Check(rule, fmt.Sprintf("%s:vector-loop-runs-dry@b%d", p.FuncName(fn), b.Index), dry, p.InstrPos(b.Instrs[len(b.Instrs)-1]), "the loop that reads items off a cursor ends (without error) only when that cursor is empty")
			}
		}
	}
}
