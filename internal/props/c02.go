package props

import (
	"fmt"
	"strings"

	"verif/third_party/xtools/go/ssa"

	"verif/internal/core"
)

func init() {
	register(&Property{
		ID: "C02",
		Info: core.Info{
			Explanation: "Decides, on the SSA of the function that calls Receipient.Open (located by role) and of internal/hpke, that no control-flow or data-flow path reaches ECH acceptance except through an AEAD open whose inputs are the ones the property names: " +
				"(A1) every non-nil hello result is guarded by 'decrypted bytes != nil', and the only non-nil definition of those bytes is result 0 of Open stored on the err == nil edge of that same call; " +
				"(A2) everything written into the builder whose bytes are parsed as the inner hello is a constant or those bytes; " +
				"(A3) Open's aad is marshalAAD() of the function's own hello parameter and its ciphertext that hello's echExt.Payload; " +
				"(A4) Open's receiver is only ever the result of SetupReceipient(cfg.KEM, h.echExt.CipherSuite.KDF, .AEAD, ParseHPKEPrivateKey(cfg.KEM, key.PrivateKey), \"tls ech\\x00\"||key.Config, h.echExt.Enc) with cfg = Spec(key.Config) of one and the same key, or the stored context, which is stored only from such a value; " +
				"(A5) the trial is guarded by Spec error == nil, cfg.ID == h.echExt.ConfigID and 'the client's suite is listed in cfg.CipherSuites'; " +
				"(A6) marshal(aad) differs from marshal(false) only inside the 0xfe0d extension, where it emits Data[:n] followed by zeros of the payload length; " +
				"(A7) in internal/hpke, Open passes a nil destination to aead.Open, returns plaintext only on its err == nil edge and advances the sequence number only there; " +
				"(A9) no call in internal/hpke or in the ECH processor discards an error result. " +
				"Not decided: the cryptographic strength or RFC 9180 conformance of the HPKE arithmetic (trusted, covered by the repository's vector test), nor the outcome of individual bit flips - the claim is that acceptance is reachable only through the authenticated open with exactly these inputs.",
			Assumptions: []string{"crypto/cipher AEAD.Open authenticates ciphertext and additional data", "internal/hpke implements RFC 9180 key schedule (repo vector test)"},
		},
		Rules: c02Rules,
	})
}

// openReceiverNonNil: the HPKE context Open is called on was tested against
// nil on the way (a first hello with an empty encapsulated key has none; so has
// a retry when the first hello was not accepted). Reported under C02.A4 and,
// as a crash, under C08.I6.
func openReceiverNonNil(p *core.Prog, r *core.Run, m *echModel, rule string) {
	ok := false
	for _, f := range p.Facts(m.open.Block()) {
		if f.Op == "!=" && f.R != nil && f.R.Name == "nil" && f.L.Val == m.open.Instr.Common().Args[0] {
			ok = true
		}
	}
	r.Check(rule, "Open:receiver-non-nil", ok, p.InstrPos(m.open.Instr), "Open is reached only with a non-nil context")
}

func c02Rules(p *core.Prog, r *core.Run) {
	m := newEchModel(p)
	if !m.ok(r, "C02.model") {
		return
	}
	pe := m.process
	r.Analysed(funcNames(p, core.Closures(pe))...)
	openV := m.open.Instr.(ssa.Value)
	openErrNil := func(fs []core.Fact) bool {
		for _, f := range fs {
			if f.Op == "==" && f.R.Name == "nil" {
				if ex, ok := f.L.Val.(*ssa.Extract); ok && ex.Tuple == openV && ex.Index == 1 {
					return true
				}
			}
		}
		return false
	}

	// --- A1: acceptance only through the plaintext of Open
	nAccept := 0
	for _, ret := range core.Returns(pe) {
		if len(ret.Results) != 2 || isNilConst(ret.Results[0]) {
			continue
		}
		nAccept++
		gated := false
		for _, f := range p.Facts(ret.Block()) {
			if f.Op == "!=" && f.R.Name == "nil" {
				if a, ok := p.IsCellLoad(f.L.Val); ok && a == m.innerCell {
					gated = true
				}
			}
		}
		r.Check("C02.A1", "process:accepting-return", gated, p.InstrPos(ret), "a non-nil hello is returned only under 'decrypted bytes != nil'")
		r.Check("C02.A1", "process:accepting-return-error", isNilConst(retErr(ret)), p.InstrPos(ret), "the accepting return carries a nil error")
	}
	r.Check("C02.A1", "process:accepting-returns", nAccept >= 1, p.Pos(pe.Pos()), "%d accepting returns found", nAccept)
	stores, calls := p.CellDefs(m.innerCell)
	for i, st := range stores {
		key := fmt.Sprintf("process:plaintext-def#%d", i)
		if isNilConst(st.Val) {
			r.Check("C02.A1", key, true, p.InstrPos(st), "nil definition of the decrypted bytes")
			continue
		}
		ex, ok := st.Val.(*ssa.Extract)
		fromOpen := ok && ex.Tuple == openV && ex.Index == 0
		r.Check("C02.A1", key, fromOpen && openErrNil(p.Facts(st.Block())), p.InstrPos(st),
			"non-nil definition of the decrypted bytes: value is Open's plaintext (%v) stored on Open's err == nil edge (%v); value = %s", fromOpen, openErrNil(p.Facts(st.Block())), short(p.X(st.Val)))
	}
	for i, c := range calls {
		r.Check("C02.A1", fmt.Sprintf("process:plaintext-addr#%d", i), false, p.InstrPos(c), "the address of the decrypted-bytes variable is passed to %s, which could fill it with unauthenticated data", callX(p, c).Name)
	}
	r.Floor("C02.A1", 4)

	// --- A2: what is parsed as the inner hello
	var parses []site
	for _, s := range callSites(p, []*ssa.Function{pe}, `ech\.parseClientHello`) {
		parses = append(parses, s)
	}
	r.Check("C02.A2", "process:inner-parse", len(parses) == 1, p.Pos(pe.Pos()), "exactly one parseClientHello call in the ECH processor (found %d)", len(parses))
	if len(parses) == 1 {
		arg := parses[0].X.Args[0]
		isBuilderBytes := arg.Op == "ext" && arg.Name == "#0" && arg.Args[0].Op == "call" && arg.Args[0].Name == "(*cryptobyte.Builder).Bytes"
		r.Check("C02.A2", "process:inner-parse-input", isBuilderBytes, p.InstrPos(parses[0].Instr), "the parsed bytes are the output of a cryptobyte builder: %s", short(arg))
		for i, s := range callSites(p, core.Closures(pe), `\(\*cryptobyte\.Builder\)\.Add.*`) {
			okArg := true
			what := ""
			for _, a := range s.X.Args[1:] {
				switch {
				case a.Op == "const", a.Op == "closure":
				default:
					// must be the decrypted bytes
					alts := a.Alts()
					for _, alt := range alts {
						ex, isEx := alt.Val.(*ssa.Extract)
						if !(alt.Op == "const" || (isEx && ex.Tuple == openV && ex.Index == 0)) {
							okArg = false
							what = short(alt)
						}
					}
				}
			}
			r.Check("C02.A2", fmt.Sprintf("process:builder-arg#%d", i), okArg, p.InstrPos(s.Instr), "builder input %s is a constant, a nested writer or Open's plaintext %s", s.X.Name, what)
		}
	}
	r.Floor("C02.A2", 4)

	// --- A3: aad and ciphertext
	if len(m.open.X.Args) == 3 {
		aad, ct := m.open.X.Args[1], m.open.X.Args[2]
		okAAD := aad.Op == "ext" && aad.Name == "#0" && aad.Args[0].Op == "call" && aad.Args[0].Fn == m.marshalAAD && len(aad.Args[0].Args) == 1 && aad.Args[0].Args[0].Val == ssa.Value(m.helloP)
		r.Check("C02.A3", "Open:aad", okAAD, p.InstrPos(m.open.Instr), "Open's associated data is marshalAAD() of the processor's own hello parameter: %s", short(aad))
		okCT := ct.Op == "field" && ct.Obj == m.fExt["Payload"] && ct.Args[0].Op == "field" && ct.Args[0].Obj == m.fCH["echExt"] && ct.Args[0].Args[0].Val == ssa.Value(m.helloP)
		r.Check("C02.A3", "Open:ciphertext", okCT, p.InstrPos(m.open.Instr), "Open's ciphertext is that hello's echExt.Payload: %s", short(ct))
	} else {
		r.Undecided("C02.A3", "Open:args", p.InstrPos(m.open.Instr), "unexpected arity of Receipient.Open")
	}
	// marshalAAD itself: marshal(true)[9:]
	if m.marshalAAD != nil {
		okM := false
		for _, ret := range core.Returns(m.marshalAAD) {
			if len(ret.Results) == 2 && !isNilConst(ret.Results[0]) {
				x := p.X(ret.Results[0])
				if x.Op == "slice" && x.Args[0].Op == "ext" && x.Args[0].Args[0].Op == "call" && x.Args[0].Args[0].Fn == m.marshal {
					c := x.Args[0].Args[0]
					lo, _ := x.Args[1].ConstInt()
					okM = len(c.Args) == 2 && c.Args[0].Op == "param" && c.Args[1].Name == "true" && lo == 9 && x.Args[2].Name == "_"
				}
			}
		}
		r.Check("C02.A3", "marshalAAD:body", okM, p.Pos(m.marshalAAD.Pos()), "marshalAAD returns marshal(true) of its receiver without the 5-byte record header and the 4-byte handshake header ([9:])")
	}
	r.Floor("C02.A3", 3)

	// --- A4: the receiver of Open
	recvAlts := m.open.X.Args[0].Alts()
	hpkeCtx := m.fConn["hpkeCtx"]
	checkCtxValue := func(rule, key string, e *core.Expr, pos string) {
		switch {
		case e.Op == "const" && (e.Name == "nil" || e.Name == "zero"):
			r.Check(rule, key+":nil", true, pos, "nil context (rejected before use)")
		case e.Op == "field" && e.Obj == hpkeCtx:
			r.Check(rule, key+":stored", true, pos, "the context stored in the Conn")
		case e.Op == "ext" && e.Name == "#0" && e.Args[0].Op == "call" && e.Args[0].Name == "hpke.SetupReceipient":
			c02Setup(p, r, m, rule, key, e.Args[0], pos)
		default:
			r.Check(rule, key+":other", false, pos, "HPKE context of unknown origin: %s", short(e))
		}
	}
	for _, alt := range recvAlts {
		checkCtxValue("C02.A4", "Open:receiver", alt, p.InstrPos(m.open.Instr))
	}
	for i, st := range fieldStores(p, p.PkgFuncs(Ech), hpkeCtx) {
		for _, alt := range p.X(st.Val).Alts() {
			checkCtxValue("C02.A4", fmt.Sprintf("store-hpkeCtx#%d", i), alt, p.InstrPos(st))
		}
	}
	// the nil context is rejected before Open
	nilBlocked := core.HasFact(p.Facts(m.open.Block()), "!=", ".*", "nil") && func() bool {
		for _, f := range p.Facts(m.open.Block()) {
			if f.Op == "!=" && f.R.Name == "nil" && f.L.Val == m.open.Instr.Common().Args[0] {
				return true
			}
		}
		return false
	}()
	// key.Config in the info string is the config exactly as the caller gave it
	// (a re-serialised config is a different byte string for a non-canonical one)
	c09Keys(p, r, m, "C02.A4.keys")
	// the second hello is bound to the first: same config id, same cipher suite,
	// no new encapsulated key - otherwise a payload sealed under the first
	// context is accepted for a hello that names something else (rules of C06)
	c06State(p, r, m, "C02.retry")
	r.Check("C02.A4", "Open:receiver-non-nil", nilBlocked, p.InstrPos(m.open.Instr), "Open is reached only with a non-nil context")
	r.Floor("C02.A4", 8)

	// --- A5: id and suite guards
	fs := p.Facts(m.open.Block())
	var specCall *core.Expr
	for _, f := range fs {
		if f.Op == "==" && f.R.Name == "nil" && f.L.Op == "ext" && f.L.Name == "#1" && f.L.Args[0].Name == "(ech.Config).Spec" {
			specCall = f.L.Args[0]
		}
	}
	r.Check("C02.A5", "trial:spec-ok", specCall != nil, p.InstrPos(m.open.Instr), "the trial is guarded by Spec(key.Config) error == nil")
	idOK, suiteOK := false, false
	for _, f := range fs {
		if f.Op == "==" && isCfgField(f.L, "ID") && isHelloExtField(m, f.R, "ConfigID") || f.Op == "==" && isCfgField(f.R, "ID") && isHelloExtField(m, f.L, "ConfigID") {
			idOK = true
		}
		// slices.IndexFunc(cfg.CipherSuites, func(cs) bool { return cs == h.echExt.CipherSuite }) != -1
		if (f.Op == "!=" && f.R.Name == "-1" || f.Op == ">=" && f.R.Name == "0") && f.L.Op == "call" && f.L.Name == "slices.IndexFunc" && len(f.L.Args) == 2 && isCfgField(f.L.Args[0], "CipherSuites") {
			if cl := f.L.Args[1]; cl.Op == "closure" && cl.Fn != nil {
				good := true
				for _, ret := range core.Returns(cl.Fn) {
					x := p.X(ret.Results[0])
					if !(x.Op == "bin" && x.Name == "==" && (x.Args[0].Op == "param" && isHelloExtField(m, x.Args[1], "CipherSuite") || x.Args[1].Op == "param" && isHelloExtField(m, x.Args[0], "CipherSuite"))) {
						good = false
					}
				}
				suiteOK = good
			}
		}
		if f.Op == "true" && f.L.Op == "call" && f.L.Name == "slices.Contains" && len(f.L.Args) == 2 && isCfgField(f.L.Args[0], "CipherSuites") && isHelloExtField(m, f.L.Args[1], "CipherSuite") {
			suiteOK = true
		}
	}
	r.Check("C02.A5", "trial:config-id", idOK, p.InstrPos(m.open.Instr), "the trial is guarded by cfg.ID == h.echExt.ConfigID")
	r.Check("C02.A5", "trial:cipher-suite", suiteOK, p.InstrPos(m.open.Instr), "the trial is guarded by 'h.echExt.CipherSuite is listed in cfg.CipherSuites'")

	// --- A7: internal/hpke Open
	c02HpkeOpen(p, r, "C02.A7")

	// --- A9: no discarded error results
	c02ErrDiscipline(p, r, append(p.PkgFuncs(HPKE), core.Closures(pe)...))

	// --- A6: shape of marshal(aad)
	c02MarshalAAD(p, r, m)
	// ... and the common part binds every parsed field (the AAD covers the whole outer hello)
	clientHelloGrammar(p, r, "C02.A6.grammar")
}

func short(e *core.Expr) string {
	s := e.String()
	if len(s) > 220 {
		return s[:220] + "…"
	}
	return s
}

func isCfgField(e *core.Expr, name string) bool {
	return e.Op == "field" && e.Name == name && e.Args[0].Op == "ext" && e.Args[0].Name == "#0" && e.Args[0].Args[0].Op == "call" && e.Args[0].Args[0].Name == "(ech.Config).Spec"
}

func isHelloExtField(m *echModel, e *core.Expr, name string) bool {
	return e.Op == "field" && e.Obj == m.fExt[name] && e.Args[0].Op == "field" && e.Args[0].Obj == m.fCH["echExt"] && e.Args[0].Args[0].Val == ssa.Value(m.helloP)
}

// c02Setup checks the six arguments of a SetupReceipient call.
func c02Setup(p *core.Prog, r *core.Run, m *echModel, rule, key string, c *core.Expr, pos string) {
	if len(c.Args) != 6 {
		r.Undecided(rule, key+":setup", pos, "unexpected arity of SetupReceipient")
		return
	}
	kem, kdf, aead, priv, info, enc := c.Args[0], c.Args[1], c.Args[2], c.Args[3], c.Args[4], c.Args[5]
	// the key: Spec(K.Config)
	keyTerm := ""
	if isCfgField(kem, "KEM") {
		spec := kem.Args[0].Args[0]
		if len(spec.Args) == 1 && spec.Args[0].Op == "field" && spec.Args[0].Name == "Config" {
			keyTerm = spec.Args[0].Args[0].String()
		}
	}
	r.Check(rule, key+":setup-kem", keyTerm != "", pos, "KEM is cfg.KEM with cfg = Spec(key.Config); key = %s", keyTerm)
	okKDF := kdf.Op == "field" && kdf.Name == "KDF" && isHelloExtField(m, kdf.Args[0], "CipherSuite")
	okAEAD := aead.Op == "field" && aead.Name == "AEAD" && isHelloExtField(m, aead.Args[0], "CipherSuite")
	r.Check(rule, key+":setup-suite", okKDF && okAEAD, pos, "KDF and AEAD are the ones the client named in h.echExt.CipherSuite: %s, %s", short(kdf), short(aead))
	okPriv := priv.Op == "ext" && priv.Name == "#0" && priv.Args[0].Op == "call" && priv.Args[0].Name == "hpke.ParseHPKEPrivateKey" && len(priv.Args[0].Args) == 2 &&
		priv.Args[0].Args[0].String() == kem.String() && priv.Args[0].Args[1].Op == "field" && priv.Args[0].Args[1].Name == "PrivateKey" && priv.Args[0].Args[1].Args[0].String() == keyTerm
	r.Check(rule, key+":setup-private-key", okPriv, pos, "the private key is ParseHPKEPrivateKey(cfg.KEM, key.PrivateKey) of the same key: %s", short(priv))
	okInfo := info.Op == "call" && info.Name == "append" && len(info.Args) == 2 && info.Args[0].Op == "conv" && info.Args[0].Args[0].Op == "const" && info.Args[0].Args[0].Name == `"tls ech\x00"` &&
		info.Args[1].Op == "field" && info.Args[1].Name == "Config" && info.Args[1].Args[0].String() == keyTerm
	r.Check(rule, key+":setup-info", okInfo, pos, `info is "tls ech\x00" followed by the raw bytes of the same key's Config: %s`, short(info))
	r.Check(rule, key+":setup-enc", isHelloExtField(m, enc, "Enc"), pos, "the encapsulated key is h.echExt.Enc: %s", short(enc))
}

func c02HpkeOpen(p *core.Prog, r *core.Run, rule string) {
	fn := p.Func(HPKE, "(*Receipient).Open")
	if fn == nil {
		r.Undecided(rule, "hpke.Open", "-", "function (*Receipient).Open not found")
		return
	}
	r.Analysed(p.FuncName(fn))
	aeadOpens := callSites(p, []*ssa.Function{fn}, `\(crypto/cipher\.AEAD\)\.Open`)
	if len(aeadOpens) != 1 {
		r.Undecided(rule, "hpke.Open:aead", p.Pos(fn.Pos()), "expected one aead.Open call, found %d", len(aeadOpens))
		return
	}
	ao := aeadOpens[0]
	aoV := ao.Instr.(ssa.Value)
	a := ao.X.Args
	r.Check(rule, "hpke.Open:dst", len(a) == 5 && a[1].Op == "const" && a[1].Name == "nil", p.InstrPos(ao.Instr), "aead.Open is given a nil destination, so a failed trial cannot overwrite the caller's ciphertext: dst = %s", short(a[1]))
	r.Check(rule, "hpke.Open:nonce", len(a) == 5 && a[2].Op == "call" && strings.HasSuffix(a[2].Name, ".nextNonce"), p.InstrPos(ao.Instr), "nonce = nextNonce(): %s", short(a[2]))
	r.Check(rule, "hpke.Open:ciphertext", len(a) == 5 && a[3].Op == "param" && a[3].Name == "p2", p.InstrPos(ao.Instr), "ciphertext is the ciphertext parameter")
	r.Check(rule, "hpke.Open:aad", len(a) == 5 && a[4].Op == "param" && a[4].Name == "p1", p.InstrPos(ao.Instr), "additional data is the aad parameter")
	errNil := func(b *ssa.BasicBlock) bool {
		for _, f := range p.Facts(b) {
			if ex, ok := f.L.Val.(*ssa.Extract); ok && ex.Tuple == aoV && ex.Index == 1 && f.Op == "==" && f.R.Name == "nil" {
				return true
			}
		}
		return false
	}
	for i, ret := range core.Returns(fn) {
		if isNilConst(ret.Results[0]) {
			continue
		}
		ex, ok := ret.Results[0].(*ssa.Extract)
		r.Check(rule, fmt.Sprintf("hpke.Open:return#%d", i), ok && ex.Tuple == aoV && ex.Index == 0 && errNil(ret.Block()) && isNilConst(ret.Results[1]), p.InstrPos(ret), "plaintext is returned only on aead.Open's err == nil edge")
	}
	incs := callSites(p, []*ssa.Function{fn}, `.*\.incrementNonce`)
	for i, s := range incs {
		r.Check(rule, fmt.Sprintf("hpke.Open:increment#%d", i), errNil(s.Block()), p.InstrPos(s.Instr), "the sequence number advances only after a successful open")
	}
	r.Check(rule, "hpke.Open:increments", len(incs) == 1, p.Pos(fn.Pos()), "exactly one incrementNonce call (found %d)", len(incs))
	// incrementNonce really advances the stored sequence number
	if inc := p.Func(HPKE, "(*context).incrementNonce"); inc != nil {
		adv := false
		for _, b := range inc.Blocks {
			for _, in := range b.Instrs {
				st, ok := in.(*ssa.Store)
				if !ok {
					continue
				}
				a, v := p.X(st.Addr), p.X(st.Val)
				if a.Op == "field" && a.Name == "seqNum" && v.Op == "call" && strings.HasSuffix(v.Name, ".addOne") && len(v.Args) == 1 && v.Args[0].Op == "field" && v.Args[0].Name == "seqNum" {
					adv = true
				}
			}
		}
		r.Check(rule, "hpke.incrementNonce:stores", adv, p.Pos(inc.Pos()), "incrementNonce stores seqNum.addOne() back into the context (addOne has a value receiver: calling it without using the result changes nothing, and a retried hello would be opened at the old sequence number)")
		nn := p.Func(HPKE, "(*context).nextNonce")
		uses := false
		if nn != nil {
			for _, s := range allCalls(p, []*ssa.Function{nn}) {
				if strings.HasSuffix(s.X.Name, ".bytes") && len(s.X.Args) == 1 && s.X.Args[0].Op == "field" && s.X.Args[0].Name == "seqNum" {
					uses = true
				}
			}
		}
		r.Check(rule, "hpke.nextNonce:uses-seq", uses, p.Pos(inc.Pos()), "the nonce is derived from the stored sequence number")
		// the 128-bit increment itself: the half that is incremented (with carry
		// into the other) is the half that bytes() puts last, big-endian
		lowOfInc, lowOfBytes := "", ""
		okCarry := false
		if ao := p.Func(HPKE, "(uint128).addOne"); ao != nil {
			for _, b := range ao.Blocks {
				for _, in := range b.Instrs {
					st, ok := in.(*ssa.Store)
					if !ok {
						continue
					}
					a, v := p.X(st.Addr), p.X(st.Val)
					if a.Op != "field" {
						continue
					}
					if v.Op == "ext" && v.Name == "#0" && v.Args[0].Name == "math/bits.Add64" && len(v.Args[0].Args) == 3 && v.Args[0].Args[0].Op == "field" && v.Args[0].Args[0].Name == a.Name && v.Args[0].Args[1].Name == "1" && v.Args[0].Args[2].Name == "0" {
						lowOfInc = a.Name
					}
					if v.Op == "bin" && v.Name == "+" && v.Args[0].Op == "field" && v.Args[0].Name == a.Name && v.Args[1].Op == "ext" && v.Args[1].Name == "#1" && v.Args[1].Args[0].Name == "math/bits.Add64" {
						okCarry = true
					}
				}
			}
		}
		if by := p.Func(HPKE, "(uint128).bytes"); by != nil {
			for _, s := range callSites(p, []*ssa.Function{by}, `.*BEPutUint64`) {
				if dst := s.X.Args[0]; dst.Op == "slice" && dst.Args[1].Name == "8" && s.X.Args[1].Op == "field" {
					lowOfBytes = s.X.Args[1].Name
				}
			}
		}
		r.Check(rule, "hpke.uint128:increment", lowOfInc != "" && lowOfInc == lowOfBytes && okCarry, p.Pos(inc.Pos()), "the sequence number is incremented in its low half (field %q, the one bytes() encodes last: %q) with the carry added to the other half (%v); a swapped pair makes the second nonce 2^64 instead of 1", lowOfInc, lowOfBytes, okCarry)
	} else {
		r.Undecided(rule, "hpke.incrementNonce", p.Pos(fn.Pos()), "incrementNonce not found")
	}
	r.Floor(rule, 10)
}

// c02ErrDiscipline: every call with an error result has that result used.
func c02ErrDiscipline(p *core.Prog, r *core.Run, fns []*ssa.Function) {
	n := 0
	for _, fn := range fns {
		for _, b := range fn.Blocks {
			for _, in := range b.Instrs {
				c, ok := in.(*ssa.Call)
				if !ok {
					continue
				}
				sig := c.Call.Signature()
				res := sig.Results()
				idx := -1
				for i := 0; i < res.Len(); i++ {
					if res.At(i).Type().String() == "error" {
						idx = i
					}
				}
				if idx < 0 {
					continue
				}
				name := p.X(c).Name
				if strings.HasPrefix(name, "(*cryptobyte.Builder).") || strings.HasPrefix(name, "fmt.Fprintf") || strings.HasPrefix(name, "(hash.Hash).Write") || strings.HasPrefix(name, "(io.Writer).Write") ||
					strings.HasPrefix(name, "(*strings.Builder).Write") || strings.HasPrefix(name, "(*bytes.Buffer).Write") {
					continue // builders latch their error until Bytes(); hash writers and in-memory buffers never fail (documented: the error is always nil)
				}
				used := false
				if res.Len() == 1 {
					used = len(*c.Referrers()) > 0
				} else {
					for _, ref := range *c.Referrers() {
						if ex, ok := ref.(*ssa.Extract); ok && ex.Index == idx && len(*ex.Referrers()) > 0 {
							used = true
						}
					}
				}
				n++
				r.Check("C02.A9", fmt.Sprintf("%s:%s", p.FuncName(fn), name), used, p.InstrPos(c), "the error result of %s is examined", name)
			}
		}
	}
	r.Floor("C02.A9", 8)
}

// c02MarshalAAD: marshal(aad=true) differs from marshal(false) only inside
// the 0xfe0d extension, where the payload bytes are replaced by zeros.
func c02MarshalAAD(p *core.Prog, r *core.Run, m *echModel) {
	fn := m.marshal
	if fn == nil || len(fn.Params) != 2 {
		r.Undecided("C02.A6", "marshal", "-", "marshal(aad bool) not found")
		return
	}
	aadP := fn.Params[1]
	lits := core.Closures(fn)
	r.Analysed(funcNames(p, lits)...)
	isAAD := func(f core.Fact) bool { return f.Op == "true" && f.L.Val == ssa.Value(aadP) }
	isECHType := func(f core.Fact) bool {
		return f.Op == "==" && f.R.Name == "65037" && f.L.Op == "field" && f.L.Name == "Type" && f.L.Args[0].Op == "index" && f.L.Args[0].Args[0].Op == "field" && f.L.Args[0].Args[0].Obj == m.fCH["Extensions"]
	}
	nUnder := 0
	var prefix, zeros bool
	for _, s := range callSites(p, lits, `\(\*cryptobyte\.Builder\)\.(Add.*|SetError)`) {
		fs := p.Facts(s.Block())
		under, typed, nonNeg := false, false, false
		for _, f := range fs {
			if isAAD(f) {
				under = true
			}
			if isECHType(f) {
				typed = true
			}
			if (f.Op == ">=" && f.R.Name == "0") && f.L.Op == "bin" && f.L.Name == "-" {
				nonNeg = true
			}
		}
		if !under {
			// may not depend on aad in any other way
			dep := s.X.Any(func(x *core.Expr) bool { return x.Val == ssa.Value(aadP) })
			r.Check("C02.A6", "marshal:common:"+s.X.Name+"@"+p.FuncName(s.Fn), !dep, p.InstrPos(s.Instr), "builder call outside the aad branch does not depend on the aad flag")
			continue
		}
		nUnder++
		r.Check("C02.A6", "marshal:aad-branch-type", typed, p.InstrPos(s.Instr), "the aad-only branch is confined to extensions of type 0xfe0d")
		if s.X.Name == "(*cryptobyte.Builder).AddBytes" && len(s.X.Args) == 2 {
			a := s.X.Args[1]
			// Data[:len(Data)-len(Payload)]
			if a.Op == "slice" && a.Args[1].Name == "_" && a.Args[2].Op == "bin" && a.Args[2].Name == "-" {
				n := a.Args[2]
				okN := n.Args[0].Op == "call" && n.Args[0].Name == "len" && n.Args[0].Args[0].String() == a.Args[0].String() &&
					n.Args[1].Op == "call" && n.Args[1].Name == "len" && n.Args[1].Args[0].Op == "field" && n.Args[1].Args[0].Obj == m.fExt["Payload"]
				if okN && nonNeg {
					prefix = true
				}
				r.Check("C02.A6", "marshal:aad-prefix", okN && nonNeg, p.InstrPos(s.Instr), "the extension's bytes in front of the payload are kept: Data[:len(Data)-len(Payload)] with the split checked to be non-negative (%v): %s", nonNeg, short(a))
			} else if a.Op == "new" && len(a.Args) == 1 {
				// make([]byte, len(Data[n:])) or make([]byte, len(Payload))
				l := a.Args[0]
				okZ := l.Op == "call" && l.Name == "len" && (l.Args[0].Op == "field" && l.Args[0].Obj == m.fExt["Payload"] ||
					l.Args[0].Op == "slice" && l.Args[0].Args[2].Name == "_" && l.Args[0].Args[1].Op == "bin" && l.Args[0].Args[1].Name == "-")
				// however it is spelled, the count must add up to len(Payload)
				if coef, k, ok := linOf(l); ok && k == 0 && len(coef) == 1 {
					okZ = false
					for atom, c := range coef {
						if c == 1 && strings.HasPrefix(atom, "len(") && strings.HasSuffix(atom, ".Payload)") {
							okZ = true
						}
					}
				}
				if okZ {
					zeros = true
				}
				r.Check("C02.A6", "marshal:aad-zeros", okZ, p.InstrPos(s.Instr), "the payload is replaced by the same number of zero bytes: %s", short(a))
			} else {
				r.Check("C02.A6", "marshal:aad-other", false, p.InstrPos(s.Instr), "unexpected bytes written in the aad branch: %s", short(a))
			}
		}
	}
	r.Check("C02.A6", "marshal:aad-branch", nUnder >= 2 && prefix && zeros, p.Pos(fn.Pos()), "the aad branch writes the prefix (%v) and the zeroed payload (%v)", prefix, zeros)
	// the flag is used as a branch condition only
	for _, f := range lits {
		for _, b := range f.Blocks {
			for _, in := range b.Instrs {
				for _, op := range in.Operands(nil) {
					if *op == nil {
						continue
					}
					v := *op
					uses := v == ssa.Value(aadP)
					if fv, ok := v.(*ssa.FreeVar); ok {
						_ = fv
					}
					if !uses {
						continue
					}
					switch in.(type) {
					case *ssa.If, *ssa.MakeClosure, *ssa.Store:
					default:
						r.Check("C02.A6", "marshal:aad-use", false, p.InstrPos(in), "the aad flag is used other than as a branch condition (%T)", in)
					}
				}
			}
		}
	}
	r.Floor("C02.A6", 5)
}
