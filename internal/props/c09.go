package props

import (
	"fmt"

	"verif/third_party/xtools/go/ssa"

	"verif/internal/core"
)

func init() {
	register(&Property{
		ID: "C09",
		Info: core.Info{
			Explanation: "Decides that the candidate-key loop of the ECH processor is stateless across trials, which is the structural reason why acceptance cannot depend on the other keys or their order: " +
				"(EXIT) the loop is left only when the keys are exhausted, after a successful Open, or by an abort whose condition is one of {private key does not parse, no context because enc is empty, AAD cannot be built, a check that follows a successful Open} - a break or return on any other per-key condition (wrong suite list, foreign public name before decryption) is reported; " +
				"(LEAVE) the block that records the decrypted bytes cannot reach the loop header again, so no later trial can overwrite an accepted result; " +
				"(STATE) every store to Conn state inside the loop happens after Open succeeded on a path that leaves the loop; " +
				"(FRESH) the HPKE context handed to Open is, for a first hello, the SetupReceipient result of this very iteration (no value carried around the loop, no stored context), and for a retried hello the stored context under bytes.Equal(key.Config, stored config); " +
				"(TRIALPURE) in internal/hpke a failed Open leaves its inputs and its sequence number untouched (nil destination, increment only on success), so one candidate's failed trial cannot disturb the next; " +
				"(BIND) the stored config is written together with the stored context, from the same key whose SetupReceipient produced it, and the public-name comparison that follows Open uses that same key's config. " +
				"Not decided: nothing is executed with concrete key lists; order- and neighbour-independence are argued from these clauses together with C02.",
			Assumptions: []string{"configured keys are valid (a key whose private key does not parse aborts, as before)"},
		},
		Rules: c09Rules,
	})
}

func c09Rules(p *core.Prog, r *core.Run) {
	m := newEchModel(p)
	if !m.ok(r, "C09.model") {
		return
	}
	pe := m.process
	r.Analysed(p.FuncName(pe))
	openV := m.open.Instr.(ssa.Value)
	recvV := m.open.Instr.Common().Args[0]

	isOpenOK := func(f core.Fact) bool {
		ex, ok := f.L.Val.(*ssa.Extract)
		return ok && ex.Tuple == openV && ex.Index == 1 && f.Op == "==" && f.R.Name == "nil"
	}
	hasOpenOK := func(fs []core.Fact) bool {
		for _, f := range fs {
			if isOpenOK(f) {
				return true
			}
		}
		return false
	}
	acceptBlocks := map[*ssa.BasicBlock]bool{}
	for _, st := range m.accept {
		acceptBlocks[st.Block()] = true
	}

	// --- EXIT
	keyLoopExits(p, r, m, "C09.EXIT")
	c09Keys(p, r, m, "C09.KEYS")
	// outside the key loop nothing is decided by looking at the keys: a way out
	// of the hello handler that does not go through the processor depends on
	// the hello alone (a shortcut on the first key with the hello's config id,
	// a name table built from the keys, ... make the outcome depend on which
	// other keys are configured and in which order)
	if m.handle != nil {
		var procCalls []ssa.Instruction
		for _, s := range allCalls(p, []*ssa.Function{m.handle}) {
			if s.X.Fn == m.process {
				procCalls = append(procCalls, s.Instr)
			}
		}
		nPre := 0
		for i, ret := range core.Returns(m.handle) {
			after := false
			for _, c := range procCalls {
				if core.MayFollow(c, ret) {
					after = true
				}
			}
			if after {
				continue
			}
			nPre++
			dep := ""
			for _, f := range p.Facts(ret.Block()) {
				// ("are there keys at all" is not a look at the keys)
				if f.L != nil && f.L.Op == "call" && f.L.Name == "len" && f.L.Args[0].Op == "field" && f.L.Args[0].Obj == m.fConn["keys"] && f.R != nil && f.R.Op == "const" && f.R.Name == "0" {
					continue
				}
				for _, e := range []*core.Expr{f.L, f.R} {
					if e != nil && e.Any(func(x *core.Expr) bool { return x.Op == "field" && x.Obj == m.fConn["keys"] }) {
						dep = f.String()
					}
				}
			}
			r.Check("C09.EXIT", fmt.Sprintf("handler:pre-trial-return#%d", i), dep == "", p.InstrPos(ret), "this way out of %s lies in front of the trial decryption and is decided without looking at the configured keys (%s)", p.FuncName(m.handle), dep)
		}
		r.Check("C09.EXIT", "handler:pre-trial-returns", len(procCalls) == 1, p.Pos(m.handle.Pos()), "%d ways out of the handler in front of its %d call(s) of the processor examined", nPre, len(procCalls))
	}
	// a hello is given up as "nobody's" only after every key was tried: no
	// way out of the processor that reports no-match lies in front of (or
	// inside) the key loop - a shortcut on summary data about the keys (a table
	// by config id, a count) makes the outcome depend on the other keys
	nNM := 0
	for _, ret := range core.Returns(pe) {
		isNM := false
		for _, g := range errorSentinels(p, retErr(ret)) {
			if g == "ech.errNoMatch" {
				isNM = true
			}
		}
		if !isNM {
			continue
		}
		nNM++
		after := m.loop != nil && m.loop.Dominates(ret.Block()) && !m.loopBody[ret.Block()]
		r.Check("C09.EXIT", fmt.Sprintf("no-match:after-all-keys#%d", nNM), after, p.InstrPos(ret), "no-match is reported only behind the key loop, when every key was tried")
	}
	r.Check("C09.EXIT", "no-match:exits", nNM >= 1, p.Pos(pe.Pos()), "%d no-match exits examined", nNM)

	// --- LEAVE
	for i, st := range m.accept {
		reach := core.CanReach(st.Block(), m.loop) || st.Block() == m.loop
		r.Check("C09.LEAVE", fmt.Sprintf("key-loop:accept#%d", i), !reach, p.InstrPos(st), "after the decrypted bytes are recorded the loop header is unreachable (no later trial can overwrite them): %v", !reach)
	}
	r.Floor("C09.LEAVE", 1)

	// --- STATE: stores to non-local memory inside the loop
	nState := 0
	for _, b := range pe.Blocks {
		inLoop := m.loopBody[b] || acceptBlocks[b]
		if !inLoop {
			// blocks dominated by the loop header and leading back are in loopBody; accept blocks are outside the natural loop
			continue
		}
		for _, in := range b.Instrs {
			switch in := in.(type) {
			case *ssa.Store:
				if p.CellRoot(in.Addr) != nil {
					continue
				}
				x := p.X(in.Addr)
				if x.Any(func(e *core.Expr) bool { return e.Op == "new" }) && !x.Any(func(e *core.Expr) bool { return e.Op == "param" }) {
					continue // writes into a fresh local object (variadic argument arrays)
				}
				nState++
				ok := hasOpenOK(p.Facts(b)) && !core.CanReach(b, m.loop)
				r.Check("C09.STATE", "key-loop:store "+short(x), ok, p.InstrPos(in), "state written inside the key loop only after Open succeeded and on a path that leaves the loop")
			case *ssa.MapUpdate:
				nState++
				r.Check("C09.STATE", "key-loop:mapupdate", false, p.InstrPos(in), "map written inside the key loop")
			}
		}
	}
	r.Check("C09.STATE", "key-loop:state-stores", nState >= 1, p.Pos(pe.Pos()), "%d stores to Conn state found in the loop", nState)

	// --- FRESH: provenance of the context per incoming edge
	type alt struct {
		v    ssa.Value
		from []core.Fact
	}
	var alts []alt
	if phi, ok := recvV.(*ssa.Phi); ok {
		for i, e := range phi.Edges {
			alts = append(alts, alt{e, p.EdgeFacts(phi.Block().Preds[i], phi.Block())})
		}
	} else {
		alts = append(alts, alt{recvV, p.Facts(m.open.Block())})
	}
	for i, a := range alts {
		x := p.X(a.v)
		key := fmt.Sprintf("Open:context-alt#%d", i)
		pos := p.InstrPos(m.open.Instr)
		if x.Any(func(e *core.Expr) bool { return loopCarried(e, m.loop) }) {
			r.Check("C09.FRESH", key, false, pos, "the context depends on a value carried around the key loop: %s", short(x))
			continue
		}
		isRetry := false
		notRetry := false
		bound := false
		for _, f := range a.from {
			if f.L.Val == ssa.Value(m.retryP) {
				isRetry = f.Op == "true"
				notRetry = f.Op == "false"
			}
			if f.Op == "true" && f.L.Op == "call" && f.L.Name == "bytes.Equal" && len(f.L.Args) == 2 {
				a0, a1 := f.L.Args[0], f.L.Args[1]
				if a1.Op == "field" && a1.Obj == m.fConn["hpkeConfig"] && a0.Op == "field" && a0.Name == "Config" ||
					a0.Op == "field" && a0.Obj == m.fConn["hpkeConfig"] && a1.Op == "field" && a1.Name == "Config" {
					bound = true
				}
			}
		}
		switch {
		case x.Op == "const":
			r.Check("C09.FRESH", key, true, pos, "nil (rejected before Open)")
		case x.Op == "field" && x.Obj == m.fConn["hpkeCtx"]:
			r.Check("C09.FRESH", key, isRetry && bound, pos, "the stored context is used only for a retried hello (%v) and only for the key whose config equals the stored config (%v)", isRetry, bound)
		case x.Op == "ext" && x.Args[0].Op == "call" && x.Args[0].Name == "hpke.SetupReceipient":
			c, _ := x.Args[0].Val.(*ssa.Call)
			inLoop := c != nil && m.loopBody[c.Block()]
			r.Check("C09.FRESH", key, inLoop && notRetry, pos, "a first hello gets a context set up in this very iteration (in loop: %v, under !isRetry: %v)", inLoop, notRetry)
		default:
			r.Check("C09.FRESH", key, false, pos, "context of unknown origin: %s", short(x))
		}
	}
	r.Floor("C09.FRESH", 2)

	// --- BIND
	keyOfSetup := ""
	for _, s := range m.setup {
		if len(s.X.Args) == 6 && s.X.Args[4].Op == "call" && len(s.X.Args[4].Args) == 2 && s.X.Args[4].Args[1].Op == "field" {
			keyOfSetup = s.X.Args[4].Args[1].Args[0].String()
		}
	}
	cfgStores := fieldStores(p, p.PkgFuncs(Ech), m.fConn["hpkeConfig"])
	ctxStores := fieldStores(p, p.PkgFuncs(Ech), m.fConn["hpkeCtx"])
	for i, st := range cfgStores {
		x := p.X(st.Val)
		sameKey := x.Op == "field" && x.Name == "Config" && x.Args[0].String() == keyOfSetup && keyOfSetup != ""
		together := false
		for _, cs := range ctxStores {
			if cs.Block() == st.Block() && cs.Val == recvV {
				together = true
			}
		}
		r.Check("C09.BIND", fmt.Sprintf("store-hpkeConfig#%d", i), sameKey && together && acceptBlocks[st.Block()], p.InstrPos(st),
			"the remembered config is the Config of the key that set up the context (%v), stored together with the context that Open just used (%v), where the decrypted bytes are recorded (%v)", sameKey, together, acceptBlocks[st.Block()])
	}
	for i, st := range ctxStores {
		r.Check("C09.BIND", fmt.Sprintf("store-hpkeCtx#%d", i), st.Val == recvV && acceptBlocks[st.Block()], p.InstrPos(st), "the stored context is the one Open succeeded with, stored where the decrypted bytes are recorded")
	}
	// public name comparison uses the same key
	for i, st := range m.accept {
		ok := false
		for _, f := range p.Facts(st.Block()) {
			if f.Op != "==" {
				continue
			}
			for _, pair := range [][2]*core.Expr{{f.L, f.R}, {f.R, f.L}} {
				l, rr := pair[0], pair[1]
				if l.Op == "conv" && isCfgField(l.Args[0], "PublicName") && rr.Op == "field" && rr.Obj == m.fCH["ServerName"] && rr.Args[0].Val == ssa.Value(m.helloP) {
					spec := l.Args[0].Args[0].Args[0]
					if len(spec.Args) == 1 && spec.Args[0].Op == "field" && spec.Args[0].Args[0].String() == keyOfSetup {
						ok = true
					}
				}
			}
		}
		r.Check("C09.BIND", fmt.Sprintf("accept#%d:public-name", i), ok, p.InstrPos(st), "acceptance is guarded by string(cfg.PublicName) == h.ServerName with cfg of the same key")
	}
	r.Floor("C09.BIND", 3)

	// a failed trial must leave the hello untouched for the next candidate:
	// Open decrypts into a fresh buffer and advances its state only on success.
	c02HpkeOpen(p, r, "C09.TRIALPURE")
}

func lastInstrKind(b *ssa.BasicBlock) string {
	if len(b.Instrs) == 0 {
		return "empty"
	}
	return fmt.Sprintf("%T", b.Instrs[len(b.Instrs)-1])
}

func shortStr(s string) string {
	if len(s) > 300 {
		return s[:300] + "…"
	}
	return s
}

// loopCarried reports whether e is a φ of the loop header other than the
// loop's own induction variable (a φ of a constant and itself plus one).
func loopCarried(e *core.Expr, header *ssa.BasicBlock) bool {
	phi, ok := e.Val.(*ssa.Phi)
	if !ok || e.Op != "phi" || phi.Block() != header {
		return false
	}
	induction := true
	for _, ed := range phi.Edges {
		switch v := ed.(type) {
		case *ssa.Const:
		case *ssa.BinOp:
			if !(v.X == ssa.Value(phi) && v.Op.String() == "+") {
				induction = false
			}
		default:
			induction = false
		}
	}
	return !induction
}

// keyLoopExits classifies every edge that leaves the candidate-key loop.
// c09Keys: every key the caller configures is a candidate: the stores to
// Conn.keys add the option's whole argument, unconditionally and unfiltered
// (dropping "duplicates" by config id would make acceptance depend on the
// order of the key list).
func c09Keys(p *core.Prog, r *core.Run, m *echModel, rule string) {
	n := 0
	for _, st := range fieldStores(p, p.PkgFuncs(Ech), m.fConn["keys"]) {
		n++
		v := p.X(st.Val)
		whole := false
		switch {
		case v.Op == "param" || v.Op == "cell" || v.Op == "phi":
			// a plain assignment drops the keys an earlier option configured
			// (adding keys must never lose one) and shares the caller's array
			whole = false
		case v.Op == "call" && v.Name == "append" && len(v.Args) == 2:
			// append(c.keys, keys...) with keys the enclosing option's parameter
			base, add := v.Args[0], v.Args[1]
			whole = base.Op == "field" && base.Obj == m.fConn["keys"] && add.Op == "param"
		case v.Op == "call" && v.Name == "slices.Concat":
			whole = len(v.Args) >= 2 && v.Args[0].Op == "field" && v.Args[0].Obj == m.fConn["keys"]
			for _, a := range v.Args[1:] {
				if a.Op != "param" {
					whole = false
				}
			}
		}
		uncond := len(p.Facts(st.Block())) == 0
		r.Check(rule, fmt.Sprintf("keys:store#%d", n), whole && uncond, p.InstrPos(st), "Conn.keys keeps what it held and receives a copy of the caller's key list, whole (%v) and unconditionally (%v): %s", whole, uncond, short(v))
	}
	r.Check(rule, "keys:stores", n >= 1, p.Pos(m.newConn.Pos()), "stores to Conn.keys examined (%d)", n)
	// ... and nothing rearranges the list in place: the only operation that
	// may write into its array is the append whose result goes back into the field
	fromKeys := func(e *core.Expr) bool {
		for e != nil {
			switch e.Op {
			case "field":
				if e.Obj == m.fConn["keys"] {
					return true
				}
				return false
			case "slice", "phi", "cell", "conv":
				if e.Op == "phi" || e.Op == "cell" {
					for _, a := range e.Args {
						if a.Any(func(x *core.Expr) bool { return x.Op == "field" && x.Obj == m.fConn["keys"] }) {
							return true
						}
					}
					return false
				}
				e = e.Args[0]
			case "call":
				if e.Name == "append" && len(e.Args) > 0 {
					e = e.Args[0]
					continue
				}
				return false
			default:
				return false
			}
		}
		return false
	}
	nIn := 0
	for _, s := range allCalls(p, p.PkgFuncs(Ech)) {
		if len(s.X.Args) == 0 || !matches(`append|sort\.(Slice|SliceStable|Sort|Stable)|slices\.(Sort.*|Reverse|DeleteFunc|Delete|Compact.*|Insert|Replace)|copy|clear`, s.X.Name) || !fromKeys(s.X.Args[0]) {
			continue
		}
		if s.X.Name == "append" {
			// capacity-limited, or stored back into the field
			if sl, ok := s.Instr.Common().Args[0].(*ssa.Slice); ok && sl.Max != nil {
				continue
			}
			back := false
			if cv, ok := s.Instr.(ssa.Value); ok {
				for _, ref := range *cv.Referrers() {
					if st, ok := ref.(*ssa.Store); ok {
						if a := p.X(st.Addr); a.Op == "field" && a.Obj == m.fConn["keys"] {
							back = true
						}
					}
				}
			}
			if back {
				continue
			}
		}
		nIn++
		r.Check(rule, fmt.Sprintf("keys:in-place#%d", nIn), false, p.InstrPos(s.Instr), "%s works in place on the configured key list (%s): keys can be lost or reordered", s.X.Name, short(s.X.Args[0]))
	}
	r.Check(rule, "keys:in-place", nIn == 0, p.Pos(m.newConn.Pos()), "no in-place operation on the configured key list (%d found)", nIn)
}

func keyLoopExits(p *core.Prog, r *core.Run, m *echModel, rule string) {
	openV := m.open.Instr.(ssa.Value)
	recvV := m.open.Instr.Common().Args[0]
	hasOpenOK := func(fs []core.Fact) bool {
		for _, f := range fs {
			ex, ok := f.L.Val.(*ssa.Extract)
			if ok && ex.Tuple == openV && ex.Index == 1 && f.Op == "==" && f.R.Name == "nil" {
				return true
			}
		}
		return false
	}
	nExit := 0
	for b := range m.loopBody {
		for _, s := range b.Succs {
			if m.loopBody[s] {
				continue
			}
			nExit++
			key := fmt.Sprintf("key-loop:exit b%d->b%d", b.Index, s.Index)
			pos := p.InstrPos(b.Instrs[len(b.Instrs)-1])
			fs := p.EdgeFacts(b, s)
			switch {
			case b == m.loop:
				r.Check(rule, "key-loop:exhausted", true, pos, "loop left because all keys were tried")
			case hasOpenOK(fs):
				r.Check(rule, "key-loop:after-open", true, pos, "loop left after a successful Open (%s)", lastInstrKind(s))
			default:
				why := ""
				for _, f := range fs {
					switch {
					case f.Op == "!=" && f.R.Name == "nil" && f.L.Op == "ext" && f.L.Name == "#1" && f.L.Args[0].Op == "call" && (f.L.Args[0].Name == "hpke.ParseHPKEPrivateKey" || f.L.Args[0].Fn == m.marshalAAD):
						why = "key or hello cannot be processed: " + f.L.Args[0].Name
					case f.Op == "==" && f.R.Name == "nil" && f.L.Val == recvV:
						why = "no HPKE context (empty enc)"
					case f.Op == "==" && f.R.Name == "0" && f.L.Op == "call" && f.L.Name == "len" && f.L.Args[0].Op == "field" && f.L.Args[0].Name == "Enc":
						// the same decision taken where it arises: a first hello without
						// an encapsulated key sets up no context (a property of the hello,
						// not of the candidate key)
						why = "no HPKE context (empty enc)"
					}
				}
				r.Check(rule, key, why != "", pos, "the key search is abandoned %s; guards on this exit: %s",
					map[bool]string{true: "for an accepted reason: " + why, false: "on a condition that depends on a single candidate key, so another key listed earlier can turn an acceptable hello into a rejected one"}[why != ""], shortStr(core.FactStrings(fs)))
			}
		}
	}
	r.Floor(rule, 3)

}
