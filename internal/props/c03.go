package props

import (
	"verif/third_party/xtools/go/ssa"

	"verif/internal/core"
)

func init() {
	register(&Property{
		ID: "C03",
		Info: core.Info{
			Explanation: "Decides the structural clauses that make the reconstruction of the accepted inner hello exact: " +
				"(S1) the new extension list starts empty and fresh (it does not alias the list being iterated or the outer hello's list) and is only ever appended to, inside one forward range over the decrypted hello's extensions, where every element other than the 0xfd00 marker is appended itself; " +
				"(S2) Appendix B cursor: the outer extension appended for a reference is h.Extensions[p] for a cursor that starts at 0, is only incremented, is advanced past each match, with 'not found' aborting - so references resolve in order, without repeats, to the position the client meant; " +
				"(S3) the spliced list is stored into the hello, which is then re-parsed (error checked) before the TLS 1.3 test and before the accepting return, so ServerName/ALPNProtos describe the reconstructed hello; " +
				"(S4) the only fields of the reconstructed hello written after its parse are LegacySessionID - unconditionally, from the outer hello - and Extensions; " +
				"(S5) parseClientHello and marshal(false) agree field by field (same order, widths and bindings) and the padding that follows the extensions is not re-emitted (see the grammar comparison shared with C05). " +
				"Not decided: equality with what a particular client hashed into its transcript, sizes up to the record limit.",
		},
		Rules: c03Rules,
	})
}

func c03Rules(p *core.Prog, r *core.Run) {
	m := newEchModel(p)
	if !m.ok(r, "C03.model") {
		return
	}
	c03Splice(p, r, m, "C03")
	// what ServerName()/ALPNProtos() report is the reconstructed hello's
	c01Accessors(p, r, m, "C03.S3.accessors")
	// ... and they are the values as they stand in the hello (no normalisation)
	c05SniAlpn(p, r, m, "C03.S3.parse")
	// after a HelloRetryRequest the hello delivered is the newly reconstructed one
	c06State(p, r, m, "C03.retry")
}

// c03Splice holds the reconstruction rules; pre is the prefix they are
// reported under (C03, and C01.inner: a handshake completes only if the
// backend sees the hello the client hashed).
func c03Splice(p *core.Prog, r *core.Run, m *echModel, pre string) {
	fn := m.process
	r.Analysed(p.FuncName(fn), p.FuncName(m.parseCH), p.FuncName(m.marshal))
	isInnerObj := func(e *core.Expr) bool {
		return e.Op == "ext" && e.Name == "#0" && e.Args[0].Op == "call" && e.Args[0].Fn == m.parseCH
	}
	var success *ssa.Return
	for _, ret := range core.Returns(fn) {
		if !isNilConst(ret.Results[0]) {
			success = ret
		}
	}
	if success == nil {
		r.Undecided(pre+".S3", "process:success", p.Pos(fn.Pos()), "no accepting return")
		return
	}

	// --- S4 and S1: stores into the reconstructed hello
	var extStore *ssa.Store
	nSid := 0
	for _, b := range fn.Blocks {
		for _, in := range b.Instrs {
			st, ok := in.(*ssa.Store)
			if !ok {
				continue
			}
			fa, ok := st.Addr.(*ssa.FieldAddr)
			if !ok {
				continue
			}
			x := p.X(fa)
			if !isInnerObj(x.Args[0]) {
				continue
			}
			switch x.Obj {
			case m.fCH["LegacySessionID"]:
				nSid++
				v := p.X(st.Val)
				fromOuter := v.Op == "field" && v.Obj == m.fCH["LegacySessionID"] && v.Args[0].Val == ssa.Value(m.helloP)
				uncond := st.Block().Dominates(success.Block())
				r.Check(pre+".S4", "process:session-id", fromOuter && uncond, p.InstrPos(st), "legacy_session_id of the reconstructed hello is the outer hello's (%v), substituted on every path to acceptance (%v)", fromOuter, uncond)
			case m.fCH["Extensions"]:
				extStore = st
			default:
				r.Check(pre+".S4", "process:store-"+x.Name, false, p.InstrPos(st), "field %s of the reconstructed hello is modified after its parse", x.Name)
			}
		}
	}
	r.Check(pre+".S4", "process:session-id-substituted", nSid == 1, p.Pos(fn.Pos()), "exactly one substitution of legacy_session_id (found %d)", nSid)
	if extStore == nil {
		r.Check(pre+".S1", "process:splice-store", false, p.Pos(fn.Pos()), "the spliced extension list is never stored into the reconstructed hello")
		return
	}
	r.Check(pre+".S3", "process:splice-store", extStore.Block().Dominates(success.Block()), p.InstrPos(extStore), "the spliced list is stored on every path to acceptance")

	// S1: provenance of the stored list
	fresh := true
	why := ""
	nApp := 0
	chain := map[*ssa.Call]bool{}
	seen := map[ssa.Value]bool{}
	var visit func(v ssa.Value)
	visit = func(v ssa.Value) {
		if seen[v] {
			return
		}
		seen[v] = true
		switch v := v.(type) {
		case *ssa.Const:
			if v.Value != nil {
				fresh, why = false, "starts from a non-nil constant"
			}
		case *ssa.Phi:
			for _, e := range v.Edges {
				visit(e)
			}
		case *ssa.Call:
			if bi, ok := v.Call.Value.(*ssa.Builtin); ok && bi.Name() == "append" {
				nApp++
				chain[v] = true
				visit(v.Call.Args[0])
				return
			}
			fresh, why = false, "comes from "+p.X(v).Name
		case *ssa.UnOp:
			if a, ok := p.IsCellLoad(v); ok {
				st, calls := p.CellDefs(a)
				for _, s := range st {
					visit(s.Val)
				}
				if len(calls) > 0 {
					fresh, why = false, "its address is passed to a call"
				}
				return
			}
			fresh, why = false, "is loaded from "+short(p.X(v))
		case *ssa.MakeSlice:
		default:
			fresh, why = false, "aliases "+short(p.X(v))
		}
	}
	visit(extStore.Val)
	r.Check(pre+".S1", "process:new-list-fresh", fresh && nApp >= 2, p.InstrPos(extStore), "the spliced list is built from nil by append only (%d append sites) and shares no backing array with the list being read %s", nApp, why)

	// the non-marker append: element is inner.Extensions[i] of a forward range
	nonMarker := 0
	for _, s := range callSites(p, []*ssa.Function{fn}, `append`) {
		c, ok := s.Instr.(*ssa.Call)
		if !ok || len(c.Call.Args) != 2 {
			continue
		}
		sl, ok := c.Call.Args[1].(*ssa.Slice)
		if !ok {
			continue
		}
		al, ok := sl.X.(*ssa.Alloc)
		if !ok {
			continue
		}
		for _, ref := range *al.Referrers() {
			ia, ok := ref.(*ssa.IndexAddr)
			if !ok {
				continue
			}
			for _, r2 := range *ia.Referrers() {
				st, ok := r2.(*ssa.Store)
				if !ok {
					continue
				}
				v := p.X(st.Val)
				if v.Op == "index" && v.Args[0].Op == "field" && v.Args[0].Obj == m.fCH["Extensions"] && isInnerObj(v.Args[0].Args[0]) {
					nonMarker++
					idx := v.Args[1]
					forward := false
					if phi := forwardCounter(idx.Val); phi != nil {
						forward = phi.Block().Dominates(c.Block())
					}
					notMarker := core.HasFact(p.Facts(c.Block()), "!=", `.*\.Type`, "64768")
					r.Check(pre+".S1", "process:copy-inner-extension", forward && notMarker, p.InstrPos(c), "every extension of the decrypted hello other than the marker (%v) is appended itself, at the position of a single forward range (%v)", notMarker, forward)
					// ... every one: each way round the loop either passes this append
					// or is the marker's way (no other extension is left out)
					if phi := forwardCounter(idx.Val); phi != nil {
						hdr := phi.Block()
						body := core.Loops(fn)[hdr]
						skipped := ""
						for _, pr := range hdr.Preds {
							if !body[pr] {
								continue
							}
							viaAppend := pr == c.Block() || c.Block().Dominates(pr)
							viaMarker := false
							for _, f := range p.EdgeFacts(pr, hdr) {
								if f.Op == "==" && f.R != nil && f.R.Name == "64768" && f.L.Op == "field" && f.L.Name == "Type" {
									viaMarker = true
								}
							}
							if !viaAppend && !viaMarker {
								// a latch that merges several ways: look one level up
								ok := len(pr.Preds) > 0 && len(pr.Instrs) <= 2
								for _, pp := range pr.Preds {
									via := pp == c.Block() || c.Block().Dominates(pp)
									for _, f := range p.EdgeFacts(pp, pr) {
										if f.Op == "==" && f.R != nil && f.R.Name == "64768" && f.L.Op == "field" && f.L.Name == "Type" {
											via = true
										}
									}
									if !via {
										ok = false
									}
								}
								if !ok {
									skipped = p.InstrPos(pr.Instrs[len(pr.Instrs)-1])
								}
							}
						}
						r.Check(pre+".S1", "process:copy-every-extension", skipped == "", p.InstrPos(c), "no way round the loop over the decrypted hello's extensions leaves a non-marker extension out (one does, at %q)", skipped)
					}
				}
			}
		}
	}
	r.Check(pre+".S1", "process:copy-site", nonMarker == 1, p.Pos(fn.Pos()), "exactly one site copies the decrypted hello's own extensions (found %d)", nonMarker)

	// --- S2
	refCursor(p, r, m, pre+".S2")
	// the referenced outer extensions go into the very list under construction, at
	// the marker's position (not into a side list that is attached later)
	inPlace := false
	for c := range chain {
		for _, a := range variadicArgs(p, c.Call.Args[1]) {
			if a.Op == "index" && a.Args[0].Op == "field" && a.Args[0].Obj == m.fCH["Extensions"] && a.Args[0].Args[0].Val == ssa.Value(m.helloP) {
				inPlace = true
			}
		}
	}
	r.Check(pre+".S2", "process:in-place", inPlace, p.InstrPos(extStore), "each referenced outer extension is appended directly to the list being built, where the marker stood")

	// --- S3: re-parse after the splice, before acceptance
	re := callSites(p, []*ssa.Function{fn}, `\(\*ech\.clientHello\)\.parseExtensions`)
	if len(re) == 1 {
		c := re[0].Instr
		onInner := isInnerObj(re[0].X.Args[0])
		after := core.Before(extStore, c)
		dom := c.Block().Dominates(success.Block())
		checked := false
		for _, f := range p.Facts(success.Block()) {
			if f.Op == "==" && f.R.Name == "nil" && f.L.Val == c.(ssa.Value) {
				checked = true
			}
		}
		r.Check(pre+".S3", "process:reparse", onInner && after && dom && checked, p.InstrPos(c), "the reconstructed hello is re-parsed (on it: %v) after the splice (%v), on every path to acceptance (%v), and acceptance requires the re-parse to succeed (%v)", onInner, after, dom, checked)
		retInner := isInnerObj(p.X(success.Results[0]))
		r.Check(pre+".S3", "process:returns-reconstructed", retInner, p.InstrPos(success), "the hello returned on acceptance is the reconstructed one")
	} else {
		r.Check(pre+".S3", "process:reparse", false, p.Pos(fn.Pos()), "expected exactly one re-parse of the extensions, found %d", len(re))
	}

	// the re-parse starts from a clean slate: every derived field is reset
	// before the extension loop, so the two parses of an accepted hello do not add up
	for _, name := range []string{"ServerName", "ALPNProtos", "hasECHOuterExtensions", "tls13", "echExt"} {
		sts := fieldStores(p, []*ssa.Function{m.parseExt}, m.fCH[name])
		var reset *ssa.Store
		for _, st := range sts {
			v := p.X(st.Val)
			if v.Op == "const" && (v.Name == "nil" || v.Name == `""` || v.Name == "false" || v.Name == "zero") && len(p.Facts(st.Block())) == 0 {
				reset = st
			}
		}
		ok := reset != nil
		if ok {
			for _, st := range sts {
				if st != reset && !core.Before(reset, st) {
					ok = false
				}
			}
		}
		r.Check(pre+".S3", "parseExtensions:reset-"+name, ok, p.Pos(m.parseExt.Pos()), "parseExtensions clears %s before it walks the extensions (an accepted inner hello is parsed twice; without the reset values of the first parse leak into the second)", name)
	}

	// --- S5: grammar agreement (shared)
	clientHelloGrammar(p, r, pre+".S5")
}
