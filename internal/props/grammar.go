package props

import (
	"fmt"
	"go/token"
	"go/types"
	"regexp"
	"sort"
	"strings"

	"verif/third_party/xtools/go/ssa"

	"verif/internal/core"
)

// ---------------------------------------------------------------------------
// E3: wire-grammar extraction for cryptobyte codecs.
//
// Builders and parsers written with golang.org/x/crypto/cryptobyte are turned
// into token sequences:
//   uN:<binding>        fixed-width integer          =K for constants
//   bytes:<binding>     raw bytes (rest of the enclosing block)
//   bytes(n):<binding>  n raw bytes
//   pN{ ... }           N-bit length-prefixed block
//   loop{ ... }         repetition until the block is exhausted / over a slice
//   call:<fn>(<binding>) a sub-codec
//   skip(n)
// A binding names the struct field a value is written from / read into, as
// <StructType>.<Field> (the static type of the selection), so that access
// paths, temporaries, range variables and conversions do not matter.
// Order is the order of the calls in the source, nesting is the nesting of
// the builder's function literals, respectively of the child cursors.
// ---------------------------------------------------------------------------

var reAdd = regexp.MustCompile(`^\(\*cryptobyte\.Builder\)\.Add(Uint(8|16|24|32|64)(LengthPrefixed)?|Bytes)$`)
var reRead = regexp.MustCompile(`^\(\*cryptobyte\.String\)\.(ReadUint(8|16|24|32|64)(LengthPrefixed)?|ReadBytes|Skip)$`)

// bindOf names the data an expression denotes.
func bindOf(p *core.Prog, e *core.Expr) string {
	for e.Op == "conv" || e.Op == "assert" {
		e = e.Args[0]
	}
	switch e.Op {
	case "const":
		return "=" + e.Name
	case "field":
		return fieldBinding(p, e)
	case "index":
		return bindOf(p, e.Args[0]) + "[]"
	case "call":
		var as []string
		for _, a := range e.Args {
			as = append(as, bindOf(p, a))
		}
		return lastDot(e.Name) + "(" + strings.Join(as, ",") + ")"
	case "bin":
		return "(" + bindOf(p, e.Args[0]) + e.Name + bindOf(p, e.Args[1]) + ")"
	case "phi", "cell":
		var as []string
		for _, a := range e.Args {
			as = append(as, bindOf(p, a))
		}
		sort.Strings(as)
		return "{" + strings.Join(as, "|") + "}"
	case "param":
		return "$" + e.Name
	case "new":
		return "new"
	case "out":
		return "_"
	}
	return e.String()
}

// fieldBinding renders StructType.Field for a field selection.
func fieldBinding(p *core.Prog, e *core.Expr) string {
	var t types.Type
	switch v := e.Val.(type) {
	case *ssa.FieldAddr:
		t = v.X.Type()
	case *ssa.Field:
		t = v.X.Type()
	case *ssa.UnOp:
		if fa, ok := v.X.(*ssa.FieldAddr); ok {
			t = fa.X.Type()
		}
	}
	name := "?"
	if t != nil {
		if pt, ok := t.Underlying().(*types.Pointer); ok {
			t = pt.Elem()
		}
		if nt, ok := t.(*types.Named); ok {
			name = nt.Obj().Name()
		} else {
			name = "struct"
		}
	}
	return name + "." + e.Name
}

type gItem struct {
	pos  int // program order (see ord)
	text string
	loop *ssa.BasicBlock // innermost loop header of the call (nil if none)
	cond string          // extra guard annotation
}

func innermostLoop(fn *ssa.Function, b *ssa.BasicBlock) *ssa.BasicBlock {
	var best *ssa.BasicBlock
	bestN := -1
	for h, body := range core.Loops(fn) {
		// whatever sits in a loop's header runs once per iteration too (the
		// condition of a test-first loop, the first statements of a loop go/ssa
		// has rotated or of a `for { ... }` loop)
		if body[b] && (bestN < 0 || len(body) < bestN) {
			best, bestN = h, len(body)
		}
	}
	return best
}

func renderItems(items []gItem) []string {
	sort.SliceStable(items, func(i, j int) bool { return items[i].pos < items[j].pos })
	var out []string
	var cur *ssa.BasicBlock
	for _, it := range items {
		if it.loop != cur {
			if cur != nil {
				out = append(out, "}")
			}
			if it.loop != nil {
				out = append(out, "loop{")
			}
			cur = it.loop
		}
		out = append(out, it.text)
	}
	if cur != nil {
		out = append(out, "}")
	}
	return out
}

// builderTokens extracts the tokens written to builder value b inside fn
// (not descending into unrelated literals). skip filters calls out (e.g. the
// aad-only branch).
// builderRoot: the builder a function writes its output with: the value of its
// cryptobyte.NewBuilder call or, without one, its local Builder variable (the
// zero Builder is an empty growable one, like NewBuilder(nil)).
func builderRoot(p *core.Prog, fn *ssa.Function) ssa.Value {
	for _, s := range callSites(p, []*ssa.Function{fn}, `cryptobyte\.NewBuilder`) {
		if v, ok := s.Instr.(ssa.Value); ok {
			return v
		}
	}
	var found ssa.Value
	for _, b := range fn.Blocks {
		for _, in := range b.Instrs {
			al, ok := in.(*ssa.Alloc)
			if !ok {
				continue
			}
			if nt, ok := al.Type().Underlying().(*types.Pointer).Elem().(*types.Named); ok && nt.Obj().Name() == "Builder" && nt.Obj().Pkg() != nil && strings.HasSuffix(nt.Obj().Pkg().Path(), "/cryptobyte") {
				if found != nil {
					return nil
				}
				found = al
			}
		}
	}
	return found
}

func builderTokens(p *core.Prog, fn *ssa.Function, b ssa.Value, skip func(c ssa.CallInstruction) bool, depth int) []string {
	if depth > 8 {
		return []string{"…"}
	}
	var items []gItem
	for _, blk := range fn.Blocks {
		if gOnly != nil && gOnlyFn == fn && !gOnly[blk] {
			continue
		}
		for _, in := range blk.Instrs {
			c, ok := in.(*ssa.Call)
			if !ok || len(c.Call.Args) == 0 {
				continue
			}
			x := p.X(c)
			usesB := false
			for i, a := range c.Call.Args {
				if a == b || (i == 0 && p.X(a).Val == b) {
					usesB = true
				}
			}
			if !usesB {
				continue
			}
			if skip != nil && skip(c) {
				continue
			}
			it := gItem{pos: ord(c), loop: innermostLoop(fn, blk)}
			m := reAdd.FindStringSubmatch(x.Name)
			switch {
			case m != nil && m[1] == "Bytes":
				arg := x.Args[1]
				if arg.Op == "new" && len(arg.Args) == 1 {
					it.text = "zeros(" + bindOf(p, arg.Args[0]) + ")"
				} else if arg.Op == "call" && arg.Fn != nil && inModule(p, arg.Fn) {
					it.text = "call:" + lastDot(arg.Name) + "(" + bindOf(p, arg.Args[0]) + ")"
				} else {
					it.text = "bytes:" + bindOf(p, arg)
				}
			case m != nil && m[3] == "LengthPrefixed":
				lit := p.ResolveFuncValue(c.Call.Args[1])
				inner := []string{"?"}
				if lit != nil && len(lit.Params) == 1 {
					fv := c.Call.Args[1]
					for {
						ct, ok := fv.(*ssa.ChangeType)
						if !ok {
							break
						}
						fv = ct.X
					}
					if mc, ok := fv.(*ssa.MakeClosure); ok {
						// this creation site's bindings (a literal inside an inlined
						// helper is created once per inlined copy)
						p.WithCreator(mc, func() { inner = builderTokens(p, lit, lit.Params[0], skip, depth+1) })
					} else {
						inner = builderTokens(p, lit, lit.Params[0], skip, depth+1)
					}
				}
				it.text = "p" + m[2] + "{ " + strings.Join(inner, " ") + " }"
			case m != nil:
				it.text = "u" + m[2] + ":" + bindOf(p, x.Args[1])
			case x.Fn != nil && inModule(p, x.Fn) && c.Call.Args[0] == b:
				// a module helper that takes the builder: sub-codec
				var as []string
				for _, a := range x.Args[1:] {
					as = append(as, bindOf(p, a))
				}
				it.text = "call:" + lastDot(x.Name) + "(" + strings.Join(as, ",") + ")"
			default:
				continue
			}
			items = append(items, it)
		}
	}
	return renderItems(items)
}

// parser side ---------------------------------------------------------------

type cursorKey struct {
	v ssa.Value // Alloc cell, or pointer value (parameter)
}

func cursorOf(p *core.Prog, addr ssa.Value) ssa.Value {
	if a := p.CellRoot(addr); a != nil {
		return a
	}
	// (*cryptobyte.String)(&x.F): a field used as cursor
	if ct, ok := addr.(*ssa.ChangeType); ok {
		return cursorOf(p, ct.X)
	}
	return addr
}

type pRead struct {
	call   *ssa.Call
	cursor ssa.Value
	name   string
	width  string
	pref   bool
	target ssa.Value // out argument address (nil for Skip)
	n      string    // fixed count for ReadBytes / Skip
}

// parserTokens extracts the tokens read from root cursor in fn.
func parserTokens(p *core.Prog, fn *ssa.Function, root ssa.Value) []string {
	var reads []pRead
	type helper struct {
		call   *ssa.Call
		cursor ssa.Value
	}
	var helpers []helper
	for _, blk := range fn.Blocks {
		for _, in := range blk.Instrs {
			c, ok := in.(*ssa.Call)
			if !ok || len(c.Call.Args) == 0 {
				continue
			}
			x := p.X(c)
			m := reRead.FindStringSubmatch(x.Name)
			if m == nil {
				// module decoder taking a cursor (by pointer) or its bytes (by value)
				if x.Fn != nil && inModule(p, x.Fn) {
					for _, a := range c.Call.Args {
						if isCursorType(a.Type()) {
							cv := a
							if u, ok := a.(*ssa.UnOp); ok && u.Op == token.MUL {
								cv = u.X
							}
							if cl := convOperand(a); cl != nil {
								cv = cl
							}
							helpers = append(helpers, helper{c, cursorOf(p, cv)})
						}
					}
				}
				continue
			}
			r := pRead{call: c, cursor: cursorOf(p, c.Call.Args[0]), name: m[1]}
			switch {
			case m[1] == "Skip":
				r.n = x.Args[1].Name
			case m[1] == "ReadBytes":
				r.target = c.Call.Args[1]
				r.n = x.Args[2].Name
			default:
				r.width = m[2]
				r.pref = m[3] != ""
				r.target = c.Call.Args[1]
			}
			reads = append(reads, r)
		}
	}
	sort.SliceStable(reads, func(i, j int) bool { return ord(reads[i].call) < ord(reads[j].call) })
	// a cursor variable re-pointed to a child block (s = ss): later reads on it
	// are reads on that child
	for _, blk := range fn.Blocks {
		for _, in := range blk.Instrs {
			st, ok := in.(*ssa.Store)
			if !ok {
				continue
			}
			dst := p.CellRoot(st.Addr)
			if dst == nil || !isCursorType(st.Val.Type()) {
				continue
			}
			src, ok := p.IsCellLoad(st.Val)
			if !ok || src == dst {
				continue
			}
			for i := range reads {
				if reads[i].cursor == ssa.Value(dst) && ord(reads[i].call) > ord(st) {
					reads[i].cursor = src
				}
			}
			for i := range helpers {
				if helpers[i].cursor == ssa.Value(dst) && ord(helpers[i].call) > ord(st) {
					helpers[i].cursor = src
				}
			}
		}
	}
	// epochs: a prefixed read into cursor C at position P opens a child list for C
	var render func(cur ssa.Value, from, to int, depth int) []string
	render = func(cur ssa.Value, from, to int, depth int) []string {
		if depth > 8 {
			return []string{"…"}
		}
		var items []gItem
		for i, r := range reads {
			if r.cursor != cur || ord(r.call) <= from || (to >= 0 && ord(r.call) >= to) {
				continue
			}
			it := gItem{pos: ord(r.call), loop: innermostLoop(fn, r.call.Block())}
			switch {
			case r.name == "Skip":
				it.text = "skip(" + r.n + ")"
			case r.name == "ReadBytes":
				it.text = "bytes(" + r.n + "):" + sinkBinding(p, fn, r.call, r.target)
			case r.pref:
				child := cursorOf(p, r.target)
				// the child's epoch ends at the next prefixed read into the same cell
				end := -1
				for _, r2 := range reads[i+1:] {
					if r2.pref && cursorOf(p, r2.target) == child {
						end = ord(r2.call)
						break
					}
				}
				inner := render(child, ord(r.call), end, depth+1)
				if len(inner) == 0 {
					// the block as a whole goes somewhere
					inner = []string{"bytes:" + sinkBinding(p, fn, r.call, r.target)}
				}
				it.text = "p" + r.width + "{ " + strings.Join(inner, " ") + " }"
			default:
				it.text = "u" + r.width + ":" + sinkBinding(p, fn, r.call, r.target)
			}
			items = append(items, it)
		}
		for _, h := range helpers {
			if h.cursor != cur || ord(h.call) <= from || (to >= 0 && ord(h.call) >= to) {
				continue
			}
			x := p.X(h.call)
			items = append(items, gItem{pos: ord(h.call), loop: innermostLoop(fn, h.call.Block()), text: "call:" + lastDot(x.Name) + "(" + resultSink(p, fn, h.call) + ")"})
		}
		return renderItems(items)
	}
	return render(root, -1, -1, 0)
}

func isCursorType(t types.Type) bool {
	s := t.String()
	return strings.HasSuffix(s, "cryptobyte.String")
}

func convOperand(v ssa.Value) ssa.Value {
	switch x := v.(type) {
	case *ssa.ChangeType:
		if u, ok := x.X.(*ssa.UnOp); ok && u.Op == token.MUL {
			return u.X
		}
	case *ssa.UnOp:
		if x.Op == token.MUL {
			return x.X
		}
	}
	return nil
}

// sinkBinding: where does the value read by call into target end up?
func sinkBinding(p *core.Prog, fn *ssa.Function, call *ssa.Call, target ssa.Value) string {
	if target == nil {
		return "_"
	}
	for {
		ct, ok := target.(*ssa.ChangeType)
		if !ok {
			break
		}
		target = ct.X
	}
	if fa, ok := target.(*ssa.FieldAddr); ok {
		return fieldBinding(p, p.X(fa))
	}
	cell := p.CellRoot(target)
	if cell == nil {
		return bindOf(p, p.X(target))
	}
	mentions := func(e *core.Expr) bool {
		return e.Any(func(x *core.Expr) bool { return x.Op == "out" && x.Val == ssa.Value(call) && x.Idx >= 1 })
	}
	// stores whose value derives from this read
	for _, b := range fn.Blocks {
		for _, in := range b.Instrs {
			st, ok := in.(*ssa.Store)
			if !ok || p.CellRoot(st.Addr) != nil {
				continue
			}
			v := p.X(st.Val)
			if !mentions(v) {
				continue
			}
			// must be this read's value reaching the load, not only an alternative of a reused cell
			if fa, ok := st.Addr.(*ssa.FieldAddr); ok {
				return fieldBinding(p, p.X(fa)) + wrapOf(v)
			}
			if ia, ok := st.Addr.(*ssa.IndexAddr); ok {
				// element of a variadic array: find the append and its destination
				if al, ok := ia.X.(*ssa.Alloc); ok {
					for _, ref := range *al.Referrers() {
						sl, ok := ref.(*ssa.Slice)
						if !ok {
							continue
						}
						for _, r2 := range *sl.Referrers() {
							ap, ok := r2.(*ssa.Call)
							if !ok {
								continue
							}
							if fa3 := storedField(ap); fa3 != nil {
								return fieldBinding(p, p.X(fa3)) + "[]" + wrapOf(v)
							}
						}
					}
				}
			}
		}
	}
	// compared with a constant?
	for _, b := range fn.Blocks {
		for _, in := range b.Instrs {
			bo, ok := in.(*ssa.BinOp)
			if !ok || (bo.Op != token.EQL && bo.Op != token.NEQ) {
				continue
			}
			l, r := p.X(bo.X), p.X(bo.Y)
			if mentions(l) && r.Op == "const" {
				return "=" + r.Name
			}
		}
	}
	return "_" + cell.Comment
}

// wrapOf notes a transformation applied between the wire and the field,
// other than cloning and conversion.
func wrapOf(v *core.Expr) string {
	w := ""
	cur := v
	for cur != nil {
		switch {
		case cur.Op == "conv", cur.Op == "call" && (cur.Name == "slices.Clone" || cur.Name == "bytes.Clone"):
			cur = cur.Args[0]
			continue
		case cur.Op == "call" && cur.Name == "append" && len(cur.Args) == 2 && isNilExpr(cur.Args[0]):
			cur = cur.Args[1] // append([]byte(nil), x...) is a copy
			continue
		case cur.Op == "call":
			w = "<" + lastDot(cur.Name) + ">"
		}
		break
	}
	return w
}

// resultSink: the field into which result 0 of a helper call is stored.
func resultSink(p *core.Prog, fn *ssa.Function, call *ssa.Call) string {
	for _, b := range fn.Blocks {
		for _, in := range b.Instrs {
			st, ok := in.(*ssa.Store)
			if !ok {
				continue
			}
			v := st.Val
			if mi, ok := v.(*ssa.MakeInterface); ok {
				v = mi.X
			}
			hit := v == ssa.Value(call)
			if ex, ok := v.(*ssa.Extract); ok && ex.Tuple == ssa.Value(call) && ex.Index == 0 {
				hit = true
			}
			if !hit {
				continue
			}
			if fa, ok := st.Addr.(*ssa.FieldAddr); ok {
				return fieldBinding(p, p.X(fa))
			}
		}
	}
	return "_"
}

// normTokens joins tokens and removes fixed sizes for comparison.
func normTokens(ts []string) string {
	s := strings.Join(ts, " ")
	s = regexp.MustCompile(`bytes\(\d+\)`).ReplaceAllString(s, "bytes")
	s = strings.Join(strings.Fields(s), " ")
	return s
}

// ---------------------------------------------------------------------------

const clientHelloBody = "u8:=1 p24{ u16:clientHello.LegacyVersion bytes:clientHello.Random p8{ bytes:clientHello.LegacySessionID } p16{ bytes:clientHello.CipherSuite } p8{ bytes:clientHello.LegacyCompressionMethods } p16{ loop{ u16:extension.Type p16{ bytes:extension.Data } } } }"

// clientHelloGrammar compares parseClientHello with marshal(false) and both
// with the RFC 8446 4.1.2 shape.
func clientHelloGrammar(p *core.Prog, r *core.Run, rule string) {
	m := newEchModel(p)
	if m.parseCH == nil || m.marshal == nil {
		r.Undecided(rule, "grammar", "-", "parseClientHello / marshal not found")
		return
	}
	// builder: the NewBuilder value of marshal
	bld := builderRoot(p, m.marshal)
	aadP := m.marshal.Params[1]
	skip := func(c ssa.CallInstruction) bool {
		for _, f := range p.Facts(c.Block()) {
			if f.Op == "true" && f.L.Val == ssa.Value(aadP) {
				return true
			}
		}
		return false
	}
	bt := normTokens(builderTokens(p, m.marshal, bld, skip, 0))
	wantB := "u8:=22 u16:clientHello.LegacyVersion p16{ " + clientHelloBody + " }"
	r.Check(rule, "marshal:grammar", bt == wantB, p.Pos(m.marshal.Pos()), "marshal(false) emits the TLS record: %s (RFC 8446 4.1.2 / 5.1 shape with bindings: %s)", bt, wantB)
	// (the record authenticated and forwarded is that encoding, untouched)
	returnsEncoding(p, r, rule, m.marshal)
	// parser: root cursor = receiver of the first read
	var root ssa.Value
	var first token.Pos
	for _, s := range callSites(p, []*ssa.Function{m.parseCH}, `\(\*cryptobyte\.String\)\.Read.*`) {
		if !first.IsValid() || s.Instr.Pos() < first {
			first = s.Instr.Pos()
			root = cursorOf(p, s.Instr.Common().Args[0])
		}
	}
	pt := normTokens(parserTokens(p, m.parseCH, root))
	// the body cursor is entered by assignment (s = ss): the parser reads the
	// handshake header from the record cursor and continues on the same
	// variable with the body; both appear on one cursor in source order.
	ptFlat := pt
	r.Check(rule, "parseClientHello:grammar", ptFlat == clientHelloBody, p.Pos(m.parseCH.Pos()), "parseClientHello reads: %s (expected: %s)", ptFlat, clientHelloBody)
	r.Check(rule, "parse≍marshal", strings.Contains(bt, ptFlat), p.Pos(m.parseCH.Pos()), "every field read by the parser is written back by marshal(false) at the same position, with the same width, nesting and binding")
	r.Tables[rule+".tokens"] = map[string]string{"marshal": bt, "parse": ptFlat}

	// no part of the structure is optional: every field of the hello is written
	// whenever marshal runs and read whenever the parser gets that far. (A block
	// that is skipped when empty - the extensions of a hello that has none -
	// changes the bytes of such a hello on its way through.)
	loops := map[*ssa.Function]map[*ssa.BasicBlock]map[*ssa.BasicBlock]bool{}
	loopGuard := func(fn *ssa.Function, b *ssa.BasicBlock, g core.Guard) bool {
		if g.If == nil {
			return false
		}
		ls, ok := loops[fn]
		if !ok {
			ls = core.Loops(fn)
			loops[fn] = ls
		}
		for h, body := range ls {
			// the way out of a loop that can only be left at its top: whatever
			// comes after it is reached whenever the loop is
			if !body[b] && g.If.Block() == h {
				only := true
				for bb := range body {
					if bb == h {
						continue
					}
					for _, sc := range bb.Succs {
						if !body[sc] {
							only = false
						}
					}
					if len(bb.Succs) == 0 {
						only = false
					}
				}
				if only {
					return true
				}
			}
			if body[b] && (g.If.Block() == h || body[g.If.Block()] && func() bool {
				// a test inside the loop that leaves it (bottom-tested loops)
				for _, s := range g.If.Block().Succs {
					if !body[s] {
						return true
					}
				}
				return false
			}()) {
				return true
			}
		}
		return false
	}
	nOpt := 0
	for _, l := range core.Closures(m.marshal) {
		for _, s := range callSites(p, []*ssa.Function{l}, `\(\*cryptobyte\.Builder\)\.Add.*`) {
			for _, g := range core.Guards(s.Block()) {
				f := p.FactOf(g)
				if loopGuard(l, s.Block(), g) {
					continue
				}
				// the aad variant differs inside the ECH extension only (C02.A6)
				if f.L.Any(func(e *core.Expr) bool { return e.Val == ssa.Value(aadP) }) || f.L.Op == "field" && f.L.Name == "Type" || f.L.Op == "bin" && f.L.Name == "-" {
					continue
				}
				nOpt++
				r.Check(rule, fmt.Sprintf("marshal:unconditional#%d", nOpt), false, p.InstrPos(s.Instr), "%s is written only under %q: that part of the hello is optional on the way out", s.X.Name, f.String())
			}
		}
	}
	for _, s := range callSites(p, []*ssa.Function{m.parseCH}, `\(\*cryptobyte\.String\)\.(Read.*|Skip|Copy.*)`) {
		for _, g := range core.Guards(s.Block()) {
			f := p.FactOf(g)
			isEmptyTest := f.L.Op == "call" && f.L.Name == "(cryptobyte.String).Empty" || f.L.Op == "call" && f.L.Name == "len" && f.R != nil && f.R.Name == "0" && len(f.L.Args) == 1 && f.L.Args[0].Val != nil && strings.HasSuffix(f.L.Args[0].Val.Type().String(), "cryptobyte.String")
			if !isEmptyTest || loopGuard(m.parseCH, s.Block(), g) {
				continue
			}
			nOpt++
			r.Check(rule, fmt.Sprintf("parse:unconditional#%d", nOpt), false, p.InstrPos(s.Instr), "%s is read only under %q: that part of the hello is optional on the way in", s.X.Name, f.String())
		}
	}
	r.Check(rule, "structure:no-optional-part", nOpt == 0, p.Pos(m.marshal.Pos()), "every field of the hello is written by marshal and read by the parser unconditionally (%d conditional sites)", nOpt)
}

var _ = fmt.Sprintf

func isNilExpr(e *core.Expr) bool {
	for e.Op == "conv" {
		e = e.Args[0]
	}
	return e.Op == "const" && (e.Name == "nil" || e.Name == "zero")
}

// ord gives the instructions of one function a total order that follows the
// source order of structured code: blocks in reverse post-order of a depth
// first walk that takes the last successor first (so a loop body and a then-
// branch come before what follows them), instructions by their index. Source
// positions are not used: after flattening, inlined instructions keep the
// positions of the helper they came from.
func ord(in ssa.Instruction) int {
	b := in.Block()
	if b == nil {
		return -1
	}
	fn := b.Parent()
	rpo, ok := ordCache[fn]
	if !ok || len(rpo) != len(fn.Blocks) {
		rpo = make(map[*ssa.BasicBlock]int, len(fn.Blocks))
		var post []*ssa.BasicBlock
		seen := map[*ssa.BasicBlock]bool{}
		var visit func(x *ssa.BasicBlock)
		visit = func(x *ssa.BasicBlock) {
			seen[x] = true
			for i := len(x.Succs) - 1; i >= 0; i-- {
				if !seen[x.Succs[i]] {
					visit(x.Succs[i])
				}
			}
			post = append(post, x)
		}
		if len(fn.Blocks) > 0 {
			visit(fn.Blocks[0])
		}
		if fn.Recover != nil && !seen[fn.Recover] {
			visit(fn.Recover)
		}
		for i, x := range post {
			rpo[x] = len(post) - 1 - i
		}
		ordCache[fn] = rpo
	}
	for i, x := range b.Instrs {
		if x == in {
			return rpo[b]*100000 + i
		}
	}
	return rpo[b]*100000 + 99999
}

var ordCache = map[*ssa.Function]map[*ssa.BasicBlock]int{}

// gOnly restricts builderTokens, for function gOnlyFn, to the blocks of one
// path (see builderPathTokens).
var (
	gOnly   map[*ssa.BasicBlock]bool
	gOnlyFn *ssa.Function
)

// builderPathTokens renders what fn writes to builder b separately for every
// way through fn from entry to a return, where a loop counts as entered or
// skipped (back edges are not followed). The result is the sorted set of
// distinct token strings. Two shapes of the same code - an if around a block,
// or an early return before it - give the same set. It gives up (nil) beyond
// maxPaths paths.
func builderPathTokens(p *core.Prog, fn *ssa.Function, b ssa.Value, maxPaths int) []string {
	var paths [][]*ssa.BasicBlock
	var cur []*ssa.BasicBlock
	visits := map[*ssa.BasicBlock]int{}
	over := false
	var walk func(x *ssa.BasicBlock)
	walk = func(x *ssa.BasicBlock) {
		if over {
			return
		}
		cur = append(cur, x)
		visits[x]++
		defer func() { cur = cur[:len(cur)-1]; visits[x]-- }()
		if len(x.Succs) == 0 {
			if _, ok := x.Instrs[len(x.Instrs)-1].(*ssa.Return); ok {
				paths = append(paths, append([]*ssa.BasicBlock(nil), cur...))
				if len(paths) > maxPaths {
					over = true
				}
			}
			return
		}
		for _, s := range x.Succs {
			switch {
			case visits[s] == 0:
				walk(s)
			case visits[s] == 1 && visits[x] == 1:
				// a back edge: return to the loop header once, to leave the loop
				walk(s)
			}
		}
	}
	if len(fn.Blocks) == 0 {
		return nil
	}
	walk(fn.Blocks[0])
	if over {
		return nil
	}
	set := map[string]bool{}
	defer func() { gOnly, gOnlyFn = nil, nil }()
	for _, path := range paths {
		gOnly, gOnlyFn = map[*ssa.BasicBlock]bool{}, fn
		for _, x := range path {
			gOnly[x] = true
		}
		set[normTokens(builderTokens(p, fn, b, nil, 0))] = true
	}
	var out []string
	for k := range set {
		out = append(out, k)
	}
	sort.Strings(out)
	return out
}

// storedField: the field a value (typically the result of an append) is
// stored into, directly or after being carried round a loop in φ-nodes.
func storedField(v ssa.Value) *ssa.FieldAddr {
	seen := map[ssa.Value]bool{}
	work := []ssa.Value{v}
	for len(work) > 0 && len(seen) < 16 {
		x := work[0]
		work = work[1:]
		if seen[x] || x.Referrers() == nil {
			continue
		}
		seen[x] = true
		for _, ref := range *x.Referrers() {
			switch r := ref.(type) {
			case *ssa.Store:
				if fa, ok := r.Addr.(*ssa.FieldAddr); ok && r.Val == x {
					return fa
				}
			case *ssa.Phi:
				work = append(work, r)
			}
		}
	}
	return nil
}
