package props

import (
	"fmt"
	"go/token"
	"strings"

	"verif/third_party/xtools/go/ssa"

	"verif/internal/core"
)

func init() {
	register(&Property{
		ID: "C10",
		Info: core.Info{
			Explanation: "Decides structural necessary conditions of 'the NewConn context governs only the initial read' on the SSA of NewConn and its function literals: " +
				"(ASYNC) every asynchronously started function (go statement, context.AfterFunc, time.AfterFunc) that can reach the conn or ctx parameter is a goroutine that closes a channel on all of its exits, and every return of NewConn is preceded - directly or in a deferred literal registered on all paths - by a receive on that channel (a join: after it no schedule lets the goroutine act); " +
				"(RESET) every deadline call on the connection with a non-zero time that is reachable from NewConn is made by that joined goroutine after it raised a flag, and a deferred reset to the zero time, placed after the join, of a kind that covers it (SetDeadline covers read and write), is guarded by nothing but that flag and 'the error result is nil'; a non-zero deadline set anywhere else needs an unconditional-on-success reset; " +
				"(PROMPT) the goroutine is started before the first blocking read and reacts to ctx.Done() by a deadline call with time.Now() that covers reads and writes; the deferred code that runs after the goroutine was joined (alert conversion) does not read from the transport - nothing could interrupt that read; " +
				"(CTXUSE) the ctx parameter is used only for Done/Err/Deadline/Value calls, it is not stored in the Conn or handed to anything that outlives the call. " +
				"Not decided: actual schedules, GOMAXPROCS, timing - by construction a join leaves no schedule in which the goroutine acts later; transports whose SetDeadline misbehaves.",
			Assumptions: []string{"net.Conn.SetDeadline(t) sets both the read and the write deadline, the zero time clears it (net package contract)",
				"a receive on a channel returns only after the channel was closed or sent on (Go memory model)"},
		},
		Rules: func(p *core.Prog, r *core.Run) { watcherRules(p, r, "C10") },
	})
}

type deadlineCall struct {
	site site
	kind string // both | read | write
	zero bool
	now  bool
}

// watcherRules implements the rules shared by C10 and C08.I5.
func watcherRules(p *core.Prog, r *core.Run, id string) {
	nc := p.Func(Ech, "NewConn")
	if nc == nil {
		r.Undecided(id+".ASYNC", "NewConn", "-", "function NewConn not found")
		return
	}
	if len(nc.Params) < 2 {
		r.Undecided(id+".ASYNC", "NewConn", p.Pos(nc.Pos()), "unexpected signature")
		return
	}
	lits := core.Closures(nc)
	r.Analysed(funcNames(p, lits)...)
	ctxP, connP := nc.Params[0], nc.Params[1]
	touches := func(fn *ssa.Function, param *ssa.Parameter) bool {
		for _, f := range reachableFuncs(p, fn) {
			for _, s := range allCalls(p, []*ssa.Function{f}) {
				if core.Root(f) != nc {
					continue
				}
				if s.X.Any(func(x *core.Expr) bool { return x.Val == ssa.Value(param) }) {
					return true
				}
			}
		}
		return false
	}

	// --- deferred literals of NewConn registered on all paths
	var deferred []*ssa.Function
	rets := core.Returns(nc)
	for _, b := range nc.Blocks {
		for _, in := range b.Instrs {
			d, ok := in.(*ssa.Defer)
			if !ok {
				continue
			}
			fn := p.ResolveFuncValue(d.Call.Value)
			if fn == nil {
				continue
			}
			all := true
			for _, ret := range rets {
				if !b.Dominates(ret.Block()) {
					all = false
				}
			}
			if all {
				deferred = append(deferred, fn)
			}
		}
	}

	// --- ASYNC: census of asynchronous starts
	type async struct {
		fn    *ssa.Function
		start ssa.Instruction
		how   string
	}
	var asyncs []async
	for _, f := range lits {
		for _, b := range f.Blocks {
			for _, in := range b.Instrs {
				switch in := in.(type) {
				case *ssa.Go:
					fn := p.ResolveFuncValue(in.Call.Value)
					asyncs = append(asyncs, async{fn, in, "go"})
				case *ssa.Call:
					name := p.X(in).Name
					if name == "context.AfterFunc" || name == "time.AfterFunc" {
						var fn *ssa.Function
						for _, a := range in.Call.Args {
							if g := p.ResolveFuncValue(a); g != nil {
								fn = g
							}
						}
						asyncs = append(asyncs, async{fn, in, name})
					}
				}
			}
		}
	}
	var watcher *ssa.Function
	var joinChan *ssa.Alloc
	var joinRecv ssa.Instruction
	var watcherStart ssa.Instruction
	for i, a := range asyncs {
		key := fmt.Sprintf("NewConn:async#%d", i)
		pos := p.InstrPos(a.start)
		if a.fn == nil {
			r.Undecided(id+".ASYNC", key, pos, "asynchronously started function value cannot be resolved")
			continue
		}
		if !touches(a.fn, connP) && !touches(a.fn, ctxP) {
			r.Check(id+".ASYNC", key, true, pos, "%s of %s: does not reach conn or ctx", a.how, p.FuncName(a.fn))
			continue
		}
		if a.how != "go" {
			r.Check(id+".ASYNC", key, false, pos, "%s runs %s, which uses the connection or the context, with no way to wait for it: its stop function reports that the callback started, not that it finished, so it can act after NewConn returned", a.how, p.FuncName(a.fn))
			continue
		}
		// the goroutine must close (or send on) a channel on all exits: accept
		// `defer close(ch)` in its entry block.
		var ch *ssa.Alloc
		if len(a.fn.Blocks) > 0 {
			for _, in := range a.fn.Blocks[0].Instrs {
				if d, ok := in.(*ssa.Defer); ok {
					if bi, ok := d.Call.Value.(*ssa.Builtin); ok && bi.Name() == "close" && len(d.Call.Args) == 1 {
						ch = chanCell(p, d.Call.Args[0])
					}
				}
			}
		}
		if ch == nil {
			r.Check(id+".ASYNC", key, false, pos, "goroutine %s uses the connection or the context but does not signal its termination (no `defer close(ch)` at its entry), so NewConn cannot wait for it", p.FuncName(a.fn))
			continue
		}
		// every return of NewConn must be preceded by a receive on ch
		var recv ssa.Instruction
		for _, d := range deferred {
			for _, b := range d.Blocks {
				for _, in := range b.Instrs {
					if u, ok := in.(*ssa.UnOp); ok && u.Op == token.ARROW && chanCell(p, u.X) == ch {
						ok2 := true
						for _, ret := range core.Returns(d) {
							if !b.Dominates(ret.Block()) {
								ok2 = false
							}
						}
						if ok2 {
							recv = u
						}
					}
				}
			}
		}
		if recv == nil {
			for _, b := range nc.Blocks {
				for _, in := range b.Instrs {
					if u, ok := in.(*ssa.UnOp); ok && u.Op == token.ARROW && chanCell(p, u.X) == ch {
						ok2 := true
						for _, ret := range rets {
							if !b.Dominates(ret.Block()) {
								ok2 = false
							}
						}
						if ok2 {
							recv = u
						}
					}
				}
			}
		}
		if !r.Check(id+".ASYNC", key, recv != nil, pos, "goroutine %s signals termination on a channel; a receive on it precedes every return of NewConn: %v", p.FuncName(a.fn), recv != nil) {
			continue
		}
		watcher, joinChan, joinRecv, watcherStart = a.fn, ch, recv, a.start
	}
	r.Floor(id+".ASYNC", 1)
	_ = joinChan

	// --- deadline calls reachable from NewConn
	var dls []deadlineCall
	scope := reachableFuncs(p, nc)
	for _, s := range callSites(p, scope, `\(net\.Conn\)\.Set(Read|Write)?Deadline|\(\*ech\.Conn\)\.Set(Read|Write)?Deadline`) {
		d := deadlineCall{site: s, kind: "both"}
		switch {
		case matches(`.*SetReadDeadline`, s.X.Name):
			d.kind = "read"
		case matches(`.*SetWriteDeadline`, s.X.Name):
			d.kind = "write"
		}
		if len(s.X.Args) == 2 {
			arg := s.X.Args[1]
			d.zero = arg.Op == "const" && arg.Name == "zero"
			d.now = arg.Op == "call" && arg.Name == "time.Now"
		}
		dls = append(dls, d)
	}
	covers := func(reset, set string) bool { return reset == "both" || reset == set }

	// resets: zero-time deadline calls in deferred literals after the join (or anywhere, if no watcher)
	type reset struct {
		d     deadlineCall
		facts []core.Fact
	}
	var resets []reset
	for _, d := range dls {
		if !d.zero {
			continue
		}
		inDeferred := false
		for _, df := range deferred {
			if d.site.Fn == df {
				inDeferred = true
			}
		}
		if !inDeferred {
			continue
		}
		if joinRecv != nil && joinRecv.Parent() == d.site.Fn && !core.Before(joinRecv, d.site.Instr) {
			continue
		}
		resets = append(resets, reset{d, p.Facts(d.site.Block())})
	}
	errCell := namedResultCell(nc, nc.Signature.Results().Len()-1)
	isErrNil := func(f core.Fact) bool {
		if f.Op != "==" || f.R.Name != "nil" {
			return false
		}
		a, ok := p.IsCellLoad(f.L.Val)
		if !ok {
			// the expression of a cell load is the union of its stores; use the guard's raw value
			if bo, ok2 := f.G.Cond.(*ssa.BinOp); ok2 {
				a, ok = p.IsCellLoad(bo.X)
			}
		}
		return ok && a == errCell && errCell != nil
	}
	nonZero := 0
	for i, d := range dls {
		if d.zero {
			continue
		}
		nonZero++
		key := fmt.Sprintf("%s:%s#%d", p.FuncName(d.site.Fn), lastDot(d.site.X.Name), i)
		pos := p.InstrPos(d.site.Instr)
		// flags raised before this call in its function (stores of true to bool cells of NewConn)
		flags := map[*ssa.Alloc]bool{}
		for _, b := range d.site.Fn.Blocks {
			for _, in := range b.Instrs {
				st, ok := in.(*ssa.Store)
				if !ok {
					continue
				}
				if c, ok := st.Val.(*ssa.Const); ok && c.Value != nil && c.Value.ExactString() == "true" {
					if a := p.CellRoot(st.Addr); a != nil && core.Before(st, d.site.Instr) {
						flags[a] = true
					}
				}
			}
		}
		joined := watcher != nil && d.site.Fn == watcher
		var okReset *reset
		why := "no deferred reset to the zero time after the join"
		for j := range resets {
			rs := &resets[j]
			if !covers(rs.d.kind, d.kind) {
				why = fmt.Sprintf("the reset %s at %s does not cover what %s sets", lastDot(rs.d.site.X.Name), p.InstrPos(rs.d.site.Instr), lastDot(d.site.X.Name))
				continue
			}
			good := true
			hasErrNil := false
			for _, f := range rs.facts {
				if isErrNil(f) {
					hasErrNil = true
				}
			}
			if !hasErrNil {
				good = false
				why = fmt.Sprintf("the reset at %s also runs when NewConn fails: the deadline must stay in place on the error path, otherwise the fatal alert written afterwards can block on a stalled client", p.InstrPos(rs.d.site.Instr))
			}
			for _, f := range rs.facts {
				switch {
				case isErrNil(f):
				case f.Op == "true" && isFlagLoad(p, f, flags) && joined:
				default:
					if !good {
						continue
					}
					good = false
					why = fmt.Sprintf("the reset at %s is conditional on %q, which does not follow from this deadline having been set", p.InstrPos(rs.d.site.Instr), f.String())
				}
			}
			if good {
				okReset = rs
				break
			}
		}
		r.Check(id+".RESET", key, okReset != nil, pos, "non-zero deadline %s(%s) reachable from NewConn (in joined goroutine: %v): %s", lastDot(d.site.X.Name), d.site.X.Args[len(d.site.X.Args)-1], joined,
			map[bool]string{true: "a covering reset on success follows the join", false: why}[okReset != nil])
	}
	r.Floor(id+".RESET", 1)

	// --- PROMPT
	if watcher != nil {
		var first site
		found := false
		for _, s := range callSites(p, []*ssa.Function{nc}, `ech\.readRecord`) {
			if !found {
				first, found = s, true
			}
		}
		if !found {
			r.Undecided(id+".PROMPT", "NewConn:first-read", p.Pos(nc.Pos()), "no call to readRecord in NewConn")
		} else {
			r.Check(id+".PROMPT", "NewConn:watcher-before-read", core.Before(watcherStart, first.Instr), p.InstrPos(watcherStart), "the watcher goroutine is started before the first blocking read (%s)", p.InstrPos(first.Instr))
		}
		kinds := map[string]bool{}
		for _, d := range dls {
			if d.site.Fn != watcher || d.zero {
				continue
			}
			if !d.now {
				continue
			}
			// guarded by the ctx.Done() case of a select
			onDone := false
			for _, f := range p.Facts(d.site.Block()) {
				if sel, ok := f.L.Select(); ok && f.Op == "==" {
					if k, ok := f.R.ConstInt(); ok && int(k) < len(sel.States) {
						chx := p.X(sel.States[k].Chan)
						if chx.Op == "call" && chx.Name == "(context.Context).Done" && len(chx.Args) == 1 && chx.Args[0].Val == ssa.Value(ctxP) {
							onDone = true
						}
					}
				}
			}
			if onDone {
				if d.kind == "both" {
					kinds["read"], kinds["write"] = true, true
				} else {
					kinds[d.kind] = true
				}
			}
		}
		// ... and a deadline is all it does to the connection: a deadline can be
		// taken back when the hello was read in time after all, a Close (or a
		// write) cannot
		nOther := 0
		for _, s := range allCalls(p, core.Closures(watcher)) {
			c := s.Instr.Common()
			if !c.IsInvoke() || len(s.X.Args) == 0 {
				continue
			}
			if !s.X.Args[0].Any(func(e *core.Expr) bool { return e.Val == ssa.Value(nc.Params[1]) }) {
				continue
			}
			if m := c.Method.Name(); !matches(`Set(Read|Write)?Deadline|LocalAddr|RemoteAddr`, m) {
				nOther++
				r.Check(id+".RESET", fmt.Sprintf("watcher:%s#%d", m, nOther), false, p.InstrPos(s.Instr), "the watcher calls %s on the connection: that cannot be undone when NewConn succeeds after all", m)
			}
		}
		r.Check(id+".RESET", "watcher:deadline-only", nOther == 0, p.Pos(watcher.Pos()), "the watcher does nothing to the connection but set deadlines (%d other calls)", nOther)
		r.Check(id+".PROMPT", "NewConn:watcher-deadline", kinds["read"] && kinds["write"], p.Pos(watcher.Pos()),
			"on <-ctx.Done() the watcher sets a deadline of time.Now() covering reads (%v) and writes (%v); both are needed: the blocked read must return and the alert written afterwards must not block", kinds["read"], kinds["write"])
		// after the join nothing interrupts a blocked read any more: the deferred
		// code that runs after it (the rest of the joining literal and every
		// literal deferred earlier) may write the alert but must not read from
		// the transport
		var late []*ssa.Function
		var joinDefer ssa.Instruction
		for _, b := range nc.Blocks {
			for _, in := range b.Instrs {
				if d, ok := in.(*ssa.Defer); ok && joinRecv != nil && p.ResolveFuncValue(d.Call.Value) == joinRecv.Parent() {
					joinDefer = d
				}
			}
		}
		nLate := 0
		if joinDefer != nil {
			for _, b := range nc.Blocks {
				for _, in := range b.Instrs {
					d, ok := in.(*ssa.Defer)
					if !ok || d == joinDefer || !core.Before(d, joinDefer) {
						continue
					}
					if fn := p.ResolveFuncValue(d.Call.Value); fn != nil {
						late = append(late, fn)
					} else if c := d.Call.StaticCallee(); c != nil {
						late = append(late, c)
					}
				}
			}
			for _, s := range transportReads(p, reachableFuncs(p, late...)) {
				nLate++
				r.Check(id+".PROMPT", fmt.Sprintf("NewConn:no-read-after-join#%d", nLate), false, p.InstrPos(s.Instr), "%s reads from the transport in code deferred before the watcher's join, i.e. running after it: no deadline interrupts this read when the client stalls, so NewConn can outlive its context", s.X.Name)
			}
			for _, s := range transportReads(p, reachableFuncs(p, joinRecv.Parent())) {
				if s.Fn == joinRecv.Parent() && core.Before(s.Instr, joinRecv) {
					continue
				}
				nLate++
				r.Check(id+".PROMPT", fmt.Sprintf("NewConn:no-read-after-join#%d", nLate), false, p.InstrPos(s.Instr), "%s reads from the transport after the watcher was joined", s.X.Name)
			}
		}
		r.Check(id+".PROMPT", "NewConn:no-read-after-join", joinDefer == nil || nLate == 0, p.Pos(nc.Pos()), "no read from the transport in the %d deferred function(s) that run after the watcher's join (%d found)", len(late), nLate)
	} else {
		r.Check(id+".PROMPT", "NewConn:watcher", false, p.Pos(nc.Pos()), "no joined goroutine watches the context")
	}

	// --- CTXUSE
	for _, f := range lits {
		for _, b := range f.Blocks {
			for _, in := range b.Instrs {
				uses := false
				for _, op := range in.Operands(nil) {
					if *op == nil {
						continue
					}
					v := *op
					if v == ssa.Value(ctxP) {
						uses = true
					} else if u, ok := v.(*ssa.UnOp); ok && u.Op == token.MUL {
						if a := p.CellRoot(u.X); a != nil && isParamCell(p, a, ctxP) {
							uses = true
						}
					}
				}
				if !uses {
					continue
				}
				okUse := false
				what := fmt.Sprintf("%T", in)
				switch in := in.(type) {
				case *ssa.Store:
					okUse = p.CellRoot(in.Addr) != nil && isParamCell(p, p.CellRoot(in.Addr), ctxP)
					what = "store"
				case *ssa.Call:
					if in.Call.IsInvoke() {
						m := in.Call.Method.Name()
						okUse = m == "Done" || m == "Err" || m == "Deadline" || m == "Value"
						what = "call " + m
						// what the context says is used here and now: nothing of it is
						// kept in the Conn for later
						var kept func(v ssa.Value, depth int) bool
						kept = func(v ssa.Value, depth int) bool {
							refs := v.Referrers()
							if refs == nil || depth > 3 {
								return false
							}
							for _, ref := range *refs {
								switch x := ref.(type) {
								case *ssa.Extract:
									if kept(x, depth+1) {
										return true
									}
								case *ssa.Store:
									if fa, isFA := x.Addr.(*ssa.FieldAddr); isFA && x.Val == v && strings.HasSuffix(deref2(fa.X.Type()).String(), "ech.Conn") {
										return true
									}
								}
							}
							return false
						}
						if okUse && m != "Done" && kept(in, 0) {
							okUse = false
							what = "call " + m + ", result stored in the Conn"
						}
					} else {
						what = "call " + p.X(in).Name
					}
				case *ssa.MakeClosure:
					okUse = true // captured; the literal's own uses are checked
				}
				r.Check(id+".CTXUSE", fmt.Sprintf("%s:%s", p.FuncName(f), what), okUse, p.InstrPos(in), "use of the ctx parameter: %s", what)
			}
		}
	}
	r.Floor(id+".CTXUSE", 1)
}

// transportReads lists the calls in fns that can block reading from a
// connection: Read on a value with deadlines (net.Conn and wrappers), and the
// io helpers applied to such a value.
func transportReads(p *core.Prog, fns []*ssa.Function) []site {
	isTransport := func(v ssa.Value) bool {
		for {
			switch x := v.(type) {
			case *ssa.ChangeInterface:
				v = x.X
				continue
			case *ssa.MakeInterface:
				v = x.X
				continue
			}
			break
		}
		ms := p.SSA.MethodSets.MethodSet(v.Type())
		return ms.Lookup(nil, "SetReadDeadline") != nil && ms.Lookup(nil, "Read") != nil
	}
	var out []site
	for _, s := range allCalls(p, fns) {
		c := s.Instr.Common()
		switch {
		case c.IsInvoke() && c.Method.Name() == "Read" && isTransport(c.Value):
			out = append(out, s)
		case matches(`io\.(ReadFull|ReadAtLeast|ReadAll|Copy|CopyN|CopyBuffer)|bufio\.NewReader.*|ech\.readRecord|\(\*ech\.Conn\)\.Read`, s.X.Name):
			for _, a := range c.Args {
				if isTransport(a) {
					out = append(out, s)
					break
				}
			}
		case !c.IsInvoke() && c.StaticCallee() != nil && c.StaticCallee().Name() == "Read" && len(c.Args) > 0 && isTransport(c.Args[0]):
			out = append(out, s)
		}
	}
	return out
}

func lastDot(s string) string {
	for i := len(s) - 1; i >= 0; i-- {
		if s[i] == '.' {
			return s[i+1:]
		}
	}
	return s
}

// chanCell resolves a channel operand to the local cell it was loaded from.
func chanCell(p *core.Prog, v ssa.Value) *ssa.Alloc {
	// (a channel used with a direction is the variable's value under a type change)
	for {
		ct, ok := v.(*ssa.ChangeType)
		if !ok {
			break
		}
		v = ct.X
	}
	if u, ok := v.(*ssa.UnOp); ok && u.Op == token.MUL {
		return p.CellRoot(u.X)
	}
	return nil
}

func isFlagLoad(p *core.Prog, f core.Fact, flags map[*ssa.Alloc]bool) bool {
	if a, ok := p.IsCellLoad(f.G.Cond); ok {
		return flags[a]
	}
	return false
}

// namedResultCell returns the Alloc cell of the i-th named result, if the
// function spills its results (functions with defer do).
func namedResultCell(fn *ssa.Function, i int) *ssa.Alloc {
	res := fn.Signature.Results()
	if i < 0 || i >= res.Len() || res.At(i).Name() == "" {
		return nil
	}
	for _, b := range fn.Blocks {
		for _, in := range b.Instrs {
			if a, ok := in.(*ssa.Alloc); ok && a.Comment == res.At(i).Name() {
				return a
			}
		}
	}
	return nil
}

// isParamCell reports whether a is the spill cell of parameter prm.
func isParamCell(p *core.Prog, a *ssa.Alloc, prm *ssa.Parameter) bool {
	st, _ := p.CellDefs(a)
	for _, s := range st {
		if s.Val == ssa.Value(prm) {
			return true
		}
	}
	return false
}
