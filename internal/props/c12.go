package props

import (
	"fmt"
	"go/ast"
	"go/constant"
	"go/token"
	"go/types"
	"sort"
	"strings"

	"verif/third_party/xtools/go/ssa"

	"verif/internal/core"
)

func init() {
	register(&Property{
		ID: "C12",
		Info: core.Info{
			Explanation: "Decides for every function reachable from dns.DecodeMessage, for dns.DoH and for the resolver's consumers of decoded records: " +
				"(T1) every loop has a termination variant - counted loops over the header counts, cursor loops in which every way round performs a successful consuming read, and for the compression-pointer walk a budget: each way round strictly increases a counter (pointers followed, or name octets) that is tested against a constant on the way (a 'must point backwards' comparison alone is not accepted, because label reads move forward again); the call graph among decoder methods is acyclic (no recursion on attacker-chosen depth); non-range nesting depth bounds the degree of the polynomial; " +
				"(T2/T6) every index/slice site of the decoder and of the resolver functions that consume records is in range (interval/linear-fact engine, with !s.Empty() <=> len(s) >= 1); " +
				"(T3) cryptobyte discipline for header, question, RR header and every RDATA decoder: each read is tested, the failing edge returns ErrDecodeError; " +
				"(T4) the decoder's record-type -> Go-type-of-RR.Data table is extracted from the stores to RR.Data and their case guards; no nil-error return of the record decoder can be reached without passing one of those stores; every unchecked type assertion on record data in the repository (resolver: HTTPS, A, AAAA, CNAME; AddPadding: OPT) asserts exactly the table's type for the type code it is guarded by or was asked for; " +
				"(T5) DoH allocates the body only under 0 <= sz <= 65535. " +
				"Not decided: measured time or allocation.",
			Assumptions: []string{"cryptobyte.String reads never read past the cursor and consume what they return"},
		},
		Rules: c12Rules,
	})
}

func c12Rules(p *core.Prog, r *core.Run) {
	dm := p.Func(DNS, "DecodeMessage")
	if dm == nil {
		r.Undecided("C12.T1", "DecodeMessage", "-", "function not found")
		return
	}
	var scope []*ssa.Function
	for _, f := range reachableFuncs(p, dm) {
		if core.Root(f).Pkg != nil && core.Root(f).Pkg.Pkg.Path() == DNS {
			scope = append(scope, f)
		}
	}
	r.Analysed(funcNames(p, scope)...)

	// --- T1: loops
	depth := loopRules(p, r, "C12.T1", scope, nil)
	r.Tables["max_nesting_of_non_range_loops"] = depth
	r.Check("C12.T1", "nesting", depth <= 2, p.Pos(dm.Pos()), "non-range loops nest at most %d deep under DecodeMessage (degree bound of the running time in the message length)", depth)
	r.Floor("C12.T1", 12)
	// acyclic call graph
	color := map[*ssa.Function]int{}
	cyc := ""
	var dfs func(f *ssa.Function)
	dfs = func(f *ssa.Function) {
		color[f] = 1
		for _, s := range allCalls(p, []*ssa.Function{f}) {
			g := s.X.Fn
			if g == nil || g.Blocks == nil || !inModule(p, g) {
				continue
			}
			switch color[g] {
			case 0:
				dfs(g)
			case 1:
				cyc = p.FuncName(f) + " -> " + p.FuncName(g)
			}
		}
		color[f] = 2
	}
	dfs(dm)
	r.Check("C12.T1", "callgraph:acyclic", cyc == "", p.Pos(dm.Pos()), "no recursion among the decoder functions (recursion depth would be chosen by the message) %s", cyc)

	// --- T4 table
	table := c12TypeTable(p, r)

	// --- T2 / T6
	rs := p.Func(Ech, "(*Resolver).Resolve")
	var cons []*ssa.Function
	inScope := map[*ssa.Function]bool{}
	for _, f := range scope {
		inScope[f] = true
	}
	dec := p.Func(DNS, "DecodeMessage")
	handlesDecoded := func(f *ssa.Function) bool {
		for _, g := range reachableFuncs(p, core.Root(f)) {
			if g == dec {
				return true
			}
		}
		return false
	}
	for _, f := range reachableFuncs(p, rs) {
		root := core.Root(f)
		if root.Pkg == nil {
			continue
		}
		switch root.Pkg.Pkg.Path() {
		case Ech:
			if strings.Contains(p.FuncName(root), "Resolver") || strings.Contains(p.FuncName(root), "validName") {
				cons = append(cons, f)
			}
		case DNS:
			// what the resolver calls in the codec's package to fetch the
			// answer (DoH and whatever it is written with) handles the
			// decoded message as well
			if !inScope[f] && handlesDecoded(f) {
				cons = append(cons, f)
			}
		}
	}
	// AddPadding and ResponseCode consume decoded/constructed records too
	for _, n := range []string{"(*Message).AddPadding", "(Message).ResponseCode"} {
		if f := p.Func(DNS, n); f != nil {
			cons = append(cons, core.Closures(f)...)
		}
	}
	// what reaches the resolver as a decoded message was made by the decoder:
	// a message built any other way (decoded from another format, patched up
	// by hand) does not carry the Go types the decoder's table promises
	nFetch := 0
	for _, f := range cons {
		if f.Pkg == nil || f.Pkg.Pkg.Path() != DNS || f.Signature.Results().Len() != 2 {
			continue
		}
		if pt, ok := f.Signature.Results().At(0).Type().(*types.Pointer); !ok || !strings.HasSuffix(pt.Elem().String(), "dns.Message") {
			continue
		}
		nFetch++
		for i, ret := range core.Returns(f) {
			okR := true
			for _, a := range p.X(ret.Results[0]).Alts() {
				fromDec := a.Op == "ext" && a.Name == "#0" && len(a.Args) == 1 && a.Args[0].Op == "call" && (a.Args[0].Fn == dec || a.Args[0].Fn != nil && a.Args[0].Fn != f && handlesDecoded(a.Args[0].Fn))
				if !(a.Op == "const" && a.Name == "nil") && !fromDec {
					okR = false
				}
			}
			r.Check("C12.T4", fmt.Sprintf("%s:returns-decoded#%d", p.FuncName(f), i), okR, p.InstrPos(ret), "the message handed to the resolver is what DecodeMessage returned (or nil): %s", short(p.X(ret.Results[0])))
		}
	}
	r.Check("C12.T4", "fetch:returns-decoded", nFetch >= 1, p.Pos(rs.Pos()), "functions of the codec's package that fetch a message for the resolver: %d", nFetch)
	r.Analysed(funcNames(p, cons)...)
	assertOK := func(ta *ssa.TypeAssert) (bool, string) { return c12Assert(p, ta, table) }
	indexSafetyWith(p, r, "C12.T2", append(append([]*ssa.Function{}, scope...), cons...), 8, assertOK)
	// (the resolver's assertions rest on "records asked for as X carry X's Go
	// type": the lookup hands back only records of the type it was asked for)
	if noc := p.Func(Ech, "(*Resolver).resolveOneNoCache"); noc != nil {
		c14OwnerFilter(p, r, noc, "C12.T4.asked")
	}

	// --- T3
	c04ParserDiscipline(p, r, "C12.T3", scope, map[string]bool{"dns.ErrDecodeError": true})

	// --- T6: no allocation in the decoder is sized by a number read from the
	// message (a 12-byte header announcing 4 x 65535 records must not reserve
	// room for them): sizes are constants or lengths of what was actually read
	nAlloc := 0
	for _, f := range scope {
		for _, b := range f.Blocks {
			for _, in := range b.Instrs {
				var sizes []ssa.Value
				switch x := in.(type) {
				case *ssa.MakeSlice:
					sizes = []ssa.Value{x.Len, x.Cap}
				case *ssa.MakeMap:
					if x.Reserve != nil {
						sizes = []ssa.Value{x.Reserve}
					}
				default:
					continue
				}
				nAlloc++
				wire := ""
				for _, sz := range sizes {
					if _, isC := sz.(*ssa.Const); isC {
						continue
					}
					e := p.X(sz)
					if e.Any(func(x *core.Expr) bool { return x.Op == "out" && strings.Contains(x.Name, "cryptobyte.String).Read") }) {
						wire = short(e)
					}
				}
				r.Check("C12.T6", fmt.Sprintf("%s:alloc#%d", p.FuncName(f), nAlloc), wire == "", p.InstrPos(in), "allocation sized by a value taken from the message: %s (memory must stay proportional to the bytes received)", wire)
			}
		}
	}
	r.Tables["decoder_allocations"] = nAlloc

	// --- T5
	doh := p.Func(DNS, "DoH")
	if doh == nil {
		r.Undecided("C12.T5", "DoH", "-", "function not found")
	} else {
		r.Analysed(p.FuncName(doh))
		n := 0
		var dohBlocks []*ssa.BasicBlock
		for _, f := range withHelpers(p, doh) {
			dohBlocks = append(dohBlocks, f.Blocks...)
		}
		for _, b := range dohBlocks {
			for _, in := range b.Instrs {
				ms, ok := in.(*ssa.MakeSlice)
				if !ok {
					continue
				}
				n++
				lo, hi := false, false
				var cap int64
				for _, f := range p.Facts(b) {
					if f.L.Val == ms.Len && f.Op == ">=" && f.R.Name == "0" {
						lo = true
					}
					if f.L.Val == ms.Len && f.Op == "<=" {
						if k, ok := f.R.ConstInt(); ok && k <= 1<<20 {
							hi, cap = true, k
						}
					}
				}
				r.Check("C12.T5", "DoH:body-allocation", lo && hi, p.InstrPos(ms), "the response body buffer is allocated only under 0 <= size (%v) and size <= %d (%v)", lo, cap, hi)
			}
		}
		r.Check("C12.T5", "DoH:allocations", n == 1, p.Pos(doh.Pos()), "one size-dependent allocation in DoH (found %d)", n)
	}
}

// c12TypeTable extracts record type -> Go type of RR.Data from decoder.rr.
func c12TypeTable(p *core.Prog, r *core.Run) map[int64]string {
	rr := p.Func(DNS, "(decoder).rr")
	table := map[int64]string{}
	if rr == nil {
		r.Undecided("C12.T4", "decoder.rr", "-", "record decoder not found")
		return table
	}
	dataF := field(p, DNS, "RR", "Data")
	deflt := ""
	nDefault := 0
	storeBlocks := map[*ssa.BasicBlock]bool{}
	// a store of a value selected beforehand (the result of a helper that
	// switches on the type and returns `any`) is judged per way the value gets
	// there: the block the value comes from carries the type test
	type vstore struct {
		st  *ssa.Store
		val ssa.Value
		blk *ssa.BasicBlock
	}
	var vstores []vstore
	for _, st := range fieldStores(p, []*ssa.Function{rr}, dataF) {
		storeBlocks[st.Block()] = true
		var expand func(v ssa.Value, blk *ssa.BasicBlock, depth int)
		expand = func(v ssa.Value, blk *ssa.BasicBlock, depth int) {
			if ph, ok := v.(*ssa.Phi); ok && depth < 4 {
				for k, e := range ph.Edges {
					expand(e, ph.Block().Preds[k], depth+1)
				}
				return
			}
			vstores = append(vstores, vstore{st, v, blk})
		}
		expand(st.Val, st.Block(), 0)
	}
	for _, vs := range vstores {
		st := vs.st
		typ := "?"
		if c, isC := vs.val.(*ssa.Const); isC && c.Value == nil {
			continue // the nil that accompanies an error return
		}
		if mi, ok := vs.val.(*ssa.MakeInterface); ok {
			typ = p.X(mi).Name
			typ = shortType(p, mi.X.Type())
		}
		var codes []int64
		for _, f := range p.Facts(vs.blk) {
			if f.Op == "==" && f.L.Op == "field" && f.L.Name == "Type" {
				if k, ok := f.R.ConstInt(); ok {
					codes = append(codes, k)
				}
			}
		}
		if len(codes) == 0 {
			// a case with several codes: some dominating block is entered from
			// several equality tests on the type
			for b := vs.blk; b != nil && len(codes) == 0; b = b.Idom() {
				if len(b.Preds) < 2 {
					continue
				}
				var cs []int64
				all := true
				for _, pr := range b.Preds {
					fs := p.EdgeFacts(pr, b)
					got := false
					if len(fs) > 0 && fs[0].Op == "==" && fs[0].L.Op == "field" && fs[0].L.Name == "Type" {
						if k, ok := fs[0].R.ConstInt(); ok {
							cs = append(cs, k)
							got = true
						}
					}
					if !got {
						all = false
					}
				}
				if all {
					codes = cs
				}
			}
		}
		if len(codes) == 0 {
			// the fallback store: reached only when the type is none of the
			// codes consumers rely on (a shortcut keyed on something else - class,
			// length - would hand them the fallback type for those codes)
			var missing []string
			for _, k := range []int64{1, 2, 5, 12, 28, 41, 65} {
				ne := false
				for _, f := range p.Facts(vs.blk) {
					if f.Op == "!=" && f.L.Op == "field" && f.L.Name == "Type" {
						if c, ok := f.R.ConstInt(); ok && c == k {
							ne = true
						}
					}
				}
				if !ne {
					missing = append(missing, fmt.Sprint(k))
				}
			}
			r.Check("C12.T4", "decoder:fallback-store#"+fmt.Sprint(nDefault), len(missing) == 0, p.InstrPos(st), "a store of %s into RR.Data that is not keyed on a type code is reached only when the type is none of A, NS, CNAME, PTR, AAAA, OPT, HTTPS (not excluded: %s)", typ, strings.Join(missing, ","))
			nDefault++
			deflt = typ
			continue
		}
		for _, k := range codes {
			if old, seen := table[k]; seen && old != typ {
				// two stores for one type code with different Go types: consumers
				// that assert one of them panic on the other
				r.Check("C12.T4", fmt.Sprintf("decoder:one-type-per-code:%d", k), false, p.InstrPos(st), "records of type %d get RR.Data of Go type %s here and %s elsewhere", k, typ, old)
			}
			table[k] = typ
		}
	}
	var keys []int64
	for k := range table {
		keys = append(keys, k)
	}
	sort.Slice(keys, func(i, j int) bool { return keys[i] < keys[j] })
	var desc []string
	for _, k := range keys {
		desc = append(desc, fmt.Sprintf("%d:%s", k, table[k]))
	}
	r.Tables["decoder_type_table"] = strings.Join(desc, " ") + " default:" + deflt
	want := map[int64]string{1: "net.IP", 28: "net.IP", 5: "string", 2: "string", 12: "string", 41: "[]dns.Option", 65: "dns.HTTPS"}
	ok := deflt == "[]byte"
	for k, v := range want {
		if table[k] != v {
			ok = false
		}
	}
	r.Check("C12.T4", "decoder:table", ok && len(table) >= 18, p.Pos(rr.Pos()), "decoder table: %s default:%s (types the consumers rely on: A/AAAA net.IP, NS/CNAME/PTR string, OPT []Option, HTTPS dns.HTTPS)", strings.Join(desc, " "), deflt)
	// every nil-error return passes a Data store
	cfg := core.Prune(rr, func(from *ssa.BasicBlock, succ int) bool { return !storeBlocks[from.Succs[succ]] })
	for _, ret := range core.Returns(rr) {
		if !lastResultNil(ret) {
			continue
		}
		reach := cfg.Live(ret.Block()) && !storeBlocks[ret.Block()]
		r.Check("C12.T4", "decoder:data-always-set", !reach, p.InstrPos(ret), "a record is returned without error only after RR.Data was given the Go type of its record type (no shortcut, e.g. for empty RDATA, leaves Data nil)")
	}
	return table
}

func shortType(p *core.Prog, t types.Type) string {
	s := types.TypeString(t, func(pk *types.Package) string {
		if pk.Path() == DNS {
			return "dns"
		}
		return pk.Name()
	})
	return s
}

// c12Assert judges an unchecked type assertion on record data.
func c12Assert(p *core.Prog, ta *ssa.TypeAssert, table map[int64]string) (bool, string) {
	x := p.X(ta.X)
	asserted := shortType(p, ta.AssertedType)
	// (a) elements of resolveOne(ctx, name, "T")#0; T may be one of several constants
	var typNames []string
	isLookup := false
	x.Walk(func(e *core.Expr) bool {
		if isLookup {
			return false
		}
		if e.Op == "call" && strings.HasSuffix(e.Name, ".resolveOne") && len(e.Args) == 4 {
			isLookup = true
			for _, a := range e.Args[3].Alts() {
				if a.Op != "const" {
					typNames = nil
					return false
				}
				typNames = append(typNames, strings.Trim(a.Name, `"`))
			}
			return false
		}
		return true
	})
	if isLookup && len(typNames) == 0 {
		return false, "the record type asked for is not a constant"
	}
	if len(typNames) > 0 {
		var why []string
		for _, typName := range typNames {
			code, ok := rrTypeCode(p, typName)
			if !ok {
				return false, "unknown record type name " + typName
			}
			if table[code] != asserted {
				return false, fmt.Sprintf("records asked for as %q (type %d) carry %s, asserted %s", typName, code, table[code], asserted)
			}
			why = append(why, fmt.Sprintf("records asked for as %q (type %d) carry %s by the decoder's table", typName, code, asserted))
		}
		return true, strings.Join(why, "; ")
	}
	// (b) guarded by rr.Type == K on the same record
	if x.Op == "field" && x.Name == "Data" {
		for _, f := range p.Facts(ta.Block()) {
			if f.Op == "==" && f.L.Op == "field" && f.L.Name == "Type" && f.L.Args[0].String() == x.Args[0].String() {
				if k, ok := f.R.ConstInt(); ok {
					if table[k] == asserted {
						return true, fmt.Sprintf("guarded by Type == %d, which carries %s", k, asserted)
					}
					return false, fmt.Sprintf("guarded by Type == %d, which carries %s, asserted %s", k, table[k], asserted)
				}
			}
		}
		// (c) AddPadding: the record found by IndexFunc(Type == 41) or appended with Type 41
		if idx := x.Args[0]; idx.Op == "index" {
			okAll := true
			n := 0
			for _, a := range idx.Args[1].Alts() {
				n++
				switch {
				case a.Op == "call" && a.Name == "slices.IndexFunc" && (a.Args[1].Op == "closure" || a.Args[1].Op == "func") && a.Args[1].Fn != nil:
					good := false
					for _, ret := range core.Returns(a.Args[1].Fn) {
						e := p.X(ret.Results[0])
						if e.Op == "bin" && e.Name == "==" && e.Args[0].Op == "field" && e.Args[0].Name == "Type" {
							if k, ok := e.Args[1].ConstInt(); ok && table[k] == asserted {
								good = true
							}
						}
					}
					if !good {
						okAll = false
					}
				case a.Op == "call" && a.Name == "len":
					// the record appended just before: its literal has the type code and the data type
					good := false
					fn := ta.Parent()
					for _, b := range fn.Blocks {
						for _, in := range b.Instrs {
							st, ok := in.(*ssa.Store)
							if !ok {
								continue
							}
							ad := p.X(st.Addr)
							if ad.Op == "field" && ad.Name == "Data" && (ad.Args[0].Op == "new" || ad.Args[0].Op == "index" && ad.Args[0].Args[0].Op == "new") {
								if mi, ok := st.Val.(*ssa.MakeInterface); ok && shortType(p, mi.X.Type()) == asserted {
									// sibling store of the type code
									for _, in2 := range b.Instrs {
										if s2, ok := in2.(*ssa.Store); ok {
											a2 := p.X(s2.Addr)
											if a2.Op == "field" && a2.Name == "Type" && a2.Args[0].String() == ad.Args[0].String() {
												if k, ok := p.X(s2.Val).ConstInt(); ok && table[k] == asserted {
													good = true
												}
											}
										}
									}
								}
							}
						}
					}
					if !good {
						okAll = false
					}
				case a.Op == "const":
					// "not found" (-1): never used as an index (index safety, T2);
					// any other constant position says nothing about the record there
					if k, ok := a.ConstInt(); !ok || k >= 0 {
						okAll = false
					}
				default:
					// reached only where this very element was tested: the value flows
					// in (through φ-nodes) from a block guarded by X[a].Type == K
					if !c12GuardedIndex(p, idx.Args[1].Val, a, table, asserted) {
						okAll = false
					}
				}
			}
			if okAll && n > 0 {
				return true, "the record is the one found by Type == 41 (or the OPT record just appended), which carries " + asserted
			}
		}
	}
	return false, "cannot relate the asserted type to a record type"
}

func rrTypeCode(p *core.Prog, name string) (int64, bool) {
	e, _ := globalLit(p, DNS, "rrTypes")
	cl, ok := e.(*ast.CompositeLit)
	if !ok {
		// the table in another form: a package-level list of {name, number}
		// pairs, or the switch of dns.RRType
		if pk := p.PkgByP[DNS]; pk != nil {
			for _, f := range pk.Syntax {
				for _, d := range f.Decls {
					gd, isGD := d.(*ast.GenDecl)
					if !isGD || gd.Tok != token.VAR {
						continue
					}
					for _, sp := range gd.Specs {
						for _, val := range sp.(*ast.ValueSpec).Values {
							outer, isCL := val.(*ast.CompositeLit)
							if !isCL {
								continue
							}
							for _, el := range outer.Elts {
								pair, isPair := el.(*ast.CompositeLit)
								if !isPair || len(pair.Elts) != 2 {
									continue
								}
								var nm string
								var num int64 = -1
								for _, pe := range pair.Elts {
									if kv, isKV := pe.(*ast.KeyValueExpr); isKV {
										pe = kv.Value
									}
									if v, okC := constOf(p, DNS, pe); okC {
										if v.Kind() == constant.String {
											nm = constant.StringVal(v)
										} else if c, okI := constant.Int64Val(constant.ToInt(v)); okI {
											num = c
										}
									}
								}
								if nm == strings.ToUpper(name) && num >= 0 {
									return num, true
								}
							}
						}
					}
				}
			}
		}
		if fn := p.Func(DNS, "RRType"); fn != nil {
			for _, ret := range core.Returns(fn) {
				k, isK := p.X(ret.Results[0]).ConstInt()
				if !isK {
					continue
				}
				for _, f := range p.Facts(ret.Block()) {
					if f.Op == "==" && f.R != nil && f.R.Op == "const" && strings.Trim(f.R.Name, `"`) == strings.ToUpper(name) {
						return k, true
					}
				}
			}
		}
		return 0, false
	}
	for _, el := range cl.Elts {
		kv, ok := el.(*ast.KeyValueExpr)
		if !ok {
			continue
		}
		k, ok1 := constOf(p, DNS, kv.Key)
		v, ok2 := constOf(p, DNS, kv.Value)
		if ok1 && ok2 && k.Kind() == constant.String && constant.StringVal(k) == strings.ToUpper(name) {
			c, _ := constant.Int64Val(constant.ToInt(v))
			return c, true
		}
	}
	return 0, false
}

var _ = token.ADD

// c12GuardedIndex: alternative alt of the index value v enters v's φ-nodes
// along an edge whose source is guarded by <slice>[alt].Type == K, with K a
// type code that carries the asserted Go type.
func c12GuardedIndex(p *core.Prog, v ssa.Value, alt *core.Expr, table map[int64]string, asserted string) bool {
	ok := false
	seen := map[ssa.Value]bool{}
	var visit func(v ssa.Value, depth int)
	visit = func(v ssa.Value, depth int) {
		ph, isPhi := v.(*ssa.Phi)
		if !isPhi || seen[v] || depth > 4 {
			return
		}
		seen[v] = true
		for i, e := range ph.Edges {
			if p.X(e).String() == alt.String() {
				for _, f := range p.Facts(ph.Block().Preds[i]) {
					if f.Op != "==" || f.L.Op != "field" || f.L.Name != "Type" || f.L.Args[0].Op != "index" {
						continue
					}
					if f.L.Args[0].Args[1].String() != alt.String() {
						continue
					}
					if k, isC := f.R.ConstInt(); isC && table[k] == asserted {
						ok = true
					}
				}
			}
			visit(e, depth+1)
		}
	}
	visit(v, 0)
	return ok
}
