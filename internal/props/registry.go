// Package props holds the rule sets, one per property of properties.jsonl.
package props

import (
	"encoding/json"
	"fmt"
	"os"
	"path/filepath"
	"runtime/debug"

	"verif/internal/core"
)

const (
	Ech     = "github.com/c2FmZQ/ech"
	DNS     = "github.com/c2FmZQ/ech/dns"
	HPKE    = "github.com/c2FmZQ/ech/internal/hpke"
	Publish = "github.com/c2FmZQ/ech/publish"
)

// Property is a registered rule set.
type Property struct {
	ID     string
	Module string // "" = root module, "publish" = /repo/publish
	Info   core.Info
	Rules  func(p *core.Prog, r *core.Run)
}

var Registry = map[string]*Property{}

func register(pr *Property) {
	pr.Info.ID = pr.ID
	Registry[pr.ID] = pr
}

var commonTrusted = []string{
	"go/types, go/ssa, go/packages of golang.org/x/tools v0.29.0 (type checking, SSA construction, dominator tree)",
	"the Go toolchain go1.24.0 used by the repository's own suite",
	"the checker's reference tables transcribed from RFC 8446, draft-ietf-tls-esni, RFC 9180, RFC 1035, RFC 6891, RFC 7830, RFC 9460 (DESIGN.md section 4)",
}

// RunOn evaluates one property on the tree at repoDir.
func RunOn(repoDir, tier, id string) (*core.Run, error) {
	pr := Registry[id]
	if pr == nil {
		return nil, fmt.Errorf("unknown property %s", id)
	}
	dir := repoDir
	if pr.Module != "" {
		dir = filepath.Join(repoDir, pr.Module)
	}
	run := core.NewRun(id, tier)
	p, err := core.Load(dir)
	if err != nil {
		run.Undecided(id+".load", "load", "-", "%v", err)
		return run, nil
	}
	curProg = p
	func() {
		defer func() {
			if x := recover(); x != nil {
				run.Undecided(id+".panic", "checker", "-", "analysis panicked: %v\n%s", x, debug.Stack())
			}
		}()
		pr.Rules(p, run)
	}()
	return run, nil
}

// Main runs a property against repoDir and reports; returns the exit status.
func Main(repoDir, verifDir, tier, id, replay string) int {
	pr := Registry[id]
	if pr == nil {
		fmt.Fprintf(os.Stderr, "unknown property %s\n", id)
		return 2
	}
	run, err := RunOn(repoDir, tier, id)
	if err != nil {
		fmt.Fprintln(os.Stderr, err)
		return 2
	}
	if replay != "" {
		var want struct{ Rule, Construct string }
		b, err := os.ReadFile(replay)
		if err != nil || json.Unmarshal(b, &want) != nil {
			fmt.Fprintf(os.Stderr, "cannot read replay file %s\n", replay)
			return 2
		}
		var kept []core.Ob
		for _, o := range run.Obs {
			if o.Rule == want.Rule && o.Construct == want.Construct {
				kept = append(kept, o)
			}
		}
		run.Obs = kept
		run.Floors = map[string]int{}
		if len(kept) == 0 {
			run.Undecided(want.Rule, want.Construct, "-", "the construct named in the replay file no longer exists")
		}
	}
	findings, err := core.LoadFindings(filepath.Join(verifDir, "known_findings.jsonl"))
	if err != nil {
		fmt.Fprintln(os.Stderr, err)
		return 2
	}
	extra := map[string]any{}
	if tier == "thorough" {
		extra["sensitivity"] = Sensitivity(repoDir, verifDir, id)
	}
	info := pr.Info
	info.Trusted = append(append([]string{}, commonTrusted...), info.Trusted...)
	return run.Emit(verifDir, info, findings, extra)
}
