// Package props holds the rule sets, one per property of properties.jsonl.
package props

import (
	"encoding/json"
	"fmt"
	"os"
	"path/filepath"
	"runtime/debug"
	"strings"

	"verif/internal/core"
)

const (
	Ech     = "github.com/c2FmZQ/ech"
	DNS     = "github.com/c2FmZQ/ech/dns"
	HPKE    = "github.com/c2FmZQ/ech/internal/hpke"
	Publish = "github.com/c2FmZQ/ech/publish"
)

// Property is a registered rule set.
type Property struct {
	ID     string
	Module string // "" = root module, "publish" = /repo/publish
	Info   core.Info
	Rules  func(p *core.Prog, r *core.Run)
}

var Registry = map[string]*Property{}

func register(pr *Property) {
	pr.Info.ID = pr.ID
	Registry[pr.ID] = pr
}

var commonTrusted = []string{
	"go/types, go/ssa, go/packages of golang.org/x/tools v0.29.0 (type checking, SSA construction, dominator tree)",
	"the Go toolchain go1.24.0 used by the repository's own suite",
	"the checker's reference tables transcribed from RFC 8446, draft-ietf-tls-esni, RFC 9180, RFC 1035, RFC 6891, RFC 7830, RFC 9460 (DESIGN.md section 4)",
}

// altConfigs are the build configurations the thorough tier decides the rules
// for in addition to the host's: a 32-bit target (int and uintptr are 32 bits
// wide, which the conversions in index arithmetic must survive) and two other
// operating systems (the standard library's build-tagged files differ).
var altConfigs = [][]string{
	{"GOOS=linux", "GOARCH=386"},
	{"GOOS=windows", "GOARCH=amd64"},
	{"GOOS=darwin", "GOARCH=arm64"},
}

// RunOn evaluates one property on the tree at repoDir. The thorough tier
// follows dynamic calls through the VTA call graph when it computes
// reachability scopes, and repeats the rule set under altConfigs.
func RunOn(repoDir, tier, id string) (*core.Run, error) {
	run, err := runOn(repoDir, tier, id, nil)
	if err != nil || tier != "thorough" {
		return run, err
	}
	cfgs := map[string]string{}
	for _, env := range altConfigs {
		name := strings.TrimPrefix(env[0], "GOOS=") + "/" + strings.TrimPrefix(env[1], "GOARCH=")
		alt, err := runOn(repoDir, tier, id, env)
		if err != nil {
			return nil, err
		}
		nOK := 0
		for _, o := range alt.Obs {
			if o.OK {
				nOK++
				continue
			}
			// a failure of the host configuration is reported once
			dup := false
			for _, h := range run.Obs {
				if !h.OK && h.Rule == o.Rule && h.Construct == o.Construct {
					dup = true
				}
			}
			if !dup {
				o.Construct += " @" + name
				run.Obs = append(run.Obs, o)
			}
		}
		cfgs[name] = fmt.Sprintf("%d obligations, %d discharged", len(alt.Obs), nOK)
		for f := range alt.Funcs {
			run.Funcs[f] = true
		}
	}
	run.Tables["build_configurations"] = cfgs
	return run, nil
}

func runOn(repoDir, tier, id string, env []string) (*core.Run, error) {
	pr := Registry[id]
	if pr == nil {
		return nil, fmt.Errorf("unknown property %s", id)
	}
	dir := repoDir
	if pr.Module != "" {
		dir = filepath.Join(repoDir, pr.Module)
	}
	run := core.NewRun(id, tier)
	deepCalls = tier == "thorough"
	p, err := core.LoadEnv(dir, env)
	if err != nil {
		run.Undecided(id+".load", "load", "-", "%v", err)
		return run, nil
	}
	curProg = p
	func() {
		defer func() {
			if x := recover(); x != nil {
				run.Undecided(id+".panic", "checker", "-", "analysis panicked: %v\n%s", x, debug.Stack())
			}
		}()
		pr.Rules(p, run)
		commonRules(p, run, id)
	}()
	return run, nil
}

// Main runs a property against repoDir and reports; returns the exit status.
func Main(repoDir, verifDir, tier, id, replay string) int {
	pr := Registry[id]
	if pr == nil {
		fmt.Fprintf(os.Stderr, "unknown property %s\n", id)
		return 2
	}
	run, err := RunOn(repoDir, tier, id)
	if err != nil {
		fmt.Fprintln(os.Stderr, err)
		return 2
	}
	if replay != "" {
		var want struct{ Rule, Construct string }
		b, err := os.ReadFile(replay)
		if err != nil || json.Unmarshal(b, &want) != nil {
			fmt.Fprintf(os.Stderr, "cannot read replay file %s\n", replay)
			return 2
		}
		var kept []core.Ob
		for _, o := range run.Obs {
			if o.Rule == want.Rule && o.Construct == want.Construct {
				kept = append(kept, o)
			}
		}
		run.Obs = kept
		run.Floors = map[string]int{}
		if len(kept) == 0 {
			run.Undecided(want.Rule, want.Construct, "-", "the construct named in the replay file no longer exists")
		}
	}
	findings, err := core.LoadFindings(filepath.Join(verifDir, "known_findings.jsonl"))
	if err != nil {
		fmt.Fprintln(os.Stderr, err)
		return 2
	}
	extra := map[string]any{}
	if tier == "thorough" {
		extra["sensitivity"] = Sensitivity(repoDir, verifDir, id)
	}
	info := pr.Info
	info.Trusted = append(append([]string{}, commonTrusted...), info.Trusted...)
	return run.Emit(verifDir, info, findings, extra)
}
