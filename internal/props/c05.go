package props

import (
	"fmt"
	"go/types"
	"strings"

	"verif/third_party/xtools/go/ssa"

	"verif/internal/core"
)

func init() {
	register(&Property{
		ID: "C05",
		Info: core.Info{
			Explanation: "Decides the structural reasons why a hello that is not accepted is forwarded unmodified: " +
				"(P1) parseClientHello and marshal(false) agree field by field - same order, widths, nesting and bindings - so what is re-emitted is what was read (wire-grammar comparison, also against the RFC 8446 ClientHello shape); " +
				"(P2) who-may-write census: fields of a clientHello are stored only by the parser (parseClientHello / parseExtensions) and, in the processor, on the reconstructed inner hello; no element store into, or in-place mutator call on, a hello's slices exists anywhere else (expected count 0); " +
				"(P3) every non-acceptance exit of the processor returns (nil, nil) or (nil, errNoMatch) for a first hello, the handler swallows errNoMatch and only errNoMatch, and NewConn stores the handler's results, forwards inner.Marshal() iff inner != nil else outer.Marshal(), Marshal being marshal(false); " +
				"(P4) passthrough is direct: under readPassthrough (with nothing buffered and no deferred error) Read returns the results of c.Conn.Read(b) with the caller's b and does not call the record reader; under writePassthrough with an empty buffer Write returns c.Conn.Write(b); " +
				"(P5) ServerName is exactly string() of the host_name read from a uint16-prefixed entry of the uint16-prefixed server_name_list under name_type 0 in extension 0, ALPNProtos collects string() of each uint8-prefixed name of the uint16-prefixed list in extension 16, with no transformation, so the reported values are those of the forwarded bytes. " +
				"Not decided: agreement with an independent TLS stack on arbitrary foreign encodings (for example a legacy hello without an extensions block is rejected by this parser), hello fragments across records.",
		},
		Rules: c05Rules,
	})
}

func c05Rules(p *core.Prog, r *core.Run) {
	m := newEchModel(p)
	if !m.ok(r, "C05.model") {
		return
	}
	pkg := p.PkgFuncs(Ech)
	r.Analysed(p.FuncName(m.newConn), p.FuncName(m.read), p.FuncName(m.write), p.FuncName(m.handle), p.FuncName(m.process), p.FuncName(m.parseCH), p.FuncName(m.parseExt), p.FuncName(m.marshal))

	// --- P1
	clientHelloGrammar(p, r, "C05.P1")
	// the hello that is passed on is the record as it arrived: whole
	// (its length is the 16 bits of the header; every valid record is accepted)
	recordLimit(p, r, m, "C05.P1.record")

	// --- P2: who may write a clientHello
	chType := m.fCH["Extensions"]
	_ = chType
	isCHField := func(v *types.Var) bool {
		for _, f := range m.fCH {
			if f == v {
				return true
			}
		}
		return false
	}
	isInnerObj := func(e *core.Expr) bool {
		return e.Op == "ext" && e.Name == "#0" && e.Args[0].Op == "call" && e.Args[0].Fn == m.parseCH
	}
	nStores, nOther := 0, 0
	for _, fn := range pkg {
		root := core.Root(fn)
		for _, b := range fn.Blocks {
			for _, in := range b.Instrs {
				switch in := in.(type) {
				case *ssa.Store:
					x := p.X(in.Addr)
					// direct field store
					if fa, ok := in.Addr.(*ssa.FieldAddr); ok && isCHField(fieldVar(fa)) {
						nStores++
						allowed := root == m.parseCH || root == m.parseExt || (root == m.process && isInnerObj(x.Args[0]))
						// the fields that go back on the wire hold what was read: the
						// parser fills them through the cursor, or with a value a read produced
						switch fieldVar(fa) {
						case m.fCH["LegacyVersion"], m.fCH["Random"], m.fCH["LegacySessionID"], m.fCH["CipherSuite"], m.fCH["LegacyCompressionMethods"]:
							v := p.X(in.Val)
							var asReadE func(a *core.Expr, depth int) bool
							asReadE = func(a *core.Expr, depth int) bool {
								if depth > 6 {
									return false
								}
								switch {
								case a.Op == "conv" || a.Op == "slice":
									return asReadE(a.Args[0], depth+1)
								case a.Op == "call" && (a.Name == "slices.Clone" || a.Name == "bytes.Clone") && len(a.Args) == 1:
									return asReadE(a.Args[0], depth+1)
								case a.Op == "out" && strings.Contains(a.Name, "cryptobyte.String).Read"):
									return true
								case a.Op == "phi" || a.Op == "cell":
									n := 0
									for _, x := range a.Args {
										if x.Op == "const" && x.Name == "zero" {
											continue // the variable before the read filled it
										}
										if !asReadE(x, depth+1) {
											return false
										}
										n++
									}
									return n > 0
								}
								return false
							}
							asRead := asReadE(v, 0)
							if (root == m.parseCH || root == m.parseExt) && !asRead {
								nOther++
								r.Check("C05.P2", fmt.Sprintf("wire-field:%s@%s", x.Name, p.FuncName(root)), false, p.InstrPos(in), "%s, which is written back to the wire (and is part of what the ECH payload is bound to), receives %s instead of what was read", x.Name, short(v))
							}
						}
						if !allowed {
							nOther++
							r.Check("C05.P2", fmt.Sprintf("store:%s@%s", x.Name, p.FuncName(root)), false, p.InstrPos(in), "field %s of a clientHello is written outside the parser", x.Name)
						}
						continue
					}
					// the parser does not write into the bytes it parses (the pieces it
					// keeps - extension data, names - alias them, and they go back on the wire)
					if x.Op == "index" && (root == m.parseCH || root == m.parseExt) &&
						x.Args[0].Any(func(e *core.Expr) bool {
							return e.Op == "out" && strings.Contains(e.Name, "cryptobyte.String).Read") || e.Op == "param" && e.Val == ssa.Value(m.parseCH.Params[0])
						}) {
						nOther++
						r.Check("C05.P2", fmt.Sprintf("parsed-bytes-store@%s", p.FuncName(root)), false, p.InstrPos(in), "the parser overwrites bytes of the message it parses: %s", short(x.Args[0]))
					}
					// element store into one of a hello's slices
					if x.Op == "index" && x.Args[0].Any(func(e *core.Expr) bool { return e.Op == "field" && isCHFieldObj(m, e) }) &&
						!x.Args[0].Any(func(e *core.Expr) bool { return e.Op == "new" }) {
						nOther++
						r.Check("C05.P2", fmt.Sprintf("element-store@%s", p.FuncName(root)), false, p.InstrPos(in), "an element of %s is overwritten in place", short(x.Args[0]))
					}
				case *ssa.Call:
					name := p.X(in).Name
					if matches(`sort\.(Slice|SliceStable|Sort|Stable)|slices\.(Sort.*|Reverse|DeleteFunc|Delete|Compact.*|Insert|Replace)|copy|clear`, name) {
						for _, a := range p.X(in).Args[:1] {
							if a.Any(func(e *core.Expr) bool { return e.Op == "field" && isCHFieldObj(m, e) }) {
								nOther++
								r.Check("C05.P2", fmt.Sprintf("mutator:%s@%s", name, p.FuncName(root)), false, p.InstrPos(in), "%s modifies %s in place", name, short(a))
							}
						}
					}
				}
			}
		}
	}
	r.Check("C05.P2", "census", nOther == 0 && nStores >= 15, p.Pos(m.parseCH.Pos()), "%d stores to clientHello fields, all in the parser or on the reconstructed inner hello; %d other writes (expected 0)", nStores, nOther)

	// --- P3
	view := assumeParam(m.process, m.retryP, false)
	nilnil, nomatch := 0, 0
	for _, ret := range core.Returns(m.process) {
		if !view.Live(ret.Block()) || !isNilConst(ret.Results[0]) {
			continue
		}
		fs := factsIn(p, view, ret.Block())
		e := p.X(ret.Results[1])
		switch {
		case e.Op == "const" && e.Name == "nil":
			nilnil++
		case e.Op == "global" && e.Name == "ech.errNoMatch":
			nomatch++
			gated := false
			for _, f := range fs {
				if a, ok := p.IsCellLoad(f.L.Val); ok && a == m.innerCell && f.Op == "==" && f.R.Name == "nil" {
					gated = true
				}
			}
			r.Check("C05.P3", "process:no-match", gated, p.InstrPos(ret), "errNoMatch is returned when nothing was decrypted")
		case func() bool {
			for _, g := range errorSentinels(p, ret.Results[1]) {
				if g == "ech.errNoMatch" {
					return true
				}
			}
			return false
		}():
			// the handler recognises "no match" by identity (err != errNoMatch):
			// a wrapped one is an abort
			r.Check("C05.P3", "process:no-match-bare", false, p.InstrPos(ret), "errNoMatch leaves the processor inside another error (%s); the handler compares by identity, so this hello is aborted instead of passed through", short(e))
		}
	}
	r.Check("C05.P3", "process:not-applicable-exit", nilnil >= 1, p.Pos(m.process.Pos()), "hellos without TLS 1.3 / ECH extension / keys leave the processor with (nil, nil) (%d exits)", nilnil)
	r.Check("C05.P3", "process:no-match-exit", nomatch == 1, p.Pos(m.process.Pos()), "exactly one errNoMatch exit (found %d)", nomatch)
	// (nil,nil) exit is taken under !tls13 || echExt == nil || len(keys) == 0 and precedes the key loop
	abortKeys := []struct {
		name string
		a    assumption
	}{
		{"no TLS 1.3", boolAssume("h.tls13", false, func(e *core.Expr) bool {
			return e.Op == "field" && e.Obj == m.fCH["tls13"] && e.Args[0].Val == ssa.Value(m.helloP)
		})},
		{"no ECH extension", cmpAssume("h.echExt == nil", "==", func(e *core.Expr) bool {
			return e.Op == "field" && e.Obj == m.fCH["echExt"] && e.Args[0].Val == ssa.Value(m.helloP)
		}, isConstName("nil"))},
		{"no keys", cmpAssume("len(c.keys) == 0", "==", func(e *core.Expr) bool {
			return e.Op == "call" && e.Name == "len" && e.Args[0].Op == "field" && e.Args[0].Obj == m.fConn["keys"]
		}, isConstName("0"))},
	}
	notRetry := boolAssume("isRetry", false, func(e *core.Expr) bool { return e.Val == ssa.Value(m.retryP) }).asContext()
	for _, k := range abortKeys {
		cfg, hits := pruneBy(p, m.process, []assumption{notRetry, k.a})
		ok := len(hits[k.a.name]) > 0
		for _, ret := range core.Returns(m.process) {
			if cfg.Live(ret.Block()) && !(isNilConst(ret.Results[0]) && isNilConst(ret.Results[1])) {
				ok = false
			}
		}
		ok = ok && !cfg.Live(m.open.Block())
		r.Check("C05.P3", "process:"+k.name, ok, p.Pos(m.process.Pos()), "a first hello with %s leaves the processor with (nil, nil) and never reaches the decryption", k.name)
	}
	// inside the key loop nothing but a successful decryption may turn a
	// hello that would be passed through into an abort
	keyLoopExits(p, r, m, "C05.P3")
	// handler: swallows errNoMatch only
	var procCall ssa.Value
	for _, s := range allCalls(p, []*ssa.Function{m.handle}) {
		if s.X.Fn == m.process {
			procCall, _ = s.Instr.(ssa.Value)
		}
	}
	nProp := 0
	for _, ret := range core.Returns(m.handle) {
		ex, ok := retErr(ret).(*ssa.Extract)
		if !ok || ex.Tuple != procCall {
			continue
		}
		nProp++
		fs := p.Facts(ret.Block())
		nn, nm := false, false
		for _, f := range fs {
			if f.L.Val == ssa.Value(ex) && f.Op == "!=" && f.R.Name == "nil" {
				nn = true
			}
			if f.L.Val == ssa.Value(ex) && f.Op == "!=" && f.R.Op == "global" && f.R.Name == "ech.errNoMatch" {
				nm = true
			}
		}
		r.Check("C05.P3", "handle:propagates-errors", nn && nm, p.InstrPos(ret), "the handler returns the processor's error when it is non-nil (%v) and not errNoMatch (%v)", nn, nm)
	}
	r.Check("C05.P3", "handle:error-exit", nProp == 1, p.Pos(m.handle.Pos()), "one exit propagates processor errors (found %d)", nProp)
	for _, ret := range core.Returns(m.handle) {
		if !lastResultNil(ret) || len(ret.Results) != 3 {
			continue
		}
		o, i := p.X(ret.Results[0]), p.X(ret.Results[1])
		okO := o.Op == "ext" && o.Name == "#0" && o.Args[0].Fn == m.parseCH
		okI := i.Op == "ext" && i.Name == "#0" && i.Args[0].Fn == m.process
		// errNoMatch must not block this return
		blocked := false
		for _, f := range p.Facts(ret.Block()) {
			if ex, ok := f.L.Val.(*ssa.Extract); ok && ex.Tuple == procCall && ex.Index == 1 && f.Op == "==" && f.R.Name == "nil" {
				blocked = true
			}
		}
		r.Check("C05.P3", "handle:success", okO && okI && !blocked, p.InstrPos(ret), "success returns (parsed outer hello, processor's inner result) and is reachable when the processor reported errNoMatch (%v)", !blocked)
	}
	// NewConn: stores and first flight
	c01Route(p, r, m, "C05.P3")

	// --- P4
	c05Direct(p, r, m, "C05.P4")

	// --- P5
	c05SniAlpn(p, r, m, "C05.P5")

	// --- P6
	c05Rejections(p, r, m, "C05.P6")

	// --- P7: NewConn leaves no deadline behind on the connection it hands on
	watcherRules(p, r, "C05.P7")
}

func isCHFieldObj(m *echModel, e *core.Expr) bool {
	for _, f := range m.fCH {
		if e.Obj == f {
			return true
		}
	}
	return false
}

// connAccessorsCopy: exported methods of Conn never hand out a slice that is
// part of the stored hellos: the retry rule (C06) compares the second inner
// hello with c.inner's ALPN list, and the caller may sort or edit what it got.
func connAccessorsCopy(p *core.Prog, r *core.Run, m *echModel, rule string) {
	n := 0
	for _, fn := range p.PkgFuncs(Ech) {
		if fn.Parent() != nil || fn.Signature.Recv() == nil || fn.Object() == nil || !fn.Object().Exported() {
			continue
		}
		if !strings.HasSuffix(fn.Signature.Recv().Type().String(), "ech.Conn") || fn.Signature.Results().Len() == 0 {
			continue
		}
		for i := 0; i < fn.Signature.Results().Len(); i++ {
			if _, isSlice := fn.Signature.Results().At(i).Type().Underlying().(*types.Slice); !isSlice {
				continue
			}
			for k, ret := range core.Returns(fn) {
				n++
				shared := ""
				for _, a := range p.X(ret.Results[i]).Alts() {
					// a copy: slices.Clone, bytes.Clone, append onto nothing (Clip,
					// re-slicing and the like hand out the same array)
					copied := a.Op == "call" && (a.Name == "slices.Clone" || a.Name == "bytes.Clone" || a.Name == "append" && len(a.Args) > 0 && a.Args[0].Op == "const")
					if !copied && a.Any(func(x *core.Expr) bool {
						return x.Op == "field" && (x.Obj == m.fConn["inner"] || x.Obj == m.fConn["outer"])
					}) {
						shared = short(a)
					}
				}
				r.Check(rule, fmt.Sprintf("%s:return#%d", p.FuncName(fn), k), shared == "", p.InstrPos(ret), "the slice returned to the caller is not part of the stored hellos %s", shared)
			}
		}
	}
	r.Check(rule, "accessors", n >= 2, p.Pos(m.newConn.Pos()), "slice-valued accessors of Conn examined (%d returns)", n)
}

// c01Route: NewConn stores the handler's results and forwards the right hello.
func c01Route(p *core.Prog, r *core.Run, m *echModel, rule string) {
	connAccessorsCopy(p, r, m, rule)
	nc := m.newConn
	isHandle := func(e *core.Expr, idx string) bool {
		return e.Op == "ext" && e.Name == idx && e.Args[0].Op == "call" && e.Args[0].Fn == m.handle
	}
	pkg := p.PkgFuncs(Ech)
	for _, spec := range []struct{ f, idx string }{{"outer", "#0"}, {"inner", "#1"}} {
		sts := fieldStores(p, pkg, m.fConn[spec.f])
		ok := len(sts) == 1
		for _, st := range sts {
			if core.Root(st.Parent()) != nc || !isHandle(p.X(st.Val), spec.idx) {
				ok = false
			}
		}
		r.Check(rule, "NewConn:store-"+spec.f, ok, p.Pos(nc.Pos()), "Conn.%s is stored once, by NewConn, from result %s of the hello handler", spec.f, spec.idx)
	}
	// first flight
	var gotInner, gotOuter bool
	// (the record stored may be selected beforehand - `buf, err = c.marshalHello()`
	// with one Marshal call per branch: every way the value gets there is judged
	// with what is known on that way)
	type flight struct {
		st *ssa.Store
		v  *core.Expr
		fs []core.Fact
	}
	var flights []flight
	for _, st := range fieldStores(p, []*ssa.Function{nc}, m.fConn["readBuf"]) {
		var expand func(val ssa.Value, fs []core.Fact, depth int)
		expand = func(val ssa.Value, fs []core.Fact, depth int) {
			if ph, ok := val.(*ssa.Phi); ok && depth < 3 {
				for i, e := range ph.Edges {
					expand(e, append(p.EdgeFacts(ph.Block().Preds[i], ph.Block()), fs...), depth+1)
				}
				return
			}
			flights = append(flights, flight{st, p.X(val), fs})
		}
		expand(st.Val, p.Facts(st.Block()), 0)
	}
	for _, fl := range flights {
		st, v, fs := fl.st, fl.v, fl.fs
		if !(v.Op == "ext" && v.Name == "#0" && v.Args[0].Op == "call" && v.Args[0].Name == "(*ech.clientHello).Marshal") {
			r.Check(rule, "NewConn:first-flight", false, p.InstrPos(st), "the first flight is not the output of Marshal(): %s", short(v))
			continue
		}
		h := v.Args[0].Args[0]
		innerNN := m.innerFact(fs, "!=")
		innerNil := m.innerFact(fs, "==")
		if ph, isPhi := h.Val.(*ssa.Phi); isPhi {
			// one Marshal call on a hello selected beforehand: judge every way
			// the selection is made
			for i, e := range ph.Edges {
				he := p.X(e)
				efs := append(p.EdgeFacts(ph.Block().Preds[i], ph.Block()), fs...)
				nn := m.innerFact(efs, "!=")
				isNil := m.innerFact(efs, "==")
				switch {
				case m.innerRef(he):
					gotInner = nn
					r.Check(rule, "NewConn:first-flight-inner", nn, p.InstrPos(st), "inner.Marshal() is forwarded only when inner != nil")
				case m.outerRef(he):
					gotOuter = isNil
					r.Check(rule, "NewConn:first-flight-outer", isNil, p.InstrPos(st), "outer.Marshal() is forwarded exactly when inner == nil")
				default:
					r.Check(rule, "NewConn:first-flight", false, p.InstrPos(st), "unexpected hello marshalled: %s", short(he))
				}
			}
			continue
		}
		switch {
		case m.innerRef(h):
			gotInner = innerNN
			r.Check(rule, "NewConn:first-flight-inner", innerNN, p.InstrPos(st), "inner.Marshal() is forwarded only when inner != nil")
		case m.outerRef(h):
			gotOuter = innerNil
			r.Check(rule, "NewConn:first-flight-outer", innerNil, p.InstrPos(st), "outer.Marshal() is forwarded exactly when inner == nil")
		default:
			r.Check(rule, "NewConn:first-flight", false, p.InstrPos(st), "unexpected hello marshalled: %s", short(h))
		}
	}
	r.Check(rule, "NewConn:first-flight-both", gotInner && gotOuter, p.Pos(nc.Pos()), "both forwarding branches exist")
	// Marshal == marshal(false)
	mf := p.Func(Ech, "(*clientHello).Marshal")
	okM := false
	if mf != nil {
		for _, ret := range core.Returns(mf) {
			x := p.X(ret.Results[0])
			if x.Op == "ext" && x.Args[0].Op == "call" && x.Args[0].Fn == m.marshal && x.Args[0].Args[1].Name == "false" && x.Args[0].Args[0].Op == "param" {
				okM = true
			}
		}
	}
	r.Check(rule, "Marshal:is-marshal-false", okM, p.Pos(m.marshal.Pos()), "Marshal() is marshal(false) of its receiver")
	// flags
	for _, flag := range []string{"readPassthrough", "writePassthrough"} {
		for _, st := range fieldStores(p, []*ssa.Function{nc}, m.fConn[flag]) {
			v := p.X(st.Val)
			ok := v.Op == "bin" && v.Name == "==" && v.Args[1].Name == "nil" && m.innerRef(v.Args[0])
			r.Check(rule, "NewConn:"+flag, ok, p.InstrPos(st), "%s = (inner == nil)", flag)
		}
	}
}

func c05Direct(p *core.Prog, r *core.Run, m *echModel, rule string) {
	// Read
	reads := callSites(p, []*ssa.Function{m.read}, `\(net\.Conn\)\.Read`)
	okR := false
	for _, s := range reads {
		c, _ := s.Instr.(*ssa.Call)
		direct := s.X.Args[0].Op == "field" && s.X.Args[0].Obj == m.fConn["Conn"] && s.X.Args[1].Op == "param" && s.X.Args[1].Name == "p1"
		returned := false
		if ret, ok := s.Block().Instrs[len(s.Block().Instrs)-1].(*ssa.Return); ok && len(ret.Results) == 2 {
			e0, ok0 := ret.Results[0].(*ssa.Extract)
			e1, ok1 := ret.Results[1].(*ssa.Extract)
			returned = ok0 && ok1 && e0.Tuple == ssa.Value(c) && e1.Tuple == ssa.Value(c) && e0.Index == 0 && e1.Index == 1
		}
		okR = direct && returned
		r.Check(rule, "Read:direct", okR, p.InstrPos(s.Instr), "Read returns c.Conn.Read(b) with the caller's buffer unchanged (%v) and its results as they are (%v)", direct, returned)
	}
	r.Check(rule, "Read:direct-site", len(reads) == 1, p.Pos(m.read.Pos()), "one direct read site (found %d)", len(reads))
	for _, s := range callSites(p, []*ssa.Function{m.read}, `ech\.readRecord`) {
		fs := p.Facts(s.Block())
		off := false
		for _, f := range fs {
			if f.Op == "false" && f.L.Op == "field" && f.L.Obj == m.fConn["readPassthrough"] {
				off = true
			}
		}
		r.Check(rule, "Read:no-inspection-in-passthrough", off, p.InstrPos(s.Instr), "the record reader runs only while readPassthrough is false")
	}
	// uses of b in Read: the copy into it and the direct read
	for _, s := range allCalls(p, []*ssa.Function{m.read}) {
		uses := false
		for _, a := range s.X.Args {
			if a.Op == "param" && a.Name == "p1" {
				uses = true
			}
		}
		if !uses {
			continue
		}
		ok := s.X.Name == "copy" || s.X.Name == "(net.Conn).Read"
		r.Check(rule, "Read:buffer-use:"+s.X.Name, ok, p.InstrPos(s.Instr), "the caller's buffer is only the destination of copy() or of the direct read")
	}
	// Write
	writes := callSites(p, []*ssa.Function{m.write}, `\(net\.Conn\)\.Write`)
	okW := false
	for _, s := range writes {
		if !(len(s.X.Args) == 2 && s.X.Args[1].Op == "param" && s.X.Args[1].Name == "p1") {
			continue
		}
		c, _ := s.Instr.(*ssa.Call)
		fs := p.Facts(s.Block())
		pt := false
		empty := false
		for _, f := range fs {
			if f.Op == "true" && f.L.Op == "field" && f.L.Obj == m.fConn["writePassthrough"] {
				pt = true
			}
			if f.Op == "==" && f.R.Name == "0" && f.L.Op == "call" && f.L.Name == "len" && f.L.Args[0].Op == "field" && f.L.Args[0].Obj == m.fConn["writeBuf"] {
				empty = true
			}
		}
		returned := false
		if ret, ok := s.Block().Instrs[len(s.Block().Instrs)-1].(*ssa.Return); ok && len(ret.Results) == 2 {
			e0, ok0 := ret.Results[0].(*ssa.Extract)
			e1, ok1 := ret.Results[1].(*ssa.Extract)
			returned = ok0 && ok1 && e0.Tuple == ssa.Value(c) && e1.Tuple == ssa.Value(c)
		}
		okW = pt && empty && returned
		r.Check(rule, "Write:direct", okW, p.InstrPos(s.Instr), "Write returns c.Conn.Write(b) directly under writePassthrough (%v) with nothing buffered (%v), results unchanged (%v)", pt, empty, returned)
	}
	r.Check(rule, "Write:direct-site", okW, p.Pos(m.write.Pos()), "a direct write path exists")
	r.Floor(rule, 6)
}

func c05SniAlpn(p *core.Prog, r *core.Run, m *echModel, rule string) {
	fn := m.parseExt
	typeFact := func(fs []core.Fact, k string) bool {
		for _, f := range fs {
			if f.Op == "==" && f.R.Name == k && f.L.Op == "field" && f.L.Name == "Type" && f.L.Args[0].Op == "index" {
				return true
			}
		}
		return false
	}
	outOf := func(e *core.Expr, callee string) *core.Expr {
		for _, a := range e.Alts() {
			if a.Op == "out" && a.Name == callee && a.Idx == 1 {
				return a
			}
		}
		return nil
	}
	// ServerName
	n := 0
	for _, st := range fieldStores(p, []*ssa.Function{fn}, m.fCH["ServerName"]) {
		v := p.X(st.Val)
		if v.Op == "const" {
			continue // reset at the start of a parse
		}
		n++
		ok := false
		if v.Op == "conv" && v.Name == "string" {
			if o := outOf(v.Args[0], "(*cryptobyte.String).ReadUint16LengthPrefixed"); o != nil {
				// the cursor it was read from is itself the uint16-prefixed list read from the extension data
				ok = true
			}
		}
		fs := p.Facts(st.Block())
		ext0 := typeFact(fs, "0")
		nameType := false
		for _, f := range fs {
			if f.Op == "==" && f.R.Name == "0" && outOf(f.L, "(*cryptobyte.String).ReadUint8") != nil {
				nameType = true
			}
		}
		r.Check(rule, "parseExtensions:ServerName", ok && ext0 && nameType, p.InstrPos(st), "ServerName = string(host_name) exactly as read (%v; value %s), in extension 0 (%v), under name_type == 0 (%v)", ok, short(v), ext0, nameType)
	}
	r.Check(rule, "parseExtensions:ServerName-site", n == 1, p.Pos(fn.Pos()), "one place sets ServerName from the wire (found %d)", n)
	// ALPN
	n = 0
	for _, st := range fieldStores(p, []*ssa.Function{fn}, m.fCH["ALPNProtos"]) {
		c, ok := st.Val.(*ssa.Call)
		if !ok {
			continue
		}
		bi, ok := c.Call.Value.(*ssa.Builtin)
		if !ok || bi.Name() != "append" {
			r.Check(rule, "parseExtensions:ALPN", false, p.InstrPos(st), "ALPNProtos is not built by append: %s", short(p.X(st.Val)))
			continue
		}
		n++
		base := p.X(c.Call.Args[0])
		okBase := base.Op == "field" && base.Obj == m.fCH["ALPNProtos"]
		okElem := false
		var rdCall *ssa.Call
		if sl, ok := c.Call.Args[1].(*ssa.Slice); ok {
			if al, ok := sl.X.(*ssa.Alloc); ok {
				for _, ref := range *al.Referrers() {
					if ia, ok := ref.(*ssa.IndexAddr); ok {
						for _, r2 := range *ia.Referrers() {
							if s2, ok := r2.(*ssa.Store); ok {
								v := p.X(s2.Val)
								okElem = v.Op == "conv" && v.Name == "string" && outOf(v.Args[0], "(*cryptobyte.String).ReadUint8LengthPrefixed") != nil
								if okElem {
									rdCall, _ = outOf(v.Args[0], "(*cryptobyte.String).ReadUint8LengthPrefixed").Val.(*ssa.Call)
								}
							}
						}
					}
				}
			}
		}
		r.Check(rule, "parseExtensions:ALPN", okBase && okElem && typeFact(p.Facts(st.Block()), "16"), p.InstrPos(st), "ALPNProtos = append(ALPNProtos, string(protocol_name)) exactly as read, in extension 16")
		// every name read is listed: nothing but the success of the read stands
		// between the read and the append
		if rdCall != nil {
			base := map[string]bool{}
			for _, f := range p.Facts(rdCall.Block()) {
				base[f.String()] = true
			}
			extra := ""
			for _, f := range p.Facts(st.Block()) {
				if base[f.String()] || (f.Op == "true" && f.L != nil && f.L.Val == ssa.Value(rdCall)) {
					continue
				}
				extra = f.String()
			}
			r.Check(rule, "parseExtensions:ALPN-every-name", extra == "", p.InstrPos(st), "every protocol name read is appended (a condition that stands between: %s)", extra)
		}
	}
	r.Check(rule, "parseExtensions:ALPN-site", n == 1, p.Pos(fn.Pos()), "one place appends to ALPNProtos (found %d)", n)
	// ... and stays as read: nothing in the package reorders, dedups or edits
	// the list in place (the order is the client's preference, what the
	// accessor reports and what a retried hello is compared with)
	nMut := 0
	for _, s := range allCalls(p, p.PkgFuncs(Ech)) {
		if !matches(`sort\.(Strings|Slice|SliceStable|Sort|Stable)|slices\.(Sort.*|Reverse|Compact.*|DeleteFunc|Delete|Insert|Replace)|copy|clear`, s.X.Name) || len(s.X.Args) == 0 {
			continue
		}
		a := s.X.Args[0]
		if a.Any(func(e *core.Expr) bool { return e.Op == "field" && e.Obj == m.fCH["ALPNProtos"] }) {
			nMut++
			r.Check(rule, fmt.Sprintf("ALPNProtos:in-place#%d", nMut), false, p.InstrPos(s.Instr), "%s works in place on the parsed ALPN list", s.X.Name)
		}
	}
	r.Check(rule, "ALPNProtos:as-read", nMut == 0, p.Pos(fn.Pos()), "the parsed ALPN list is never reordered or edited in place (%d such calls)", nMut)
	// nesting of the cursors: list cursors are uint16-prefixed reads of the extension data
	lists := 0
	for _, s := range callSites(p, []*ssa.Function{fn}, `\(\*cryptobyte\.String\)\.ReadUint16LengthPrefixed`) {
		fs := p.Facts(s.Block())
		if (typeFact(fs, "0") || typeFact(fs, "16")) && len(fs) <= 3 {
			lists++
		}
	}
	r.Check(rule, "parseExtensions:list-prefix", lists >= 2, p.Pos(fn.Pos()), "server_name_list and protocol_name_list are read as uint16 length-prefixed vectors (%d)", lists)
	// tls13 flag
	for _, st := range fieldStores(p, []*ssa.Function{fn}, m.fCH["tls13"]) {
		if c, ok := st.Val.(*ssa.Const); ok && c.Value != nil && c.Value.ExactString() == "true" {
			fs := p.Facts(st.Block())
			ver := false
			for _, f := range fs {
				if f.Op == ">=" && f.R.Name == "772" && outOf(f.L, "(*cryptobyte.String).ReadUint16") != nil {
					ver = true
				}
			}
			r.Check(rule, "parseExtensions:tls13", ver && typeFact(fs, "43"), p.InstrPos(st), "tls13 is set for a supported_versions (43) entry >= 0x0304")
		}
	}
	r.Floor(rule, 6)
}

// c05Rejections: the hello parser turns a hello down only for being malformed
// (a read failed) or for one of the reasons the ECH draft and RFC 8446 name; a
// new semantic rejection would abort handshakes of clients that do not use ECH
// at all, which the proxy must pass through untouched.
func c05Rejections(p *core.Prog, r *core.Run, m *echModel, rule string) {
	isRead := func(e *core.Expr) bool {
		return e.Op == "call" && matches(`\(\*cryptobyte\.String\)\.(Read|Skip|Copy).*`, e.Name)
	}
	reason := func(fs []core.Fact) string {
		for _, f := range fs {
			switch {
			case f.Op == "false" && isRead(f.L):
				return "a read failed"
			case f.Op == "!=" && f.R != nil && f.R.Name == "1" && f.L.Any(func(x *core.Expr) bool { return x.Op == "out" && strings.HasSuffix(x.Name, "ReadUint8") }):
				return "handshake message type is not client_hello"
			case f.Op == "!=" && f.R != nil && f.R.Name == "0" && f.L.Any(func(x *core.Expr) bool { return x.Op == "out" && strings.HasSuffix(x.Name, "ReadUint8") }):
				return "server_name entry of a type other than host_name"
			case f.Op == ">" && f.R != nil && f.R.Name == "0" && f.L.Op == "call" && f.L.Name == "len" && f.L.Args[0].Op == "field" && f.L.Args[0].Name == "ServerName":
				return "more than one host_name in the server_name list"
			case f.Op == ">" && f.R != nil && f.R.Name == "1" && f.L.Op == "field" && f.L.Name == "Type":
				return "ECHClientHello.type is not outer or inner"
			case f.Op == "!=" && f.R != nil && f.R.Name == "0" && (f.L.Op == "index" || f.L.Op == "phi"):
				return "non-zero padding of an EncodedClientHelloInner"
			case f.Op == "true" && f.L.Op == "call" && strings.HasSuffix(f.L.Name, "ContainsFunc"):
				return "non-zero padding of an EncodedClientHelloInner"
			}
		}
		return ""
	}
	n := 0
	for _, fn := range []*ssa.Function{m.parseCH, m.parseExt} {
		for i, ret := range core.Returns(fn) {
			if lastResultNil(ret) {
				continue
			}
			n++
			key := fmt.Sprintf("%s:reject#%d", p.FuncName(fn), i)
			e := p.X(retErr(ret))
			// an error handed up from a module function it called (judged there)
			propagated := false
			for _, a := range e.Alts() {
				if a.Op == "ext" && a.Args[0].Op == "call" && a.Args[0].Fn != nil && inModule(p, a.Args[0].Fn) {
					propagated = true
				}
				if a.Op == "call" && a.Fn != nil && inModule(p, a.Fn) {
					propagated = true
				}
			}
			if propagated {
				r.Check(rule, key, true, p.InstrPos(ret), "error handed up from a callee")
				continue
			}
			why := reason(p.Facts(ret.Block()))
			if why == "" && len(ret.Block().Preds) > 1 {
				// several failures share the return: each way in needs a reason
				why = "-"
				for _, pr := range ret.Block().Preds {
					if w := reason(p.EdgeFacts(pr, ret.Block())); w == "" {
						why = ""
					} else if why == "-" {
						why = w
					}
				}
			}
			r.Check(rule, key, why != "", p.InstrPos(ret), "the parser rejects a hello here because: %s (only malformed input and the rejections the specifications name are allowed; guards: %s)", map[bool]string{true: why, false: "NO RECOGNISED REASON"}[why != ""], shortStr(core.FactStrings(p.Facts(ret.Block()))))
		}
	}
	r.Check(rule, "rejections", n >= 15, p.Pos(m.parseCH.Pos()), "error returns of the hello parser examined (%d)", n)
}
