package props

import (
	"fmt"
	"go/token"
	"go/types"
	"strings"

	"verif/third_party/xtools/go/ssa"

	"verif/internal/core"
)

func init() {
	register(&Property{
		ID: "C15",
		Info: core.Info{
			Explanation: "Decides on the SSA of ResolveResult.Targets and its function literals: " +
				"(PURE) effect analysis: nothing reachable from the receiver is written - no store through receiver-derived memory, no map update on Additional, no append whose base is a receiver-derived slice that is not a fresh copy, no in-place mutator call; and the returned iterator keeps no state outside itself (everything it captures is a parameter or a literal that captures only parameters), so enumerating twice or stopping early does not change a later enumeration; " +
				"(PAIR) every target emitted inside the loop over HTTPS records carries the ECH list, the ALPN set and the port derived from the same record as the addresses (same loop variable), addresses being Additional[h.Target], else the origin's Address, else - only under len(r.Address) == 0 - the record's own hints; " +
				"(GUARDS) alias-mode records are skipped before anything is emitted; the address-family filter (tcp4/udp4 need 4-byte, tcp6/udp6 16-byte addresses) and the seen test-and-set dominate the yield; plain addresses without ECH are emitted only when no target was emitted before (len(seen) == 0); port 80 becomes 443 only inside the HTTPS loop. " +
				"Not decided: that the emitted sequence equals a reference function on all inputs.",
		},
		Rules: c15Rules,
	})
}

// derivesFromRecv: the value may point into memory reachable from the
// receiver (a struct passed by value whose slices and maps are shared).
func derivesFromRecv(p *core.Prog, e *core.Expr, recv *ssa.Parameter) bool {
	if e == nil {
		return false
	}
	switch e.Op {
	case "param":
		return e.Val == ssa.Value(recv)
	case "field", "index", "lookup", "slice", "deref", "conv", "assert":
		return derivesFromRecv(p, e.Args[0], recv)
	case "phi", "cell":
		for _, a := range e.Args {
			if derivesFromRecv(p, a, recv) {
				return true
			}
		}
	case "call":
		switch e.Name {
		case "slices.Clone", "bytes.Clone", "maps.Clone", "slices.Concat":
			return false // fresh copy
		case "append":
			return derivesFromRecv(p, e.Args[0], recv) // result aliases its first argument only
		case "len", "cap", "copy", "min", "max":
			return false // numbers
		}
		// any other function handed such memory may hand it back (slices.Grow
		// returns its argument when the capacity suffices, so does slices.Clip, ...)
		if v, ok := e.Val.(ssa.Value); ok && v != nil && pointerLike(v.Type()) {
			for _, a := range e.Args {
				if derivesFromRecv(p, a, recv) {
					return true
				}
			}
		}
	}
	return false
}

// pointerLike: values of the type can share memory with something else.
func pointerLike(t types.Type) bool {
	switch u := t.Underlying().(type) {
	case *types.Slice, *types.Map, *types.Pointer, *types.Interface, *types.Chan, *types.Signature:
		return true
	case *types.Tuple:
		for i := 0; i < u.Len(); i++ {
			if pointerLike(u.At(i).Type()) {
				return true
			}
		}
	}
	return false
}

func c15Rules(p *core.Prog, r *core.Run) {
	c15Pure(p, r, "C15.PURE")
	c15Targets(p, r, "C15")
}

// c15Targets: pairing and guard rules of the Targets enumeration, reported
// under pre (C15, and C17.TARGETS: the ECH list dialed with an address is the
// one of the record that produced the address).
func c15Targets(p *core.Prog, r *core.Run, pre string) {
	fn := p.Func(Ech, "(ResolveResult).Targets")
	if fn == nil {
		return
	}
	recv := fn.Params[0]
	lits := core.Closures(fn)
	// the iterator: the literal returned by Targets
	var iter *ssa.Function
	for _, ret := range core.Returns(fn) {
		if x := p.X(ret.Results[0]); x.Op == "closure" {
			iter = x.Fn
		}
	}
	if iter == nil {
		r.Undecided(pre+".PAIR", "Targets:iterator", p.Pos(fn.Pos()), "Targets does not return a function literal")
		return
	}
	// the emit helper: the literal (inside the iterator) that calls yield
	var add *ssa.Function
	for _, l := range core.Closures(iter) {
		for _, s := range allCalls(p, []*ssa.Function{l}) {
			if s.X.Name == "dyn" && l != iter {
				add = l
			}
		}
	}
	if add == nil {
		r.Undecided(pre+".PAIR", "Targets:emit", p.Pos(iter.Pos()), "no emit helper that calls yield found")
		return
	}
	// --- PAIR / GUARDS on the call sites of add
	var httpsLoop *ssa.BasicBlock
	for h := range core.Loops(iter) {
		if iff, ok := h.Instrs[len(h.Instrs)-1].(*ssa.If); ok {
			f := p.FactOf(core.Guard{Cond: iff.Cond, Pol: true, If: iff})
			if f.R != nil && f.R.Op == "call" && f.R.Name == "len" && f.R.Args[0].Op == "field" && f.R.Args[0].Name == "HTTPS" {
				httpsLoop = h
			}
		}
	}
	if httpsLoop == nil {
		r.Undecided(pre+".PAIR", "Targets:https-loop", p.Pos(iter.Pos()), "no loop over r.HTTPS")
		return
	}
	body := core.Loops(iter)[httpsLoop]
	isRec := func(e *core.Expr) (idx ssa.Value, ok bool) {
		// r.HTTPS[i]
		if e.Op == "index" && e.Args[0].Op == "field" && e.Args[0].Name == "HTTPS" && e.Args[0].Args[0].Val == ssa.Value(recv) {
			return e.Args[1].Val, true
		}
		return nil, false
	}
	recField := func(e *core.Expr, name string) (ssa.Value, bool) {
		if e.Op == "field" && e.Name == name {
			return isRec(e.Args[0])
		}
		return nil, false
	}
	nIn, nOut := 0, 0
	hintFields := map[string]int{}
	for i, s := range allCalls(p, []*ssa.Function{iter}) {
		if s.X.Fn != add || len(s.X.Args) != 4 {
			continue
		}
		key := fmt.Sprintf("Targets:emit#%d", i)
		pos := p.InstrPos(s.Instr)
		ip, port, ech, alpn := s.X.Args[0], s.X.Args[1], s.X.Args[2], s.X.Args[3]
		fs := p.Facts(s.Block())
		// STOP: once the consumer has said stop (the helper returned false) no
		// further target is offered: that way out reaches no other emit call
		if cv, ok := s.Instr.(ssa.Value); ok {
			stops := false
			for _, ref := range *cv.Referrers() {
				iff, isIf := ref.(*ssa.If)
				if !isIf {
					if u, isNot := ref.(*ssa.UnOp); isNot && u.Op == token.NOT {
						for _, r2 := range *u.Referrers() {
							if i2, ok := r2.(*ssa.If); ok {
								// !add(...): the true edge is "stop"
								stops = true
								for b := range core.Reachable(i2.Block().Succs[0], nil) {
									for _, in := range b.Instrs {
										if c, ok := in.(*ssa.Call); ok && p.X(c).Fn == add {
											stops = false
										}
									}
								}
							}
						}
					}
					continue
				}
				stops = true
				for b := range core.Reachable(iff.Block().Succs[1], nil) {
					for _, in := range b.Instrs {
						if c, ok := in.(*ssa.Call); ok && p.X(c).Fn == add {
							stops = false
						}
					}
				}
			}
			r.Check(pre+".GUARDS", key+":stop", stops, pos, "when the consumer stops the enumeration (the emit helper returns false) no further target is offered")
		}
		if !body[s.Block()] {
			nOut++
			// plain addresses
			plain := ip.Op == "index" && ip.Args[0].Op == "field" && ip.Args[0].Name == "Address" && ech.Name == "nil" && alpn.Name == "nil" && port.Op == "field" && port.Name == "Port"
			none := false
			for _, f := range fs {
				if f.Op == "==" && f.R.Name == "0" && f.L.Op == "call" && f.L.Name == "len" && f.L.Args[0].Op == "new" && strings.HasPrefix(f.L.Args[0].Name, "map[") {
					none = true
				}
			}
			r.Check(pre+".GUARDS", key+":plain", plain && none, pos, "plain addresses (origin Address, origin port, no ECH, no ALPN: %v) are emitted only when no target was emitted from an HTTPS record (len(seen) == 0: %v)", plain, none)
			continue
		}
		nIn++
		// the record
		rv, okE := recField(ech, "ECH")
		pair := okE
		// alpn: φ{append(Clone(h.ALPN), "http/1.1") | h.ALPN}
		for _, a := range alpn.Alts() {
			b := a
			if b.Op == "call" && b.Name == "append" {
				b = b.Args[0]
			}
			if b.Op == "call" && (b.Name == "slices.Clone") {
				b = b.Args[0]
			}
			// slices.Concat(h.ALPN, []string{"http/1.1"}): a fresh list that starts with the record's
			if c, isCall := b.Val.(*ssa.Call); isCall && b.Op == "call" && b.Name == "slices.Concat" && len(c.Call.Args) == 1 {
				if parts := variadicArgs(p, c.Call.Args[0]); len(parts) >= 1 {
					b = parts[0]
				}
			}
			v, ok := recField(b, "ALPN")
			if !ok || v != rv {
				pair = false
			}
		}
		// port: φ{443 | h.Port | r.Port}
		for _, a := range port.Alts() {
			switch {
			case a.Op == "const" && a.Name == "443":
			case a.Op == "field" && a.Name == "Port" && a.Args[0].Val == ssa.Value(recv):
			default:
				v, ok := recField(a, "Port")
				if !ok || v != rv {
					pair = false
				}
			}
		}
		// addresses
		src := ""
		switch {
		case ip.Op == "index" && ip.Args[0].Op == "lookup" && ip.Args[0].Args[0].Op == "field" && ip.Args[0].Args[0].Name == "Additional":
			v, ok := recField(ip.Args[0].Args[1], "Target")
			if ok && v == rv {
				src = "target"
			}
		case ip.Op == "index" && ip.Args[0].Op == "field" && ip.Args[0].Name == "Address" && ip.Args[0].Args[0].Val == ssa.Value(recv):
			src = "origin"
		case ip.Op == "index" && ip.Args[0].Op == "field" && (ip.Args[0].Name == "IPv4Hint" || ip.Args[0].Name == "IPv6Hint"):
			v, ok := isRec(ip.Args[0].Args[0])
			if ok && v == rv {
				src = "hints"
				hintFields[ip.Args[0].Name]++
			}
		}
		// PORT: the record's own port, when it has one, is the last word (the
		// 80 -> 443 upgrade applies to the origin's port only)
		if pv, ok := s.Instr.Common().Args[1].(*ssa.Phi); ok {
			own := false
			for k, e := range pv.Edges {
				x := p.X(e)
				if v, isRec := recField(x, "Port"); isRec && v == rv {
					for _, f := range p.EdgeFacts(pv.Block().Preds[k], pv.Block()) {
						if v2, ok2 := recField(f.L, "Port"); ok2 && v2 == rv && f.Op == ">" && f.R != nil && f.R.Name == "0" {
							own = true
						}
					}
				}
			}
			r.Check(pre+".GUARDS", key+":port", own, pos, "the port offered is the record's own port whenever the record has one, decided last: %s", short(port))
		}
		r.Check(pre+".PAIR", key, pair && src != "", pos, "target from an HTTPS record: ECH, ALPN and port come from the same record as the addresses (%v); addresses from %q", pair, src)
		// guards
		notAlias := false
		hasTarget, noTarget, noAddr := false, false, false
		for _, f := range fs {
			if v, ok := recField(f.L, "Priority"); ok && v == rv && f.Op == "!=" && f.R.Name == "0" {
				notAlias = true
			}
			// (s == "" / s != "" are normalised to len(s) == 0 / len(s) > 0)
			if f.L.Op == "call" && f.L.Name == "len" && f.R != nil && f.R.Name == "0" {
				if v, ok := recField(f.L.Args[0], "Target"); ok && v == rv {
					hasTarget = hasTarget || f.Op == ">"
					noTarget = noTarget || f.Op == "=="
				}
			}
			if f.Op == "==" && f.R.Name == "0" && f.L.Op == "call" && f.L.Name == "len" && f.L.Args[0].Op == "field" && f.L.Args[0].Name == "Address" && f.L.Args[0].Args[0].Val == ssa.Value(recv) {
				noAddr = true
			}
		}
		okG := notAlias
		switch src {
		case "target":
			okG = okG && hasTarget
		case "origin":
			okG = okG && noTarget
		case "hints":
			okG = okG && noTarget && noAddr
		}
		// whether a service-mode record contributes is decided by its priority,
		// target, port, ALPN and hint parameters only
		other := ""
		for _, f := range fs {
			for _, e := range []*core.Expr{f.L, f.R} {
				if e == nil {
					continue
				}
				e.Walk(func(x *core.Expr) bool {
					if x.Op == "field" && len(x.Args) == 1 {
						if v, ok := isRec(x.Args[0]); ok && v == rv && !matches(`^(Priority|Target|Port|NoDefaultALPN|ALPN|IPv4Hint|IPv6Hint|ECH)$`, x.Name) {
							other = x.Name
						}
					}
					return true
				})
			}
		}
		r.Check(pre+".GUARDS", key+":contributes", other == "", pos, "a service-mode record is passed over only for its priority, target, port, ALPN or hints (here the decision also looks at its field %q)", other)
		r.Check(pre+".GUARDS", key, okG, pos, "alias-mode records are skipped (%v); %s addresses are used under the right condition (record names a target: %v, names none: %v, origin has no address: %v)", notAlias, src, hasTarget, noTarget, noAddr)
	}
	r.Check(pre+".PAIR", "Targets:hint-families", hintFields["IPv4Hint"] == 1 && hintFields["IPv6Hint"] == 1, p.Pos(iter.Pos()), "the record's hints of both address families are offered, each once: %v", hintFields)
	r.Check(pre+".PAIR", "Targets:emit-sites", nIn == 4 && nOut == 1, p.Pos(iter.Pos()), "four emit sites inside the HTTPS loop (target, origin, IPv4 hints, IPv6 hints) and one after it (found %d and %d)", nIn, nOut)

	// port 80 -> 443 only in the HTTPS loop
	for _, l := range lits {
		for _, b := range l.Blocks {
			for _, in := range b.Instrs {
				ph, ok := in.(*ssa.Phi)
				if !ok {
					continue
				}
				for _, e := range ph.Edges {
					if c, ok := e.(*ssa.Const); ok && c.Value != nil && c.Value.ExactString() == "443" {
						r.Check(pre+".GUARDS", "Targets:port-443", l == iter && body[b], p.InstrPos(ph), "the port is rewritten to 443 only inside the loop over HTTPS records")
					}
				}
			}
		}
	}

	// the emit helper: family filter, validity, seen test-and-set before yield
	var yield site
	ny := 0
	for _, s := range allCalls(p, []*ssa.Function{add}) {
		if s.X.Name == "dyn" {
			yield = s
			ny++
		}
	}
	if ny != 1 {
		r.Check(pre+".GUARDS", "emit:yield", false, p.Pos(add.Pos()), "expected one yield call in the emit helper, found %d", ny)
		return
	}
	fs := p.Facts(yield.Block())
	valid, unseen := false, false
	var addrV, okFlagFilter *core.Expr
	for _, f := range fs {
		if f.Op == "true" && f.L.Op == "call" && f.L.Name == "(net/netip.AddrPort).IsValid" {
			valid = true
			addrV = f.L.Args[0]
		}
		if f.Op == "false" && f.L.Op == "lookup" {
			unseen = true
		}
	}
	// the filter may also report with an ok-flag instead of the zero address: a
	// helper all of whose returns are (zero, false) or (AddrPortFrom(converted
	// address, port), true)
	if !valid {
		for _, f := range fs {
			if f.Op != "true" || f.L.Op != "ext" || f.L.Name != "#1" || f.L.Args[0].Op != "call" || f.L.Args[0].Fn == nil || !inModule(p, f.L.Args[0].Fn) {
				continue
			}
			flt := f.L.Args[0].Fn
			okShape := len(core.Returns(flt)) > 0
			for _, ret := range core.Returns(flt) {
				if len(ret.Results) != 2 {
					okShape = false
					continue
				}
				a, flag := p.X(ret.Results[0]), p.X(ret.Results[1])
				switch {
				case flag.Name == "false" && a.Op == "const":
				case flag.Name == "true" && a.Op == "call" && a.Name == "net/netip.AddrPortFrom" && a.Args[0].Any(func(x *core.Expr) bool { return x.Op == "call" && x.Name == "net/netip.AddrFromSlice" }):
				default:
					okShape = false
				}
			}
			if okShape {
				valid = true
				addrV = &core.Expr{Op: "ext", Name: "#0", Args: []*core.Expr{f.L.Args[0]}, Val: nil}
				okFlagFilter = f.L.Args[0]
			}
		}
	}
	set := false
	for _, in := range yield.Block().Instrs {
		if mu, ok := in.(*ssa.MapUpdate); ok && core.InstrIndex(mu) < core.InstrIndex(yield.Instr) {
			if c, ok := mu.Value.(*ssa.Const); ok && c.Value != nil && c.Value.ExactString() == "true" {
				set = true
			}
		}
	}
	// the address: what the filter returned - the helper's result, or with the
	// helper inlined the pair formed by AddrPortFrom(AddrFromSlice(ip), port) (or zero)
	viaFilter := false
	if addrV != nil {
		viaFilter = true
		for _, a := range addrV.Alts() {
			switch {
			case okFlagFilter != nil && a.Op == "ext" && a.Name == "#0" && a.Args[0] == okFlagFilter:
			case a.Op == "call" && a.Fn != nil && inModule(p, a.Fn) && len(callSites(p, core.Closures(a.Fn), `net/netip\.AddrFromSlice`)) == 1:
			case a.Op == "call" && a.Name == "net/netip.AddrPortFrom" && a.Args[0].Any(func(x *core.Expr) bool { return x.Op == "call" && x.Name == "net/netip.AddrFromSlice" }):
			case a.Op == "const" && a.Name == "zero":
			default:
				viaFilter = false
			}
		}
	}
	r.Check(pre+".GUARDS", "emit:filters", valid && unseen && set && viaFilter, p.InstrPos(yield.Instr), "yield is dominated by: address passed the family filter and is valid (%v, through the filter helper: %v), address/port pair not seen before (%v), and it is marked seen before the yield (%v)", valid, viaFilter, unseen, set)
	// what is yielded
	tgt := 0
	for _, b := range add.Blocks {
		for _, in := range b.Instrs {
			st, ok := in.(*ssa.Store)
			if !ok {
				continue
			}
			x := p.X(st.Addr)
			if x.Op != "field" || x.Args[0].Op != "new" || x.Args[0].Name != "ech.Target" {
				continue
			}
			v := p.X(st.Val)
			switch x.Name {
			case "Address":
				tgt++
				r.Check(pre+".GUARDS", "emit:Target.Address", addrV != nil && v.String() == addrV.String(), p.InstrPos(st), "the yielded address is the filtered, de-duplicated one")
			case "ECH":
				tgt++
				r.Check(pre+".PAIR", "emit:Target.ECH", v.Op == "param" && len(add.Params) == 4 && v.Val == ssa.Value(add.Params[2]), p.InstrPos(st), "Target.ECH is the helper's ech argument")
			case "ALPN":
				tgt++
				r.Check(pre+".PAIR", "emit:Target.ALPN", v.Op == "param" && len(add.Params) == 4 && v.Val == ssa.Value(add.Params[3]), p.InstrPos(st), "Target.ALPN is the helper's alpn argument")
			}
		}
	}
	r.Check(pre+".PAIR", "emit:Target-fields", tgt == 3, p.Pos(add.Pos()), "the yielded Target has its three fields set from the helper's arguments")
	// the family filter
	c15Family(p, r, fn, pre)
	// the filter tells the families apart by length (4 or 16 bytes): addresses
	// the package makes up itself (localhost) must be in that form - net.IPv4 and
	// net.ParseIP hand back the 16-byte form of an IPv4 address
	nLong := 0
	for _, s := range callSites(p, p.PkgFuncs(Ech), `net\.(IPv4|ParseIP)`) {
		short4 := false
		if cv, ok := s.Instr.(ssa.Value); ok {
			for _, ref := range *cv.Referrers() {
				if c, ok := ref.(*ssa.Call); ok && p.X(c).Name == "(net.IP).To4" {
					short4 = true
				}
			}
		}
		if !short4 {
			nLong++
			r.Check(pre+".GUARDS", fmt.Sprintf("address-form:%s#%d", p.FuncName(core.Root(s.Fn)), nLong), false, p.InstrPos(s.Instr), "%s yields the 16-byte form of an IPv4 address, which the length-based family filter of Targets takes for IPv6; use a 4-byte literal or To4()", s.X.Name)
		}
	}
	r.Check(pre+".GUARDS", "address-form", nLong == 0, p.Pos(fn.Pos()), "addresses the package builds itself are in the 4/16-byte form the family filter expects (%d built with net.IPv4/ParseIP without To4)", nLong)
}

func c15Family(p *core.Prog, r *core.Run, targets *ssa.Function, pre string) {
	// the family filter lives where net/netip.AddrFromSlice is called: a literal
	// of Targets, a helper, or (inlined) the emit helper itself
	var filt *ssa.Function
	for _, l := range core.Closures(targets) {
		if len(callSites(p, []*ssa.Function{l}, `net/netip\.AddrFromSlice`)) == 1 {
			filt = l
		}
	}
	if filt == nil {
		r.Undecided(pre+".GUARDS", "filter", p.Pos(targets.Pos()), "no conversion of the address with netip.AddrFromSlice found among Targets' literals")
		return
	}
	made := callSites(p, []*ssa.Function{filt}, `net/netip\.AddrPortFrom`)
	if len(made) != 1 {
		r.Undecided(pre+".GUARDS", "filter", p.Pos(filt.Pos()), "expected one netip.AddrPortFrom in %s, found %d", p.FuncName(filt), len(made))
		return
	}
	// the address that passed the filter is the address offered: the pair is
	// formed from AddrFromSlice's result itself (unmapping a 16-byte
	// ::ffff:a.b.c.d afterwards would offer an IPv4 target under tcp6)
	a0 := made[0].X.Args[0]
	direct := a0.Op == "ext" && a0.Name == "#0" && a0.Args[0].Op == "call" && a0.Args[0].Name == "net/netip.AddrFromSlice"
	r.Check(pre+".GUARDS", "filter:address-as-filtered", direct, p.InstrPos(made[0].Instr), "the address/port pair is formed from the converted address as it is: %s", short(a0))
	netP := targets.Params[1]
	for _, fam := range []struct {
		names []string
		size  string
	}{{[]string{`"tcp4"`, `"udp4"`}, "4"}, {[]string{`"tcp6"`, `"udp6"`}, "16"}} {
		for _, name := range fam.names {
			// with network == name and len(ip) != size assumed, no address/port pair is formed
			cfg, hits := pruneBy(p, filt, []assumption{
				cmpAssume("network == "+name, "==", func(e *core.Expr) bool { return e.Val == ssa.Value(netP) }, isConstName(name)),
				cmpAssume("len(ip) != "+fam.size, "!=", func(e *core.Expr) bool { return e.Op == "call" && e.Name == "len" && e.Args[0].Op == "param" }, isConstName(fam.size)),
			})
			ok := len(hits["network == "+name]) > 0 && len(hits["len(ip) != "+fam.size]) > 0 && !cfg.Live(made[0].Block())
			r.Check(pre+".GUARDS", "filter:"+strings.Trim(name, `"`), ok, p.Pos(filt.Pos()), "network %s admits only %s-byte addresses (with another length no address/port pair is formed)", name, fam.size)
		}
	}
}

// c15Pure: effect analysis of Targets (shared with C16.SHARE).
func c15Pure(p *core.Prog, r *core.Run, rule string) {
	fn := p.Func(Ech, "(ResolveResult).Targets")
	if fn == nil {
		r.Undecided(rule, "Targets", "-", "method not found")
		return
	}
	recv := fn.Params[0]
	lits := core.Closures(fn)
	r.Analysed(funcNames(p, lits)...)
	nW := 0
	for _, l := range lits {
		for _, b := range l.Blocks {
			for _, in := range b.Instrs {
				switch x := in.(type) {
				case *ssa.Store:
					if p.CellRoot(x.Addr) != nil {
						continue
					}
					a := p.X(x.Addr)
					if derivesFromRecv(p, a, recv) && !(a.Op == "param") {
						nW++
						r.Check(rule, "Targets:store "+short(a), false, p.InstrPos(x), "store through memory reachable from the receiver")
					}
				case *ssa.MapUpdate:
					if derivesFromRecv(p, p.X(x.Map), recv) {
						nW++
						r.Check(rule, "Targets:mapupdate", false, p.InstrPos(x), "update of a map reachable from the receiver")
					}
				case *ssa.Call:
					e := p.X(x)
					if e.Name == "append" && len(e.Args) >= 1 && derivesFromRecv(p, e.Args[0], recv) {
						// capacity-limited full slice expressions are safe
						if sl, ok := x.Call.Args[0].(*ssa.Slice); ok && sl.Max != nil {
							continue
						}
						nW++
						r.Check(rule, "Targets:append "+short(e.Args[0]), false, p.InstrPos(x), "append onto %s, a slice of the result itself: with spare capacity this writes into the shared backing array (the result is shared with the resolver cache and other goroutines); append to a copy", short(e.Args[0]))
					}
					if matches(`sort\.(Slice|SliceStable|Sort|Stable)|slices\.(Sort.*|Reverse|DeleteFunc|Delete|Compact.*|Insert|Replace)|copy|clear|delete`, e.Name) && len(e.Args) >= 1 && derivesFromRecv(p, e.Args[0], recv) {
						nW++
						r.Check(rule, "Targets:mutator "+e.Name, false, p.InstrPos(x), "%s modifies %s in place", e.Name, short(e.Args[0]))
					}
				}
			}
		}
	}
	r.Check(rule, "Targets:writes", nW == 0, p.Pos(fn.Pos()), "%d writes to memory reachable from the receiver in Targets and its %d literals (expected 0)", nW, len(lits)-1)
	// iterator statelessness
	for _, ret := range core.Returns(fn) {
		x := p.X(ret.Results[0])
		if x.Op != "closure" {
			r.Check(rule, "Targets:iterator", false, p.InstrPos(ret), "Targets does not return a function literal")
			continue
		}
		rv := ret.Results[0]
		for {
			ct, ok := rv.(*ssa.ChangeType)
			if !ok {
				break
			}
			rv = ct.X
		}
		mc, _ := rv.(*ssa.MakeClosure)
		if mc == nil {
			r.Undecided(rule, "Targets:iterator-stateless", p.InstrPos(ret), "cannot resolve the returned function literal")
			continue
		}
		clean := true
		why := ""
		var check func(m *ssa.MakeClosure, depth int)
		check = func(m *ssa.MakeClosure, depth int) {
			for _, bnd := range m.Bindings {
				al := p.CellRoot(bnd)
				if al == nil {
					clean, why = false, "captures "+short(p.X(bnd))
					continue
				}
				st, calls := p.CellDefs(al)
				if len(calls) > 0 {
					clean, why = false, "captured variable "+al.Comment+" has its address passed to a call"
				}
				for _, s := range st {
					switch v := s.Val.(type) {
					case *ssa.Parameter:
					case *ssa.MakeClosure:
						if depth < 3 {
							check(v, depth+1)
						}
					default:
						if _, isBasic := s.Val.Type().Underlying().(*types.Basic); isBasic {
							continue
						}
						clean, why = false, fmt.Sprintf("captures variable %q, which holds %s created once per Targets call and shared by every enumeration", al.Comment, short(p.X(s.Val)))
					}
				}
			}
		}
		if mc != nil {
			check(mc, 0)
		}
		r.Check(rule, "Targets:iterator-stateless", clean, p.InstrPos(ret), "the returned iterator captures only parameters and literals over parameters: enumerating twice, or stopping early, leaves later enumerations unaffected %s", why)
	}
	r.Floor(rule, 2)
}
