package props

import (
	"go/types"

	"verif/third_party/xtools/go/ssa"

	"verif/internal/core"
)

// evalInt evaluates an integer expression tree exactly, with Go's wrapping
// semantics for the fixed-width types, given values for its leaves. lookup
// is asked for every sub-expression first (so len(x), fields and parameters
// can be bound); it returns ok=false to let evaluation descend.
func evalInt(p *core.Prog, e *core.Expr, lookup func(*core.Expr) (int64, bool)) (int64, bool) {
	if v, ok := lookup(e); ok {
		return wrap(e, v), true
	}
	switch e.Op {
	case "const":
		if v, ok := e.ConstInt(); ok {
			return v, true
		}
		return 0, false
	case "conv":
		v, ok := evalInt(p, e.Args[0], lookup)
		if !ok {
			return 0, false
		}
		return wrap(e, v), true
	case "un":
		v, ok := evalInt(p, e.Args[0], lookup)
		if !ok {
			return 0, false
		}
		switch e.Name {
		case "-":
			return wrap(e, -v), true
		case "^":
			return wrap(e, ^v), true
		}
		return 0, false
	case "bin":
		a, ok1 := evalInt(p, e.Args[0], lookup)
		b, ok2 := evalInt(p, e.Args[1], lookup)
		if !ok1 || !ok2 {
			return 0, false
		}
		var r int64
		switch e.Name {
		case "+":
			r = a + b
		case "-":
			r = a - b
		case "*":
			r = a * b
		case "/":
			if b == 0 {
				return 0, false
			}
			r = a / b
		case "%":
			if b == 0 {
				return 0, false
			}
			r = a % b
		case "&":
			r = a & b
		case "|":
			r = a | b
		case "^":
			r = a ^ b
		case "<<":
			if b < 0 || b > 62 {
				return 0, false
			}
			r = a << uint(b)
		case ">>":
			if b < 0 || b > 62 {
				return 0, false
			}
			r = a >> uint(b)
		case "&^":
			r = a &^ b
		default:
			return 0, false
		}
		return wrap(e, r), true
	case "phi":
		// a value selected by control flow: take the edge whose conditions hold
		// under the assignment (exactly one edge must qualify)
		ph, ok := e.Val.(*ssa.Phi)
		if !ok {
			return 0, false
		}
		found := false
		var out int64
		// conditions every edge shares say nothing about which edge is taken
		count := map[string]int{}
		for i := range ph.Edges {
			seen := map[string]bool{}
			for _, f := range p.EdgeFacts(ph.Block().Preds[i], ph.Block()) {
				if !seen[f.String()] {
					seen[f.String()] = true
					count[f.String()]++
				}
			}
		}
		for i, edge := range ph.Edges {
			holds := true
			for _, f := range p.EdgeFacts(ph.Block().Preds[i], ph.Block()) {
				if count[f.String()] == len(ph.Edges) {
					continue
				}
				t, known := evalFact(p, f, lookup)
				if !known {
					return 0, false
				}
				if !t {
					holds = false
					break
				}
			}
			if !holds {
				continue
			}
			v, ok := evalInt(p, p.X(edge), lookup)
			if !ok || found && v != out {
				return 0, false
			}
			found, out = true, v
		}
		if !found {
			return 0, false
		}
		return wrap(e, out), true
	case "call":
		switch e.Name {
		case "min", "max":
			best, ok := evalInt(p, e.Args[0], lookup)
			if !ok {
				return 0, false
			}
			for _, a := range e.Args[1:] {
				v, ok := evalInt(p, a, lookup)
				if !ok {
					return 0, false
				}
				if e.Name == "min" && v < best || e.Name == "max" && v > best {
					best = v
				}
			}
			return best, true
		}
	}
	return 0, false
}

// wrap truncates v to the static type of e's value.
func wrap(e *core.Expr, v int64) int64 {
	val, ok := e.Val.(ssa.Value)
	if !ok || val == nil {
		return v
	}
	b, ok := val.Type().Underlying().(*types.Basic)
	if !ok {
		return v
	}
	switch b.Kind() {
	case types.Uint8:
		return int64(uint8(v))
	case types.Uint16:
		return int64(uint16(v))
	case types.Uint32:
		return int64(uint32(v))
	case types.Int8:
		return int64(int8(v))
	case types.Int16:
		return int64(int16(v))
	case types.Int32:
		return int64(int32(v))
	}
	return v
}

// evalFact evaluates a comparison fact under the assignment.
func evalFact(p *core.Prog, f core.Fact, lookup func(*core.Expr) (int64, bool)) (val, known bool) {
	if f.R == nil {
		return false, false
	}
	a, ok1 := evalInt(p, f.L, lookup)
	b, ok2 := evalInt(p, f.R, lookup)
	if !ok1 || !ok2 {
		return false, false
	}
	switch f.Op {
	case "==":
		return a == b, true
	case "!=":
		return a != b, true
	case "<":
		return a < b, true
	case "<=":
		return a <= b, true
	case ">":
		return a > b, true
	case ">=":
		return a >= b, true
	}
	return false, false
}
