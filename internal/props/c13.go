package props

import (
	"fmt"
	"go/token"
	"go/types"
	"regexp"
	"sort"
	"strings"

	"verif/third_party/xtools/go/ssa"

	"verif/internal/core"
)

func init() {
	register(&Property{
		ID: "C13",
		Info: core.Info{
			Explanation: "Decides structural necessary conditions of the DNS codec's round trip and of its agreement with RFC 1035 / 6891 / 9460 (agreement with an independent implementation on arbitrary messages is NOT decided): " +
				"(HDR) header: six 16-bit words in RFC order on both sides; the flag word's bit layout (QR 15, Opcode 11-14, AA 10, TC 9, RD 8, RA 7, RCODE 0-3) is extracted from the encoder's shift/mask terms and from the decoder's mask/shift stores and compared with RFC 1035 4.1.1; each section count bounds the loop that fills the matching section; " +
				"(QRR) question and RR header grammars of encoder and decoder agree token by token (name, type, class, ttl, uint16-prefixed RDATA); " +
				"(NAMES) sibling agreement: all four name-encoding sites call one helper, which trims a trailing dot, emits no label for the root name and ends with a single zero byte; no other encoder code emits labels; " +
				"(RDATA) A/AAAA data is written untransformed and read with the length 4 / 16 check; NS/CNAME/PTR go through the name helper on both sides; OPT options agree; the HTTPS SvcParamKeys 1..6 are bound to the same fields with the same value grammars on both sides, in ascending key order in the encoder, as in RFC 9460 14.3.2; " +
				"(PTR) the name decoder follows compression pointers in a loop (a pointer may lead to another pointer) with the 0xc0 / 0x3fff masks and a 'must point backwards' test; " +
				"(PAD) AddPadding removes a stale padding option before measuring, measures len(m.Bytes()), and its size expression f satisfies (L + 4 + f(L)) mod 128 = 0 and 0 <= f(L) < 128 for every L in 0..65535 (exhaustive evaluation; 4 = option code + length prefix taken from the OPT encoder); " +
				"(RC) ResponseCode equals rcode | (TTL>>24)<<4 for all 16 x 256 inputs.",
		},
		Rules: c13Rules,
	})
}

var rfc1035Flags = map[string][2]int64{ // field -> mask in the 16-bit word, shift
	"QR": {0x8000, 15}, "OpCode": {0x7800, 11}, "AA": {0x0400, 10}, "TC": {0x0200, 9}, "RD": {0x0100, 8}, "RA": {0x0080, 7}, "RCode": {0x000f, 0},
}

var rfc9460Keys = map[int64]string{1: "ALPN", 2: "NoDefaultALPN", 3: "Port", 4: "IPv4Hint", 5: "ECH", 6: "IPv6Hint"}

func c13Rules(p *core.Prog, r *core.Run) {
	mb := p.Func(DNS, "(Message).Bytes")
	rb := p.Func(DNS, "(RR).Bytes")
	an := p.Func(DNS, "addName")
	dec := p.Func(DNS, "(decoder).decode")
	drr := p.Func(DNS, "(decoder).rr")
	dht := p.Func(DNS, "(decoder).https")
	dopt := p.Func(DNS, "(decoder).opt")
	nl := p.Func(DNS, "(decoder).nameLabels")
	if nl == nil {
		// the label walk written into the name decoder itself
		if nm := p.Func(DNS, "(decoder).name"); nm != nil && len(callSites(p, []*ssa.Function{nm}, `\(\*cryptobyte\.String\)\.ReadUint8LengthPrefixed`)) > 0 {
			nl = nm
		}
	}
	pad := p.Func(DNS, "(*Message).AddPadding")
	rc := p.Func(DNS, "(Message).ResponseCode")
	for name, f := range map[string]*ssa.Function{"Message.Bytes": mb, "RR.Bytes": rb, "decode": dec, "rr": drr, "https": dht, "opt": dopt, "nameLabels": nl, "AddPadding": pad, "ResponseCode": rc} {
		if f == nil {
			r.Undecided("C13.HDR", "dns:"+name, "-", "function %s not found", name)
			return
		}
	}
	r.Analysed(p.FuncName(mb), p.FuncName(rb), p.FuncName(dec), p.FuncName(drr), p.FuncName(dht), p.FuncName(dopt), p.FuncName(nl), p.FuncName(pad), p.FuncName(rc))
	nb := func(fn *ssa.Function) ssa.Value { return builderRoot(p, fn) }
	firstCursor := func(fn *ssa.Function) ssa.Value {
		var root ssa.Value
		var first token.Pos
		for _, s := range callSites(p, []*ssa.Function{fn}, `\(\*cryptobyte\.String\)\.Read.*`) {
			if !first.IsValid() || s.Instr.Pos() < first {
				first, root = s.Instr.Pos(), cursorOf(p, s.Instr.Common().Args[0])
			}
		}
		return root
	}
	mbT := builderTokens(p, mb, nb(mb), nil, 0)
	rbT := builderTokens(p, rb, nb(rb), nil, 0)
	decT := parserTokens(p, dec, firstCursor(dec))
	rrT := parserTokens(p, drr, drr.Params[1])
	r.Tables["dns_tokens"] = map[string]string{"Message.Bytes": normTokens(mbT), "RR.Bytes": normTokens(rbT), "decode": normTokens(decT), "rr": normTokens(rrT)}

	// --- HDR
	mbS, decS := normTokens(mbT), normTokens(decT)
	hdrB := regexp.MustCompile(`^u16:Message\.ID u16:\S+ u16:len\(Message\.Question\) u16:len\(Message\.Answer\) u16:len\(Message\.Authority\) u16:len\(Message\.Additional\) `).MatchString(mbS)
	hdrD := regexp.MustCompile(`^u16:Message\.ID u16:\S+ u16:\S+ u16:\S+ u16:\S+ u16:\S+ loop\{`).MatchString(decS)
	r.Check("C13.HDR", "header:words", hdrB && hdrD, p.Pos(mb.Pos()), "both sides use six 16-bit header words: id, flags, qdcount, ancount, nscount, arcount (encoder: %v, decoder: %v)", hdrB, hdrD)
	c13Flags(p, r, mb, dec)
	c13Counts(p, r, dec)
	// the message decoder itself gives up only where a
	// read or a sub-decoder failed (a plausibility test on the counts, a size
	// estimate, refuses encodings that are valid)
	decoderRejections(p, r, dec, "C13.QRR")

	// --- QRR
	qB := between(mbS, "loop{ call:addName(Question.Name)", "}")
	qD := between(decS, "loop{ call:name(Question.Name)", "}")
	r.Check("C13.QRR", "question", qB != "" && qB == qD && qB == " u16:Question.Type u16:Question.Class ", p.Pos(mb.Pos()), "question = name, type, class on both sides (encoder %q, decoder %q)", qB, qD)
	rbS, rrS := normTokens(rbT), normTokens(rrT)
	hB := strings.HasPrefix(rbS, "call:addName(RR.Name) u16:RR.Type u16:RR.Class u32:RR.TTL p16{ ")
	hD := strings.HasPrefix(rrS, "call:name(RR.Name) u16:RR.Type u16:RR.Class u32:RR.TTL p16{ ")
	r.Check("C13.QRR", "rr-header", hB && hD, p.Pos(rb.Pos()), "resource record = name, type, class, ttl, uint16-prefixed rdata on both sides (encoder: %v, decoder: %v)", hB, hD)
	// the sections are encoded with RR.Bytes
	r.Check("C13.QRR", "sections", strings.Contains(mbS, "loop{ call:Bytes("), p.Pos(mb.Pos()), "answer, authority and additional records are encoded with RR.Bytes")

	// --- NAMES
	if an == nil {
		r.Check("C13.NAMES", "name-encoder-sites", false, p.Pos(rb.Pos()), "no shared name encoder: the question, owner-name, NS/CNAME/PTR and HTTPS target sites encode names separately and have disagreed about the root name and trailing dots before")
	} else {
		n := strings.Count(mbS, "call:addName(") + strings.Count(rbS, "call:addName(")
		stray := strings.Contains(mbS, "Split(") || strings.Contains(rbS, "Split(")
		r.Check("C13.NAMES", "name-encoder-sites", n == 4 && !stray, p.Pos(an.Pos()), "the four name-encoding sites (question, RR owner, NS/CNAME/PTR data, HTTPS target) all call the one helper (found %d) and no other encoder code splits a name into labels (%v)", n, !stray)
		// per path: a name is encoded as its labels followed by the zero octet, or
		// (empty name, or no labels) as the zero octet alone
		paths := builderPathTokens(p, an, an.Params[0], 64)
		anS := strings.Join(paths, " || ")
		okShape := anS == `loop{ p8{ bytes:Split(TrimSuffix($p1,="."),=".")[] } } u8:=0 || u8:=0`
		// labels only for a non-empty trimmed name
		guarded := false
		for _, s := range callSites(p, core.Closures(an), `\(\*cryptobyte\.Builder\)\.AddUint8LengthPrefixed`) {
			for _, f := range p.Facts(s.Block()) {
				if f.Op == ">" && f.R.Name == "0" && f.L.Op == "call" && f.L.Name == "len" && f.L.Args[0].Op == "call" && f.L.Args[0].Name == "strings.TrimSuffix" {
					guarded = true
				}
			}
		}
		r.Check("C13.NAMES", "name-encoder-shape", okShape && guarded, p.Pos(an.Pos()), "the helper trims one trailing dot, emits one uint8-prefixed label per dot-separated part only when the trimmed name is non-empty (%v) and ends with a single zero byte: %s", guarded, anS)
	}

	// the decoder accepts every name the wire format allows: RFC 1035 3.1 limits a
	// name to 255 octets including the final zero, so the running sum of
	// (label length + 1) may legitimately reach 254
	nBudget := 0
	for _, b := range nl.Blocks {
		iff, ok := b.Instrs[len(b.Instrs)-1].(*ssa.If)
		if !ok {
			continue
		}
		bo, ok := iff.Cond.(*ssa.BinOp)
		if !ok {
			continue
		}
		k, isC := p.X(bo.Y).ConstInt()
		x := p.X(bo.X)
		op := bo.Op.String()
		if k2, c2 := x.ConstInt(); c2 && !isC {
			// constant on the left: K < sum
			k, isC, x = k2, true, p.X(bo.Y)
			op = map[string]string{"<": ">", "<=": ">="}[op]
		}
		if !isC || !strings.Contains(x.String(), "len(") || !strings.Contains(x.String(), "ReadUint8LengthPrefixed") {
			continue
		}
		max := int64(-1)
		switch op {
		case ">":
			max = k
		case ">=":
			max = k - 1
		default:
			continue
		}
		// the accumulator's starting value counts against the budget
		x.Walk(func(e *core.Expr) bool {
			if e.Op == "phi" {
				for _, a := range e.Args {
					if k0, ok := a.ConstInt(); ok && k0 > 0 {
						max -= k0
					}
				}
			}
			return true
		})
		nBudget++
		r.Check("C13.NAMES", "decoder:name-octets-limit", max >= 254, p.InstrPos(iff), "the decoder's name budget lets the sum of (label length + 1) reach %d; names of the maximum wire length (255 octets with the final zero, e.g. 127 one-octet labels) need 254, and the encoder emits them", max)
	}
	r.Check("C13.NAMES", "decoder:name-octets-limit-found", nBudget == 1, p.Pos(nl.Pos()), "one comparison bounds the accumulated name length in the decoder (found %d)", nBudget)

	// --- RDATA
	c13RData(p, r, rb, drr, dht, dopt, rbS)

	// --- PTR
	c13Pointers(p, r, nl)
	c13DecoderStateless(p, r, nl)

	// --- PAD
	c13Padding(p, r, pad, mb, rbS)

	// --- RC
	c13RCode(p, r, rc, "C13.RC")
}

func between(s, start, end string) string {
	i := strings.Index(s, start)
	if i < 0 {
		return ""
	}
	rest := s[i+len(start):]
	j := strings.Index(rest, end)
	if j < 0 {
		return ""
	}
	return rest[:j]
}

// c13Flags compares the bit layout of the flag word on both sides with RFC 1035.
func c13Flags(p *core.Prog, r *core.Run, mb, dec *ssa.Function) {
	// encoder: second AddUint16 of Message.Bytes
	adds := callSites(p, []*ssa.Function{mb}, `\(\*cryptobyte\.Builder\)\.AddUint16`)
	sort.SliceStable(adds, func(i, j int) bool { return adds[i].Instr.Pos() < adds[j].Instr.Pos() })
	enc := map[string][2]int64{}
	if len(adds) >= 2 {
		var terms []*core.Expr
		var split func(e *core.Expr)
		split = func(e *core.Expr) {
			if e.Op == "bin" && e.Name == "|" {
				split(e.Args[0])
				split(e.Args[1])
				return
			}
			terms = append(terms, e)
		}
		split(adds[1].X.Args[1])
		for _, t := range terms {
			shift := int64(0)
			if t.Op == "bin" && t.Name == "<<" {
				shift, _ = t.Args[1].ConstInt()
				t = t.Args[0]
			}
			for t.Op == "conv" {
				t = t.Args[0]
			}
			if t.Op == "bin" && t.Name == "&" && t.Args[0].Op == "field" {
				m, _ := t.Args[1].ConstInt()
				enc[t.Args[0].Name] = [2]int64{m << uint(shift), shift}
			}
		}
	}
	// decoder: msg.F = uint8((v & M) >> s)
	decm := map[string][2]int64{}
	for _, b := range dec.Blocks {
		for _, in := range b.Instrs {
			st, ok := in.(*ssa.Store)
			if !ok {
				continue
			}
			a := p.X(st.Addr)
			if a.Op != "field" {
				continue
			}
			if _, isFlag := rfc1035Flags[a.Name]; !isFlag {
				continue
			}
			v := p.X(st.Val)
			for v.Op == "conv" {
				v = v.Args[0]
			}
			shift := int64(0)
			if v.Op == "bin" && v.Name == ">>" {
				shift, _ = v.Args[1].ConstInt()
				v = v.Args[0]
			}
			if v.Op == "bin" && v.Name == "&" {
				m, _ := v.Args[1].ConstInt()
				decm[a.Name] = [2]int64{m, shift}
			}
		}
	}
	for _, f := range []string{"QR", "OpCode", "AA", "TC", "RD", "RA", "RCode"} {
		w := rfc1035Flags[f]
		r.Check("C13.HDR", "flags:"+f, enc[f] == w && decm[f] == w, p.Pos(mb.Pos()), "%s occupies mask 0x%04x shift %d (RFC 1035 4.1.1); encoder has mask 0x%04x shift %d, decoder mask 0x%04x shift %d", f, w[0], w[1], enc[f][0], enc[f][1], decm[f][0], decm[f][1])
	}
}

// c13Counts: the k-th header count bounds the loop that appends to the k-th section.
func c13Counts(p *core.Prog, r *core.Run, dec *ssa.Function) {
	reads := callSites(p, []*ssa.Function{dec}, `\(\*cryptobyte\.String\)\.ReadUint16`)
	sort.SliceStable(reads, func(i, j int) bool { return reads[i].Instr.Pos() < reads[j].Instr.Pos() })
	want := map[int]string{2: "Question", 3: "Answer", 4: "Authority", 5: "Additional"}
	got := map[int]string{}
	for h, body := range core.Loops(dec) {
		// the loop's bound: tested at the top, or at the bottom of a loop go/ssa
		// has rotated (`for range int(count)`)
		idx := -1
		tests := []*ssa.BasicBlock{h}
		for _, pr := range h.Preds {
			if body[pr] && pr != h {
				tests = append(tests, pr)
			}
		}
		for _, tb := range tests {
			iff, ok := tb.Instrs[len(tb.Instrs)-1].(*ssa.If)
			if !ok {
				continue
			}
			f := p.FactOf(core.Guard{Cond: iff.Cond, Pol: true, If: iff})
			if f.R == nil {
				continue
			}
			f.R.Walk(func(e *core.Expr) bool {
				if e.Op == "out" {
					for i, rd := range reads {
						if e.Val == rd.Instr.(ssa.Value) {
							idx = i
						}
					}
				}
				return true
			})
		}
		if idx < 0 {
			continue
		}
		isSection := func(a *core.Expr) bool {
			return a.Op == "field" && (a.Name == "Question" || a.Name == "Answer" || a.Name == "Authority" || a.Name == "Additional")
		}
		for b := range body {
			for _, in := range b.Instrs {
				if st, ok := in.(*ssa.Store); ok {
					if a := p.X(st.Addr); isSection(a) {
						got[idx] = a.Name
					}
				}
			}
		}
		// or the loop accumulates into a local list that is stored into the
		// section field afterwards
		if _, done := got[idx]; !done {
			acc := map[ssa.Value]bool{}
			for _, in := range h.Instrs {
				ph, ok := in.(*ssa.Phi)
				if !ok {
					continue
				}
				for _, e := range ph.Edges {
					if c, ok := e.(*ssa.Call); ok && body[c.Block()] {
						if bi, ok := c.Call.Value.(*ssa.Builtin); ok && bi.Name() == "append" && c.Call.Args[0] == ssa.Value(ph) {
							acc[ph] = true
						}
					}
				}
			}
			for _, b := range dec.Blocks {
				for _, in := range b.Instrs {
					st, ok := in.(*ssa.Store)
					if !ok || !isSection(p.X(st.Addr)) {
						continue
					}
					seen := map[ssa.Value]bool{}
					var from func(v ssa.Value, d int) bool
					from = func(v ssa.Value, d int) bool {
						if acc[v] {
							return true
						}
						ph, ok := v.(*ssa.Phi)
						if !ok || seen[v] || d > 4 {
							return false
						}
						seen[v] = true
						for _, e := range ph.Edges {
							if from(e, d+1) {
								return true
							}
						}
						return false
					}
					if from(st.Val, 0) {
						got[idx] = p.X(st.Addr).Name
					}
				}
			}
		}
	}
	ok := len(got) == 4
	for k, v := range want {
		if got[k] != v {
			ok = false
		}
	}
	r.Check("C13.HDR", "counts", ok, p.Pos(dec.Pos()), "header word -> section it counts: %v (RFC: 2 qdcount->Question, 3 ancount->Answer, 4 nscount->Authority, 5 arcount->Additional)", got)
}

// decoderRejections: the SVCB/HTTPS decoders turn RDATA down only when a read
// fails (or a sub-decoder does): what the encoder - or another conforming
// implementation - writes is never refused for a reason of the decoder's own
// (an ordering rule applied with the wrong start value rejects key 0, say).
func decoderRejections(p *core.Prog, r *core.Run, dec *ssa.Function, rule string) {
	n := 0
	for _, ret := range core.Returns(dec) {
		if lastResultNil(ret) {
			continue
		}
		n++
		fs := p.Facts(ret.Block())
		why := "no condition"
		ok := false
		if len(fs) > 0 {
			f := fs[0]
			why = f.String()
			switch {
			case f.Op == "false" && f.L.Op == "call" && matches(`\(\*cryptobyte\.String\)\.(Read|Skip|Copy).*`, f.L.Name):
				ok = true
			case f.Op == "!=" && f.R != nil && f.R.Name == "nil" && f.L.Op == "ext" && f.L.Args[0].Op == "call" && f.L.Args[0].Fn != nil && inModule(p, f.L.Args[0].Fn):
				ok = true
			}
		}
		r.Check(rule, fmt.Sprintf("%s:rejects-malformed-only#%d", p.FuncName(dec), n), ok, p.InstrPos(ret), "%s refuses its input only because a read (or a sub-decoder) failed; here: %s", p.FuncName(dec), shortStr(why))
	}
}

// c13DecoderKeys: in the HTTPS decoder every field of the record is set from
// the parameter with that field's own key only (key 1 alpn, 2 no-default-alpn,
// 3 port, 4 ipv4hint, 5 ech, 6 ipv6hint): a record never comes out with a
// field another parameter decided.
func c13DecoderKeys(p *core.Prog, r *core.Run, dht *ssa.Function, rule string) {
	want := map[string]string{"ALPN": "1", "NoDefaultALPN": "2", "Port": "3", "IPv4Hint": "4", "ECH": "5", "IPv6Hint": "6"}
	n := 0
	check := func(in ssa.Instruction, fld string, b *ssa.BasicBlock) {
		k, ok := want[fld]
		if !ok {
			return
		}
		n++
		under := ""
		for _, f := range p.Facts(b) {
			if f.Op == "==" && f.R != nil && f.R.Op == "const" && (f.L.Op == "out" || f.L.Op == "cell" || f.L.Op == "phi") && strings.Contains(f.L.String(), "ReadUint16") {
				under = f.R.Name
			}
		}
		r.Check(rule, fmt.Sprintf("decoder:%s#%d", fld, n), under == k, p.InstrPos(in), "HTTPS.%s is set from the parameter with key %s only (here under key %q)", fld, k, under)
		// the presence of the no-default-alpn key is what the flag says
		if st, ok := in.(*ssa.Store); ok && fld == "NoDefaultALPN" {
			v := p.X(st.Val)
			r.Check(rule, fmt.Sprintf("decoder:%s-value#%d", fld, n), v.Op == "const" && v.Name == "true", p.InstrPos(in), "HTTPS.NoDefaultALPN is true whenever the key is present, whatever else the record holds and in whatever order: %s", short(v))
		}
		// a list of the record is grown from itself (or from nothing): records
		// of one message do not share storage
		if st, ok := in.(*ssa.Store); ok && (fld == "ALPN" || fld == "IPv4Hint" || fld == "IPv6Hint") {
			var leaves []*core.Expr
			var expand func(e *core.Expr, depth int)
			expand = func(e *core.Expr, depth int) {
				if e == nil || depth > 8 {
					return
				}
				switch {
				case e.Op == "slice" || e.Op == "conv":
					expand(e.Args[0], depth+1)
				case e.Op == "phi" || e.Op == "cell":
					for _, a := range e.Args {
						expand(a, depth+1)
					}
				case e.Op == "call" && e.Name == "append" && len(e.Args) > 0:
					expand(e.Args[0], depth+1)
				default:
					leaves = append(leaves, e)
				}
			}
			expand(p.X(st.Val), 0)
			foreign := ""
			for _, base := range leaves {
				own := base.Op == "field" && base.Name == fld && base.Args[0].Op == "new" || base.Op == "const" || base.Op == "new" || base.Op == "rec"
				if !own {
					foreign = short(base)
				}
			}
			r.Check(rule, fmt.Sprintf("decoder:%s-storage#%d", fld, n), foreign == "", p.InstrPos(in), "HTTPS.%s grows from the record's own list or from nothing (it comes from %s)", fld, foreign)
		}
	}
	for _, l := range core.Closures(dht) {
		for _, b := range l.Blocks {
			for _, in := range b.Instrs {
				switch x := in.(type) {
				case *ssa.Store:
					if fa, ok := x.Addr.(*ssa.FieldAddr); ok && fieldVar(fa) != nil {
						if nt, ok := deref2(fa.X.Type()).(*types.Named); ok && nt.Obj().Name() == "HTTPS" {
							check(x, fieldVar(fa).Name(), b)
						}
					}
				case *ssa.Call:
					// a read straight into the field: value.ReadUint16(&result.Port)
					for _, a := range x.Call.Args {
						if fa, ok := a.(*ssa.FieldAddr); ok && fieldVar(fa) != nil {
							if nt, ok := deref2(fa.X.Type()).(*types.Named); ok && nt.Obj().Name() == "HTTPS" {
								check(x, fieldVar(fa).Name(), b)
							}
						}
					}
				}
			}
		}
	}
	r.Check(rule, "decoder:fields", n >= 6, p.Pos(dht.Pos()), "stores to the parameter fields of the decoded HTTPS record examined: %d", n)
}

func c13RData(p *core.Prog, r *core.Run, rb, drr, dht, dopt *ssa.Function, rbS string) {
	c13DecoderKeys(p, r, dht, "C13.RDATA")
	lits := core.Closures(rb)
	decoderRejections(p, r, dht, "C13.RDATA")
	if sv := p.Func(DNS, "(decoder).svcb"); sv != nil {
		decoderRejections(p, r, sv, "C13.RDATA")
	}
	// the HTTPS/SVCB and OPT decoders succeed only at the end of the RDATA:
	// whatever the encoder wrote (parameters of an alias-mode record, say) is
	// read back, nothing is left behind unread
	for _, dec := range []*ssa.Function{dht, dopt} {
		if dec == nil {
			continue
		}
		n := 0
		for _, ret := range core.Returns(dec) {
			if !lastResultNil(ret) {
				continue
			}
			n++
			atEnd := false
			for _, f := range p.Facts(ret.Block()) {
				if f.Op == "true" && f.L.Op == "call" && f.L.Name == "(cryptobyte.String).Empty" {
					atEnd = true
				}
				if f.Op == "==" && f.R != nil && f.R.Name == "0" && f.L.Op == "call" && f.L.Name == "len" && strings.HasSuffix(f.L.Args[0].Val.Type().String(), "cryptobyte.String") {
					atEnd = true
				}
			}
			r.Check("C13.RDATA", fmt.Sprintf("%s:consumes-all#%d", p.FuncName(dec), n), atEnd, p.InstrPos(ret), "%s reports success only when its input is used up", p.FuncName(dec))
		}
	}
	// A / AAAA: raw
	nIP := 0
	for _, s := range callSites(p, lits, `\(\*cryptobyte\.Builder\)\.AddBytes`) {
		a := s.X.Args[1]
		raw := a
		for raw.Op == "conv" {
			raw = raw.Args[0]
		}
		if !(raw.Op == "ext" && raw.Args[0].Op == "assert" && raw.Args[0].Name == "net.IP") && !strings.Contains(a.String(), "net.IP") {
			continue
		}
		nIP++
		okRaw := raw.Op == "ext" && raw.Args[0].Op == "assert" && raw.Args[0].Name == "net.IP" && raw.Args[0].Args[0].Op == "field" && raw.Args[0].Args[0].Name == "Data"
		r.Check("C13.RDATA", "A/AAAA:encoder", okRaw, p.InstrPos(s.Instr), "address records are written as the address bytes themselves, untransformed (an AAAA record must keep its 16 bytes): %s", short(a))
	}
	r.Check("C13.RDATA", "A/AAAA:encoder-site", nIP == 1, p.Pos(rb.Pos()), "one site encodes net.IP data (found %d)", nIP)
	dataF := field(p, DNS, "RR", "Data")
	for _, st := range fieldStores(p, []*ssa.Function{drr}, dataF) {
		fs := p.Facts(st.Block())
		for _, spec := range [][2]string{{"1", "4"}, {"28", "16"}} {
			if !core.HasFact(fs, "==", `.*\.Type`, spec[0]) {
				continue
			}
			okLen := false
			for _, f := range fs {
				if f.Op == "==" && f.R.Name == spec[1] && f.L.Op == "call" && f.L.Name == "len" {
					okLen = true
				}
			}
			r.Check("C13.RDATA", "A/AAAA:decoder type "+spec[0], okLen, p.InstrPos(st), "type %s data is accepted only with exactly %s bytes", spec[0], spec[1])
		}
	}
	// NS/CNAME/PTR
	okN := false
	for _, s := range callSites(p, lits, `dns\.addName`) {
		if a := s.X.Args[1]; a.Op == "ext" && a.Args[0].Op == "assert" && a.Args[0].Name == "string" {
			fs := p.Facts(s.Block())
			okN = true
			_ = fs
		}
	}
	// the encoder's type test: every way into the name-encoding call is a
	// "Type == K" edge (however the disjunction is spelled: ||, a negated &&,
	// a switch case list); the Ks are the types whose data is a name
	types := map[string]bool{}
	for _, s := range callSites(p, lits, `dns\.addName`) {
		if a := s.X.Args[1]; !(a.Op == "ext" && a.Args[0].Op == "assert" && a.Args[0].Name == "string") {
			continue
		}
		var into func(b *ssa.BasicBlock, depth int)
		into = func(b *ssa.BasicBlock, depth int) {
			for _, pr := range b.Preds {
				found := false
				if iff, ok := pr.Instrs[len(pr.Instrs)-1].(*ssa.If); ok && pr.Succs[0] != pr.Succs[1] {
					f := p.FactOf(core.Guard{Cond: iff.Cond, Pol: pr.Succs[0] == b, If: iff})
					if f.Op == "==" && f.L.Op == "field" && f.L.Name == "Type" && f.R != nil && f.R.Op == "const" {
						types[f.R.Name] = true
						found = true
					}
				}
				if !found && depth < 3 && len(pr.Instrs) == 1 {
					// an empty block that only forwards
					into(pr, depth+1)
				} else if !found {
					types["other:"+pr.String()] = true
				}
			}
		}
		into(s.Block(), 0)
	}
	r.Check("C13.RDATA", "NS/CNAME/PTR:encoder", okN && types["2"] && types["5"] && types["12"] && len(types) == 3, p.Pos(rb.Pos()), "string data of types 2, 5 and 12 (found %v) is encoded as a name by the shared helper", keysOf(types))
	// OPT
	optB := between(rbS, "loop{ u16:Option.Code", "} }")
	optD := normTokens(parserTokens(p, dopt, firstCursorOf(p, dopt)))
	r.Check("C13.RDATA", "OPT", optB == " p16{ bytes:Option.Data " && optD == "loop{ u16:Option.Code p16{ bytes:Option.Data } }", p.Pos(dopt.Pos()), "EDNS options = code, uint16-prefixed data on both sides (RFC 6891 6.1.2): decoder %s", optD)
	// HTTPS keys: encoder
	encKeys := map[int64]string{}
	var order []int64
	httpsPart := rbS[strings.Index(rbS, "u16:HTTPS.Priority"):]
	toks := strings.Fields(httpsPart)
	for i := 0; i+1 < len(toks); i++ {
		if !strings.HasPrefix(toks[i], "u16:=") {
			continue
		}
		var k int64
		if _, err := fmt.Sscan(strings.TrimPrefix(toks[i], "u16:="), &k); err != nil || k < 1 || k > 255 {
			continue
		}
		switch {
		case toks[i+1] == "u16:=0":
			order = append(order, k)
			encKeys[k] = ""
			i++
		case toks[i+1] == "p16{":
			depth, j := 1, i+2
			for ; j < len(toks) && depth > 0; j++ {
				if strings.HasSuffix(toks[j], "{") {
					depth++
				}
				if toks[j] == "}" {
					depth--
				}
			}
			order = append(order, k)
			encKeys[k] = strings.Join(toks[i+2:j-1], " ")
			i = j - 1
		}
	}
	asc := sort.SliceIsSorted(order, func(i, j int) bool { return order[i] < order[j] })
	// which field each key carries (from the guards of the key writes)
	encField := map[int64]string{}
	var foreign []string
	for _, s := range callSites(p, lits, `\(\*cryptobyte\.Builder\)\.AddUint16`) {
		k, ok := s.X.Args[1].ConstInt()
		if !ok || k < 1 || k > 6 {
			continue
		}
		for _, f := range p.Facts(s.Block()) {
			e := f.L
			if e.Op == "call" && e.Name == "len" {
				e = e.Args[0]
			}
			if e.Op == "field" && e.Args[0].Op == "ext" {
				if _, seen := encField[k]; !seen {
					encField[k] = e.Name
				} else if e.Name != encField[k] {
					// a parameter is written whenever its own field is set: a test of
					// another field on the way loses it for some records
					foreign = append(foreign, fmt.Sprintf("key %d also under %s", k, f.String()))
				}
			}
		}
	}
	r.Check("C13.RDATA", "HTTPS:keys-independent", len(foreign) == 0, p.Pos(rb.Pos()), "each SvcParam is written exactly when its own field is set %v", foreign)
	// decoder: key -> field
	decField := map[int64]string{}
	for _, b := range dht.Blocks {
		for _, in := range b.Instrs {
			st, ok := in.(*ssa.Store)
			if !ok {
				continue
			}
			a := p.X(st.Addr)
			if a.Op != "field" || a.Args[0].Op != "new" {
				continue
			}
			for _, f := range p.Facts(b) {
				if f.Op == "==" && f.R != nil && f.R.Op == "const" {
					isKey := false
					for _, alt := range f.L.Alts() {
						if alt.Op == "out" && alt.Name == "(*cryptobyte.String).ReadUint16" {
							isKey = true
						}
					}
					if isKey {
						k, _ := f.R.ConstInt()
						decField[k] = a.Name
					}
				}
			}
		}
	}
	for _, s := range callSites(p, []*ssa.Function{dht}, `\(\*cryptobyte\.String\)\.ReadUint(8|16|32)`) {
		fa, ok := s.Instr.Common().Args[1].(*ssa.FieldAddr)
		if !ok {
			continue
		}
		for _, f := range p.Facts(s.Block()) {
			if f.Op == "==" && f.R != nil && f.R.Op == "const" {
				for _, alt := range f.L.Alts() {
					if alt.Op == "out" && alt.Name == "(*cryptobyte.String).ReadUint16" {
						k, _ := f.R.ConstInt()
						decField[k] = p.X(fa).Name
					}
				}
			}
		}
	}
	okKeys := asc && len(order) == 6
	for k, fld := range rfc9460Keys {
		if encField[k] != fld || decField[k] != fld {
			okKeys = false
		}
	}
	r.Tables["svcparam_keys"] = map[string]string{"encoder": fmt.Sprint(encField), "decoder": fmt.Sprint(decField), "encoder_order": fmt.Sprint(order)}
	r.Check("C13.RDATA", "HTTPS:keys", okKeys, p.Pos(dht.Pos()), "SvcParamKeys: encoder %v in order %v, decoder %v; RFC 9460 14.3.2: %v, ascending", encField, order, decField, rfc9460Keys)
	// value grammars
	wantVal := map[int64]string{1: "loop{ p8{ bytes:HTTPS.ALPN[] } }", 2: "", 3: "u16:HTTPS.Port", 4: "loop{ bytes:HTTPS.IPv4Hint[] }", 5: "bytes:HTTPS.ECH", 6: "loop{ bytes:HTTPS.IPv6Hint[] }"}
	okVal := true
	for k, w := range wantVal {
		if encKeys[k] != w {
			okVal = false
		}
	}
	r.Check("C13.RDATA", "HTTPS:encoder-values", okVal, p.Pos(rb.Pos()), "encoder value grammars: %v (alpn: uint8-prefixed ids, port: uint16, hints: concatenated addresses, ech: raw)", encKeys)
	// decoder: hint sizes and alpn
	sizes := map[string]string{}
	for _, s := range callSites(p, []*ssa.Function{dht}, `\(\*cryptobyte\.String\)\.ReadBytes`) {
		sizes[sinkBinding(p, dht, s.Instr.(*ssa.Call), s.Instr.Common().Args[1])] = s.X.Args[2].Name
	}
	for _, s := range callSites(p, []*ssa.Function{dht}, `\(\*cryptobyte\.String\)\.CopyBytes`) {
		bind, size, fresh := copyBytesSink(p, dht, s.Instr.(*ssa.Call))
		if !fresh {
			size += " into a buffer shared by all iterations (every list element aliases the last address read)"
		}
		sizes[bind] = size
	}
	r.Check("C13.RDATA", "HTTPS:decoder-hints", sizes["HTTPS.IPv4Hint[]"] == "4" && sizes["HTTPS.IPv6Hint[]"] == "16", p.Pos(dht.Pos()), "the decoder reads hints as 4- and 16-byte addresses: %v", sizes)
	decT := normTokens(parserTokens(p, dht, firstCursorOf(p, dht)))
	r.Check("C13.RDATA", "HTTPS:decoder-shape", strings.HasPrefix(decT, "u16:HTTPS.Priority call:name(HTTPS.Target) loop{ u16:") && strings.Contains(decT, "loop{ p8{ bytes:HTTPS.ALPN[] } }") && strings.Contains(decT, "u16:HTTPS.Port"), p.Pos(dht.Pos()), "decoder: priority, target name, then (key, uint16-prefixed value)*: %s", decT)
}

// copyBytesSink describes a CopyBytes(buf) read: where buf ends up, its
// length, and whether buf is allocated afresh in the loop iteration that reads.
func copyBytesSink(p *core.Prog, fn *ssa.Function, call *ssa.Call) (string, string, bool) {
	buf := call.Call.Args[1]
	size := "?"
	if k, ok := constSliceLen(p, buf); ok {
		size = fmt.Sprint(k)
	}
	var def ssa.Instruction
	switch b := buf.(type) {
	case *ssa.MakeSlice:
		def = b
	case *ssa.Slice:
		if al, ok := b.X.(*ssa.Alloc); ok {
			def = al
		}
	}
	fresh := def != nil && innermostLoop(fn, def.Block()) == innermostLoop(fn, call.Block())
	// where the buffer goes
	bind := "?"
	set := map[ssa.Value]bool{buf: true}
	for changed := true; changed; {
		changed = false
		for v := range set {
			if v.Referrers() == nil {
				continue
			}
			for _, ref := range *v.Referrers() {
				switch x := ref.(type) {
				case *ssa.ChangeType:
					if !set[x] {
						set[x], changed = true, true
					}
				case *ssa.Convert:
					if !set[x] {
						set[x], changed = true, true
					}
				case *ssa.Store:
					if x.Val != v {
						continue
					}
					if fa, ok := x.Addr.(*ssa.FieldAddr); ok {
						bind = fieldBinding(p, p.X(fa))
					}
					if ia, ok := x.Addr.(*ssa.IndexAddr); ok {
						if al, ok := ia.X.(*ssa.Alloc); ok {
							for _, r1 := range *al.Referrers() {
								sl, ok := r1.(*ssa.Slice)
								if !ok {
									continue
								}
								for _, r2 := range *sl.Referrers() {
									ap, ok := r2.(*ssa.Call)
									if !ok {
										continue
									}
									if fa3 := storedField(ap); fa3 != nil {
										bind = fieldBinding(p, p.X(fa3)) + "[]"
									}
								}
							}
						}
					}
				}
			}
		}
	}
	return bind, size, fresh
}

func firstCursorOf(p *core.Prog, fn *ssa.Function) ssa.Value {
	var root ssa.Value
	var first token.Pos
	for _, s := range callSites(p, []*ssa.Function{fn}, `\(\*cryptobyte\.String\)\.Read.*`) {
		if !first.IsValid() || s.Instr.Pos() < first {
			first, root = s.Instr.Pos(), cursorOf(p, s.Instr.Common().Args[0])
		}
	}
	return root
}

func keysOf(m map[string]bool) []string {
	var out []string
	for k := range m {
		out = append(out, k)
	}
	sort.Strings(out)
	return out
}

func c13Pointers(p *core.Prog, r *core.Run, nl *ssa.Function) {
	// the pointer test: (*s)[0] & 0xc0 == 0xc0
	var test *ssa.BasicBlock
	ptrSucc := 0 // which successor of the test is taken for a pointer
	for _, b := range nl.Blocks {
		if iff, ok := b.Instrs[len(b.Instrs)-1].(*ssa.If); ok {
			f := p.FactOf(core.Guard{Cond: iff.Cond, Pol: true, If: iff})
			if (f.Op == "==" || f.Op == "!=") && f.R != nil && f.R.Name == "192" && f.L.Op == "bin" && f.L.Name == "&" && f.L.Args[1].Name == "192" {
				test = b
				if f.Op == "!=" {
					ptrSucc = 1
				}
			}
		}
	}
	if test == nil {
		r.Check("C13.PTR", "pointer-test", false, p.Pos(nl.Pos()), "no test of the two top bits (0xc0) for compression pointers")
		return
	}
	// the label read
	var label *ssa.BasicBlock
	for _, s := range callSites(p, []*ssa.Function{nl}, `\(\*cryptobyte\.String\)\.ReadUint8LengthPrefixed`) {
		label = s.Block()
	}
	// a cycle through the pointer test that avoids the label read
	cyc := false
	seen := map[*ssa.BasicBlock]bool{}
	var walk func(b *ssa.BasicBlock)
	walk = func(b *ssa.BasicBlock) {
		for _, s := range b.Succs {
			if s == label {
				continue
			}
			if s == test {
				cyc = true
			}
			if !seen[s] {
				seen[s] = true
				walk(s)
			}
		}
	}
	walk(test.Succs[ptrSucc])
	if test.Succs[ptrSucc] == test {
		cyc = true
	}
	r.Check("C13.PTR", "pointer-chain", cyc && label != nil, p.InstrPos(test.Instrs[len(test.Instrs)-1]), "after following a pointer the decoder tests for a pointer again before reading a label, so a pointer to a pointer (allowed by RFC 1035 4.1.4) is followed")
	// offset mask and backwards test
	mask := false
	back := false
	for _, b := range nl.Blocks {
		for _, in := range b.Instrs {
			if bo, ok := in.(*ssa.BinOp); ok && bo.Op == token.AND {
				if c, ok := bo.Y.(*ssa.Const); ok && c.Int64() == 0x3fff {
					mask = true
				}
			}
		}
		if iff, ok := b.Instrs[len(b.Instrs)-1].(*ssa.If); ok {
			x := p.X(iff.Cond)
			if x.Op == "bin" && strings.Contains(x.String(), "unsafe.Pointer") {
				// on the edge that abandons the name (it leads straight to an error
				// return) the test says target >= current, however it is spelled
				for si, succ := range b.Succs {
					ret, isRet := succ.Instrs[len(succ.Instrs)-1].(*ssa.Return)
					if !isRet || lastResultNil(ret) || b.Succs[0] == b.Succs[1] {
						continue
					}
					f := p.FactOf(core.Guard{Cond: iff.Cond, Pol: si == 0, If: iff})
					if f.R == nil {
						continue
					}
					tgt, cur, op := f.L, f.R, f.Op
					if op == "<=" || op == "<" {
						tgt, cur, op = cur, tgt, map[string]string{"<=": ">=", "<": ">"}[op]
					}
					if op == ">=" && strings.Contains(tgt.String(), ".raw[") && !strings.Contains(cur.String(), ".raw[") {
						back = true
					}
				}
			}
		}
	}
	r.Check("C13.PTR", "pointer-offset", mask && back, p.Pos(nl.Pos()), "the offset is the low 14 bits (0x3fff: %v) and must lie before the pointer itself (%v)", mask, back)
}

func c13Padding(p *core.Prog, r *core.Run, pad, mb *ssa.Function, rbS string) {
	// option overhead from the OPT encoder
	h := int64(0)
	if strings.Contains(rbS, "loop{ u16:Option.Code p16{ bytes:Option.Data } }") {
		h = 2 + 2
	}
	var size *ssa.MakeSlice
	for _, b := range pad.Blocks {
		for _, in := range b.Instrs {
			if ms, ok := in.(*ssa.MakeSlice); ok {
				size = ms
			}
		}
	}
	if size == nil || h == 0 {
		r.Check("C13.PAD", "size-expression", false, p.Pos(pad.Pos()), "padding size expression or option overhead not found")
		return
	}
	e := p.X(size.Len)
	var lnode *core.Expr
	e.Walk(func(x *core.Expr) bool {
		if x.Op == "call" && x.Name == "len" && x.Args[0].Op == "call" && x.Args[0].Fn == mb {
			lnode = x
			return false
		}
		return true
	})
	if lnode == nil {
		r.Check("C13.PAD", "measured-length", false, p.InstrPos(size), "the padding size is not computed from len(m.Bytes()) of the message being padded (it is %s): any other estimate of the encoded length must agree with the encoder for every name form", short(e))
		return
	}
	onlyL := true
	for _, l := range e.Leaves() {
		if l.Op == "const" {
			continue
		}
		if !lnode.Any(func(x *core.Expr) bool { return x == l }) {
			onlyL = false
		}
	}
	bad := ""
	n := 0
	for L := int64(0); L <= 65535; L++ {
		f, ok := evalInt(p, e, func(x *core.Expr) (int64, bool) {
			if x == lnode {
				return L, true
			}
			return 0, false
		})
		if !ok {
			bad = "cannot evaluate"
			break
		}
		if f < 0 || f >= 128 || (L+h+f)%128 != 0 {
			bad = fmt.Sprintf("L=%d gives %d", L, f)
			break
		}
		n++
	}
	r.Check("C13.PAD", "size-expression", bad == "" && onlyL, p.InstrPos(size), "f(L) = %s gives (L + %d + f(L)) mod 128 = 0 with 0 <= f(L) < 128 for all %d values of L = len(m.Bytes()) %s", short(e), h, n, bad)
	// stale option removed before measuring
	var bytesCall ssa.Instruction
	for _, s := range allCalls(p, []*ssa.Function{pad}) {
		if s.X.Fn == mb {
			bytesCall = s.Instr
		}
	}
	removed := false
	for _, b := range pad.Blocks {
		for _, in := range b.Instrs {
			st, ok := in.(*ssa.Store)
			if !ok {
				continue
			}
			a := p.X(st.Addr)
			v := p.X(st.Val)
			if a.Op == "field" && a.Name == "Data" && v.Op == "call" && v.Name == "slices.DeleteFunc" && bytesCall != nil && core.Before(st, bytesCall) {
				if cl := v.Args[1]; cl.Fn != nil {
					for _, ret := range core.Returns(cl.Fn) {
						x := p.X(ret.Results[0])
						if x.Op == "bin" && x.Name == "==" && x.Args[0].Name == "Code" && x.Args[1].Name == "12" {
							removed = true
						}
					}
				}
			}
		}
	}
	r.Check("C13.PAD", "stale-padding-removed", removed, p.Pos(pad.Pos()), "an existing padding option (code 12) is removed, and the result stored, before the length is measured")
	// the new option: code 12 with that size
	okOpt := false
	for _, b := range pad.Blocks {
		for _, in := range b.Instrs {
			if st, ok := in.(*ssa.Store); ok {
				a := p.X(st.Addr)
				if a.Op == "field" && a.Name == "Code" && p.X(st.Val).Name == "12" {
					okOpt = true
				}
			}
		}
	}
	r.Check("C13.PAD", "padding-option", okOpt, p.Pos(pad.Pos()), "the appended option has code 12 (RFC 7830)")
}

func c13RCode(p *core.Prog, r *core.Run, rc *ssa.Function, rule string) {
	// the result: one expression with alternatives, or one return per alternative
	e := &core.Expr{Op: "phi"}
	seenAlt := map[string]bool{}
	for _, ret := range core.Returns(rc) {
		for _, a := range p.X(ret.Results[0]).Alts() {
			if !seenAlt[a.String()] {
				seenAlt[a.String()] = true
				e.Args = append(e.Args, a)
			}
		}
	}
	if len(e.Args) == 0 {
		r.Check(rule, "expression", false, p.Pos(rc.Pos()), "no result expression")
		return
	}
	// alternatives: without OPT (low bits only) and with OPT
	bad := ""
	n := 0
	for _, alt := range e.Alts() {
		usesTTL := alt.Any(func(x *core.Expr) bool { return x.Op == "field" && x.Name == "TTL" })
		for rcode := int64(0); rcode < 256; rcode++ {
			for hi := int64(0); hi < 256; hi += 1 {
				ttl := hi<<24 | 0x00abcdef
				v, ok := evalInt(p, alt, func(x *core.Expr) (int64, bool) {
					if x.Op == "field" && x.Name == "RCode" {
						return rcode, true
					}
					if x.Op == "field" && x.Name == "TTL" {
						return ttl, true
					}
					return 0, false
				})
				want := rcode & 0xf
				if usesTTL {
					want |= hi << 4
				}
				if !ok {
					bad = "cannot evaluate " + short(alt)
				} else if v != want {
					bad = fmt.Sprintf("rcode=%d ttl=0x%08x gives %d, want %d", rcode, ttl, v, want)
				}
				n++
				if !usesTTL {
					break
				}
			}
			if bad != "" {
				break
			}
		}
	}
	r.Check(rule, "expression", bad == "" && len(e.Alts()) == 2, p.Pos(rc.Pos()), "ResponseCode = low 4 bits of the header rcode, extended by the top 8 bits of the OPT TTL shifted left by 4 (RFC 6891 6.1.3), checked on %d inputs %s", n, bad)
	// the short form (header bits only) is what is returned when the message has
	// no OPT record - and only then: with one, its upper bits always count (an
	// extended code like BADVERS has zero header bits)
	for i, ret := range core.Returns(rc) {
		noTTL := true
		x := p.X(ret.Results[0])
		// (evaluated per way the value gets to the return)
		var ways []struct {
			e  *core.Expr
			fs []core.Fact
		}
		if ph, ok := ret.Results[0].(*ssa.Phi); ok {
			for k, ed := range ph.Edges {
				ways = append(ways, struct {
					e  *core.Expr
					fs []core.Fact
				}{p.X(ed), append(p.EdgeFacts(ph.Block().Preds[k], ph.Block()), p.Facts(ret.Block())...)})
			}
		} else {
			ways = append(ways, struct {
				e  *core.Expr
				fs []core.Fact
			}{x, p.Facts(ret.Block())})
		}
		for k, w := range ways {
			noTTL = !w.e.Any(func(y *core.Expr) bool { return y.Op == "field" && y.Name == "TTL" })
			if !noTTL {
				continue
			}
			noOpt := false
			for _, f := range w.fs {
				if f.L.Op == "call" && (f.L.Name == "slices.IndexFunc" || f.L.Name == "slices.Index") && f.R != nil {
					if kk, isK := f.R.ConstInt(); isK && (f.Op == "<" && kk == 0 || f.Op == "==" && kk == -1 || f.Op == "<=" && kk == -1) {
						noOpt = true
					}
				}
			}
			// the search written as a loop: this way out lies behind the loop over
			// the additional section having run dry, and every way round that
			// loop saw a record that is not an OPT record
			if !noOpt {
				for h, body := range core.Loops(rc) {
					iff, isIf := h.Instrs[len(h.Instrs)-1].(*ssa.If)
					if !isIf || body[ret.Block()] || !h.Dominates(ret.Block()) {
						continue
					}
					hf := p.FactOf(core.Guard{Cond: iff.Cond, Pol: true, If: iff})
					if !(hf.Op == "<" && hf.R != nil && hf.R.Op == "call" && hf.R.Name == "len" && hf.R.Args[0].Op == "field" && hf.R.Args[0].Name == "Additional") {
						continue
					}
					dry := false
					nf := p.FactOf(core.Guard{Cond: iff.Cond, Pol: false, If: iff})
					for _, f := range w.fs {
						if f.String() == nf.String() {
							dry = true
						}
						// the search result merged into one variable, tested for
						// "not found": idx := φ{i where Additional[i].Type == 41 | -1
						// after the loop ran dry}, and this way lies under idx < 0
						ph, isPhi := f.L.Val.(*ssa.Phi)
						kk, isK := int64(0), false
						if f.R != nil {
							kk, isK = f.R.ConstInt()
						}
						if isPhi && isK && (f.Op == "<" && kk == 0 || f.Op == "==" && kk == -1 || f.Op == "<=" && kk == -1) {
							okPhi := len(ph.Edges) >= 2
							for j, ed := range ph.Edges {
								pred := ph.Block().Preds[j]
								efs := append(p.EdgeFacts(pred, ph.Block()), p.Facts(pred)...)
								if c, isC := ed.(*ssa.Const); isC && c.Value != nil && c.Int64() == -1 {
									ranDry := false
									for _, ef := range efs {
										if ef.String() == nf.String() {
											ranDry = true
										}
									}
									okPhi = okPhi && ranDry
									continue
								}
								found := false
								for _, ef := range efs {
									if ef.Op == "==" && ef.R != nil && ef.R.Name == "41" && ef.L.Op == "field" && ef.L.Name == "Type" && ef.L.Args[0].Op == "index" && ef.L.Args[0].Args[1].String() == p.X(ed).String() {
										found = true
									}
								}
								okPhi = okPhi && found
							}
							if okPhi {
								dry = true
							}
						}
					}
					allNot := true
					for b := range body {
						for _, s := range b.Succs {
							if s != h || b == h {
								continue
							}
							not41 := false
							for _, f := range p.EdgeFacts(b, h) {
								if f.Op == "!=" && f.R != nil && f.R.Name == "41" && f.L.Op == "field" && f.L.Name == "Type" {
									not41 = true
								}
							}
							if !not41 {
								allNot = false
							}
						}
					}
					if dry && allNot {
						noOpt = true
					}
				}
			}
			r.Check(rule, fmt.Sprintf("short-form-only-without-OPT#%d.%d", i, k), noOpt, p.InstrPos(ret), "the header-bits-only value is returned only when no OPT record was found: %s", short(w.e))
		}
	}
}

// c13DecoderStateless: the decoder is the message's bytes and nothing else.
// Its methods write nothing that is reachable from their receiver, so what
// one name, record or section of a message decodes to does not depend on what
// was decoded before it (a budget, a position or a buffer kept in the decoder
// would make a valid encoding fail, or decode differently, depending on its
// neighbours).
func c13DecoderStateless(p *core.Prog, r *core.Run, nl *ssa.Function) {
	recvOf := func(fn *ssa.Function) *types.Named {
		if fn.Signature.Recv() == nil {
			return nil
		}
		n, _ := deref2(fn.Signature.Recv().Type()).(*types.Named)
		return n
	}
	dt := recvOf(nl)
	if dt == nil {
		r.Undecided("C13.NAMES", "decoder:stateless", p.Pos(nl.Pos()), "nameLabels is not a method")
		return
	}
	nM, nBad := 0, 0
	for _, fn := range p.PkgFuncs(DNS) {
		root := core.Root(fn)
		if recvOf(root) == nil || recvOf(root).Obj() != dt.Obj() || len(root.Params) == 0 {
			continue
		}
		if fn == root {
			nM++
		}
		for _, b := range fn.Blocks {
			for _, in := range b.Instrs {
				var why string
				if fn == root {
					why = writesThrough(p, in, root.Params[0])
				} else if st, ok := in.(*ssa.Store); ok {
					// a literal of the method: through the captured receiver
					a := p.X(st.Addr)
					if a.Any(func(e *core.Expr) bool { return e.Val == ssa.Value(root.Params[0]) }) && !localCopy(a) && p.CellRoot(st.Addr) == nil {
						why = "store to " + short(a)
					}
				}
				if why != "" {
					nBad++
					r.Check("C13.NAMES", fmt.Sprintf("decoder:stateless#%d", nBad), false, p.InstrPos(in), "%s writes state that outlives the call (%s): decoding one part of a message would depend on the parts decoded before", p.FuncName(fn), why)
				}
			}
		}
	}
	r.Check("C13.NAMES", "decoder:stateless", nBad == 0 && nM >= 4, p.Pos(nl.Pos()), "methods of the decoder examined: %d; writes through the receiver: %d", nM, nBad)
}
