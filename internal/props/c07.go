package props

import (
	"fmt"
	"go/token"
	"go/types"
	"strings"

	"verif/third_party/xtools/go/ssa"

	"verif/internal/core"
)

func init() {
	register(&Property{
		ID: "C07",
		Info: core.Info{
			Explanation: "Decides the structural reasons why a Conn is a lossless, order-preserving pipe; equality of the byte streams for all chunkings and cut points is NOT decided (that quantifies over schedules and inputs and needs execution or model checking): " +
				"(B1) the only test of the TLS record length, in the record reader and in Write, compares exactly the 16-bit length field with a constant >= 2^14+256, and the reader's buffer is at least 5 bytes larger than that constant; " +
				"(B2) consumption pairing and ownership: readBuf is advanced by exactly the count returned by the copy() that delivered its prefix into the caller's buffer; writeBuf is advanced by exactly the count returned by the Conn.Write of its prefix [:sz] with sz = 5 + record length; census of every store to the two buffers, none of which may alias the caller's slice; " +
				"(B3) deferred error: the partial record read before a transport error is still stored into readBuf, an error kept in readErr is returned only when readBuf is empty (with the last bytes or on the next call), and readErr is only written while it is nil (sticky); no way round Read discards bytes that are already in readBuf; " +
				"(B4) every nil-error return of Write is the direct passthrough or len(b); the record loop is left only when fewer than 5 bytes or less than one whole record remain, or with an error; " +
				"(B5) passthrough directness (C05.P4).",
			Assumptions: []string{"copy returns the number of bytes copied; net.Conn.Write returns 0 <= n <= len(p)"},
		},
		Rules: c07Rules,
	})
}

func c07Rules(p *core.Prog, r *core.Run) {
	m := newEchModel(p)
	if !m.ok(r, "C07.model") {
		return
	}
	rr := p.Func(Ech, "readRecord")
	r.Analysed(p.FuncName(m.read), p.FuncName(m.write), p.FuncName(rr))
	recordLimit(p, r, m, "C07.B1")
	pkg := p.PkgFuncs(Ech)

	// --- B2: buffers
	c07Buffers(p, r, m, "C07.B2")
	transportCensus(p, r, m, "C07.B4")

	// a truncated record that came with an error is queued, never parsed: the
	// retry-mode entry conditions of C06 (no read error, ...)
	c06State(p, r, m, "C07.retry")

	// --- B3
	rd := m.read
	readErr := m.fConn["readErr"]
	for i, st := range fieldStores(p, pkg, readErr) {
		key := fmt.Sprintf("readErr:store#%d", i)
		if core.Root(st.Parent()) != rd {
			r.Check("C07.B3", key, false, p.InstrPos(st), "readErr written outside Read")
			continue
		}
		sticky := false
		for _, f := range p.Facts(st.Block()) {
			if f.Op == "==" && f.R.Name == "nil" && f.L.Op == "field" && f.L.Obj == readErr {
				sticky = true
			}
		}
		r.Check("C07.B3", key, sticky, p.InstrPos(st), "readErr is written only while it is nil (a reported error is never overwritten): value %s", short(p.X(st.Val)))
		// after storing a transport error the partial record is still stored
		if ex, ok := st.Val.(*ssa.Extract); ok {
			if c, ok := ex.Tuple.(*ssa.Call); ok && p.X(c).Name == "ech.readRecord" {
				kept := false
				for _, bs := range fieldStores(p, []*ssa.Function{rd}, m.fConn["readBuf"]) {
					if bs.Block() == st.Block() && core.InstrIndex(bs) > core.InstrIndex(st) {
						kept = p.X(bs.Val).String() == "ech.readRecord(p0.Conn)#0"
					}
					// or in the unique successor, as the φ input of this edge
					if len(st.Block().Succs) == 1 && bs.Block() == st.Block().Succs[0] {
						if phi, ok := bs.Val.(*ssa.Phi); ok {
							for k, pr := range phi.Block().Preds {
								if pr == st.Block() {
									e := p.X(phi.Edges[k])
									kept = e.Op == "ext" && e.Name == "#0" && e.Args[0].Name == "ech.readRecord"
								}
							}
						} else {
							e := p.X(bs.Val)
							kept = e.Op == "ext" && e.Name == "#0" && e.Args[0].Name == "ech.readRecord"
						}
					}
				}
				r.Check("C07.B3", "Read:partial-record-kept", kept, p.InstrPos(st), "on a transport error the bytes received so far are still put into readBuf for delivery")
			}
		}
	}
	// no way out of Read between taking a record off the transport and putting
	// it (or what replaces it) into readBuf - except the abort of a retried hello
	// the handler refused: whatever the transport delivered reaches the caller
	for _, rc := range callSites(p, []*ssa.Function{rd}, `ech\.readRecord`) {
		after := core.Reachable(rc.Block(), nil)
		for i, ret := range core.Returns(rd) {
			if !after[ret.Block()] || !core.Before(rc.Instr, ret) {
				continue
			}
			stored := false
			for _, st := range fieldStores(p, []*ssa.Function{rd}, m.fConn["readBuf"]) {
				if core.Before(rc.Instr, st) && (st.Block() == ret.Block() && core.Before(st, ret) || st.Block().Dominates(ret.Block())) {
					stored = true
				}
			}
			refused := false
			for _, f := range p.Facts(ret.Block()) {
				if f.Op == "!=" && f.R != nil && f.R.Name == "nil" && f.L.Op == "ext" && f.L.Args[0].Op == "call" && f.L.Args[0].Fn == m.handle {
					refused = true
				}
			}
			r.Check("C07.B3", fmt.Sprintf("Read:no-drop#%d", i), stored || refused, p.InstrPos(ret), "this return of Read follows a readRecord call: the record (or the part that arrived before an error) was put into readBuf first (%v), or the handler refused a retried hello (%v)", stored, refused)
		}
	}
	directionOwnership(p, r, m, "C07.B4")
	// Write reports success only after it has looked at everything buffered:
	// every success return is the passthrough write's own result or lies behind
	// the record loop (a shortcut in front of the loop, taken on remembered
	// state, can hold back complete records)
	{
		var hdr *ssa.BasicBlock
		var body map[*ssa.BasicBlock]bool
		for h, b := range core.Loops(m.write) {
			for blk := range b {
				for _, in := range blk.Instrs {
					if c, ok := in.(ssa.CallInstruction); ok && c.Common().StaticCallee() != nil && c.Common().StaticCallee().Name() == "inspectWrite" {
						hdr, body = h, b
					}
				}
			}
		}
		if hdr == nil {
			// the inspector inlined: the loop that slices writeBuf
			for h, b := range core.Loops(m.write) {
				for _, st := range fieldStores(p, []*ssa.Function{m.write}, m.fConn["writeBuf"]) {
					if b[st.Block()] {
						hdr, body = h, b
					}
				}
			}
		}
		if hdr == nil {
			r.Undecided("C07.B4", "Write:record-loop", p.Pos(m.write.Pos()), "no record loop found in Write")
		} else {
			for i, ret := range core.Returns(m.write) {
				if !lastResultNil(ret) {
					continue
				}
				direct := false
				for _, a := range p.X(ret.Results[0]).Alts() {
					if a.Op == "ext" && a.Args[0].Op == "call" && strings.HasSuffix(a.Args[0].Name, ".Write") {
						direct = true
					}
				}
				after := hdr.Dominates(ret.Block()) && !body[ret.Block()]
				r.Check("C07.B4", fmt.Sprintf("Write:success#%d", i), direct || after, p.InstrPos(ret), "a successful return of Write is the direct write's own result (%v) or comes after the record loop has run out (%v)", direct, after)
			}
		}
	}
	refusedNotBuffered(p, r, m, "C07.B3")
	nErrRet := 0
	// (the error returned may have been selected beforehand - `var err error;
	// if len(c.readBuf) == 0 { err = c.readErr }; return n, err` - each way the
	// value gets to the return counts with the conditions of that way)
	type errAlt struct {
		ret *ssa.Return
		fs  []core.Fact
	}
	var alts []errAlt
	for _, ret := range core.Returns(rd) {
		var expand func(v ssa.Value, fs []core.Fact, depth int)
		expand = func(v ssa.Value, fs []core.Fact, depth int) {
			if ph, ok := v.(*ssa.Phi); ok && depth < 3 {
				for i, e := range ph.Edges {
					expand(e, append(append([]core.Fact{}, fs...), p.EdgeFacts(ph.Block().Preds[i], ph.Block())...), depth+1)
				}
				return
			}
			if e := p.X(v); e.Op == "field" && e.Obj == readErr {
				alts = append(alts, errAlt{ret, fs})
			}
		}
		expand(retErr(ret), p.Facts(ret.Block()), 0)
	}
	for _, alt := range alts {
		ret := alt.ret
		nErrRet++
		empty := false
		for _, f := range alt.fs {
			if f.L.Op == "call" && f.L.Name == "len" && f.L.Args[0].Op == "field" && f.L.Args[0].Obj == m.fConn["readBuf"] && f.R != nil && f.R.Name == "0" && (f.Op == "==" || f.Op == "<=") {
				// the length tested must be read after the last store to readBuf in this function on the way
				empty = true
			}
		}
		r.Check("C07.B3", fmt.Sprintf("Read:deferred-error-return#%d", nErrRet), empty, p.InstrPos(ret), "the deferred error is returned only when readBuf is empty (all received bytes were delivered first)")
	}
	r.Check("C07.B3", "Read:deferred-error-returns", nErrRet >= 2, p.Pos(rd.Pos()), "the deferred error is returned with the last bytes and on the following call (%d returns)", nErrRet)
	r.Floor("C07.B3", 5)

	// B3 in the record reader itself: whatever was read before an error is returned with it
	if rr != nil {
		var fulls []*ssa.Call
		for _, s := range callSites(p, []*ssa.Function{rr}, `io\.ReadFull`) {
			fulls = append(fulls, s.Instr.(*ssa.Call))
		}
		for i, ret := range core.Returns(rr) {
			v := p.X(ret.Results[0])
			// expected: buffer[:sum of the counts of the ReadFull calls that precede this return]
			var want []ssa.Value
			for _, f := range fulls {
				if core.Before(f, ret) {
					want = append(want, f)
				}
			}
			ok := v.Op == "slice" && v.Args[1].Name == "_"
			if ok {
				hi := v.Args[2]
				got := map[ssa.Value]bool{}
				hi.Walk(func(e *core.Expr) bool {
					if e.Op == "ext" && e.Name == "#0" && e.Args[0].Name == "io.ReadFull" {
						got[e.Args[0].Val] = true
					}
					return e.Op == "bin" && e.Name == "+" || e.Op == "ext"
				})
				for _, w := range want {
					if !got[w] {
						ok = false
					}
				}
				if len(got) != len(want) {
					ok = false
				}
			}
			r.Check("C07.B3", fmt.Sprintf("readRecord:return#%d", i), ok, p.InstrPos(ret), "the record reader returns, also with an error, every byte it has read so far (buffer[:n] after the header read, buffer[:n+nn] after the body read): %s", short(v))
		}
	}

	// --- B4
	wr := m.write
	for i, ret := range core.Returns(wr) {
		if !lastResultNil(ret) {
			continue
		}
		n := p.X(ret.Results[0])
		ok := n.Op == "call" && n.Name == "len" && n.Args[0].Op == "param" && n.Args[0].Name == "p1"
		r.Check("C07.B4", fmt.Sprintf("Write:nil-error-return#%d", i), ok, p.InstrPos(ret), "a buffered Write that succeeds reports len(b): %s", short(n))
	}
	for h, body := range core.Loops(wr) {
		for b := range body {
			for _, s := range b.Succs {
				if body[s] {
					continue
				}
				key := fmt.Sprintf("Write:loop-exit b%d->b%d", b.Index, s.Index)
				fs := p.EdgeFacts(b, s)
				isRet := false
				if ret, ok := s.Instrs[len(s.Instrs)-1].(*ssa.Return); ok && !lastResultNil(ret) {
					isRet = true
				}
				short5, incomplete := false, false
				if len(fs) > 0 {
					f := fs[0]
					if f.Op == "<" && f.R.Name == "5" && f.L.Op == "call" && f.L.Name == "len" {
						short5 = b == h
					}
					for _, g := range []core.Fact{f, f.Flipped()} {
						if g.Op == ">" && isRecordSize(m, g.L, "writeBuf") && g.R.Op == "call" && g.R.Name == "len" {
							incomplete = true
						}
					}
				}
				r.Check("C07.B4", key, isRet || short5 || incomplete, p.InstrPos(b.Instrs[len(b.Instrs)-1]), "the record loop is left with an error (%v), with fewer than 5 bytes pending (%v) or with less than one whole record pending (%v)", isRet, short5, incomplete)
			}
		}
	}
	r.Floor("C07.B4", 3)

	// --- B5
	c05Direct(p, r, m, "C07.B5")
}

// isRecordSize recognises int(uint16 length field of buf) + 5.
func isRecordSize(m *echModel, e *core.Expr, buf string) bool {
	if e.Op != "bin" || e.Name != "+" {
		return false
	}
	a, b := e.Args[0], e.Args[1]
	if a.Op == "const" {
		a, b = b, a
	}
	if b.Name != "5" {
		return false
	}
	for a.Op == "conv" {
		a = a.Args[0]
	}
	return isLengthField(a)
}

// isLengthField recognises (uint32(x[3]) << 8) | uint32(x[4]).
func isLengthField(e *core.Expr) bool {
	for e.Op == "conv" {
		e = e.Args[0]
	}
	// binary.BigEndian.Uint16(x[3:5])
	if e.Op == "call" && strings.HasSuffix(e.Name, "bigEndian).Uint16") && len(e.Args) >= 1 {
		a := e.Args[len(e.Args)-1]
		return a.Op == "slice" && len(a.Args) >= 3 && a.Args[1].Name == "3" && a.Args[2].Name == "5"
	}
	if e.Op != "bin" || e.Name != "|" {
		return false
	}
	hi, lo := e.Args[0], e.Args[1]
	if hi.Op != "bin" || hi.Name != "<<" {
		hi, lo = lo, hi
	}
	if hi.Op != "bin" || hi.Name != "<<" || hi.Args[1].Name != "8" {
		return false
	}
	idx := func(x *core.Expr, k string) bool {
		for x.Op == "conv" {
			x = x.Args[0]
		}
		return x.Op == "index" && x.Args[1].Name == k
	}
	return idx(hi.Args[0], "3") && idx(lo, "4")
}

// recordLimit implements B1 (shared with C01.recsize and C08).
func recordLimit(p *core.Prog, r *core.Run, m *echModel, rule string) {
	const want = 16384 + 256
	rr := p.Func(Ech, "readRecord")
	if rr == nil {
		r.Undecided(rule, "readRecord", "-", "function not found")
		return
	}
	fullReads(p, r, rr, rule)
	// the record reader refuses a record for one reason only, its length: any
	// record type, known or not, is passed on (the stream is the peer's)
	nMade := 0
	for _, ret := range core.Returns(rr) {
		e := p.X(retErr(ret))
		made := false
		for _, a := range e.Alts() {
			if a.Op == "call" && (a.Name == "fmt.Errorf" || a.Name == "errors.New") || a.Op == "global" && strings.HasPrefix(a.Name, "ech.") {
				made = true
			}
		}
		if made {
			nMade++
		}
	}
	r.Check(rule, "readRecord:one-refusal", nMade == 1, p.Pos(rr.Pos()), "the record reader makes an error of its own in one place, the length limit (found %d); everything else it returns is the transport's error", nMade)
	for _, fn := range []*ssa.Function{rr, m.write} {
		n := 0
		for _, b := range fn.Blocks {
			iff, ok := b.Instrs[len(b.Instrs)-1].(*ssa.If)
			if !ok {
				continue
			}
			f := p.FactOf(core.Guard{Cond: iff.Cond, Pol: true, If: iff})
			if f.R == nil {
				continue
			}
			k, isK := f.R.ConstInt()
			if !isK || k < 1000 {
				continue
			}
			// a comparison with a large constant: must be exactly the length field
			n++
			key := fmt.Sprintf("%s:limit-test", p.FuncName(fn))
			if !isLengthField(f.L) {
				r.Check(rule, key, false, p.InstrPos(iff), "the record limit %d is compared with %s rather than with the 16-bit record length itself, so the largest accepted record is not the constant", k, short(f.L))
				continue
			}
			maxOK := int64(-1)
			var errEdge *ssa.BasicBlock
			switch f.Op {
			case ">":
				maxOK, errEdge = k, b.Succs[0]
			case ">=":
				maxOK, errEdge = k-1, b.Succs[0]
			case "<=":
				maxOK, errEdge = k, b.Succs[1]
			case "<":
				maxOK, errEdge = k-1, b.Succs[1]
			}
			isErr := false
			if errEdge != nil {
				if ret, ok := errEdge.Instrs[len(errEdge.Instrs)-1].(*ssa.Return); ok && !lastResultNil(ret) {
					isErr = true
				}
			}
			r.Check(rule, key, maxOK >= want && isErr, p.InstrPos(iff), "largest accepted TLSCiphertext.length is %d (RFC 8446 5.2 allows 2^14+256 = %d); longer records are refused with an error (%v)", maxOK, want, isErr)
			if fn == rr {
				// buffer
				size := int64(-1)
				for _, bb := range fn.Blocks {
					for _, in := range bb.Instrs {
						switch a := in.(type) {
						case *ssa.Alloc:
							if at, ok := a.Type().Underlying().(*types.Pointer).Elem().Underlying().(*types.Array); ok {
								if bt, ok := at.Elem().(*types.Basic); ok && bt.Kind() == types.Uint8 {
									size = at.Len()
								}
							}
						case *ssa.MakeSlice:
							if c, ok := a.Len.(*ssa.Const); ok {
								size = c.Int64()
							}
						}
					}
				}
				r.Check(rule, "readRecord:buffer", size >= maxOK+5, p.Pos(fn.Pos()), "the record buffer holds %d bytes, header (5) plus the largest accepted record (%d) need %d", size, maxOK, maxOK+5)
			}
		}
		r.Check(rule, p.FuncName(fn)+":limit-tests", n == 1, p.Pos(fn.Pos()), "exactly one record-length limit test (found %d)", n)
	}
}

// transportCensus: every byte between the peers passes through Read and Write
// of the Conn: (1) the Conn declares no method that lets a copier go round
// them (io.Copy prefers ReadFrom/WriteTo when the destination/source has them);
// (2) the embedded transport is used only for: reading a record (readRecord),
// the passthrough read in Read, writes in Write, and being closed or given
// deadlines; it is not handed to anything else and not converted to another
// interface. Reported under C07 (pipe), C01 and C06 (a HelloRetryRequest that
// does not pass through Write is not seen).
func transportCensus(p *core.Prog, r *core.Run, m *echModel, rule string) {
	// (1) methods
	connT := m.fConn["readBuf"]
	_ = connT
	var connType *types.Named
	if m.read.Signature.Recv() != nil {
		if pt, ok := m.read.Signature.Recv().Type().(*types.Pointer); ok {
			connType, _ = pt.Elem().(*types.Named)
		}
	}
	if connType == nil {
		r.Undecided(rule, "transport:methods", p.Pos(m.read.Pos()), "cannot determine the Conn type")
		return
	}
	bypass := ""
	for i := 0; i < connType.NumMethods(); i++ {
		switch n := connType.Method(i).Name(); n {
		case "ReadFrom", "WriteTo", "WriteString", "ReadByte", "WriteByte", "SyscallConn", "File", "NetConn":
			bypass += " " + n
		}
	}
	r.Check(rule, "transport:no-bypass-method", bypass == "", p.Pos(m.read.Pos()), "the Conn declares no method through which a copier or a caller reaches the transport past Read and Write:%s", bypass)
	// (2) uses of the embedded transport
	tf := m.fConn["Conn"]
	if tf == nil {
		r.Undecided(rule, "transport:uses", p.Pos(m.read.Pos()), "embedded transport field not found")
		return
	}
	n := 0
	for _, fn := range p.PkgFuncs(Ech) {
		for _, b := range fn.Blocks {
			for _, in := range b.Instrs {
				ld, ok := in.(*ssa.UnOp)
				if !ok || ld.Op != token.MUL {
					continue
				}
				fa, ok := ld.X.(*ssa.FieldAddr)
				if !ok || fieldVar(fa) != tf {
					continue
				}
				for _, ref := range *ld.Referrers() {
					n++
					root := core.Root(fn)
					okUse, what := false, fmt.Sprintf("%T", ref)
					switch u := ref.(type) {
					case ssa.CallInstruction:
						c := u.Common()
						switch {
						case c.IsInvoke() && c.Value == ssa.Value(ld):
							what = "method " + c.Method.Name()
							switch c.Method.Name() {
							case "Read":
								okUse = root == m.read
							case "Write":
								okUse = root == m.write
							case "Close", "SetDeadline", "SetReadDeadline", "SetWriteDeadline", "LocalAddr", "RemoteAddr":
								okUse = true
							}
						default:
							what = "argument of " + p.CallExpr(u).Name
							okUse = p.CallExpr(u).Name == "ech.readRecord" && root == m.read
						}
					case *ssa.DebugRef:
						n--
						continue
					case *ssa.TypeAssert:
						what = "conversion to " + u.AssertedType.String()
					case *ssa.ChangeInterface, *ssa.MakeInterface:
						what = "conversion to another interface"
					}
					r.Check(rule, fmt.Sprintf("transport:use@%s:%s", p.FuncName(root), what), okUse, p.InstrPos(ref), "the transport is used by %s in %s (allowed: readRecord and the passthrough read in Read, writes in Write, Close and deadlines)", what, p.FuncName(root))
				}
			}
		}
	}
	r.Check(rule, "transport:uses", n >= 3, p.Pos(m.read.Pos()), "%d uses of the embedded transport examined", n)
}

// directionOwnership: each direction's state is consulted by that direction
// only (the read side's deferred error must not decide what Write does - the
// alert for a refused retried hello is written after readErr was set).
// Reported under C07, and under C06/C04 because a Write that gives up on the
// read side's error swallows the alert of a refused second hello.
func directionOwnership(p *core.Prog, r *core.Run, m *echModel, rule string) {
	pkg := p.PkgFuncs(Ech)
	for _, own := range []struct {
		field string
		owner *ssa.Function
	}{{"readErr", m.read}, {"readBuf", m.read}, {"writeBuf", m.write}} {
		nLd := 0
		for _, fn := range pkg {
			for _, b := range fn.Blocks {
				for _, in := range b.Instrs {
					ld, ok := in.(*ssa.UnOp)
					if !ok || ld.Op != token.MUL {
						continue
					}
					fa, ok := ld.X.(*ssa.FieldAddr)
					if !ok || fieldVar(fa) != m.fConn[own.field] {
						continue
					}
					nLd++
					if core.Root(fn) != own.owner {
						r.Check(rule, fmt.Sprintf("owner:%s@%s", own.field, p.FuncName(core.Root(fn))), false, p.InstrPos(ld), "%s is read in %s; it belongs to %s", own.field, p.FuncName(core.Root(fn)), p.FuncName(own.owner))
					}
				}
			}
		}
		r.Check(rule, "owner:"+own.field, nLd >= 1, p.Pos(own.owner.Pos()), "%d reads of %s examined", nLd, own.field)
	}
}

// refusedNotBuffered: when the handler refuses a retried hello, Read gives up
// without having put that record into readBuf - otherwise the next Read hands
// the refused hello to the backend after all (reported under C04 and C07).
func refusedNotBuffered(p *core.Prog, r *core.Run, m *echModel, rule string) {
	rd := m.read
	n := 0
	for _, ret := range core.Returns(rd) {
		refused := false
		for _, f := range p.Facts(ret.Block()) {
			if f.Op == "!=" && f.R != nil && f.R.Name == "nil" && f.L.Op == "ext" && f.L.Args[0].Op == "call" && f.L.Args[0].Fn == m.handle {
				refused = true
			}
		}
		if !refused {
			continue
		}
		n++
		buffered := ""
		for _, st := range fieldStores(p, []*ssa.Function{rd}, m.fConn["readBuf"]) {
			if !(st.Block() == ret.Block() && core.Before(st, ret) || st.Block().Dominates(ret.Block())) {
				continue
			}
			for _, a := range p.X(st.Val).Alts() {
				if a.Op == "ext" && a.Args[0].Op == "call" && a.Args[0].Name == "ech.readRecord" {
					buffered = p.InstrPos(st)
				}
			}
		}
		r.Check(rule, fmt.Sprintf("Read:refused-not-buffered#%d", n), buffered == "", p.InstrPos(ret), "Read gives up on a refused retried hello without leaving that record in readBuf (stored at %q)", buffered)
	}
	r.Check(rule, "Read:refusal-paths", n >= 1, p.Pos(rd.Pos()), "%d way(s) out of Read for a refused retried hello", n)
}

// fullReads: the record reader takes the header and the body off the
// transport with reads that only succeed when the buffer is full (io.ReadFull,
// or io.ReadAtLeast with the buffer's length): a plain Read may return a part
// of what a TCP segment boundary split, and the rest of the record would be
// taken for the next header.
func fullReads(p *core.Prog, r *core.Run, rr *ssa.Function, rule string) {
	n := 0
	for _, s := range transportReads(p, []*ssa.Function{rr}) {
		n++
		full := s.X.Name == "io.ReadFull"
		if s.X.Name == "io.ReadAtLeast" && len(s.X.Args) == 3 {
			if l := s.X.Args[2]; l.Op == "call" && l.Name == "len" && l.Args[0].String() == s.X.Args[1].String() {
				full = true
			}
		}
		r.Check(rule, fmt.Sprintf("readRecord:full-read#%d", n), full, p.InstrPos(s.Instr), "%s: the record reader reads from the transport only with calls that fill the buffer or fail", s.X.Name)
	}
	r.Check(rule, "readRecord:full-reads", n >= 1, p.Pos(rr.Pos()), "the record reader's reads from the transport were found (%d)", n)
}

// c07Buffers: every store to the two byte buffers is one of the expected
// forms and never makes a buffer share memory with a caller's slice (also
// reported under C01.pipe: a relayed handshake only completes if withheld
// bytes survive the relay's reuse of its buffer).
func c07Buffers(p *core.Prog, r *core.Run, m *echModel, rule string) {
	pkg := p.PkgFuncs(Ech)
	aliasesParam := func(v ssa.Value, fn *ssa.Function) (bool, string) {
		// does the value share memory with a slice parameter of fn?
		seen := map[ssa.Value]bool{}
		var walk func(v ssa.Value) (bool, string)
		walk = func(v ssa.Value) (bool, string) {
			if v == nil || seen[v] {
				return false, ""
			}
			seen[v] = true
			switch v := v.(type) {
			case *ssa.Parameter:
				if _, ok := v.Type().Underlying().(*types.Slice); ok {
					return true, v.Name()
				}
			case *ssa.Slice:
				return walk(v.X)
			case *ssa.Phi:
				for _, e := range v.Edges {
					if a, n := walk(e); a {
						return a, n
					}
				}
			case *ssa.ChangeType:
				return walk(v.X)
			case *ssa.Call:
				if bi, ok := v.Call.Value.(*ssa.Builtin); ok && bi.Name() == "append" {
					return walk(v.Call.Args[0]) // append's result aliases its first argument only
				}
			case *ssa.UnOp:
				if a, ok := p.IsCellLoad(v); ok {
					st, _ := p.CellDefs(a)
					for _, s := range st {
						if al, n := walk(s.Val); al {
							return al, n
						}
					}
				}
			}
			return false, ""
		}
		return walk(v)
	}
	for _, bufName := range []string{"readBuf", "writeBuf"} {
		for i, st := range fieldStores(p, pkg, m.fConn[bufName]) {
			root := core.Root(st.Parent())
			v := p.X(st.Val)
			key := fmt.Sprintf("%s:store#%d@%s", bufName, i, p.FuncName(root))
			al, pname := aliasesParam(st.Val, st.Parent())
			if al {
				r.Check(rule, key, false, p.InstrPos(st), "%s is made to share memory with the caller's slice %q: bytes withheld in the buffer change when the caller reuses its slice", bufName, pname)
				continue
			}
			switch {
			case bufName == "readBuf" && root == m.newConn:
				okM := len(v.Alts()) > 0
				for _, a := range v.Alts() {
					if !(a.Op == "ext" && a.Args[0].Name == "(*ech.clientHello).Marshal") {
						okM = false
					}
				}
				r.Check(rule, key, okM, p.InstrPos(st), "NewConn: first flight = Marshal() output")
			case bufName == "readBuf" && root == m.read && v.Op == "slice":
				// readBuf[n:] with n = copy(b, readBuf)
				lo := v.Args[1]
				ok := v.Args[0].Op == "field" && v.Args[0].Obj == m.fConn["readBuf"] && v.Args[2].Name == "_" &&
					lo.Op == "call" && lo.Name == "copy" && lo.Args[0].Op == "param" && lo.Args[0].Name == "p1" && lo.Args[1].Op == "field" && lo.Args[1].Obj == m.fConn["readBuf"]
				r.Check(rule, key, ok, p.InstrPos(st), "Read: readBuf = readBuf[n:] with n the result of copy(b, readBuf): %s", short(v))
			case bufName == "readBuf" && root == m.read:
				okAlts := true
				for _, a := range v.Alts() {
					isRec := a.Op == "ext" && a.Name == "#0" && a.Args[0].Name == "ech.readRecord"
					isInner := a.Op == "ext" && a.Name == "#0" && a.Args[0].Name == "(*ech.clientHello).Marshal"
					if !isRec && !isInner {
						okAlts = false
					}
				}
				r.Check(rule, key, okAlts, p.InstrPos(st), "Read: readBuf = the record just read (whole, or the part received before an error) or the re-marshalled inner hello: %s", short(v))
			case bufName == "writeBuf" && root == m.write && v.Op == "call" && v.Name == "append":
				ok := v.Args[0].Op == "field" && v.Args[0].Obj == m.fConn["writeBuf"] && v.Args[1].Op == "param" && v.Args[1].Name == "p1"
				r.Check(rule, key, ok, p.InstrPos(st), "Write: writeBuf = append(writeBuf, b...) (a copy of the caller's bytes)")
			case bufName == "writeBuf" && root == m.write && v.Op == "slice":
				lo := v.Args[1]
				ok := v.Args[0].Op == "field" && v.Args[0].Obj == m.fConn["writeBuf"] && v.Args[2].Name == "_" && lo.Op == "ext" && lo.Name == "#0" && lo.Args[0].Name == "(net.Conn).Write"
				if ok {
					w := lo.Args[0].Args[1]
					// Conn.Write(writeBuf[:sz]), sz = int(length)+5
					ok = w.Op == "slice" && w.Args[0].Op == "field" && w.Args[0].Obj == m.fConn["writeBuf"] && w.Args[1].Name == "_" && isRecordSize(m, w.Args[2], "writeBuf")
				}
				r.Check(rule, key, ok, p.InstrPos(st), "Write: writeBuf = writeBuf[n:] with n the count returned by Conn.Write(writeBuf[:5+length]): %s", short(v))
			default:
				r.Check(rule, key, false, p.InstrPos(st), "unexpected store to %s: %s", bufName, short(v))
			}
		}
	}
	r.Floor(rule, 5) // first flight, Read drain, Read record, Write append, Write drain

}
