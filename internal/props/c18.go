package props

import (
	"fmt"
	"go/token"
	"go/types"
	"strings"

	"verif/third_party/xtools/go/ssa"

	"verif/internal/core"
)

func init() {
	register(&Property{
		ID: "C18",
		Info: core.Info{
			Explanation: "Decides structural necessary conditions on Dial and its literals; timing, real scheduling order and 'first success wins' races are NOT decided (schedule properties need virtual-time execution or a model): " +
				"(K1) goroutine census: exactly the worker pool, the closer (WaitGroup.Wait then close of the error channel) and one feeder; " +
				"(K0) a return of Dial without a connection carries an error that cannot be nil (made on the spot, tested, the context's after Done, or errors.Join of a list known non-empty); " +
				"(K2) channel discipline: every blocking send/receive/select in Dial's literals has a <-ctx.Done() alternative on the Dial-scoped cancellable context, except the feeder->worker rendezvous (workers range over the target channel; the feeder closes it on every way out, so workers and the closer terminate) and the closer's Wait; all four channels are unbuffered; anything Dial defers that waits for its goroutines is registered before the deferred cancel (so the cancel runs first); " +
				"(K3) the Dial-scoped context is WithCancel of the caller's and its cancel is deferred; each attempt runs under WithTimeout(that context, Timeout or 30 s) created inside the per-target loop and cancelled after the attempt in the same iteration; " +
				"(K4) ownership: on dialOne's success edge the connection goes to sendConn, whose Done branch closes it (if it is a Closer) and whose other branch hands it to the unbuffered connection channel, i.e. directly to the collector, which returns it; " +
				"(K5) pool shape: workers are started in a counted loop bounded by MaxConcurrency (default 3); dialOne is called only from the worker body, not under a nested go; " +
				"(K6) order and pacing: one feeder with one send site, sending in the iteration order of the target sequence; every send but the first is preceded by a select on {Done, wake, time.After(d)} with d = ConcurrencyDelay or the 1 s default; " +
				"(K7) the collector returns the first connection received, ctx.Err() on Done, and errors.Join / 'no address' when the error channel is closed.",
		},
		Rules: c18Rules,
	})
}

func c18Rules(p *core.Prog, r *core.Run) {
	m := newDialModel(p, r, "C18.K1")
	if !m.ok {
		return
	}
	dial := m.dial
	receiverReadOnly(p, r, "C18.K6.stateless", m.dial, m.dialOne)
	// the Dial-scoped context
	var wc *ssa.Call
	for _, s := range callSites(p, []*ssa.Function{dial}, `context\.WithCancel`) {
		wc, _ = s.Instr.(*ssa.Call)
	}
	if wc == nil {
		r.Check("C18.K3", "Dial:WithCancel", false, p.Pos(dial.Pos()), "Dial does not derive a cancellable context")
		return
	}
	isDialCtx := func(e *core.Expr) bool {
		return e.Op == "ext" && e.Name == "#0" && e.Args[0].Val == ssa.Value(wc)
	}
	isDone := func(v ssa.Value) bool {
		x := p.X(v)
		return x.Op == "call" && x.Name == "(context.Context).Done" && len(x.Args) == 1 && isDialCtx(x.Args[0])
	}

	// --- K2 (defers): deferred calls run last-in first-out; anything deferred
	// that waits for the goroutines (wg.Wait, a channel receive) must run after
	// the deferred cancel, i.e. be registered before it - workers blocked in a
	// send are only released by the cancellation
	var cancelDefer ssa.Instruction
	var waits []ssa.Instruction
	for _, b := range dial.Blocks {
		for _, in := range b.Instrs {
			d, ok := in.(*ssa.Defer)
			if !ok {
				continue
			}
			x := p.CallExpr(d)
			switch {
			case x.Op == "call" && x.Name == "dyn" && len(x.Args) >= 1 && x.Args[0].Op == "ext" && x.Args[0].Name == "#1" && x.Args[0].Args[0].Val == ssa.Value(wc):
				cancelDefer = d
			case strings.HasSuffix(x.Name, "sync.WaitGroup).Wait"):
				waits = append(waits, d)
			default:
				if fn := p.ResolveFuncValue(d.Call.Value); fn != nil {
					blocking := false
					for _, l := range core.Closures(fn) {
						for _, bb := range l.Blocks {
							for _, i2 := range bb.Instrs {
								switch y := i2.(type) {
								case *ssa.UnOp:
									if y.Op == token.ARROW {
										blocking = true
									}
								case *ssa.Call:
									if strings.HasSuffix(p.X(y).Name, "sync.WaitGroup).Wait") {
										blocking = true
									}
								}
							}
						}
					}
					if blocking {
						waits = append(waits, d)
					}
				}
			}
		}
	}
	for i, w := range waits {
		r.Check("C18.K2", fmt.Sprintf("defer-wait#%d", i), cancelDefer != nil && core.Before(w, cancelDefer), p.InstrPos(w), "a deferred wait for the goroutines is registered before the deferred cancel, so the cancel runs first and releases workers blocked in a send")
	}

	// --- K0: Dial returns a connection or an error, never neither: a return
	// that carries no connection carries an error that cannot be nil - one made
	// on the spot, one that was tested, the context's after Done, or the join of
	// a list known to be non-empty (errors.Join of nothing is nil)
	valueOrError(p, r, "C18.K0", "Dial", dial, isDone)

	// --- K1
	nGo := 0
	var workerGo *ssa.Go
	for _, l := range m.lits {
		for _, b := range l.Blocks {
			for _, in := range b.Instrs {
				g, ok := in.(*ssa.Go)
				if !ok {
					continue
				}
				nGo++
				fn := p.ResolveFuncValue(g.Call.Value)
				role := "unknown"
				switch fn {
				case m.worker:
					role = "worker"
					workerGo = g
				case m.closer:
					role = "closer"
				case m.feeder:
					role = "feeder"
				}
				r.Check("C18.K1", fmt.Sprintf("go:%s", role), role != "unknown" && l == dial, p.InstrPos(g), "goroutine started by Dial: %s (%s)", role, p.FuncName(fn))
			}
		}
	}
	r.Check("C18.K1", "go:count", nGo == 3, p.Pos(dial.Pos()), "three go statements: worker (in the pool loop), closer, feeder (found %d)", nGo)

	// --- K2
	chans := map[string]*ssa.MakeChan{}
	for _, b := range dial.Blocks {
		for _, in := range b.Instrs {
			if mc, ok := in.(*ssa.MakeChan); ok {
				size, isC := mc.Size.(*ssa.Const)
				unbuf := isC && size.Int64() == 0
				name := p.X(mc).Name
				chans[name] = mc
				r.Check("C18.K2", "chan:"+name, unbuf, p.InstrPos(mc), "channel %s is unbuffered: a value sent on it has been received when the send returns (a buffered connection channel would let a late connection rest in the buffer with nobody to close it)", name)
			}
		}
	}
	// the feeder's bare send is safe only because somebody always receives: a
	// worker leaves its receive loop only when the channel was closed (a worker
	// that returns early - "the outcome is decided anyway" - leaves the feeder
	// blocked in its send for good)
	if m.worker != nil {
		var recvBlk *ssa.BasicBlock
		var okVal ssa.Value
		for _, b := range m.worker.Blocks {
			for _, in := range b.Instrs {
				if u, ok := in.(*ssa.UnOp); ok && u.Op == token.ARROW && u.CommaOk {
					recvBlk = b
					for _, ref := range *u.Referrers() {
						if ex, ok := ref.(*ssa.Extract); ok && ex.Index == 1 {
							okVal = ex
						}
					}
				}
			}
		}
		if recvBlk == nil || okVal == nil {
			r.Undecided("C18.K2", "worker:receive-loop", p.Pos(m.worker.Pos()), "no `for target := range ch` receive found in the worker")
		} else {
			// the edge taken when the channel is closed
			var closedFrom, closedTo *ssa.BasicBlock
			for _, b := range m.worker.Blocks {
				if iff, ok := b.Instrs[len(b.Instrs)-1].(*ssa.If); ok && iff.Cond == okVal {
					closedFrom, closedTo = b, b.Succs[1]
				}
			}
			early := ""
			if closedFrom != nil {
				seen := map[*ssa.BasicBlock]bool{}
				var walk func(b *ssa.BasicBlock)
				walk = func(b *ssa.BasicBlock) {
					if seen[b] {
						return
					}
					seen[b] = true
					if _, isRet := b.Instrs[len(b.Instrs)-1].(*ssa.Return); isRet {
						early = p.InstrPos(b.Instrs[len(b.Instrs)-1])
					}
					for _, s := range b.Succs {
						if b == closedFrom && s == closedTo {
							continue
						}
						walk(s)
					}
				}
				walk(m.worker.Blocks[0])
			}
			r.Check("C18.K2", "worker:drains-until-closed", closedFrom != nil && early == "", p.Pos(m.worker.Pos()), "the worker returns only when the target channel was closed (an earlier return at %q would leave the feeder blocked in its send)", early)
		}
	}
	for _, l := range m.lits {
		for _, b := range l.Blocks {
			for _, in := range b.Instrs {
				switch x := in.(type) {
				case *ssa.Select:
					if !x.Blocking {
						continue
					}
					hasDone := false
					for _, st := range x.States {
						if st.Dir == 2 /* RecvOnly */ && isDone(st.Chan) {
							hasDone = true
						}
					}
					r.Check("C18.K2", fmt.Sprintf("select@%s", p.FuncName(l)), hasDone, p.InstrPos(x), "blocking select with %d cases has a <-ctx.Done() case on Dial's own context", len(x.States))
				case *ssa.Send:
					// only the feeder's rendezvous
					okS := core.Root(l) == dial && (l == m.feeder || core.CreatorOf(l) == m.feeder)
					r.Check("C18.K2", fmt.Sprintf("send@%s", p.FuncName(l)), okS, p.InstrPos(x), "bare send: allowed only for the feeder handing a target to a worker")
				case *ssa.UnOp:
					if x.Op == token.ARROW {
						okR := l == m.worker && x.CommaOk
						r.Check("C18.K2", fmt.Sprintf("recv@%s", p.FuncName(l)), okR, p.InstrPos(x), "bare receive: allowed only for the workers ranging over the target channel")
					}
				}
			}
		}
	}
	// the feeder closes the target channel on every way out
	closes := callSites(p, []*ssa.Function{m.feeder}, `close`)
	okClose := len(closes) == 1
	if okClose {
		for _, ret := range core.Returns(m.feeder) {
			if !(closes[0].Block() == ret.Block() || closes[0].Block().Dominates(ret.Block())) {
				okClose = false
			}
		}
		if _, isDefer := closes[0].Instr.(*ssa.Defer); isDefer {
			okClose = true
		}
	}
	r.Check("C18.K2", "feeder:closes-target-channel", okClose, p.Pos(m.feeder.Pos()), "the feeder closes the target channel on every way out (also when the outcome is decided early), so the workers' range loops, wg.Wait and the closer terminate and no goroutine is left behind")
	// workers: deferred wg.Done
	okDone := false
	if len(m.worker.Blocks) > 0 {
		for _, in := range m.worker.Blocks[0].Instrs {
			if d, ok := in.(*ssa.Defer); ok && p.CallExpr(d).Name == "(*sync.WaitGroup).Done" {
				okDone = true
			}
		}
	}
	r.Check("C18.K2", "worker:deferred-done", okDone, p.Pos(m.worker.Pos()), "each worker defers wg.Done()")
	// closer: Wait then close(errChan)
	w := callSites(p, []*ssa.Function{m.closer}, `\(\*sync\.WaitGroup\)\.Wait`)
	c := callSites(p, []*ssa.Function{m.closer}, `close`)
	r.Check("C18.K2", "closer:wait-then-close", len(w) == 1 && len(c) == 1 && core.Before(w[0].Instr, c[0].Instr), p.Pos(m.closer.Pos()), "the closer waits for all workers and then closes the error channel")
	r.Floor("C18.K2", 9)

	// --- K3
	deferredCancel := false
	for _, b := range dial.Blocks {
		for _, in := range b.Instrs {
			if d, ok := in.(*ssa.Defer); ok {
				x := p.CallExpr(d)
				if x.Name == "dyn" && x.Args[0].Op == "ext" && x.Args[0].Name == "#1" && x.Args[0].Args[0].Val == ssa.Value(wc) {
					all := true
					for _, ret := range core.Returns(dial) {
						if core.MayFollow(d, ret) && !b.Dominates(ret.Block()) {
							all = false
						}
					}
					deferredCancel = all
				}
			}
		}
	}
	parent := p.X(wc).Args[0]
	r.Check("C18.K3", "Dial:cancel", deferredCancel && parent.Op == "param" && parent.Name == "p1", p.InstrPos(wc), "Dial derives its context from the caller's with WithCancel and defers the cancel (so attempts begun after the outcome run under a cancelled context)")
	wts := callSites(p, m.lits, `context\.WithTimeout`)
	if len(wts) == 1 {
		wt := wts[0]
		call := wt.Instr.(*ssa.Call)
		var one site
		for _, s := range allCalls(p, []*ssa.Function{m.worker}) {
			if sameFn(s.X.Fn, m.dialOne) {
				one = s
			}
		}
		var body map[*ssa.BasicBlock]bool
		for _, bd := range core.Loops(m.worker) {
			if one.Instr != nil && bd[one.Block()] {
				body = bd
			}
		}
		inLoop := wt.Fn == m.worker && body != nil && body[wt.Block()]
		fromDial := isDialCtx(wt.X.Args[0])
		dur := true
		for _, a := range wt.X.Args[1].Alts() {
			if !(a.Op == "const" && a.Name == "30000000000" || a.Op == "field" && a.Name == "Timeout") {
				dur = false
			}
		}
		used := one.Instr != nil && one.X.Args[1].Op == "ext" && one.X.Args[1].Args[0].Val == ssa.Value(call)
		cancelled := false
		for _, s := range allCalls(p, []*ssa.Function{m.worker}) {
			if s.X.Name == "dyn" && s.X.Args[0].Op == "ext" && s.X.Args[0].Name == "#1" && s.X.Args[0].Args[0].Val == ssa.Value(call) && one.Instr != nil && core.Before(one.Instr, s.Instr) && body != nil && body[s.Block()] {
				if _, isDefer := s.Instr.(*ssa.Defer); !isDefer {
					cancelled = true
				}
			}
		}
		r.Check("C18.K3", "worker:attempt-timeout", inLoop && fromDial && dur && used && cancelled, p.InstrPos(call),
			"each attempt gets its own WithTimeout context created inside the per-target loop (%v), derived from Dial's context (%v), lasting Timeout or 30 s (%v), passed to dialOne (%v) and cancelled right after the attempt (%v); a context created once per worker would charge earlier attempts' time to later ones", inLoop, fromDial, dur, used, cancelled)
	} else {
		r.Check("C18.K3", "worker:attempt-timeout", false, p.Pos(m.worker.Pos()), "expected one WithTimeout in Dial's literals, found %d", len(wts))
	}

	// the attempt's time limit and Dial's cancellation only bound what takes the
	// context: the default DialFunc (and dialOne) establish the connection with
	// context-aware calls only
	if nd := p.Func(Ech, "NewDialer"); nd != nil {
		scope := append(core.Closures(nd), core.Closures(m.dialOne)...)
		nBlind := 0
		for _, s := range callSites(p, scope, `\(\*crypto/tls\.Conn\)\.Handshake|crypto/tls\.Dial|crypto/tls\.DialWithDialer|\(\*crypto/tls\.Dialer\)\.Dial|net\.Dial|net\.DialTimeout|\(\*net\.Dialer\)\.Dial|net\.Lookup(Host|IP|Addr)|\(\*net\.Resolver\)\.LookupHost`) {
			nBlind++
			r.Check("C18.K3", fmt.Sprintf("dialfunc:context-blind#%d", nBlind), false, p.InstrPos(s.Instr), "%s does not take the attempt's context: neither the per-attempt timeout nor Dial's cancellation ends it", s.X.Name)
		}
		r.Check("C18.K3", "dialfunc:context-aware", nBlind == 0, p.Pos(nd.Pos()), "the default DialFunc and dialOne connect and handshake through context-taking calls (%d context-blind calls)", nBlind)
	}

	// a connection the default DialFunc has opened and does not return is
	// closed: every way out after a successful connect either returns the
	// connection (or what was made of it) or has passed a Close of it
	if nd := p.Func(Ech, "NewDialer"); nd != nil {
		netConn := netConnIface(p)
		nAcq := 0
		for _, fn := range core.Closures(nd) {
			if fn == nd {
				continue
			}
			for _, s := range allCalls(p, []*ssa.Function{fn}) {
				cv, ok := s.Instr.(*ssa.Call)
				if !ok || netConn == nil {
					continue
				}
				tup, ok := cv.Type().(*types.Tuple)
				if !ok || tup.Len() != 2 || !types.Implements(tup.At(0).Type(), netConn) || !isErrorType(tup.At(1).Type()) {
					continue
				}
				nAcq++
				mentions := func(e *core.Expr) bool {
					return e.Any(func(x *core.Expr) bool { return x.Val == ssa.Value(cv) })
				}
				var closes []ssa.Instruction
				for _, c := range allCalls(p, []*ssa.Function{fn}) {
					if strings.HasSuffix(c.X.Name, ".Close") && len(c.X.Args) > 0 && mentions(c.X.Args[0]) {
						closes = append(closes, c.Instr)
					}
				}
				for i, ret := range core.Returns(fn) {
					if !core.MayFollow(cv, ret) {
						continue
					}
					failed := false
					for _, f := range p.Facts(ret.Block()) {
						if f.Op == "!=" && f.R != nil && f.R.Name == "nil" && f.L.Op == "ext" && f.L.Name == "#1" && len(f.L.Args) == 1 && f.L.Args[0].Val == ssa.Value(cv) {
							failed = true
						}
					}
					if failed {
						continue
					}
					ok := len(ret.Results) > 0 && mentions(p.X(ret.Results[0]))
					for _, c := range closes {
						if c.Block() == ret.Block() || c.Block().Dominates(ret.Block()) {
							ok = true
						}
					}
					r.Check("C18.K4", fmt.Sprintf("dialfunc:%s#%d:return#%d", s.X.Name, nAcq, i), ok, p.InstrPos(ret), "after %s succeeded, this way out returns the connection or has closed it", s.X.Name)
				}
			}
		}
		// (a census: a default DialFunc written elsewhere than in NewDialer's
		// literals opens no connection here and is not judged)
		r.Check("C18.K4", "dialfunc:connects", true, p.Pos(nd.Pos()), "connection-opening calls examined in the literals of NewDialer (%d)", nAcq)
	}

	// ... and nothing on the way from Dial to the network detaches from the
	// context it was given: name resolution for a later address runs under
	// Dial's context and must end with it
	{
		var roots []*ssa.Function
		for _, n := range []string{"(*Resolver).Resolve", "(*Dialer).Dial", "(*Transport).RoundTrip"} {
			if f := p.Func(Ech, n); f != nil {
				roots = append(roots, f)
			}
		}
		if f := p.Func(DNS, "DoH"); f != nil {
			roots = append(roots, f)
		}
		nDetach := 0
		var scope []*ssa.Function
		for _, f := range reachableFuncs(p, roots...) {
			if inModule(p, f) {
				scope = append(scope, f)
			}
		}
		for _, s := range callSites(p, scope, `context\.(WithoutCancel|Background|TODO)`) {
			nDetach++
			r.Check("C18.K3", fmt.Sprintf("detached-context#%d", nDetach), false, p.InstrPos(s.Instr), "%s in %s: what runs under it is ended neither by the attempt's timeout nor by Dial's cancellation", s.X.Name, p.FuncName(core.Root(s.Fn)))
		}
		// ... and what Dial calls starts no goroutine of its own: the three that
		// Dial starts and waits for (K1, K2) are all there is
		nStray := 0
		for _, f := range scope {
			if core.Root(f) == dial {
				continue
			}
			for _, b := range f.Blocks {
				for _, in := range b.Instrs {
					if g, ok := in.(*ssa.Go); ok {
						nStray++
						r.Check("C18.K1", fmt.Sprintf("go:outside-Dial#%d", nStray), false, p.InstrPos(g), "%s starts a goroutine that Dial neither counts nor waits for", p.FuncName(f))
					}
				}
			}
		}
		r.Check("C18.K1", "go:outside-Dial", nStray == 0, p.Pos(dial.Pos()), "no go statement in what Dial, Resolve and RoundTrip call in this module (%d functions, %d found)", len(scope), nStray)
		r.Check("C18.K3", "detached-context", nDetach == 0 && len(scope) >= 5, p.Pos(dial.Pos()), "no context detached from the caller's on the way from Dial, Resolve and RoundTrip to the network (%d functions, %d detachments)", len(scope), nDetach)
	}

	// the documented defaults (3 attempts at a time, 1 s apart, 30 s each) are
	// the only constants the package itself ever puts into a Dialer's settings
	{
		want := map[string]string{"MaxConcurrency": "3", "ConcurrencyDelay": "1000000000", "Timeout": "30000000000"}
		nDef := 0
		for name, val := range want {
			fv := field(p, Ech, "Dialer", name)
			if fv == nil {
				continue
			}
			for _, st := range fieldStores(p, p.PkgFuncs(Ech), fv) {
				c, ok := st.Val.(*ssa.Const)
				if !ok || c.Value == nil {
					continue
				}
				nDef++
				r.Check("C18.K6", fmt.Sprintf("default:%s#%d", name, nDef), c.Value.ExactString() == val, p.InstrPos(st), "Dialer.%s is preset to %s (documented default %s)", name, c.Value.ExactString(), val)
			}
		}
	}

	// --- K4
	var sendConn *ssa.Function
	for _, s := range allCalls(p, []*ssa.Function{m.worker}) {
		if len(s.X.Args) != 1 {
			continue
		}
		// (a merge all of whose ways carry the same value is that value)
		arg := s.X.Args[0]
		if alts := arg.Alts(); len(alts) == 1 {
			arg = alts[0]
		}
		if s.X.Fn != nil && s.X.Fn.Parent() == dial && arg.Op == "ext" && arg.Name == "#0" && sameFn(arg.Args[0].Fn, m.dialOne) {
			sendConn = s.X.Fn
			okEdge := false
			for _, f := range p.Facts(s.Block()) {
				if f.Op == "==" && f.R.Name == "nil" && f.L.Op == "ext" && f.L.Name == "#1" && sameFn(f.L.Args[0].Fn, m.dialOne) {
					okEdge = true
				}
			}
			r.Check("C18.K4", "worker:hand-over", okEdge, p.InstrPos(s.Instr), "an established connection is handed to sendConn on dialOne's success edge")
		}
	}
	// the same with the helper written into the worker (it was a method that
	// got inlined): a blocking select on dialOne's success edge that either
	// sends the connection or, on Done, closes it
	isConn := func(e *core.Expr) bool {
		if alts := e.Alts(); len(alts) == 1 {
			e = alts[0]
		}
		return e.Op == "ext" && e.Name == "#0" && e.Args[0].Op == "call" && sameFn(e.Args[0].Fn, m.dialOne)
	}
	var handSel *ssa.Select
	if sendConn == nil {
		for _, b := range m.worker.Blocks {
			for _, in := range b.Instrs {
				sel, ok := in.(*ssa.Select)
				if !ok || !sel.Blocking || len(sel.States) != 2 || in.Parent() != m.worker {
					continue
				}
				doneIdx, sendIdx := -1, -1
				for i, st := range sel.States {
					if st.Dir == 2 && isDone(st.Chan) {
						doneIdx = i
					}
					if st.Dir == 1 && isConn(p.X(st.Send)) {
						sendIdx = i
					}
				}
				if doneIdx < 0 || sendIdx < 0 {
					continue
				}
				handSel = sel
				okEdge := false
				for _, f := range p.Facts(b) {
					if f.Op == "==" && f.R.Name == "nil" && f.L.Op == "ext" && f.L.Name == "#1" && sameFn(f.L.Args[0].Fn, m.dialOne) {
						okEdge = true
					}
				}
				r.Check("C18.K4", "worker:hand-over", okEdge, p.InstrPos(sel), "an established connection is offered to the collector on dialOne's success edge")
				closed := false
				for _, s := range callSites(p, []*ssa.Function{m.worker}, `\(io\.Closer\)\.Close`) {
					for _, f := range p.Facts(s.Block()) {
						if fs, ok := f.L.Select(); ok && fs == sel && f.Op == "==" {
							if k, ok := f.R.ConstInt(); ok && int(k) == doneIdx {
								closed = true
							}
						}
					}
				}
				r.Check("C18.K4", "sendConn:close-or-deliver", closed, p.InstrPos(sel), "the worker either delivers the connection to the collector or, once the outcome is decided (Done), closes it (Close in the Done branch: %v)", closed)
			}
		}
	}
	if sendConn != nil || handSel != nil {
		// ... on every way on from there: an established connection the worker
		// decides not to offer is one nobody will close
		isErr := func(e *core.Expr) bool {
			return e.Op == "ext" && e.Name == "#1" && e.Args[0].Op == "call" && sameFn(e.Args[0].Fn, m.dialOne)
		}
		cfg, _ := pruneBy(p, m.worker, []assumption{cmpAssume("err == nil", "==", isErr, isConstName("nil"))})
		taken := map[*ssa.BasicBlock]bool{}
		var starts []site
		for _, s := range allCalls(p, []*ssa.Function{m.worker}) {
			if s.Fn != m.worker {
				continue
			}
			switch {
			case s.X.Fn != nil && s.X.Fn == sendConn, s.X.Name == "(io.Closer).Close":
				taken[s.Block()] = true
			case sameFn(s.X.Fn, m.dialOne):
				starts = append(starts, s)
			}
		}
		if handSel != nil {
			taken[handSel.Block()] = true
		}
		for i, s := range starts {
			if !cfg.Live(s.Block()) {
				continue
			}
			lost := ""
			for b := range cfg.ReachableAvoiding(s.Block(), taken) {
				if b == s.Block() {
					continue
				}
				if _, isRet := b.Instrs[len(b.Instrs)-1].(*ssa.Return); isRet || b.Dominates(s.Block()) {
					lost = p.InstrPos(b.Instrs[len(b.Instrs)-1])
				}
			}
			r.Check("C18.K4", fmt.Sprintf("worker:hand-over-always#%d", i), lost == "", p.InstrPos(s.Instr), "after a successful dialOne every way on (to the next target, or out) passes the hand-over to sendConn or closes the connection (a way that does neither reaches %s)", lost)
		}
	}
	if sendConn == nil && handSel == nil {
		r.Check("C18.K4", "sendConn", false, p.Pos(m.worker.Pos()), "the worker does not hand an established connection to a literal of Dial, nor offers it in a select of its own")
	} else if sendConn != nil {
		var sel *ssa.Select
		for _, b := range sendConn.Blocks {
			for _, in := range b.Instrs {
				if s, ok := in.(*ssa.Select); ok {
					sel = s
				}
			}
		}
		okSel := sel != nil && sel.Blocking && len(sel.States) == 2
		doneIdx, sendIdx := -1, -1
		if okSel {
			for i, st := range sel.States {
				if st.Dir == 2 && isDone(st.Chan) {
					doneIdx = i
				}
				if st.Dir == 1 && p.X(st.Send).Op == "param" {
					sendIdx = i
				}
			}
		}
		closed := false
		for _, s := range callSites(p, []*ssa.Function{sendConn}, `\(io\.Closer\)\.Close`) {
			for _, f := range p.Facts(s.Block()) {
				if _, ok := f.L.Select(); ok && f.Op == "==" {
					if k, ok := f.R.ConstInt(); ok && int(k) == doneIdx {
						closed = true
					}
				}
			}
		}
		r.Check("C18.K4", "sendConn:close-or-deliver", okSel && doneIdx >= 0 && sendIdx >= 0 && closed, p.Pos(sendConn.Pos()), "sendConn either delivers the connection to the collector or, once the outcome is decided (Done), closes it (select with Done and a send of the connection: %v; Close in the Done branch: %v)", okSel && doneIdx >= 0 && sendIdx >= 0, closed)
	}

	// --- K5
	if workerGo != nil {
		ok := false
		for h, body := range core.Loops(dial) {
			if !body[workerGo.Block()] {
				continue
			}
			iff, isIf := h.Instrs[len(h.Instrs)-1].(*ssa.If)
			if !isIf {
				continue
			}
			f := p.FactOf(core.Guard{Cond: iff.Cond, Pol: true, If: iff})
			if f.R == nil {
				continue
			}
			bound := true
			for _, a := range f.R.Alts() {
				if !(a.Op == "const" && a.Name == "3" || a.Op == "field" && a.Name == "MaxConcurrency") {
					bound = false
				}
			}
			ok = bound && f.Op == "<"
		}
		r.Check("C18.K5", "pool:size", ok, p.InstrPos(workerGo), "workers are started in a counted loop bounded by MaxConcurrency (default 3)")
	}
	nested := false
	for _, l := range core.Closures(m.worker) {
		for _, b := range l.Blocks {
			for _, in := range b.Instrs {
				if _, ok := in.(*ssa.Go); ok {
					nested = true
				}
			}
		}
	}
	r.Check("C18.K5", "pool:no-nested-go", !nested, p.Pos(m.worker.Pos()), "a worker starts no goroutines of its own: attempts in flight are bounded by the pool size")

	// --- K6
	var sends []*ssa.Send
	for _, l := range core.Closures(m.feeder) {
		for _, b := range l.Blocks {
			for _, in := range b.Instrs {
				if s, ok := in.(*ssa.Send); ok {
					sends = append(sends, s)
				}
			}
		}
	}
	if len(sends) == 1 {
		s := sends[0]
		fn := s.Parent()
		val := p.X(s.X)
		// pacing: every predecessor edge of the send block is the "first" flag or a select case
		paced := true
		var sel *ssa.Select
		for _, pr := range s.Block().Preds {
			fs := p.EdgeFacts(pr, s.Block())
			isFirst, isCase := false, false
			if len(fs) > 0 {
				if (fs[0].Op == "true" || fs[0].Op == "false") && fs[0].L.Op != "call" {
					// a "first target" flag: a boolean variable whose value on this
					// edge (pol) is the one it is initialised with, outside the per-target
					// code, and which is set to the opposite on the way to the send
					if cell, okc := p.IsCellLoad(fs[0].G.Cond); okc {
						pol := fs[0].Op == "true"
						stores, calls := p.CellDefs(cell)
						nInit, nFlip, nOther := 0, 0, 0
						for _, st := range stores {
							c, isC := st.Val.(*ssa.Const)
							if !isC || c.Value == nil {
								nOther++
								continue
							}
							v := c.Value.String() == "true"
							switch {
							case v == pol && st.Parent() != s.Parent():
								nInit++
							case v != pol && (st.Block() == pr || st.Block() == s.Block()):
								nFlip++
							default:
								nOther++
							}
						}
						isFirst = nInit == 1 && nFlip == 1 && nOther == 0 && len(calls) == 0
					}
				}
				// the same with a counter: "no target handed out yet" is count == 0,
				// the count starts at 0 outside the per-target code and goes up by
				// one on the way to every send
				if bo, okb := fs[0].G.Cond.(*ssa.BinOp); okb && !isFirst && fs[0].R != nil && fs[0].R.Name == "0" && (fs[0].Op == "==" || fs[0].Op == "<=") {
					if cell, okc := p.IsCellLoad(bo.X); okc {
						stores, calls := p.CellDefs(cell)
						nInit, nInc, nOther := 0, 0, 0
						for _, st := range stores {
							if c, isC := st.Val.(*ssa.Const); isC && c.Value != nil && c.Value.ExactString() == "0" && st.Parent() != s.Parent() {
								nInit++
								continue
							}
							inc, isInc := st.Val.(*ssa.BinOp)
							if isInc && inc.Op == token.ADD {
								if ld, isLd := inc.X.(*ssa.UnOp); isLd && ld.Op == token.MUL {
									if c2, ok2 := p.IsCellLoad(ld); ok2 && c2 == cell {
										if k, isK := inc.Y.(*ssa.Const); isK && k.Value != nil && k.Value.ExactString() == "1" && st.Parent() == s.Parent() && (st.Block() == s.Block() || st.Block().Dominates(s.Block())) {
											nInc++
											continue
										}
									}
								}
							}
							nOther++
						}
						isFirst = nInit == 1 && nInc == 1 && nOther == 0 && len(calls) == 0
					}
				}
				if sl, ok := fs[0].L.Select(); ok {
					isCase, sel = true, sl
				}
			}
			if !isFirst && !isCase {
				paced = false
			}
		}
		okSel := false
		if sel != nil && sel.Blocking {
			var hasDone, hasWake, hasAfter bool
			for _, st := range sel.States {
				x := p.X(st.Chan)
				switch {
				case isDone(st.Chan):
					hasDone = true
				case x.Op == "call" && x.Name == "time.After":
					d := x.Args[0]
					hasAfter = true
					for _, a := range d.Alts() {
						if !(a.Op == "const" && a.Name == "1000000000" || a.Op == "field" && a.Name == "ConcurrencyDelay") {
							hasAfter = false
						}
					}
				case x.Op == "new":
					hasWake = true
				}
			}
			okSel = hasDone && hasWake && hasAfter
		}
		r.Check("C18.K6", "feeder:pacing", paced && okSel && core.CreatorOf(fn) == m.feeder, p.InstrPos(s), "the one send site is reached directly only for the first target; otherwise through a select on {Done, wake after a failure, time.After(ConcurrencyDelay or 1 s)} (%v)", okSel)
		r.Check("C18.K6", "feeder:order", val.Op == "param" && val.Name == "cc0", p.InstrPos(s), "targets are sent in the iteration order of the target sequence (the yielded value itself)")
	} else {
		r.Check("C18.K6", "feeder:send-sites", false, p.Pos(m.feeder.Pos()), "expected one send site in the feeder, found %d", len(sends))
	}

	// --- K7
	c18Collector(p, r, m, isDone)
}

func c18Collector(p *core.Prog, r *core.Run, m *dialModel, isDone func(ssa.Value) bool) {
	dial := m.dial
	var sel *ssa.Select
	for _, b := range dial.Blocks {
		for _, in := range b.Instrs {
			if s, ok := in.(*ssa.Select); ok && s.Blocking {
				sel = s
			}
		}
	}
	if sel == nil || len(sel.States) != 3 {
		r.Check("C18.K7", "collector:select", false, p.Pos(dial.Pos()), "no three-way collector select in Dial")
		return
	}
	caseOf := func(b *ssa.BasicBlock) int {
		for _, f := range p.Facts(b) {
			if s, ok := f.L.Select(); ok && s == sel && f.Op == "==" {
				k, _ := f.R.ConstInt()
				return int(k)
			}
		}
		return -1
	}
	var okDone, okConn, okErrs bool
	for _, ret := range core.Returns(dial) {
		k := caseOf(ret.Block())
		if k < 0 {
			continue
		}
		st := sel.States[k]
		switch {
		case isDone(st.Chan):
			e := p.X(retErr(ret))
			okDone = e.Op == "call" && e.Name == "(context.Context).Err"
		case st.Dir == 2 && p.X(retErr(ret)).Op == "const" && p.X(retErr(ret)).Name == "nil":
			// the received connection is returned
			v := p.X(ret.Results[0])
			if ex, ok := v.Val.(*ssa.Extract); ok && ex.Tuple == ssa.Value(sel) {
				okConn = true
			}
		default:
			e := p.X(retErr(ret))
			if e.Op == "call" && (e.Name == "errors.Join" || e.Name == "errors.New") {
				okErrs = true
			}
		}
	}
	r.Check("C18.K7", "collector:returns", okDone && okConn && okErrs, p.InstrPos(sel), "the collector returns ctx.Err() on Done (%v), the first connection received (%v), and errors.Join / 'no address' when the error channel is closed (%v)", okDone, okConn, okErrs)
}

// valueOrError: fn returns a value or an error, never neither: a return whose
// first result can be the zero value carries an error that cannot be nil - one
// made on the spot, one that was tested, the context's after Done, or the join
// of a list known to be non-empty (errors.Join of nothing is nil).
func valueOrError(p *core.Prog, r *core.Run, rule, label string, fn *ssa.Function, isDone func(ssa.Value) bool) {
	for i, ret := range core.Returns(fn) {
		if len(ret.Results) != 2 {
			continue
		}
		c := p.X(ret.Results[0])
		noConn := false
		for _, a := range c.Alts() {
			if a.Op == "const" {
				noConn = true
			}
		}
		if !noConn {
			continue
		}
		okErr := true
		why := ""
		// each way the error value gets to the return, with what is known on that way
		type errWay struct {
			e  *core.Expr
			fs []core.Fact
		}
		var ways []errWay
		var expand func(v ssa.Value, fs []core.Fact, depth int)
		expand = func(v ssa.Value, fs []core.Fact, depth int) {
			// a merged value that was itself tested is non-nil whichever way it came
			for _, f := range fs {
				if f.Op == "!=" && f.R != nil && f.R.Name == "nil" && f.G.Cond != nil {
					if bo, ok := f.G.Cond.(*ssa.BinOp); ok && (bo.X == v || bo.Y == v) {
						return
					}
				}
			}
			if ph, ok := v.(*ssa.Phi); ok && depth < 4 {
				for k, ed := range ph.Edges {
					expand(ed, append(append([]core.Fact{}, fs...), p.EdgeFacts(ph.Block().Preds[k], ph.Block())...), depth+1)
				}
				return
			}
			for _, a := range p.X(v).Alts() {
				ways = append(ways, errWay{a, fs})
			}
		}
		ev := retErr(ret)
		if u, isLoad := ev.(*ssa.UnOp); isLoad && u.Op == token.MUL {
			// functions with defers return through result cells: the value stored last
			if cell, isCell := u.X.(*ssa.Alloc); isCell {
				for _, in := range ret.Block().Instrs {
					if st, isSt := in.(*ssa.Store); isSt && st.Addr == ssa.Value(cell) {
						ev = st.Val
					}
				}
			}
		}
		expand(ev, p.Facts(ret.Block()), 0)
		for _, w := range ways {
			e, fs := w.e, w.fs
			switch {
			case e.Op == "call" && (e.Name == "errors.New" || e.Name == "fmt.Errorf"):
			case e.Op == "call" && e.Name == "(context.Context).Err":
				// non-nil once Done was observed
				done := false
				for _, f := range fs {
					if sl, ok := f.L.Select(); ok && f.Op == "==" {
						if k, ok := f.R.ConstInt(); ok && int(k) < len(sl.States) && isDone != nil && isDone(sl.States[k].Chan) {
							done = true
						}
					}
				}
				if !done {
					okErr, why = false, "ctx.Err() without Done observed"
				}
			case e.Op == "call" && e.Name == "errors.Join":
				nonEmpty := false
				for _, f := range fs {
					if (f.Op == ">" || f.Op == "!=") && f.R != nil && f.R.Name == "0" && f.L.Op == "call" && f.L.Name == "len" {
						nonEmpty = true
					}
				}
				if !nonEmpty {
					okErr, why = false, "errors.Join of a list that may be empty is nil"
				}
			default:
				tested := false
				for _, f := range fs {
					if f.Op == "!=" && f.R != nil && f.R.Name == "nil" && f.L.String() == e.String() {
						tested = true
					}
				}
				if !tested {
					okErr, why = false, "error of unknown nilness: "+short(e)
				}
			}
		}
		r.Check(rule, fmt.Sprintf("%s:return#%d", label, i), okErr, p.InstrPos(ret), "a return of %s without a value carries an error that cannot be nil %s", label, why)
	}
}

// netConnIface returns the net.Conn interface type, if the program imports net.
func netConnIface(p *core.Prog) *types.Interface {
	for _, pk := range p.SSA.AllPackages() {
		if pk.Pkg.Path() == "net" {
			if o := pk.Pkg.Scope().Lookup("Conn"); o != nil {
				if it, ok := o.Type().Underlying().(*types.Interface); ok {
					return it
				}
			}
		}
	}
	return nil
}

func isErrorType(t types.Type) bool {
	return types.Identical(t, types.Universe.Lookup("error").Type())
}
