package props

import (
	"fmt"
	"go/types"
	"strings"

	"verif/third_party/xtools/go/ssa"

	"verif/internal/core"
)

func init() {
	register(&Property{
		ID: "C17",
		Info: core.Info{
			Explanation: "Decides on the SSA of the generic (*Dialer[T]).Dial, its function literals and dialOne (the generic body is analysed once): " +
				"(REQ) dialOne is called only from the worker literal and, with RequireECH and 'the attempt's config has no ECH list' assumed, that call is unreachable; DialFunc is called only in dialOne; " +
				"(KEEP) census of every store to EncryptedClientHelloConfigList: the PublicName bootstrap list under needECH && PublicName != \"\" on Dial's own clone, the target's list under needECH && target.ECH != nil on the per-attempt clone, the retry list in dialOne under a non-empty RetryConfigList and !retried; needECH is exactly 'the caller supplied no list', computed before the bootstrap; every attempt is handed the target's own list whenever the target has one and ECH is needed, under no further condition; " +
				"(SNI) the only store to ServerName is under ServerName == \"\" with the dial target's host, and that host derives only from the caller's address (split/trim) or the transport's URL host - never from a resolution result; " +
				"(PAIR) the address dialled and the ECH list used come from the same received target, on a config cloned inside the per-target loop (no state carried from one target to the next); " +
				"(RETRY) dialOne's only cycle is taken under !retried, sets retried, keeps network and address, and installs the rejection error's RetryConfigList; " +
				"(NOMUT) no store goes through the caller's *tls.Config: every written config is a Clone() or a fresh value. " +
				"Not decided: outcomes over fault sequences.",
		},
		Rules: c17Rules,
	})
}

type dialModel struct {
	dial, dialOne, worker, feeder, closer, targets *ssa.Function
	lits                                           []*ssa.Function
	tcParam                                        *ssa.Parameter
	ok                                             bool
}

func newDialModel(p *core.Prog, r *core.Run, rule string) *dialModel {
	m := &dialModel{}
	m.dial = p.Func(Ech, "(*Dialer).Dial")
	m.dialOne = p.Func(Ech, "(*Dialer).dialOne")
	if m.dial == nil || m.dialOne == nil || len(m.dial.Params) != 5 {
		r.Undecided(rule, "Dial", "-", "(*Dialer[T]).Dial / dialOne not found")
		return m
	}
	m.tcParam = m.dial.Params[4]
	m.lits = core.Closures(m.dial)
	r.Analysed(funcNames(p, m.lits)...)
	r.Analysed(p.FuncName(m.dialOne))
	for _, l := range m.lits {
		if l == m.dial {
			continue
		}
		callsOne := false
		for _, s := range allCalls(p, []*ssa.Function{l}) {
			if sameFn(s.X.Fn, m.dialOne) {
				callsOne = true
			}
		}
		waits := len(callSites(p, []*ssa.Function{l}, `\(\*sync\.WaitGroup\)\.Wait`)) > 0
		sends := false
		for _, sub := range core.Closures(l) {
			for _, b := range sub.Blocks {
				for _, in := range b.Instrs {
					if _, ok := in.(*ssa.Send); ok {
						sends = true
					}
				}
			}
		}
		// a call of a method Resolve(ctx, name) (ResolveResult, error), through
		// whatever interface or concrete type
		resolves := false
		for _, s := range allCalls(p, []*ssa.Function{l}) {
			c := s.Instr.Common()
			var sig *types.Signature
			name := ""
			if c.IsInvoke() {
				name, sig = c.Method.Name(), c.Method.Type().(*types.Signature)
			} else if f := c.StaticCallee(); f != nil && f.Signature.Recv() != nil {
				name, sig = f.Name(), f.Signature
			}
			if name == "Resolve" && sig != nil && sig.Params().Len() == 2 && sig.Results().Len() == 2 && strings.HasSuffix(sig.Results().At(0).Type().String(), "ech.ResolveResult") {
				resolves = true
			}
		}
		switch {
		case callsOne:
			m.worker = l
		case waits:
			m.closer = l
		case resolves && core.CreatorOf(l) == m.dial:
			m.targets = l
		case sends && core.CreatorOf(l) == m.dial && len(callSites(p, []*ssa.Function{l}, `close`)) > 0:
			m.feeder = l
		}
	}
	if m.worker == nil || m.feeder == nil || m.closer == nil || m.targets == nil {
		r.Undecided(rule, "Dial:roles", p.Pos(m.dial.Pos()), "cannot identify worker (%v), feeder (%v), closer (%v) and target sequence (%v) among Dial's literals", m.worker != nil, m.feeder != nil, m.closer != nil, m.targets != nil)
		return m
	}
	m.ok = true
	return m
}

func c17Rules(p *core.Prog, r *core.Run) {
	m := newDialModel(p, r, "C17.REQ")
	if !m.ok {
		return
	}
	// the (address, ECH list) pairs Dial works from are those Targets enumerates
	c15Targets(p, r, "C17.TARGETS")
	receiverReadOnly(p, r, "C17.PAIR.stateless", m.dial, m.dialOne)
	all := append(append([]*ssa.Function{}, m.lits...), core.Closures(m.dialOne)...)
	listF := func(e *core.Expr) bool { return e.Op == "field" && e.Name == "EncryptedClientHelloConfigList" }

	// --- REQ
	var oneCalls []site
	for _, s := range allCalls(p, p.PkgFuncs(Ech)) {
		if sameFn(s.X.Fn, m.dialOne) {
			oneCalls = append(oneCalls, s)
		}
	}
	r.Check("C17.REQ", "dialOne:callers", len(oneCalls) == 1 && oneCalls[0].Fn == m.worker, p.Pos(m.dialOne.Pos()), "dialOne is called from exactly one place, the worker literal (found %d)", len(oneCalls))
	if len(oneCalls) == 1 {
		call := oneCalls[0]
		tcArg := call.Instr.Common().Args[4]
		cfg, hits := pruneBy(p, m.worker, []assumption{
			boolAssume("d.RequireECH", true, func(e *core.Expr) bool { return e.Op == "field" && e.Name == "RequireECH" }),
			cmpAssume("tc.EncryptedClientHelloConfigList == nil", "==", func(e *core.Expr) bool {
				// the list of the very config passed to dialOne
				if !listF(e) {
					return false
				}
				if u, ok := e.Val.(*ssa.UnOp); ok {
					if fa, ok := u.X.(*ssa.FieldAddr); ok {
						return fa.X == tcArg
					}
				}
				return false
			}, isConstName("nil")),
		})
		ok := len(hits["d.RequireECH"]) > 0 && len(hits["tc.EncryptedClientHelloConfigList == nil"]) > 0 && !cfg.Live(call.Block())
		r.Check("C17.REQ", "worker:require-ech", ok, p.InstrPos(call.Instr), "with RequireECH set and no ECH list in the attempt's config, no connection attempt is reachable (RequireECH tested: %v, list of the dialled config tested: %v)", len(hits["d.RequireECH"]) > 0, len(hits["tc.EncryptedClientHelloConfigList == nil"]) > 0)
		// no store to the list between the test and the call
		for _, st := range storesTo(p, []*ssa.Function{m.worker}, "EncryptedClientHelloConfigList") {
			for _, iff := range hits["tc.EncryptedClientHelloConfigList == nil"] {
				r.Check("C17.REQ", "worker:no-store-after-test", !core.MayFollow(iff, st) || core.MayFollow(st, iff) && !st.Block().Dominates(call.Block()), p.InstrPos(st), "the ECH list is not modified between the RequireECH test and the attempt")
			}
		}
	}
	var dialFuncCalls []site
	for _, s := range allCalls(p, p.PkgFuncs(Ech)) {
		if s.X.Name == "dyn" && s.X.Args[0].Op == "field" && s.X.Args[0].Name == "DialFunc" {
			dialFuncCalls = append(dialFuncCalls, s)
		}
	}
	r.Check("C17.REQ", "DialFunc:callers", len(dialFuncCalls) == 1 && dialFuncCalls[0].Fn == m.dialOne, p.Pos(m.dialOne.Pos()), "DialFunc is called from exactly one place, dialOne (found %d)", len(dialFuncCalls))

	// --- KEEP
	needECHok := false
	// (the census covers the whole package: the default DialFunc of NewDialer
	// and any other helper get the config Dial prepared and must not weaken it)
	for _, st := range storesTo(p, p.PkgFuncs(Ech), "EncryptedClientHelloConfigList") {
		root := core.Root(st.Parent())
		v := p.X(st.Val)
		fs := p.Facts(st.Block())
		needECH := false
		for _, f := range fs {
			if f.Op == "==" && listF(f.L) && f.R.Name == "nil" {
				needECH = true
			}
			if f.Op == "true" && f.L.Op == "bin" && f.L.Name == "==" && listF(f.L.Args[0]) {
				needECH = true
			}
		}
		switch {
		case st.Parent() == m.dial:
			pub := core.HasFact(fs, ">", `len\(p0\.PublicName\)`, `0`)
			fromCfg := v.Op == "ext" && v.Args[0].Name == "ech.ConfigList"
			if ph, isPhi := st.Val.(*ssa.Phi); isPhi {
				// assigned on several ways (an `if err == nil` ladder): the ways
				// that are still possible once the error test has passed
				fromCfg = true
				n := 0
				for _, i := range feasibleEdges(p, ph, st.Block()) {
					n++
					a := p.X(ph.Edges[i])
					if !(a.Op == "ext" && a.Args[0].Name == "ech.ConfigList") {
						fromCfg = false
					}
				}
				fromCfg = fromCfg && n > 0
			}
			r.Check("C17.KEEP", "Dial:bootstrap-list", needECH && pub && fromCfg, p.InstrPos(st), "the PublicName bootstrap list is installed only when the caller supplied none (%v) and PublicName is set (%v)", needECH, pub)
			needECHok = needECH
		case st.Parent() == m.worker:
			fromTarget := v.Op == "field" && v.Name == "ECH" && v.Args[0].Op == "field" && v.Args[0].Name == "resolved"
			nonNil := false
			for _, f := range fs {
				if f.Op == "!=" && f.R.Name == "nil" && f.L.String() == v.String() {
					nonNil = true
				}
			}
			r.Check("C17.KEEP", "worker:target-list", needECH && fromTarget && nonNil, p.InstrPos(st), "the target's ECH list is used only when the caller supplied none (%v), it comes from the received target (%v) and is non-nil (%v)", needECH, fromTarget, nonNil)
			// ... and under no further condition: a record's list that is set aside
			// (a stricter validation, say) lets the attempt go out without ECH
			extra := otherFacts(fs,
				func(f core.Fact) bool { return listF(f.L) && f.R != nil && f.R.Name == "nil" },
				func(f core.Fact) bool { return f.L.String() == v.String() && f.R != nil && f.R.Name == "nil" },
				func(f core.Fact) bool {
					return f.L.Any(func(x *core.Expr) bool { return x.Op == "field" && x.Name == "err" }) && f.R != nil && f.R.Name == "nil"
				},
				func(f core.Fact) bool {
					return (f.Op == "true" || f.Op == "false") && strings.Contains(f.L.String(), "<-")
				})
			r.Check("C17.KEEP", "worker:target-list-always", len(extra) == 0, p.InstrPos(st), "the target's ECH list is used whenever the caller supplied none and the record has one; further conditions: %v", extra)
		case root == m.dialOne:
			retry := v.Op == "field" && v.Name == "RetryConfigList"
			nonEmpty, notRetried, isRej := false, false, false
			for _, f := range fs {
				if f.Op == ">" && f.R.Name == "0" && f.L.Op == "call" && f.L.Name == "len" && f.L.Args[0].Op == "field" && f.L.Args[0].Name == "RetryConfigList" {
					nonEmpty = true
				}
				if f.Op == "false" && f.L.Op == "phi" {
					notRetried = true
				}
				if f.Op == "true" && f.L.Op == "call" && f.L.Name == "errors.As" {
					isRej = true
				}
			}
			r.Check("C17.KEEP", "dialOne:retry-list", retry && nonEmpty && notRetried && isRej, p.InstrPos(st), "the list is replaced only by a rejection error's (%v) non-empty (%v) RetryConfigList (%v), once (%v); an empty list would turn the retry into a plaintext ClientHello", isRej, nonEmpty, retry, notRetried)
		default:
			r.Check("C17.KEEP", "store:"+p.FuncName(st.Parent()), false, p.InstrPos(st), "unexpected store to EncryptedClientHelloConfigList")
		}
	}
	c17AbsentStaysAbsent(p, r)
	r.Check("C17.KEEP", "Dial:needECH", needECHok, p.Pos(m.dial.Pos()), "needECH is 'the (cloned) caller config has no ECH list'")
	r.Floor("C17.KEEP", 4)

	// --- SNI
	nSNI := 0
	for _, st := range storesTo(p, all, "ServerName") {
		nSNI++
		v := p.X(st.Val)
		empty := core.HasFact(p.Facts(st.Block()), "==", `len\(.*\.ServerName\)`, `0`)
		host := v.Op == "field" && v.Name == "host"
		// cmp.Or(tc.ServerName, target.host): the first that is not empty
		if v.Op == "call" && v.Name == "cmp.Or" {
			if parts := variadicArgs(p, st.Val.(*ssa.Call).Call.Args[0]); len(parts) == 2 &&
				parts[0].Op == "field" && parts[0].Name == "ServerName" && parts[1].Op == "field" && parts[1].Name == "host" {
				empty, host = true, true
			}
		}
		r.Check("C17.SNI", "worker:server-name", st.Parent() == m.worker && empty && host, p.InstrPos(st), "ServerName is set only when the caller left it empty (%v), to the dial target's host (%v)", empty, host)
	}
	r.Check("C17.SNI", "ServerName:stores", nSNI == 1, p.Pos(m.dial.Pos()), "exactly one store to ServerName (found %d)", nSNI)
	// provenance of dialTarget.host
	nHost := 0
	for _, l := range core.Closures(m.targets) {
		for _, b := range l.Blocks {
			for _, in := range b.Instrs {
				st, ok := in.(*ssa.Store)
				if !ok {
					continue
				}
				x := p.X(st.Addr)
				if !(x.Op == "field" && x.Name == "host" && x.Args[0].Op == "new") {
					continue
				}
				nHost++
				v := p.X(st.Val)
				bad := ""
				for _, leaf := range v.Leaves() {
					switch {
					case leaf.Op == "param" && (leaf.Name == "p3" || leaf.Name == "p1" || leaf.Name == "p0"):
					case leaf.Op == "const", leaf.Op == "rec", leaf.Op == "global" && (leaf.Name == "ech.transportResolverKey" || leaf.Name == "ech.DefaultResolver"):
					default:
						bad = leaf.String()
					}
				}
				if v.Any(func(e *core.Expr) bool {
					return e.Op == "call" && (strings.Contains(e.Name, ".Resolve") || strings.Contains(e.Name, "Targets")) || e.Op == "field" && (e.Name == "resolved" || e.Name == "Target" || e.Name == "result")
				}) {
					bad = "a resolution result"
				}
				// the host belongs to this entry of the address list: it is not what
				// an earlier entry left behind
				for _, a := range v.Alts() {
					if a.Op == "rec" || a.Op == "const" && a.Name == "zero" && len(v.Alts()) > 1 {
						bad = "carried over from the previous entry (or unset)"
					}
				}
				// the host is cut off the address by net.SplitHostPort (which knows
				// bracketed IPv6 literals and bare ones), nothing home-made
				v.Walk(func(e *core.Expr) bool {
					if e.Op == "call" && e.Name != "" {
						switch e.Name {
						case "net.SplitHostPort", "strings.TrimSpace", "strings.Split", "strings.ToLower", "(context.Context).Value", "dyn":
						default:
							if bad == "" && !strings.HasPrefix(e.Name, "(") {
								bad = "through " + e.Name
							}
						}
					}
					return true
				})
				r.Check("C17.SNI", "targets:host-provenance", bad == "", p.InstrPos(st), "the TLS host derives only from the caller's address string (net.SplitHostPort, trim) or the transport's URL host %s: %s", bad, short(v))
			}
		}
	}
	r.Check("C17.SNI", "targets:host-stores", nHost >= 1, p.Pos(m.targets.Pos()), "%d places set a dial target's host", nHost)

	// --- PAIR
	if len(oneCalls) == 1 {
		call := oneCalls[0]
		addr := call.X.Args[3]
		okAddr := addr.Op == "call" && addr.Name == "(net/netip.AddrPort).String" && addr.Args[0].Op == "field" && addr.Args[0].Name == "Address" && addr.Args[0].Args[0].Op == "field" && addr.Args[0].Args[0].Name == "resolved"
		same := false
		if okAddr {
			tgt := addr.Args[0].Args[0].Args[0].String()
			for _, st := range storesTo(p, []*ssa.Function{m.worker}, "EncryptedClientHelloConfigList") {
				v := p.X(st.Val)
				if v.Op == "field" && v.Name == "ECH" && v.Args[0].Args[0].String() == tgt {
					same = true
				}
			}
		}
		r.Check("C17.PAIR", "worker:address-and-list", okAddr && same, p.InstrPos(call.Instr), "the address dialled is the received target's (%v) and the ECH list comes from that same target (%v)", okAddr, same)
		// the attempt's config is cloned inside the per-target loop
		tcArg := call.Instr.Common().Args[4]
		inLoop := false
		var loopBody map[*ssa.BasicBlock]bool
		for _, body := range core.Loops(m.worker) {
			if body[call.Block()] {
				loopBody = body
			}
		}
		if c, ok := tcArg.(*ssa.Call); ok && p.X(c).Name == "(*crypto/tls.Config).Clone" && loopBody != nil && loopBody[c.Block()] {
			inLoop = true
		}
		r.Check("C17.PAIR", "worker:clone-per-target", inLoop, p.InstrPos(call.Instr), "each attempt works on a config cloned inside the per-target loop, so ServerName, the target's ECH list and retry configs of one target cannot leak into the next: %s", short(p.X(tcArg)))
		// ... and everything the worker writes into a tls.Config goes into that
		// very clone (a write before the clone would land in the config all
		// workers and all later targets share)
		for _, b := range m.worker.Blocks {
			for _, in := range b.Instrs {
				st, ok := in.(*ssa.Store)
				if !ok {
					continue
				}
				fa, ok := st.Addr.(*ssa.FieldAddr)
				if !ok || !strings.HasSuffix(deref2(fa.X.Type()).String(), "crypto/tls.Config") {
					continue
				}
				r.Check("C17.PAIR", "worker:writes-into-clone:"+p.X(fa).Name, fa.X == tcArg, p.InstrPos(st), "the worker's store to tls.Config.%s goes into the per-target clone that is passed to the attempt (it goes into %s)", p.X(fa).Name, short(p.X(fa.X)))
			}
		}
		net := call.X.Args[2]
		r.Check("C17.PAIR", "worker:network", net.Op == "param" && net.Name == "p2", p.InstrPos(call.Instr), "the caller's network is passed on unchanged")
	}

	// --- RETRY
	c17Retry(p, r, m)

	// --- NOMUT
	nBad := 0
	for _, fn := range all {
		for _, b := range fn.Blocks {
			for _, in := range b.Instrs {
				st, ok := in.(*ssa.Store)
				if !ok {
					continue
				}
				fa, ok := st.Addr.(*ssa.FieldAddr)
				if !ok {
					continue
				}
				if nt, ok := deref2(fa.X.Type()).(*types.Named); !ok || nt.Obj().Name() != "Config" || nt.Obj().Pkg() == nil || nt.Obj().Pkg().Path() != "crypto/tls" {
					continue
				}
				base := p.X(fa.X)
				direct := false
				for _, a := range base.Alts() {
					if a.Val == ssa.Value(m.tcParam) {
						direct = true
					}
				}
				if fn == m.dialOne || core.CreatorOf(fn) == m.dialOne {
					// dialOne's own parameter: its argument at the single call site is a clone (PAIR)
					continue
				}
				if direct {
					nBad++
					r.Check("C17.NOMUT", "store-through-caller-config:"+p.X(fa).Name, false, p.InstrPos(st), "field %s is written through the caller's *tls.Config (the value may be the parameter itself, not a clone): %s", p.X(fa).Name, short(base))
				}
			}
		}
	}
	// the parameter is only nil-tested and cloned
	for _, fn := range m.lits {
		for _, b := range fn.Blocks {
			for _, in := range b.Instrs {
				for _, op := range in.Operands(nil) {
					if *op != ssa.Value(m.tcParam) {
						continue
					}
					okUse := false
					switch x := in.(type) {
					case *ssa.Store:
						okUse = x.Val == ssa.Value(m.tcParam) && p.CellRoot(x.Addr) != nil
					case *ssa.BinOp:
						okUse = true
					case *ssa.Call:
						okUse = p.X(x).Name == "(*crypto/tls.Config).Clone"
					case *ssa.Phi:
						okUse = false
					}
					if !okUse {
						nBad++
						r.Check("C17.NOMUT", fmt.Sprintf("param-use:%T", in), false, p.InstrPos(in), "the caller's config is used other than for a nil test or Clone()")
					}
				}
			}
		}
	}
	// ... and, anywhere else in the package, a tls.Config that is written to is
	// one made there (a literal or a Clone), never one somebody handed over
	// (Transport.TLSConfig, a parameter, a field)
	inAll := map[*ssa.Function]bool{}
	for _, f := range all {
		inAll[f] = true
	}
	var fresh func(e *core.Expr, depth int) bool
	fresh = func(e *core.Expr, depth int) bool {
		if e == nil || depth > 6 {
			return false
		}
		switch {
		case e.Op == "new":
			return true
		case e.Op == "call" && strings.HasSuffix(e.Name, "tls.Config).Clone"):
			return true
		case e.Op == "phi" || e.Op == "cell":
			for _, a := range e.Args {
				if !fresh(a, depth+1) {
					return false
				}
			}
			return len(e.Args) > 0
		}
		return false
	}
	for _, fn := range p.PkgFuncs(Ech) {
		if inAll[fn] {
			continue
		}
		for _, b := range fn.Blocks {
			for _, in := range b.Instrs {
				st, ok := in.(*ssa.Store)
				if !ok {
					continue
				}
				fa, ok := st.Addr.(*ssa.FieldAddr)
				if !ok {
					continue
				}
				pt, ok := fa.X.Type().Underlying().(*types.Pointer)
				if !ok {
					continue
				}
				if n, ok := pt.Elem().(*types.Named); !ok || n.Obj().Pkg() == nil || n.Obj().Pkg().Path() != "crypto/tls" || n.Obj().Name() != "Config" {
					continue
				}
				base := p.X(fa.X)
				if !fresh(base, 0) {
					nBad++
					r.Check("C17.NOMUT", "store-through-shared-config:"+p.X(fa).Name+"@"+p.FuncName(fn), false, p.InstrPos(st), "field %s is written through a *tls.Config that was not made on the spot (it may be the caller's): %s", p.X(fa).Name, short(base))
				}
			}
		}
	}
	r.Check("C17.NOMUT", "census", nBad == 0, p.Pos(m.dial.Pos()), "no store reaches the caller's *tls.Config (%d found)", nBad)
}

// storesTo lists stores to a field of the given name (any struct).
func storesTo(p *core.Prog, fns []*ssa.Function, name string) []*ssa.Store {
	var out []*ssa.Store
	for _, fn := range fns {
		for _, b := range fn.Blocks {
			for _, in := range b.Instrs {
				if st, ok := in.(*ssa.Store); ok {
					if fa, ok := st.Addr.(*ssa.FieldAddr); ok {
						if v := fieldVar(fa); v != nil && p.FieldName(v) == name {
							out = append(out, st)
						}
					}
				}
			}
		}
	}
	return out
}

func c17Retry(p *core.Prog, r *core.Run, m *dialModel) {
	fn := m.dialOne
	loops := core.Loops(fn)
	if core.HasIrreducible(fn) {
		r.Undecided("C17.RETRY", "dialOne:cfg", p.Pos(fn.Pos()), "irreducible control flow")
		return
	}
	r.Check("C17.RETRY", "dialOne:one-cycle", len(loops) == 1, p.Pos(fn.Pos()), "dialOne has exactly one cycle, the retry (found %d)", len(loops))
	for h, body := range loops {
		for b := range body {
			for _, s := range b.Succs {
				if s != h {
					continue
				}
				fs := p.EdgeFacts(b, s)
				notRetried := false
				var flag *ssa.Phi
				for _, f := range fs {
					if f.Op == "false" {
						if ph, ok := f.L.Val.(*ssa.Phi); ok && ph.Block() == h {
							notRetried, flag = true, ph
						}
					}
				}
				sets := false
				if flag != nil {
					for i, e := range flag.Edges {
						if h.Preds[i] == b {
							if c, ok := e.(*ssa.Const); ok && c.Value != nil && c.Value.ExactString() == "true" {
								sets = true
							}
						}
					}
				}
				r.Check("C17.RETRY", "dialOne:at-most-once", notRetried && sets, p.InstrPos(b.Instrs[len(b.Instrs)-1]), "the retry edge is taken only when no retry happened before (%v) and records that one did (%v): at most one retry", notRetried, sets)
			}
		}
		// the dial call inside the cycle uses the unchanged network and address parameters
		for _, s := range allCalls(p, []*ssa.Function{fn}) {
			if s.X.Name == "dyn" && body[s.Block()] {
				a := s.X.Args
				ok := len(a) == 5 && a[2].Op == "param" && a[2].Name == "p2" && a[3].Op == "param" && a[3].Name == "p3" && a[4].Op == "param" && a[4].Name == "p4"
				r.Check("C17.RETRY", "dialOne:same-target", ok, p.InstrPos(s.Instr), "every attempt, including the retry, dials the same network and address with dialOne's own config")
			}
		}
	}
}

// c17AbsentStaysAbsent: "this record has no ECH configuration" is told apart
// from "it has one" by the ECH field being nil (Dial and the worker test it
// against nil). Whatever the package writes into the ECH field of an HTTPS
// record, on its way from the resolver to Dial, must therefore keep a nil list
// nil: the field itself, a Clone of it, nil, or an append onto a nil slice.
func c17AbsentStaysAbsent(p *core.Prog, r *core.Run) {
	echF := field(p, DNS, "HTTPS", "ECH")
	if echF == nil {
		return
	}
	var keeps func(e *core.Expr, depth int) bool
	keeps = func(e *core.Expr, depth int) bool {
		if e == nil || depth > 8 {
			return false
		}
		switch {
		case e.Op == "const" && e.Name == "nil":
			return true
		case e.Op == "field" && e.Obj == echF:
			return true
		case e.Op == "phi" || e.Op == "cell":
			for _, a := range e.Args {
				if !keeps(a, depth+1) {
					return false
				}
			}
			return len(e.Args) > 0
		case e.Op == "call" && (e.Name == "slices.Clone" || e.Name == "bytes.Clone") && len(e.Args) == 1:
			return keeps(e.Args[0], depth+1)
		case e.Op == "call" && e.Name == "append" && len(e.Args) >= 1 && e.Args[0].Op == "const" && e.Args[0].Name == "nil":
			return true
		case e.Op == "conv" || e.Op == "slice" && len(e.Args) > 0:
			return keeps(e.Args[0], depth+1)
		}
		return false
	}
	nSt, nRead := 0, 0
	for _, fn := range p.PkgFuncs(Ech) {
		for _, b := range fn.Blocks {
			for _, in := range b.Instrs {
				switch x := in.(type) {
				case *ssa.Store:
					if fa, ok := x.Addr.(*ssa.FieldAddr); ok && fieldVar(fa) == echF {
						nSt++
						v := p.X(x.Val)
						r.Check("C17.KEEP", fmt.Sprintf("record-list:stays-nil#%d", nSt), keeps(v, 0), p.InstrPos(x), "what is written into an HTTPS record's ECH field keeps an absent list absent (nil): %s", short(v))
					}
				case *ssa.FieldAddr:
					if fieldVar(x) == echF {
						nRead++
					}
				case *ssa.Field:
					if st, ok := x.X.Type().Underlying().(*types.Struct); ok && x.Field < st.NumFields() && st.Field(x.Field) == echF {
						nRead++
					}
				}
			}
		}
	}
	r.Check("C17.KEEP", "record-list:uses", nRead >= 1, "-", "uses of an HTTPS record's ECH field examined in the package: %d (%d stores)", nRead, nSt)
}
