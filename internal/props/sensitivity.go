package props

import (
	"encoding/json"
	"fmt"
	"os"
	"os/exec"
	"path/filepath"
	"regexp"
	"sort"
	"strings"
	"sync"
)

// SeedMeta is <set>/<name>/meta.json of a seeded change (seeded/, variants/)
// or of a behaviour-preserving refactoring (neutral/).
type SeedMeta struct {
	Property   string   `json:"property"`
	Summary    string   `json:"summary"`
	Needs      string   `json:"needs"`
	DetectedBy []string `json:"detected_by"` // property ids whose checks must fire
	Rules      []string `json:"rules"`       // rule ids expected among the failures
	Silent     []string `json:"must_stay_silent"`
}

// SensResult is the outcome of one variant in the sweep.
type SensResult struct {
	Set     string   `json:"set"`
	Variant string   `json:"variant"`
	Status  string   `json:"status"` // fired | MISSED | silent | FALSE-ALARM | skipped
	Rules   []string `json:"rules,omitempty"`
	Detail  string   `json:"detail,omitempty"`
}

var reRuleLine = regexp.MustCompile(`(?m)^  (C[0-9]+[A-Za-z0-9.\-]*) \[`)

// Sensitivity applies, each to its own scratch copy of the current tree, (a)
// every seeded property-breaking change and hand-written variant registered
// for property id and records whether the rule set fires, and (b) every
// behaviour-preserving refactoring and records whether it stays silent. The
// scratch copies are analysed by child processes of this same binary, in
// parallel. The sweep measures the checker; it never influences the verdict on
// the tree itself (DESIGN 2.6).
func Sensitivity(repoDir, verifDir, id string) []SensResult {
	type job struct {
		set, name, patch string
		neutral          bool
	}
	var jobs []job
	for _, set := range []string{"seeded", "variants", "neutral"} {
		metas, _ := filepath.Glob(filepath.Join(verifDir, set, "*", "meta.json"))
		sort.Strings(metas)
		for _, mf := range metas {
			var m SeedMeta
			b, err := os.ReadFile(mf)
			if err != nil || json.Unmarshal(b, &m) != nil {
				continue
			}
			want := set == "neutral"
			for _, d := range m.DetectedBy {
				if d == id {
					want = true
				}
			}
			if !want {
				continue
			}
			jobs = append(jobs, job{set, filepath.Base(filepath.Dir(mf)), filepath.Join(filepath.Dir(mf), "patch.diff"), set == "neutral"})
		}
	}
	self, err := os.Executable()
	if err != nil {
		return []SensResult{{Status: "skipped", Detail: err.Error()}}
	}
	out := make([]SensResult, len(jobs))
	sem := make(chan struct{}, 8)
	var wg sync.WaitGroup
	for i, j := range jobs {
		wg.Add(1)
		go func() {
			defer wg.Done()
			sem <- struct{}{}
			defer func() { <-sem }()
			res := SensResult{Set: j.set, Variant: j.name}
			defer func() { out[i] = res }()
			tmp, err := os.MkdirTemp("", "echverif-sens-")
			if err != nil {
				res.Status, res.Detail = "skipped", err.Error()
				return
			}
			defer os.RemoveAll(tmp)
			if o, err := exec.Command("rsync", "-a", "--exclude", ".git", repoDir+"/", tmp+"/").CombinedOutput(); err != nil {
				res.Status, res.Detail = "skipped", fmt.Sprintf("copy: %v %s", err, o)
				return
			}
			ap := exec.Command("git", "apply", "--whitespace=nowarn", j.patch)
			ap.Dir = tmp
			if o, err := ap.CombinedOutput(); err != nil {
				res.Status, res.Detail = "skipped", "patch no longer applies: "+strings.TrimSpace(string(o))
				return
			}
			vd := filepath.Join(tmp, ".verif")
			os.MkdirAll(filepath.Join(vd, "evidence"), 0o755)
			cmd := exec.Command(self, "-repo", tmp, "-verif", vd, "quick", id)
			o, _ := cmd.CombinedOutput()
			rules := map[string]bool{}
			for _, m := range reRuleLine.FindAllStringSubmatch(string(o), -1) {
				rules[m[1]] = true
			}
			if !strings.Contains(string(o), id+" quick:") {
				res.Status, res.Detail = "skipped", "child run failed: "+lastLine(string(o))
				return
			}
			for r := range rules {
				res.Rules = append(res.Rules, r)
			}
			sort.Strings(res.Rules)
			switch {
			case j.neutral && len(res.Rules) == 0:
				res.Status = "silent"
			case j.neutral:
				res.Status = "FALSE-ALARM"
			case len(res.Rules) > 0:
				res.Status = "fired"
			default:
				res.Status = "MISSED"
			}
		}()
	}
	wg.Wait()
	return out
}

func lastLine(s string) string {
	l := strings.Split(strings.TrimSpace(s), "\n")
	return l[len(l)-1]
}
