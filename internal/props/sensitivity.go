package props

import (
	"encoding/json"
	"fmt"
	"os"
	"os/exec"
	"path/filepath"
	"sort"
	"strings"
)

// SeedMeta is /verif/seeded/<name>/meta.json.
type SeedMeta struct {
	Property   string   `json:"property"`
	Summary    string   `json:"summary"`
	Needs      string   `json:"needs"`
	DetectedBy []string `json:"detected_by"` // property ids whose checks must fire
	Rules      []string `json:"rules"`       // rule ids expected among the failures
}

// Sensitivity applies every seeded variant registered for property id to a
// scratch copy of the current tree and records whether the rule set fires.
// It never influences the verdict on the tree itself (DESIGN 2.6).
func Sensitivity(repoDir, verifDir, id string) any {
	type result struct {
		Variant string   `json:"variant"`
		Status  string   `json:"status"` // fired | MISSED | skipped
		Rules   []string `json:"rules,omitempty"`
		Detail  string   `json:"detail,omitempty"`
	}
	var out []result
	dirs, _ := filepath.Glob(filepath.Join(verifDir, "seeded", "*", "meta.json"))
	sort.Strings(dirs)
	for _, mf := range dirs {
		var m SeedMeta
		b, err := os.ReadFile(mf)
		if err != nil || json.Unmarshal(b, &m) != nil {
			continue
		}
		want := false
		for _, d := range m.DetectedBy {
			if d == id {
				want = true
			}
		}
		if !want {
			continue
		}
		name := filepath.Base(filepath.Dir(mf))
		patch := filepath.Join(filepath.Dir(mf), "patch.diff")
		res := result{Variant: name}
		tmp, err := os.MkdirTemp("", "echverif-sens-")
		if err != nil {
			res.Status, res.Detail = "skipped", err.Error()
			out = append(out, res)
			continue
		}
		func() {
			defer os.RemoveAll(tmp)
			cp := exec.Command("rsync", "-a", "--exclude", ".git", repoDir+"/", tmp+"/")
			if o, err := cp.CombinedOutput(); err != nil {
				res.Status, res.Detail = "skipped", fmt.Sprintf("copy: %v %s", err, o)
				return
			}
			ap := exec.Command("git", "apply", "--whitespace=nowarn", patch)
			ap.Dir = tmp
			if o, err := ap.CombinedOutput(); err != nil {
				res.Status, res.Detail = "skipped", "patch no longer applies: "+strings.TrimSpace(string(o))
				return
			}
			run, err := RunOn(tmp, "quick", id)
			if err != nil {
				res.Status, res.Detail = "skipped", err.Error()
				return
			}
			run.Finalise()
			rules := map[string]bool{}
			for _, o := range run.Failed() {
				rules[o.Rule] = true
			}
			for r := range rules {
				res.Rules = append(res.Rules, r)
			}
			sort.Strings(res.Rules)
			if len(res.Rules) > 0 {
				res.Status = "fired"
			} else {
				res.Status = "MISSED"
			}
		}()
		out = append(out, res)
	}
	return out
}
