package props

import (
	"fmt"
	"strings"

	"verif/third_party/xtools/go/ssa"

	"verif/internal/core"
)

func init() {
	register(&Property{
		ID: "C08",
		Info: core.Info{
			Explanation: "Decides, for every function reachable from NewConn, Read, Write and the accessors inside package ech: " +
				"(I1) every index, slice, unchecked type assertion, explicit panic and BytesOrPanic site is in range / unreachable for arbitrary peer bytes, by a forward interval and linear-fact analysis over the SSA with the dominating branch conditions, value-numbered field loads and the listed library contracts; unproven sites are reported with the missing inequality; " +
				"(I2) the hello parsers obey the cryptobyte discipline: every read is tested and its failing edge returns an error; " +
				"(I3) every loop has a termination variant (range, counter with invariant bound, cursor loop in which every way round performs a successful consuming read, Write's record loop which shrinks its buffer by a whole record >= 5 bytes); " +
				"(I4) memory: the record reader allocates one constant-size buffer bounded by the record limit, readBuf holds one record, writeBuf after Write returns holds less than one record whose declared length passed the limit test; " +
				"(I5) a goroutine started before the first blocking read reacts to ctx.Done() of NewConn's own context by a read+write deadline of now and is joined (rules shared with C10). " +
				"Not decided: heap use in bytes, wall-clock behaviour, nil-pointer dereferences in general (the retry path's inner != nil is covered by C06.M5), internal/hpke (copied from the Go standard library; its one panic needs 2^95 messages).",
			Assumptions: []string{"io.ReadFull: err == nil implies n == len(buf), always 0 <= n <= len(buf)", "copy: 0 <= n <= min(len(dst), len(src))", "net.Conn.Write: 0 <= n <= len(p)", "cryptobyte.Builder.Bytes: err == nil implies the output has the length the builder calls add up to"},
		},
		Rules: c08Rules,
	})
}

func c08Scope(p *core.Prog, m *echModel) []*ssa.Function {
	roots := []*ssa.Function{m.newConn, m.read, m.write}
	for _, n := range []string{"(*Conn).ServerName", "(*Conn).ALPNProtos", "(*Conn).ECHAccepted", "(*Conn).ECHPresented"} {
		if f := p.Func(Ech, n); f != nil {
			roots = append(roots, f)
		}
	}
	var out []*ssa.Function
	for _, f := range reachableFuncs(p, roots...) {
		inPkg := func(path string) bool {
			return f.Pkg != nil && f.Pkg.Pkg.Path() == path || f.Pkg == nil && core.Root(f).Pkg != nil && core.Root(f).Pkg.Pkg.Path() == path
		}
		if inPkg(HPKE) {
			sizesOnly[core.Root(f)] = true
		}
		if inPkg(Ech) || inPkg(HPKE) {
			// String() methods are debug output only but can run with debugf: keep them
			out = append(out, f)
		}
	}
	return out
}

func c08Rules(p *core.Prog, r *core.Run) {
	m := newEchModel(p)
	if !m.ok(r, "C08.model") {
		return
	}
	scope := c08Scope(p, m)
	r.Analysed(funcNames(p, scope)...)

	// --- I1
	indexSafety(p, r, "C08.I1", scope, 30)

	// --- I2
	psh := p.Func(Ech, "parseServerHello")
	pcfg := p.Func(Ech, "parseConfig")
	parsers := []*ssa.Function{m.parseCH, m.parseExt, psh, m.process}
	if pcfg != nil {
		parsers = append(parsers, pcfg)
	} // else: written into its callers; the copy inside the hello processor is covered there
	c04ParserDiscipline(p, r, "C08.I2", parsers, map[string]bool{"ech.ErrDecodeError": true, "ech.ErrIllegalParameter": true})

	// --- I7: the reconstructed hello cannot grow beyond the outer hello: each
	// outer extension is referenced at most once (the Appendix B cursor only
	// moves forward), so one record cannot be amplified into many
	// (and the marker itself at most once: the rules G8-G11 of C04)
	c04References(p, r, m, "C08.I7.")

	// --- I3
	depth := loopRules(p, r, "C08.I3", scope, func(fn *ssa.Function, lc loopClass) (string, string, bool) {
		if fn != m.write {
			return "", "", false
		}
		// shrink: header tests len(writeBuf) >= 5; every back edge follows writeBuf = writeBuf[n:] with n == 5+length
		body := core.Loops(fn)[lc.Header]
		// some test of len(writeBuf) leaves the loop (as the loop condition or as
		// an `if ... break` inside it)
		lenExit := false
		for b := range body {
			iff, ok := b.Instrs[len(b.Instrs)-1].(*ssa.If)
			if !ok || (body[b.Succs[0]] && body[b.Succs[1]]) {
				continue
			}
			f := p.FactOf(core.Guard{Cond: iff.Cond, Pol: true, If: iff})
			for _, g := range []core.Fact{f, f.Flipped()} {
				if g.L != nil && g.L.Op == "call" && g.L.Name == "len" && g.L.Args[0].Op == "field" && g.L.Args[0].Obj == m.fConn["writeBuf"] {
					lenExit = true
				}
			}
		}
		if !lenExit {
			return "", "", false
		}
		for b := range body {
			for _, s := range b.Succs {
				if s != lc.Header {
					continue
				}
				// back edge b -> header
				fs := p.EdgeFacts(b, s)
				shrunk := false
				for _, st := range fieldStores(p, []*ssa.Function{fn}, m.fConn["writeBuf"]) {
					v := p.X(st.Val)
					if v.Op != "slice" || !body[st.Block()] || !(st.Block() == b || st.Block().Dominates(b)) {
						continue
					}
					n := v.Args[1]
					for _, ft := range fs {
						if ft.Op == "==" && ft.L.String() == n.String() && isRecordSize(m, ft.R, "writeBuf") {
							shrunk = true
						}
					}
				}
				if !shrunk {
					return "", "a way round Write's record loop does not remove a whole record from writeBuf", false
				}
			}
		}
		return "shrink", "each iteration removes one whole record (5 + length >= 5 bytes) from writeBuf or leaves the loop", true
	})
	r.Tables["max_nesting_of_non_range_loops"] = depth
	r.Floor("C08.I3", 12)

	// --- I4
	recordLimit(p, r, m, "C08.I4")

	// --- I5
	watcherRules(p, r, "C08.I5")

	// --- I6: the one pointer that peer input decides: the inner hello of a
	// retried ClientHello is dereferenced by Read (inner.Marshal()) and by the
	// handler itself; with isRetry assumed true every nil-error return of the
	// handler must be guarded by inner != nil, and the handler must test it
	// before it looks inside.
	hview := assumeParam(m.handle, m.handle.Params[2], true)
	isProc0 := func(e *core.Expr) bool {
		return e.Op == "ext" && e.Name == "#0" && e.Args[0].Op == "call" && e.Args[0].Fn == m.process
	}
	for _, ret := range core.Returns(m.handle) {
		if !lastResultNil(ret) || !hview.Live(ret.Block()) {
			continue
		}
		nn := false
		for _, f := range factsIn(p, hview, ret.Block()) {
			if f.Op == "!=" && f.R.Name == "nil" && isProc0(f.L) {
				nn = true
			}
		}
		r.Check("C08.I6", "handle:retry-inner-non-nil", nn, p.InstrPos(ret), "a retried hello that did not decrypt (the processor returned a nil hello without error, e.g. because the second outer hello no longer offers TLS 1.3) never reaches Read's inner.Marshal(): the handler's nil-error return is guarded by inner != nil (%v)", nn)
	}
	for _, b := range m.handle.Blocks {
		for _, in := range b.Instrs {
			fa, ok := in.(*ssa.FieldAddr)
			if !ok || !isProc0(p.X(fa.X)) {
				continue
			}
			nn := false
			for _, f := range p.Facts(b) {
				if f.Op == "!=" && f.R.Name == "nil" && isProc0(f.L) {
					nn = true
				}
			}
			r.Check("C08.I6", "handle:inner-deref:"+p.X(fa).Name, nn, p.InstrPos(fa), "the handler looks inside the processor's result only under inner != nil")
		}
	}
	r.Floor("C08.I6", 2)
	// ... and the debug function every Read and Write calls: whatever the
	// options did (WithDebug(nil), no WithDebug at all), NewConn installs a
	// function after the last option ran, and no option calls it before that
	{
		dbg := field(p, Ech, "Conn", "debugf")
		var optLoop map[*ssa.BasicBlock]bool
		var optHdr *ssa.BasicBlock
		for h, body := range core.Loops(m.newConn) {
			for b := range body {
				for _, in := range b.Instrs {
					if c, ok := in.(*ssa.Call); ok && p.X(c).Name == "dyn" && len(p.X(c).Args) == 2 && p.X(c).Args[0].Op == "index" {
						optLoop, optHdr = body, h
					}
				}
			}
		}
		installed := false
		if dbg != nil && optHdr != nil {
			for _, st := range fieldStores(p, []*ssa.Function{m.newConn}, dbg) {
				v := p.X(st.Val)
				if !(v.Op == "closure" || v.Op == "func") || optLoop[st.Block()] || !optHdr.Dominates(st.Block()) {
					continue
				}
				for _, f := range p.Facts(st.Block()) {
					if f.Op == "==" && f.R != nil && f.R.Name == "nil" && f.L.Op == "field" && f.L.Obj == dbg {
						installed = true
					}
				}
			}
		}
		r.Check("C08.I6", "NewConn:debugf-installed", installed, p.Pos(m.newConn.Pos()), "after the option loop NewConn replaces a nil debug function by a no-op (%v): Read and Write call it on every record", installed)
		nEarly := 0
		for _, fn := range p.PkgFuncs(Ech) {
			root := core.Root(fn)
			res := root.Signature.Results()
			if fn == root || res.Len() != 1 || !strings.HasSuffix(res.At(0).Type().String(), ".Option") {
				continue
			}
			for _, s := range allCalls(p, []*ssa.Function{fn}) {
				if s.X.Name == "dyn" && len(s.X.Args) > 0 && s.X.Args[0].Op == "field" && s.X.Args[0].Obj == dbg {
					nEarly++
					r.Check("C08.I6", fmt.Sprintf("option:debugf-call@%s#%d", p.FuncName(root), nEarly), false, p.InstrPos(s.Instr), "the option of %s calls the debug function, which is nil until NewConn has run every option", p.FuncName(root))
				}
			}
		}
	}
	// ... and the connection the alert is written to
	alertTargets(p, r, "C08.I6")
	// ... and the HPKE context the payload is opened with
	if m.open.Instr != nil {
		openReceiverNonNil(p, r, m, "C08.I6")
	}
}

// indexSafety is provided by interval.go.
var _ = fmt.Sprintf
