package props

import (
	"fmt"
	"go/types"
	"sort"
	"strings"

	"verif/third_party/xtools/go/ssa"

	"verif/internal/core"
)

// commonRules run under every property: obligations on code that sits beside
// the functions a property is anchored at and that every property silently
// relies on.
func commonRules(p *core.Prog, r *core.Run, id string) {
	reportingPure(p, r, id+".REPORT")
	sentinelsDistinct(p, r, id+".SENTINELS")
	globalsReadOnly(p, r, id+".GLOBALS")
	for _, inc := range crossIncludes[id] {
		include(p, r, inc.other, inc.from, inc.as)
	}
}

// crossIncludes: necessary conditions filed under a sibling property that a
// property depends on as well (found by seeded changes that broke it from the
// sibling's side).
var crossIncludes = map[string][]struct{ other, from, as string }{
	"C01": {{"C11", "C11.GRAMMAR", "C01.keys.config"}, {"C11", "C11.SAFE", "C01.keys.config.safe"}},
	"C02": {{"C01", "C01.tables", "C02.tables"}, {"C05", "C05.P2", "C02.A6.parse"}, {"C11", "C11.GRAMMAR", "C02.A4.config"}, {"C11", "C11.SAFE", "C02.A4.config.safe"}},
	"C03": {{"C05", "C05.P2", "C03.S3.parse.bytes"}, {"C07", "C07.B2", "C03.S5.delivered"}},
	"C05": {{"C01", "C01.tables", "C05.P3.hpke"}, {"C08", "C08.I6", "C05.P6.nil"}, {"C07", "C07.B4", "C05.P4.census"}},
	"C04": {{"C10", "C10", "C04.ALERT.deliver.ctx"}, {"C02", "C02.A6", "C04.AUTH.aad"}},
	"C07": {{"C08", "C08.I1", "C07.SAFE"}, {"C01", "C01.tables", "C07.B5.serverhello"}, {"C08", "C08.I6", "C07.SAFE.nil"}},
	"C08": {{"C04", "C04.ALERT.map", "C08.I6.alert"}},
	"C09": {{"C01", "C01.tables", "C09.EXIT.hpke"}, {"C11", "C11.GRAMMAR", "C09.KEYS.config"}, {"C11", "C11.SAFE", "C09.KEYS.config.safe"}},
	"C10": {{"C08", "C08.I3", "C10.PROMPT.loops"}, {"C07", "C07.B3", "C10.PROMPT.reader"}, {"C04", "C04.ALERT.map", "C10.PROMPT.alert"}},
	"C12": {{"C13", "C13.NAMES", "C12.NAMES"}},
	"C13": {{"C12", "C12.T2", "C13.PAD.safe"}, {"C16", "C16.TTL", "C13.RDATA.ttl"}},
	"C14": {{"C13", "C13.NAMES", "C14.N1.encode"}, {"C16", "C16.OWN", "C14.N5.own"}, {"C12", "C12.T4", "C14.N4.types"}, {"C16", "C16.KEY", "C14.N9.cache"}},
	"C15": {{"C16", "C16.SHARE", "C15.PURE.shared"}, {"C14", "C14.N9", "C15.PAIR.additional"}},
	"C16": {{"C14", "C14.N5", "C16.NOFAIL.lookup"}},
	"C17": {{"C19", "C19.HOST", "C17.SNI.transport"}, {"C19", "C19.AUTH", "C17.SNI.authority"}, {"C19", "C19.H3", "C17.PAIR.transport"}},
	"C19": {{"C15", "C15.PURE", "C19.H3.shared"}, {"C16", "C16.SHARE", "C19.H3.cache"}, {"C13", "C13.RDATA", "C19.H3.records"}, {"C16", "C16.NOFAIL", "C19.UPGRADE.lookup"}, {"C14", "C14.N4", "C19.H3.lookup"}, {"C14", "C14.N3", "C19.H3.chain"}},
}

// reportingPure: code whose job is to describe - String, Error, GoString and
// Format methods of the module's types, the functions whose result is an
// argument of a debugf call, and the module functions those call - writes to
// nothing its receiver or arguments reach: no store, map update, in-place
// library operation or append-with-spare-capacity on memory derived from a
// parameter. Printing a value must not change it (the values are the parsed
// hello, the key list, cached DNS records...).
func reportingPure(p *core.Prog, r *core.Run, rule string) {
	var roots []*ssa.Function
	seen := map[*ssa.Function]bool{}
	add := func(f *ssa.Function) {
		if f != nil && !seen[f] && len(f.Blocks) > 0 && inModule(p, f) {
			seen[f] = true
			roots = append(roots, f)
		}
	}
	for _, sp := range p.ByPath {
		for _, mem := range sp.Members {
			tn, ok := mem.(*ssa.Type)
			if !ok {
				continue
			}
			for _, t := range []types.Type{tn.Type(), types.NewPointer(tn.Type())} {
				ms := p.SSA.MethodSets.MethodSet(t)
				for i := 0; i < ms.Len(); i++ {
					switch ms.At(i).Obj().Name() {
					case "String", "Error", "GoString", "Format":
						if fn := p.SSA.MethodValue(ms.At(i)); fn != nil && fn.Synthetic == "" {
							add(fn)
						}
					}
				}
			}
		}
	}
	// arguments of debug calls (a call of a func-typed field or variable named debugf)
	for _, s := range allCalls(p, p.SrcFuncs()) {
		if s.X.Name != "dyn" || len(s.X.Args) == 0 {
			continue
		}
		callee := s.X.Args[0]
		if !(callee.Op == "field" && strings.Contains(strings.ToLower(callee.Name), "debug")) {
			continue
		}
		collect := func(x *core.Expr) {
			x.Walk(func(e *core.Expr) bool {
				if e.Op == "call" && e.Fn != nil && e != s.X {
					add(e.Fn)
				}
				return true
			})
		}
		collect(s.X)
		// (the arguments travel in the variadic slice)
		cargs := s.Instr.Common().Args
		if len(cargs) > 0 {
			for _, a := range variadicArgs(p, cargs[len(cargs)-1]) {
				collect(a)
			}
		}
	}
	// module functions they reach
	for i := 0; i < len(roots); i++ {
		for _, l := range core.Closures(roots[i]) {
			for _, s := range allCalls(p, []*ssa.Function{l}) {
				if c := s.Instr.Common().StaticCallee(); c != nil {
					add(c)
				}
			}
		}
	}
	sort.Slice(roots, func(i, j int) bool { return p.FuncName(roots[i]) < p.FuncName(roots[j]) })
	nW := 0
	for _, fn := range roots {
		for _, prm := range fn.Params {
			if !pointerLikeDeep(prm.Type(), 0) {
				continue
			}
			for _, l := range core.Closures(fn) {
				for _, b := range l.Blocks {
					for _, in := range b.Instrs {
						what := writesThrough(p, in, prm)
						if what == "" {
							continue
						}
						nW++
						r.Check(rule, fmt.Sprintf("%s:%s#%d", p.FuncName(fn), prm.Name(), nW), false, p.InstrPos(in), "reporting code changes what it describes: %s", what)
					}
				}
			}
		}
	}
	r.Check(rule, "census", nW == 0 && len(roots) >= 1, "-", "%d reporting functions (String/Error/Format methods, debug arguments and what they call) examined: %d writes through a receiver or argument", len(roots), nW)
}

// pointerLikeDeep: a value of the type can reach memory shared with others
// (a struct does through its fields).
func pointerLikeDeep(t types.Type, depth int) bool {
	if pointerLike(t) {
		return true
	}
	if st, ok := t.Underlying().(*types.Struct); ok && depth < 3 {
		for i := 0; i < st.NumFields(); i++ {
			if pointerLikeDeep(st.Field(i).Type(), depth+1) {
				return true
			}
		}
	}
	if at, ok := t.Underlying().(*types.Array); ok && depth < 3 {
		return pointerLikeDeep(at.Elem(), depth+1)
	}
	return false
}

// writesThrough describes the write instruction in makes to memory derived
// from parameter prm, or returns "".
func writesThrough(p *core.Prog, in ssa.Instruction, prm *ssa.Parameter) string {
	switch x := in.(type) {
	case *ssa.Store:
		if p.CellRoot(x.Addr) != nil {
			return ""
		}
		a := p.X(x.Addr)
		if a.Op != "param" && derivesFromRecv(p, a, prm) && !localCopy(a) {
			return "store to " + short(a)
		}
	case *ssa.MapUpdate:
		if derivesFromRecv(p, p.X(x.Map), prm) {
			return "update of the map " + short(p.X(x.Map))
		}
	case *ssa.Call:
		e := p.X(x)
		if len(e.Args) == 0 {
			return ""
		}
		if matches(`append|fmt\.Append(f|ln)?|strconv\.Append.*|encoding/binary\..*Append.*|unicode/utf8\.AppendRune|encoding/hex\.AppendEncode|time\.\(Time\)\.AppendFormat`, e.Name) {
			arg := e.Args[0]
			if e.Name != "append" && len(x.Call.Args) > 0 {
				arg = p.X(x.Call.Args[0])
			}
			if derivesFromRecv(p, arg, prm) {
				if sl, ok := x.Call.Args[0].(*ssa.Slice); ok && sl.Max != nil {
					return ""
				}
				return e.Name + " onto " + short(arg) + " (with spare capacity this writes into the array the value shares)"
			}
		}
		if matches(`sort\.(Strings|Ints|Float64s|Slice|SliceStable|Sort|Stable)|slices\.(Sort.*|Reverse|DeleteFunc|Delete|Compact.*|Insert|Replace)|copy|clear|delete|crypto/subtle\.XORBytes`, e.Name) && derivesFromRecv(p, e.Args[0], prm) {
			return e.Name + " works in place on " + short(e.Args[0])
		}
	}
	return ""
}

// localCopy: the address lies inside a local copy of a value (a value
// receiver's own struct), not behind a pointer, slice or map of it.
func localCopy(a *core.Expr) bool {
	for a != nil {
		switch a.Op {
		case "field":
			a = a.Args[0]
		case "new":
			return true
		default:
			return false
		}
	}
	return false
}

// include runs the rule set of another property and takes over, under the
// rule name as, the obligations it files under the rule names that start with
// from: a necessary condition of that property which this one depends on as
// well. (Rule sets are deterministic functions of the program; running one
// twice costs time only.)
func include(p *core.Prog, r *core.Run, other, from, as string) {
	pr := Registry[other]
	if pr == nil {
		r.Undecided(as, "include:"+other, "-", "no rule set %s", other)
		return
	}
	sub := core.NewRun(other, r.Tier)
	saved := make(map[*ssa.Function]bool, len(sizesOnly))
	for k, v := range sizesOnly {
		saved[k] = v
	}
	pr.Rules(p, sub)
	sizesOnly = saved
	n := 0
	for _, o := range sub.Obs {
		if o.Rule != from && !strings.HasPrefix(o.Rule, from+".") {
			continue
		}
		o.Rule = as + strings.TrimPrefix(o.Rule, from)
		r.Obs = append(r.Obs, o)
		n++
	}
	if n == 0 {
		r.Undecided(as, "include:"+from, "-", "rule set %s filed nothing under %s", other, from)
	}
}

// freshValue: v is created where it is evaluated - an allocation, a library
// constructor, or a module function all of whose results are - and not taken
// from a package-level variable, a parameter or some once-only initialiser.
func freshValue(p *core.Prog, v ssa.Value, depth int) bool {
	if depth > 3 {
		return false
	}
	switch x := v.(type) {
	case *ssa.MakeMap, *ssa.MakeSlice, *ssa.MakeChan, *ssa.Alloc:
		return true
	case *ssa.Const:
		return x.Value == nil // nothing to share
	case *ssa.ChangeType:
		return freshValue(p, x.X, depth+1)
	case *ssa.Extract:
		return freshValue(p, x.Tuple, depth+1)
	case *ssa.Phi:
		for _, e := range x.Edges {
			if !freshValue(p, e, depth+1) {
				return false
			}
		}
		return len(x.Edges) > 0
	case *ssa.Call:
		callee := x.Call.StaticCallee()
		if callee == nil {
			return false // a function value: cannot tell (sync.OnceValue hands out the same value every time)
		}
		if !inModule(p, callee) {
			n := callee.Name()
			if i := strings.Index(n, "["); i > 0 {
				n = n[:i]
			}
			return strings.HasPrefix(n, "New") || strings.HasPrefix(n, "Make")
		}
		rets := core.Returns(callee)
		for _, ret := range rets {
			if len(ret.Results) == 0 || !freshValue(p, ret.Results[0], depth+1) {
				return false
			}
		}
		return len(rets) > 0
	}
	return false
}

// ownState: every store into the given field of a module type stores a value
// created for that object (see freshValue): two objects never share it.
func ownState(p *core.Prog, r *core.Run, rule, pkg, typ, fld string) {
	fv := field(p, pkg, typ, fld)
	if fv == nil {
		r.Undecided(rule, typ+"."+fld, "-", "field not found")
		return
	}
	n := 0
	for _, st := range fieldStores(p, p.PkgFuncs(pkg), fv) {
		n++
		ok := freshValue(p, st.Val, 0)
		r.Check(rule, fmt.Sprintf("%s.%s:store#%d", typ, fld, n), ok, p.InstrPos(st), "%s.%s receives a value created for this object (not a package-level one, a parameter or a once-only initialiser): %s", typ, fld, short(p.X(st.Val)))
	}
	r.Check(rule, typ+"."+fld+":stores", n >= 1, "-", "stores to %s.%s examined: %d", typ, fld, n)
}

// sentinelsDistinct: the package-level error variables that callers (and the
// alert table, the "no HTTPS record" test, ...) tell apart with errors.Is are
// distinct plain values: each is made by errors.New in the package
// initialiser and written nowhere else, and no type of the module defines an
// Is method that could make one of them match another.
func sentinelsDistinct(p *core.Prog, r *core.Run, rule string) {
	n, bad := 0, 0
	var paths []string
	for path := range p.ByPath {
		paths = append(paths, path)
	}
	sort.Strings(paths)
	for _, path := range paths {
		sp := p.ByPath[path]
		var names []string
		for name := range sp.Members {
			names = append(names, name)
		}
		sort.Strings(names)
		for _, name := range names {
			switch mem := sp.Members[name].(type) {
			case *ssa.Global:
				if !strings.HasPrefix(strings.ToLower(name), "err") || mem.Type().(*types.Pointer).Elem().String() != "error" {
					continue
				}
				n++
				inits, others := 0, 0
				var val *core.Expr
				seenFn := map[*ssa.Function]bool{}
				for _, fn := range append([]*ssa.Function{sp.Func("init")}, p.SrcFuncs()...) {
					if fn == nil || seenFn[fn] {
						continue
					}
					seenFn[fn] = true
					for _, b := range fn.Blocks {
						for _, in := range b.Instrs {
							if st, ok := in.(*ssa.Store); ok && st.Addr == ssa.Value(mem) {
								if fn.Name() == "init" && fn.Parent() == nil {
									inits++
									val = p.X(st.Val)
								} else {
									others++
								}
							}
						}
					}
				}
				// a value made for this variable alone: errors.New, fmt.Errorf that
				// wraps nothing, or a literal of a small error type (no module type
				// has an Is method, see below) - not another error variable, not a
				// join or wrap of one
				ok := inits == 1 && others == 0 && val != nil
				if ok {
					switch {
					case val.Op == "call" && (val.Name == "errors.New" || val.Name == "fmt.Errorf"):
					case val.Op == "call":
						ok = false
					default:
						if val.Any(func(e *core.Expr) bool { return e.Op == "global" || e.Op == "call" || e.Op == "param" }) {
							ok = false
						}
					}
				}
				if ok && val.Name == "fmt.Errorf" {
					// (not one that wraps another error: it would belong to that class too)
					if c, isCall := val.Val.(*ssa.Call); isCall {
						if ops, known := wrappedOperands(p, c); !known || len(ops) > 0 {
							ok = false
						}
					}
				}
				if !ok {
					bad++
				}
				r.Check(rule, "sentinel:"+p.FuncName(sp.Func("init"))+"."+name, ok, "-", "%s is a plain errors.New value set once by the package initialiser (initialised %d times, %d other stores, value %s)", name, inits, others, short(val))
			case *ssa.Type:
				for _, t := range []types.Type{mem.Type(), types.NewPointer(mem.Type())} {
					ms := p.SSA.MethodSets.MethodSet(t)
					for i := 0; i < ms.Len(); i++ {
						if ms.At(i).Obj().Name() == "Is" {
							if fn := p.SSA.MethodValue(ms.At(i)); fn != nil && fn.Synthetic == "" {
								bad++
								r.Check(rule, "is-method:"+p.FuncName(fn), false, p.Pos(fn.Pos()), "%s decides what errors.Is answers: the package's error classes are told apart by identity", p.FuncName(fn))
							}
						}
					}
				}
			}
		}
	}
	r.Check(rule, "census", bad == 0, "-", "%d error variables examined, %d problems", n, bad)
}

// globalsReadOnly: after package initialisation the module's package-level
// variables are read-only and nothing is recycled through a pool: no store to
// a global, none through a pointer, slice or map loaded from one, no
// sync.Pool. (Every property here is stated for one connection, message,
// lookup or publisher at a time; state shared behind their backs breaks them
// for concurrent or consecutive uses.)
func globalsReadOnly(p *core.Prog, r *core.Run, rule string) {
	fromGlobal := func(v ssa.Value) *ssa.Global {
		for i := 0; i < 8; i++ {
			switch x := v.(type) {
			case *ssa.Global:
				return x
			case *ssa.FieldAddr:
				v = x.X
			case *ssa.IndexAddr:
				v = x.X
			case *ssa.UnOp:
				v = x.X
			case *ssa.Slice:
				v = x.X
			case *ssa.ChangeType:
				v = x.X
			default:
				return nil
			}
		}
		return nil
	}
	inMod := func(g *ssa.Global) bool {
		if g == nil || g.Pkg == nil {
			return false
		}
		_, ok := p.ByPath[g.Pkg.Pkg.Path()]
		return ok
	}
	n := 0
	for _, fn := range p.SrcFuncs() {
		root := core.Root(fn)
		if root.Name() == "init" && root.Parent() == nil || strings.HasPrefix(root.Name(), "init#") {
			continue
		}
		if root.Pkg != nil && (strings.Contains(root.Pkg.Pkg.Path(), "/example/") || strings.HasSuffix(root.Pkg.Pkg.Path(), "/testutil") || strings.HasSuffix(root.Pkg.Pkg.Path(), "/cmd")) {
			continue
		}
		for _, b := range fn.Blocks {
			for _, in := range b.Instrs {
				switch x := in.(type) {
				case *ssa.Store:
					if g := fromGlobal(x.Addr); inMod(g) {
						n++
						r.Check(rule, fmt.Sprintf("store:%s@%s#%d", g.Name(), p.FuncName(root), n), false, p.InstrPos(x), "%s writes to (or through) the package-level variable %s after initialisation", p.FuncName(root), g.Name())
					}
				case *ssa.MapUpdate:
					if g := fromGlobal(x.Map); inMod(g) {
						n++
						r.Check(rule, fmt.Sprintf("mapupdate:%s@%s#%d", g.Name(), p.FuncName(root), n), false, p.InstrPos(x), "%s updates the package-level map %s after initialisation", p.FuncName(root), g.Name())
					}
				case *ssa.Send:
					if g := fromGlobal(x.Chan); inMod(g) {
						n++
						r.Check(rule, fmt.Sprintf("send:%s@%s#%d", g.Name(), p.FuncName(root), n), false, p.InstrPos(x), "%s sends on the package-level channel %s: what one connection, lookup or call hands over there another one receives", p.FuncName(root), g.Name())
					}
				case *ssa.Select:
					for _, st := range x.States {
						if g := fromGlobal(st.Chan); inMod(g) {
							n++
							r.Check(rule, fmt.Sprintf("select:%s@%s#%d", g.Name(), p.FuncName(root), n), false, p.InstrPos(x), "%s communicates over the package-level channel %s: what one connection, lookup or call hands over there another one receives", p.FuncName(root), g.Name())
						}
					}
				case *ssa.Call:
					if c := x.Call.StaticCallee(); c != nil && len(x.Call.Args) > 0 && matches(`\(\*sync\.Map\)\.(Store|LoadOrStore|LoadAndDelete|Swap|CompareAndSwap|CompareAndDelete|Delete|Clear)|sync/atomic\.(Add|Store|Swap|CompareAndSwap|And|Or).*|\(\*sync/atomic\.\w+(\[.*\])?\)\.(Add|Store|Swap|CompareAndSwap|And|Or)`, c.String()) {
						if g := fromGlobal(x.Call.Args[0]); inMod(g) {
							n++
							r.Check(rule, fmt.Sprintf("shared:%s@%s#%d", g.Name(), p.FuncName(root), n), false, p.InstrPos(x), "%s updates the package-level %s (%s) after initialisation", p.FuncName(root), g.Name(), c.String())
						}
					}
					// a container kept in a package-level variable and filled at run time
					// (a cache, a memo, a free list) is state shared by everything in the
					// process: connections, lookups and calls stop being independent
					if c := x.Call.StaticCallee(); c != nil && len(x.Call.Args) > 0 && !inModule(p, c) &&
						matches(`^(Add|Put|Set|Store|Push|PushBack|PushFront|Insert|Remove|RemoveOldest|Delete|Purge|Resize|Clear|ContainsOrAdd|PeekOrAdd|LoadOrStore|Enqueue|Append)(\[.*\])?$`, c.Name()) {
						if g := fromGlobal(x.Call.Args[0]); inMod(g) {
							n++
							r.Check(rule, fmt.Sprintf("container:%s@%s#%d", g.Name(), p.FuncName(root), n), false, p.InstrPos(x), "%s changes the package-level container %s (%s) after initialisation", p.FuncName(root), g.Name(), c.Name())
						}
					}
					if c := x.Call.StaticCallee(); c != nil && (c.String() == "(*sync.Pool).Get" || c.String() == "(*sync.Pool).Put") {
						n++
						r.Check(rule, fmt.Sprintf("pool@%s#%d", p.FuncName(root), n), false, p.InstrPos(x), "%s recycles memory through a sync.Pool: decoded messages, results and hellos keep views into the buffers they were made from", p.FuncName(root))
					}
				}
			}
		}
	}
	r.Check(rule, "census", n == 0, "-", "writes to package-level state after initialisation and pool uses in the module's library packages: %d", n)
}

// receiverReadOnly: the methods of a configuration object (a Dialer, a
// Transport) that run per call leave the object as they found it: no store
// through the receiver, no mutating call on one of its fields. What one call
// remembers in the object the next call acts on (a "last good" target, a
// cached list), so calls stop being a function of their arguments.
func receiverReadOnly(p *core.Prog, r *core.Run, rule string, roots ...*ssa.Function) {
	nFn, nBad := 0, 0
	for _, root := range roots {
		if root == nil || root.Signature.Recv() == nil || len(root.Params) == 0 {
			continue
		}
		recv := root.Params[0]
		for _, fn := range core.Closures(root) {
			nFn++
			for _, b := range fn.Blocks {
				for _, in := range b.Instrs {
					why := ""
					if fn == root {
						why = writesThrough(p, in, recv)
					} else if st, ok := in.(*ssa.Store); ok && p.CellRoot(st.Addr) == nil {
						a := p.X(st.Addr)
						if a.Op != "param" && !localCopy(a) && a.Any(func(e *core.Expr) bool { return e.Val == ssa.Value(recv) }) {
							why = "store to " + short(a)
						}
					}
					if c, ok := in.(*ssa.Call); ok && why == "" {
						if sc := c.Call.StaticCallee(); sc != nil && len(c.Call.Args) > 0 && !inModule(p, sc) &&
							matches(`^(Add|Put|Set|Store|Push|PushBack|PushFront|Insert|Remove|RemoveOldest|Delete|Purge|Resize|Clear|ContainsOrAdd|PeekOrAdd|LoadOrStore|LoadAndDelete|Swap|CompareAndSwap|Enqueue|Append)(\[.*\])?$`, sc.Name()) {
							a := p.X(c.Call.Args[0])
							if a.Any(func(e *core.Expr) bool { return e.Val == ssa.Value(recv) }) && !a.Any(func(e *core.Expr) bool { return e.Op == "new" }) {
								why = sc.Name() + " on " + short(a)
							}
						}
					}
					if why != "" {
						nBad++
						r.Check(rule, fmt.Sprintf("%s:keeps-state#%d", p.FuncName(root), nBad), false, p.InstrPos(in), "%s changes the object it is called on (%s): a later call behaves differently for it", p.FuncName(fn), why)
					}
				}
			}
		}
	}
	r.Check(rule, "receiver-read-only", nBad == 0 && nFn >= 1, "-", "functions examined: %d; writes to the receiver's state: %d", nFn, nBad)
}
