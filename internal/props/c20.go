package props

import (
	"fmt"
	"go/token"
	"go/types"
	"reflect"
	"sort"
	"strconv"
	"strings"

	"verif/third_party/xtools/go/ssa"

	"verif/internal/core"
)

func init() {
	register(&Property{
		ID:     "C20",
		Module: "publish",
		Info: core.Info{
			Explanation: "Decides on the SSA of module publish (CloudflarePublisher): " +
				"(ONE) the result slice grows by exactly one element on every way round the loop over the requested records (every back-edge value is append(loop value, x)), is not otherwise modified, and is what is returned - one result per record, in request order; " +
				"(WHO) the only non-GET request is built in the update function (constant PATCH), which is called from one site, reached only when the record exists and the published value differs, with zone id, record id and data of the snapshot entry looked up under the loop's own (Zone, Name); " +
				"(ONLY) the only field of the fetched record data written before the PATCH is Value; " +
				"(PARAM) the parameter loop is one forward range over Split(value, \" \") that carries every element over by append except exactly those for which Cut(p, \"=\") succeeds with key \"ech\" (quoted or not); Split and Join use the same separator; on the write path one element ech=\"<base64 of the given list>\" is appended; the old value compared is the ech value without its quotes; " +
				"(FRESHSNAP) after a successful PATCH - and only then - the snapshot entry is replaced by the written data before the next iteration, so the same target listed twice is written once and a failed write is not remembered as done; " +
				"(PAGES) the page loop starts at 1, advances by 1, sends the counter as 'page', and each non-error exit is controlled by one of: empty page, page >= total_pages, page*per_page >= count. " +
				"Not decided: behaviour against a fake API over sequences of publishes.",
			Assumptions: []string{"module publish compiles against the released root module (module cache), which this property does not depend on"},
		},
		Rules: c20Rules,
	})
}

// c20Presized: the other way to give one result per target: the result slice
// is made with len(records) elements, never appended to or re-sliced, and
// every way round the loop stores a Code into the element of the loop's own
// position.
func c20Presized(p *core.Prog, r *core.Run, pub *ssa.Function, hdr *ssa.BasicBlock, body map[*ssa.BasicBlock]bool, mk *ssa.MakeSlice, ret *ssa.Return) {
	l := p.X(mk.Len)
	sized := l.Op == "call" && l.Name == "len" && l.Args[0].Op == "param" && l.Args[0].Name == "p2"
	only := true
	coded := map[*ssa.BasicBlock]bool{}
	for _, ref := range *mk.Referrers() {
		switch u := ref.(type) {
		case *ssa.IndexAddr:
			ph := forwardCounter(u.Index)
			own := ph != nil && ph.Block() == hdr
			for _, r2 := range *u.Referrers() {
				fa, ok := r2.(*ssa.FieldAddr)
				if !ok {
					// results[i] = result: the whole element, at the loop's position
					if st, isSt := r2.(*ssa.Store); isSt && st.Addr == ssa.Value(u) && own {
						coded[st.Block()] = true
						continue
					}
					if !isRead(r2) {
						only = false
					}
					continue
				}
				for _, r3 := range *fa.Referrers() {
					if st, ok := r3.(*ssa.Store); ok && st.Addr == ssa.Value(fa) && own && fieldVar(fa) != nil && fieldVar(fa).Name() == "Code" {
						coded[st.Block()] = true
					}
				}
			}
		case *ssa.Return, *ssa.DebugRef:
		case *ssa.Call:
			if bi, ok := u.Call.Value.(*ssa.Builtin); !ok || bi.Name() != "len" {
				only = false
			}
		default:
			only = false
		}
	}
	// no way round the loop avoids the blocks that store a Code
	avoid := false
	for _, s := range hdr.Succs {
		if !body[s] {
			continue
		}
		reach := core.Reachable(s, coded)
		for _, pr := range hdr.Preds {
			if body[pr] && reach[pr] && !coded[pr] {
				avoid = true
			}
		}
	}
	r.Check("C20.ONE", "results:returned", sized && only && !avoid, p.InstrPos(ret), "PublishECH returns a slice made with one element per record (%v), only written element-wise (%v), and every way round the loop stores a Code into the element at the loop's position (%v)", sized, only, !avoid)
}

func c20StopReason(f core.Fact, isInfo func(*core.Expr, string) bool) bool {
	switch {
	case f.Op == "==" && f.R != nil && f.R.Name == "0" && f.L.Op == "call" && f.L.Name == "len" && f.L.Args[0].Op == "field" && f.L.Args[0].Name == "Result":
		return true
	case f.Op == ">=" && isInfo(f.L, "Page") && isInfo(f.R, "TotalPages"):
		return true
	case f.Op == ">=" && f.L.Op == "bin" && f.L.Name == "*" && isInfo(f.L.Args[0], "Page") && isInfo(f.L.Args[1], "PerPage") && isInfo(f.R, "Count"):
		return true
	}
	return false
}

func c20Rules(p *core.Prog, r *core.Run) {
	pub := p.Func(Publish, "(*CloudflarePublisher).PublishECH")
	gzd := p.Func(Publish, "(*CloudflarePublisher).getZoneData")
	upd := p.Func(Publish, "(*CloudflarePublisher).updateRecord")
	if pub == nil || gzd == nil || upd == nil {
		r.Undecided("C20.ONE", "publish", "-", "PublishECH / getZoneData / updateRecord not found")
		return
	}
	r.Analysed(p.FuncName(pub), p.FuncName(gzd), p.FuncName(upd))
	all := p.PkgFuncs(Publish)

	// the loop over records
	var hdr *ssa.BasicBlock
	var body map[*ssa.BasicBlock]bool
	for h, b := range core.Loops(pub) {
		if iff, ok := h.Instrs[len(h.Instrs)-1].(*ssa.If); ok {
			f := p.FactOf(core.Guard{Cond: iff.Cond, Pol: true, If: iff})
			if f.R != nil && f.R.Op == "call" && f.R.Name == "len" && f.R.Args[0].Op == "param" && f.R.Args[0].Name == "p2" {
				hdr, body = h, b
			}
		}
	}
	if hdr == nil {
		r.Undecided("C20.ONE", "records-loop", p.Pos(pub.Pos()), "no loop over the records parameter")
		return
	}

	// --- ONE
	var resPhi *ssa.Phi
	for _, ret := range core.Returns(pub) {
		ph, ok := ret.Results[0].(*ssa.Phi)
		if ok && ph.Block() == hdr {
			resPhi = ph
		}
		if mk, isMk := ret.Results[0].(*ssa.MakeSlice); isMk && !ok {
			c20Presized(p, r, pub, hdr, body, mk, ret)
			continue
		}
		r.Check("C20.ONE", "results:returned", ok && ph.Block() == hdr, p.InstrPos(ret), "PublishECH returns the slice accumulated by the records loop")
	}
	if resPhi != nil {
		n := 0
		for i, e := range resPhi.Edges {
			pred := hdr.Preds[i]
			if !body[pred] {
				x := p.X(e)
				r.Check("C20.ONE", "results:initial", x.Op == "new" || x.Op == "const", p.InstrPos(resPhi), "the result slice starts empty: %s", short(x))
				continue
			}
			n++
			// exactly one append whose base is the loop value
			ok := false
			if c, isCall := e.(*ssa.Call); isCall {
				if bi, isB := c.Call.Value.(*ssa.Builtin); isB && bi.Name() == "append" && c.Call.Args[0] == ssa.Value(resPhi) {
					if sl, isSl := c.Call.Args[1].(*ssa.Slice); isSl {
						if al, isAl := sl.X.(*ssa.Alloc); isAl {
							if at, isArr := deref2(al.Type()).Underlying().(interface{ Len() int64 }); isArr && at.Len() == 1 {
								ok = true
							}
						}
					}
				}
			}
			r.Check("C20.ONE", fmt.Sprintf("results:back-edge b%d", pred.Index), ok, p.InstrPos(pred.Instrs[len(pred.Instrs)-1]), "this way round the loop appends exactly one result to the slice of the previous iteration: %s", short(p.X(e)))
		}
		r.Check("C20.ONE", "results:back-edges", n >= 1, p.InstrPos(resPhi), "%d ways round the loop, each checked (today: zone error / not found, no change, update error, updated)", n)
	}

	// --- WHO
	methods := map[string][]string{}
	for _, s := range callSites(p, all, `retryablehttp\.NewRequestWithContext|net/http\.NewRequestWithContext|net/http\.NewRequest|retryablehttp\.NewRequest`) {
		m := s.X.Args[1].Name
		fn := p.FuncName(core.Root(s.Fn))
		methods[m] = append(methods[m], fn)
	}
	var keys []string
	for k := range methods {
		keys = append(keys, k)
	}
	sort.Strings(keys)
	okM := len(keys) == 2 && keys[0] == `"GET"` && keys[1] == `"PATCH"` && len(methods[`"PATCH"`]) == 1 && methods[`"PATCH"`][0] == p.FuncName(upd)
	for _, fn := range methods[`"GET"`] {
		if fn != p.FuncName(gzd) {
			okM = false
		}
	}
	r.Tables["http_methods"] = fmt.Sprint(methods)
	r.Check("C20.WHO", "http-methods", okM, p.Pos(upd.Pos()), "requests built in the package: %v - the only writing request is the PATCH in updateRecord", methods)
	var updCalls []site
	for _, s := range allCalls(p, all) {
		if s.X.Fn == upd {
			updCalls = append(updCalls, s)
		}
	}
	r.Check("C20.WHO", "updateRecord:callers", len(updCalls) == 1 && updCalls[0].Fn == pub, p.Pos(upd.Pos()), "updateRecord is called from exactly one place, in PublishECH (found %d)", len(updCalls))
	var lookup *ssa.Lookup
	if len(updCalls) == 1 {
		call := updCalls[0]
		fs := p.Facts(call.Block())
		exists, differs := false, false
		for _, f := range fs {
			if f.Op == "true" && f.L.Op == "ext" && f.L.Name == "#1" {
				if lk, ok := f.L.Args[0].Val.(*ssa.Lookup); ok {
					exists, lookup = true, lk
				}
			}
			for _, g := range []core.Fact{f, f.Flipped()} {
				if g.Op == "!=" && g.L.Op == "call" && g.L.Name == "(*encoding/base64.Encoding).EncodeToString" {
					differs = true
				}
			}
		}
		r.Check("C20.WHO", "updateRecord:guards", exists && differs, p.InstrPos(call.Instr), "the write happens only when the record exists in the snapshot (%v) and the published value differs from the new one (%v)", exists, differs)
		// ids from the entry looked up under the loop's (Zone, Name)
		okIDs := lookup != nil
		if lookup != nil {
			for i, name := range []string{"ZoneID", "RecordID", "Data"} {
				a := call.X.Args[2+i]
				if !(a.Op == "field" && a.Name == name && a.Args[0].Op == "ext" && a.Args[0].Args[0].Val == ssa.Value(lookup)) {
					okIDs = false
				}
			}
			okIDs = okIDs && c20KeyOfLoop(p, lookup.Index, hdr)
		}
		r.Check("C20.WHO", "updateRecord:ids", okIDs, p.InstrPos(call.Instr), "zone id, record id and data passed to the write are those of the snapshot entry for this iteration's own (Zone, Name)")
	}

	// the write function reports success only after it has sent the request:
	// no way out with a nil error goes round the PATCH (a "nothing to do"
	// shortcut decided on what an earlier call remembered reports a write that
	// did not happen)
	{
		var do []ssa.Instruction
		for _, s := range callSites(p, []*ssa.Function{upd}, `.*\.Do$`) {
			do = append(do, s.Instr)
		}
		nOK := 0
		for i, ret := range core.Returns(upd) {
			if !lastResultNil(ret) {
				continue
			}
			nOK++
			sent := false
			for _, d := range do {
				if d.Block() == ret.Block() || d.Block().Dominates(ret.Block()) {
					sent = true
				}
			}
			r.Check("C20.WHO", fmt.Sprintf("updateRecord:success-after-request#%d", i), sent, p.InstrPos(ret), "updateRecord returns nil only on a way that has passed its HTTP request")
		}
		r.Check("C20.WHO", "updateRecord:success-returns", len(do) == 1 && nOK >= 1, p.Pos(upd.Pos()), "%d request site(s) and %d success return(s) in updateRecord", len(do), nOK)
	}

	// --- ONLY
	nData := 0
	for _, b := range pub.Blocks {
		for _, in := range b.Instrs {
			st, ok := in.(*ssa.Store)
			if !ok {
				continue
			}
			a := p.X(st.Addr)
			if a.Op == "field" && a.Args[0].Op == "field" && a.Args[0].Name == "Data" {
				nData++
				r.Check("C20.ONLY", "data-field:"+a.Name, a.Name == "Value", p.InstrPos(st), "field %s of the fetched record data is rewritten", a.Name)
				// ... in a copy of the snapshot entry: the snapshot itself changes only
				// once the write went through (FRESHSNAP); an entry reached through a
				// pointer kept in the map would change right here
				shared := false
				if fa, isFA := st.Addr.(*ssa.FieldAddr); isFA {
					base := fa.X
					for {
						if f2, ok := base.(*ssa.FieldAddr); ok {
							base = f2.X
							continue
						}
						break
					}
					if _, isLocal := base.(*ssa.Alloc); !isLocal {
						shared = true
					}
				}
				r.Check("C20.ONLY", "data-field:on-a-copy", !shared, p.InstrPos(st), "the new value is written into a local copy of the snapshot entry, not into the entry itself: %s", short(a))
			}
		}
	}
	r.Check("C20.ONLY", "data-fields", nData == 1, p.Pos(pub.Pos()), "exactly one field of the record data is written (found %d)", nData)

	// the zone-id cache outlives the call: it is written only with an id the
	// API has just confirmed (in the lookup's own code, behind its success
	// tests) - an id remembered from a failed or empty lookup would make every
	// later publish report "not found"
	nZ := 0
	for _, fn := range all {
		for _, b := range fn.Blocks {
			for _, in := range b.Instrs {
				mu, ok := in.(*ssa.MapUpdate)
				if !ok {
					continue
				}
				mx := p.X(mu.Map)
				if !(mx.Op == "field" && mx.Name == "zoneIDs") {
					continue
				}
				nZ++
				inLookup := fn == gzd
				confirmed := false
				for _, f := range p.Facts(b) {
					if f.Op == "true" && f.L.Op == "field" && f.L.Name == "Success" {
						confirmed = true
					}
				}
				r.Check("C20.WHO", fmt.Sprintf("zone-id-cache:store#%d", nZ), inLookup && confirmed, p.InstrPos(mu), "the zone-id cache is written by the lookup itself (%v) after the API reported success (%v)", inLookup, confirmed)
			}
		}
	}

	// --- PARAM
	c20Params(p, r, pub)

	// --- FRESHSNAP
	nSnap := 0
	for _, b := range pub.Blocks {
		for _, in := range b.Instrs {
			mu, ok := in.(*ssa.MapUpdate)
			if !ok {
				continue
			}
			// the snapshot: the map whose entries are the fetched record data
			// (a local, or a field of a local that groups the call's state)
			if mt, isMap := mu.Map.Type().Underlying().(*types.Map); !isMap || !strings.HasSuffix(mt.Elem().String(), "idData") {
				continue
			}
			nSnap++
			// the snapshot belongs to this call: made here, not kept in the
			// publisher (a listing remembered across calls goes stale: records
			// edited in between are reported unchanged or overwritten)
			mx := p.X(mu.Map)
			perCall := !mx.Any(func(e *core.Expr) bool { return e.Op == "param" || e.Op == "global" })
			r.Check("C20.FRESHSNAP", "snapshot:per-call", perCall, p.InstrPos(mu), "the snapshot map is created by this call of PublishECH: %s", short(mx))
			succeeded := false
			for _, f := range p.Facts(b) {
				if f.Op == "==" && f.R.Name == "nil" && f.L.Op == "call" && f.L.Fn == upd {
					succeeded = true
				}
			}
			sameKey := c20KeyOfLoop(p, mu.Key, hdr)
			// the value stored is the entry that was written
			val := p.X(mu.Value)
			sameVal := lookup != nil && val.Op == "ext" && val.Args[0].Val == ssa.Value(lookup) || val.Op == "cell" || val.Op == "new"
			r.Check("C20.FRESHSNAP", "snapshot:refresh", succeeded && sameKey && sameVal && body[b], p.InstrPos(mu), "the snapshot entry of this (Zone, Name) (%v) is replaced by the written data only after the write succeeded (%v), inside the loop", sameKey, succeeded)
		}
	}
	r.Check("C20.FRESHSNAP", "snapshot:refreshed", nSnap == 1, p.Pos(pub.Pos()), "the snapshot is refreshed after a successful write, so a target listed twice is written once (found %d refresh sites)", nSnap)

	// what one publisher learned about its zones (also: "not found with this
	// token") is its own
	ownState(p, r, "C20.FRESHSNAP.own", Publish, "CloudflarePublisher", "zoneIDs")

	// --- PAGES
	c20Pages(p, r, gzd)
}

// c20KeyOfLoop: the map key is zoneName{r.Zone, r.Name} of the records loop's element.
func c20KeyOfLoop(p *core.Prog, key ssa.Value, hdr *ssa.BasicBlock) bool {
	u, ok := key.(*ssa.UnOp)
	if !ok || u.Op != token.MUL {
		return false
	}
	al, ok := u.X.(*ssa.Alloc)
	if !ok {
		return false
	}
	var zone, name bool
	for _, ref := range *al.Referrers() {
		fa, ok := ref.(*ssa.FieldAddr)
		if !ok {
			continue
		}
		for _, r2 := range *fa.Referrers() {
			st, ok := r2.(*ssa.Store)
			if !ok {
				continue
			}
			v := p.X(st.Val)
			if v.Op == "field" && v.Args[0].Op == "index" && v.Args[0].Args[0].Op == "param" && v.Args[0].Args[0].Name == "p2" {
				if ph := inductionOf(v.Args[0].Args[1].Val); ph != nil && ph.Block() == hdr {
					if v.Name == "Zone" && p.X(fa).Name == "Zone" {
						zone = true
					}
					if v.Name == "Name" && p.X(fa).Name == "Name" {
						name = true
					}
				}
			}
		}
	}
	return zone && name
}

func inductionOf(v ssa.Value) *ssa.Phi {
	if bo, ok := v.(*ssa.BinOp); ok && bo.Op == token.ADD {
		v = bo.X
	}
	ph, _ := v.(*ssa.Phi)
	return ph
}

func c20Params(p *core.Prog, r *core.Run, pub *ssa.Function) {
	// the Split
	splits := callSites(p, []*ssa.Function{pub}, `strings\.Split`)
	joins := callSites(p, []*ssa.Function{pub}, `strings\.Join`)
	// the other way to put the value together again: a strings.Builder that
	// gets every kept parameter followed by the separator, then the new element
	var built *ssa.Call
	var builtW []bWrite
	if len(joins) == 0 {
		for _, s := range callSites(p, []*ssa.Function{pub}, `\(\*strings\.Builder\)\.String`) {
			if c, ok := s.Instr.(*ssa.Call); ok {
				if ws, ok := builderWrites(p, c); ok && len(ws) >= 3 && built == nil {
					built, builtW = c, ws
				}
			}
		}
	}
	if len(splits) != 1 || len(joins) != 1 && built == nil {
		r.Check("C20.PARAM", "split-join", false, p.Pos(pub.Pos()), "expected one Split and one Join of the parameter string (found %d, %d)", len(splits), len(joins))
		return
	}
	sp := splits[0]
	var jn site
	joinSep := ""
	if built == nil {
		jn = joins[0]
		joinSep = jn.X.Args[1].Name
	} else {
		jn = site{Fn: pub, Instr: built, X: p.X(built)}
		// [loop: element, separator] ...
		if builtW[0].loop != nil && builtW[1].loop == builtW[0].loop && builtW[0].part.Val != nil && builtW[1].part.Val == nil && (len(builtW) == 2 || builtW[2].loop == nil) {
			joinSep = strconv.Quote(builtW[1].part.Lit)
		}
	}
	sameSep := sp.X.Args[1].Name == joinSep && sp.X.Args[1].Name == `" "`
	onValue := sp.X.Args[0].Op == "field" && sp.X.Args[0].Name == "Value"
	r.Check("C20.PARAM", "split-join", sameSep && onValue, p.InstrPos(sp.Instr), "the stored value is split and re-joined with the same separator (%s / %s)", sp.X.Args[1].Name, joinSep)
	// the loop over the parts
	var hdr *ssa.BasicBlock
	var body map[*ssa.BasicBlock]bool
	for h, b := range core.Loops(pub) {
		if iff, ok := h.Instrs[len(h.Instrs)-1].(*ssa.If); ok {
			f := p.FactOf(core.Guard{Cond: iff.Cond, Pol: true, If: iff})
			if f.R != nil && f.R.Op == "call" && f.R.Name == "len" && f.R.Args[0].Val == sp.Instr.(ssa.Value) {
				hdr, body = h, b
			}
		}
	}
	if hdr == nil {
		r.Check("C20.PARAM", "param-loop", false, p.InstrPos(sp.Instr), "no forward range over the split parameters")
		return
	}
	isPart := func(e *core.Expr) bool {
		return e.Op == "index" && e.Args[0].Val == sp.Instr.(ssa.Value) && inductionOf(e.Args[1].Val) != nil && inductionOf(e.Args[1].Val).Block() == hdr
	}
	isCut := func(e *core.Expr, idx string) bool {
		return e.Op == "ext" && e.Name == idx && e.Args[0].Op == "call" && e.Args[0].Name == "strings.Cut" && isPart(e.Args[0].Args[0]) && e.Args[0].Args[1].Name == `"="`
	}
	// the same test spelled strings.CutPrefix(p, "ech="): #0 is the value, #1 "found"
	isCutPrefix := func(e *core.Expr, idx string) bool {
		return e.Op == "ext" && e.Name == idx && e.Args[0].Op == "call" && e.Args[0].Name == "strings.CutPrefix" && isPart(e.Args[0].Args[0]) && e.Args[0].Args[1].Name == `"ech="`
	}
	// back edges: either carry the element over, or skip it under exactly {Cut ok, key == "ech"}
	var newParams *ssa.Phi
	for _, in := range hdr.Instrs {
		if ph, ok := in.(*ssa.Phi); ok {
			if _, isSl := ph.Type().Underlying().(interface{ Elem() interface{} }); isSl {
				_ = isSl
			}
			if ph.Type().String() == "[]string" {
				newParams = ph
			}
		}
	}
	if newParams == nil {
		r.Check("C20.PARAM", "param-loop:accumulator", false, p.InstrPos(hdr.Instrs[0]), "the kept parameters are not accumulated by the loop")
		return
	}
	nKeep, nSkip := 0, 0
	// the ways round the loop: a back edge, or (when the ways merge before the
	// back edge, as with a post statement) each edge of the merging φ
	type way struct {
		val  ssa.Value
		fs   []core.Fact
		last *ssa.BasicBlock
	}
	var ways []way
	var expand func(v ssa.Value, fs []core.Fact, last *ssa.BasicBlock, depth int)
	expand = func(v ssa.Value, fs []core.Fact, last *ssa.BasicBlock, depth int) {
		if ph, ok := v.(*ssa.Phi); ok && ph != newParams && body[ph.Block()] && depth < 4 {
			for k, e := range ph.Edges {
				expand(e, append(append([]core.Fact{}, fs...), p.EdgeFacts(ph.Block().Preds[k], ph.Block())...), ph.Block().Preds[k], depth+1)
			}
			return
		}
		ways = append(ways, way{v, fs, last})
	}
	for i, e := range newParams.Edges {
		if pred := hdr.Preds[i]; body[pred] {
			expand(e, p.EdgeFacts(pred, hdr), pred, 0)
		}
	}
	for _, w := range ways {
		e, pred := w.val, w.last
		if e == ssa.Value(newParams) {
			// skipped
			nSkip++
			okCut, okKey := false, false
			extra := ""
			for _, f := range w.fs {
				switch {
				case f.Op == "true" && isCut(f.L, "#2"):
					okCut = true
				case f.Op == "==" && isCut(f.L, "#0") && f.R.Name == `"ech"`:
					okKey = true
				case f.Op == "true" && isCutPrefix(f.L, "#1"):
					okCut, okKey = true, true
				case f.L.Op == "bin" || f.L.Op == "call" && f.L.Name == "len" || f.R != nil && f.R.Op == "call" && f.R.Name == "len":
					// loop bounds
				case f.L.Op == "ext" && f.L.Name == "#1" || f.Op == "true" && f.L.Op == "ext":
					// snapshot lookup ok
				default:
					if !strings.Contains(f.String(), "len(") {
						extra = f.String()
					}
				}
			}
			r.Check("C20.PARAM", "param-loop:skip", okCut && okKey && extra == "", p.InstrPos(pred.Instrs[len(pred.Instrs)-1]), "a parameter is dropped exactly when it has the key \"ech\" (Cut(p, \"=\") succeeds: %v, with key \"ech\": %v; or CutPrefix(p, \"ech=\")) - quoted or unquoted values alike %s", okCut, okKey, extra)
			continue
		}
		c, ok := e.(*ssa.Call)
		okApp := false
		if ok {
			if bi, isB := c.Call.Value.(*ssa.Builtin); isB && bi.Name() == "append" && c.Call.Args[0] == ssa.Value(newParams) {
				args := variadicArgs(p, c.Call.Args[1])
				okApp = len(args) == 1 && isPart(args[0])
			}
		}
		nKeep++
		r.Check("C20.PARAM", "param-loop:keep", okApp, p.InstrPos(pred.Instrs[len(pred.Instrs)-1]), "every other parameter is carried over unchanged, in order: %s", short(p.X(e)))
	}
	r.Check("C20.PARAM", "param-loop:edges", nKeep == 1 && nSkip == 1, p.InstrPos(hdr.Instrs[0]), "one keep edge and one skip edge (found %d, %d)", nKeep, nSkip)
	// the new element
	okNew := false
	isNewValue := func(v *core.Expr) bool {
		return v.Op == "call" && v.Name == "(*encoding/base64.Encoding).EncodeToString" && v.Args[0].Name == "encoding/base64.StdEncoding" && v.Args[1].Op == "param" && v.Args[1].Name == "p3"
	}
	if built != nil {
		// every kept parameter in order (a full forward range over the list the
		// parameter loop accumulated), then ech="<value>"
		el := builtW[0].part.Val
		overKept := el != nil && el.Op == "index" && len(el.Args) == 2 && el.Args[0].Val == ssa.Value(newParams) && rangeLoopOver(builtW[0].loop, el.Args[1].Val)
		var rest []strPart
		for _, w := range builtW[2:] {
			if w.loop != nil || !(w.instr.Block() == built.Block() || w.instr.Block().Dominates(built.Block())) {
				overKept = false
			}
			if n := len(rest); n > 0 && rest[n-1].Val == nil && w.part.Val == nil {
				rest[n-1].Lit += w.part.Lit
			} else {
				rest = append(rest, w.part)
			}
		}
		okNew = overKept && len(rest) == 3 && rest[0].Lit == `ech="` && rest[2].Lit == `"` && rest[1].Val != nil && isNewValue(rest[1].Val)
	}
	arg := jn.X.Args[0]
	if built == nil && arg.Op == "call" && arg.Name == "append" {
		c := jn.Instr.Common().Args[0].(*ssa.Call)
		args := variadicArgs(p, c.Call.Args[1])
		if len(args) == 1 {
			// ech="<value>" whether formatted or concatenated
			if parts, ok := stringParts(p, args[0]); ok && len(parts) == 3 && parts[0].Lit == `ech="` && parts[2].Lit == `"` && parts[1].Val != nil && parts[1].Verb == "s" {
				v := parts[1].Val
				okNew = v.Op == "call" && v.Name == "(*encoding/base64.Encoding).EncodeToString" && v.Args[0].Name == "encoding/base64.StdEncoding" && v.Args[1].Op == "param" && v.Args[1].Name == "p3" && c.Call.Args[0] == ssa.Value(newParams)
			}
		}
	}
	r.Check("C20.PARAM", "new-ech", okNew, p.InstrPos(jn.Instr), "the written value is the kept parameters plus exactly one ech=\"<StdEncoding base64 of the given config list>\"")
	// old value: Trim(cut#1, `"`) compared with the new value
	okOld := false
	for _, b := range pub.Blocks {
		if iff, ok := b.Instrs[len(b.Instrs)-1].(*ssa.If); ok {
			f := p.FactOf(core.Guard{Cond: iff.Cond, Pol: true, If: iff})
			for _, g := range []core.Fact{f, f.Flipped()} {
				if g.Op == "==" && g.L.Op == "call" && g.L.Name == "(*encoding/base64.Encoding).EncodeToString" && g.R != nil {
					good := false
					for _, a := range g.R.Alts() {
						if a.Op == "call" && a.Name == "strings.Trim" && (isCut(a.Args[0], "#1") || isCutPrefix(a.Args[0], "#0")) && a.Args[1].Name == `"\""` {
							good = true
						}
					}
					okOld = good
				}
			}
		}
	}
	r.Check("C20.PARAM", "old-ech", okOld, p.Pos(pub.Pos()), "the published value compared with the new one is the ech parameter's value without its quotes")
}

func c20Pages(p *core.Prog, r *core.Run, gzd *ssa.Function) {
	var page *ssa.Phi
	var hdr *ssa.BasicBlock
	var body map[*ssa.BasicBlock]bool
	itoaArg := map[ssa.Value]bool{}
	for _, s := range callSites(p, []*ssa.Function{gzd}, `strconv\.Itoa`) {
		itoaArg[s.Instr.Common().Args[0]] = true
	}
	for h, b := range core.Loops(gzd) {
		for _, in := range h.Instrs {
			if ph, ok := in.(*ssa.Phi); ok && isIntType(ph.Type()) && itoaArg[ph] {
				page, hdr, body = ph, h, b
			}
		}
	}
	if page == nil {
		r.Check("C20.PAGES", "page-loop", false, p.Pos(gzd.Pos()), "no page loop")
		return
	}
	start, step := false, false
	for i, e := range page.Edges {
		if !body[hdr.Preds[i]] {
			c, ok := e.(*ssa.Const)
			start = ok && c.Value != nil && c.Int64() == 1
		} else if bo, ok := e.(*ssa.BinOp); ok && bo.Op == token.ADD && bo.X == ssa.Value(page) {
			c, ok := bo.Y.(*ssa.Const)
			step = ok && c.Int64() == 1
		}
	}
	sent := false
	for _, s := range callSites(p, []*ssa.Function{gzd}, `\(net/url\.Values\)\.Set`) {
		if s.X.Args[1].Name == `"page"` && s.X.Args[2].Op == "call" && s.X.Args[2].Name == "strconv.Itoa" && s.X.Args[2].Args[0].Val == ssa.Value(page) {
			sent = true
		}
	}
	// the listing asks for HTTPS records only: the snapshot is keyed by name, so
	// a record of another type at a requested name would stand in for (and be
	// written instead of) the HTTPS record
	typed := false
	for _, s := range callSites(p, []*ssa.Function{gzd}, `\(net/url\.Values\)\.(Set|Add)`) {
		if len(s.X.Args) == 3 && s.X.Args[1].Name == `"type"` && s.X.Args[2].Name == `"HTTPS"` {
			typed = true
		}
	}
	r.Check("C20.ONLY", "listing:type-HTTPS", typed, p.Pos(gzd.Pos()), "the record listing is restricted to type=HTTPS by the request itself (%v)", typed)
	r.Check("C20.PAGES", "page-counter", start && step && sent, p.InstrPos(page), "the page counter starts at 1 (%v), advances by 1 (%v) and is sent as the 'page' query parameter (%v)", start, step, sent)
	isInfo := func(e *core.Expr, name string) bool {
		return e.Op == "field" && e.Name == name && e.Args[0].Op == "field" && e.Args[0].Name == "ResultInfo"
	}
	nExit := 0
	for b := range body {
		for _, s := range b.Succs {
			if body[s] {
				continue
			}
			// (an inlined helper's error returns reach the caller's return through jumps)
			t := s
			for n := 0; n < 8; n++ {
				if _, isJump := t.Instrs[len(t.Instrs)-1].(*ssa.Jump); isJump && len(t.Succs) == 1 && !body[t.Succs[0]] {
					t = t.Succs[0]
					continue
				}
				break
			}
			if ret, ok := t.Instrs[len(t.Instrs)-1].(*ssa.Return); ok && !lastResultNil(ret) {
				continue // error exit
			}
			nExit++
			fs := p.EdgeFacts(b, s)
			ok := false
			// a condition computed beforehand (lastPage := a || b || c) stands for
			// its alternatives: each of them must be an accepted reason
			if len(fs) > 0 && (fs[0].Op == "true" || fs[0].Op == "false") {
				if alts := disjuncts(p, fs[0].L.Val, fs[0].Op == "true"); len(alts) > 1 {
					all := true
					for _, f := range alts {
						all = all && c20StopReason(f, isInfo)
					}
					r.Check("C20.PAGES", fmt.Sprintf("page-loop:exit b%d", b.Index), all, p.InstrPos(b.Instrs[len(b.Instrs)-1]), "listing stops on a precomputed condition with %d alternatives - accepted are an empty page, page >= total_pages, page*per_page >= count (quantities of this zone's own listing)", len(alts))
					continue
				}
			}
			if len(fs) > 0 {
				f := fs[0]
				ok = c20StopReason(f, isInfo)
			}
			what := ""
			if len(fs) > 0 {
				what = fs[0].String()
			}
			r.Check("C20.PAGES", fmt.Sprintf("page-loop:exit b%d", b.Index), ok, p.InstrPos(b.Instrs[len(b.Instrs)-1]), "listing stops on: %s - accepted are an empty page, page >= total_pages, page*per_page >= count (quantities of this zone's own listing)", what)
		}
	}
	// the quantities tested are the ones the API sends: the response's JSON
	// names (Cloudflare API v4, "result_info": count, page, per_page, total_pages)
	wantTag := map[string]string{"Count": "count", "Page": "page", "PerPage": "per_page", "TotalPages": "total_pages", "ResultInfo": "result_info", "Result": "result"}
	gotTag := map[string]string{}
	seenStruct := map[*types.Struct]bool{}
	var tags func(st *types.Struct)
	tags = func(st *types.Struct) {
		if seenStruct[st] {
			return
		}
		seenStruct[st] = true
		for i := 0; i < st.NumFields(); i++ {
			name := st.Field(i).Name()
			if _, ok := wantTag[name]; ok {
				tag := reflect.StructTag(st.Tag(i)).Get("json")
				if k := strings.Index(tag, ","); k >= 0 {
					tag = tag[:k]
				}
				if old, had := gotTag[name]; !had || old == wantTag[name] {
					gotTag[name] = tag
				}
			}
			if inner, ok := st.Field(i).Type().Underlying().(*types.Struct); ok {
				tags(inner)
			}
		}
	}
	for b := range body {
		for _, in := range b.Instrs {
			if fa, ok := in.(*ssa.FieldAddr); ok {
				if st, ok := deref2(fa.X.Type()).Underlying().(*types.Struct); ok && fieldVar(fa) != nil && fieldVar(fa).Name() == "ResultInfo" {
					tags(st)
				}
			}
		}
	}
	okTags := len(gotTag) > 0
	for name, got := range gotTag {
		if got != wantTag[name] {
			okTags = false
		}
	}
	for _, name := range []string{"Count", "Page", "PerPage", "TotalPages", "ResultInfo"} {
		if _, ok := gotTag[name]; !ok {
			okTags = false
		}
	}
	r.Check("C20.PAGES", "page-info:json-names", okTags, p.InstrPos(page), "the paging quantities are decoded from the API's own field names: %v (want %v)", gotTag, wantTag)
	r.Check("C20.PAGES", "page-loop:exits", nExit >= 1, p.InstrPos(page), "%d non-error exits of the page loop", nExit)
	c20FreshDecodeTargets(p, r)
}

// c20FreshDecodeTargets: encoding/json leaves in place what the input does
// not mention (and reuses the elements of a slice it decodes into), so a
// response decoded into a variable that still holds an earlier response takes
// over that response's values. Every decode target of the package that is
// filled inside a loop is a variable created inside that same loop, i.e. zero
// for each response.
func c20FreshDecodeTargets(p *core.Prog, r *core.Run) {
	n := 0
	for _, s := range callSites(p, p.PkgFuncs(Publish), `encoding/json\.Unmarshal|\(\*encoding/json\.Decoder\)\.Decode`) {
		args := s.Instr.Common().Args
		tgt := args[len(args)-1]
		for {
			if mi, ok := tgt.(*ssa.MakeInterface); ok {
				tgt = mi.X
				continue
			}
			if ct, ok := tgt.(*ssa.ChangeType); ok {
				tgt = ct.X
				continue
			}
			break
		}
		n++
		fn := s.Instr.Parent()
		var hdr *ssa.BasicBlock
		loops := core.Loops(fn)
		for h, body := range loops {
			if body[s.Instr.Block()] && (hdr == nil || loops[hdr][h]) {
				hdr = h
			}
		}
		key := fmt.Sprintf("decode-target#%d@%s", n, p.FuncName(fn))
		if hdr == nil {
			// decoded once per call: fresh when it is a local of this call
			_, isAlloc := tgt.(*ssa.Alloc)
			r.Check("C20.PAGES", key, isAlloc || p.X(tgt).Op == "new", p.InstrPos(s.Instr), "the response is decoded once, into a variable of this call: %s", short(p.X(tgt)))
			continue
		}
		al, isAlloc := tgt.(*ssa.Alloc)
		fresh := isAlloc && loops[hdr][al.Block()]
		r.Check("C20.PAGES", key, fresh, p.InstrPos(s.Instr), "inside a loop, each response is decoded into a variable created for it in that loop (not one that still holds the previous response): %s", short(p.X(tgt)))
	}
	r.Check("C20.PAGES", "decode-targets", n >= 2, "-", "json decode calls examined in the package: %d", n)
}
