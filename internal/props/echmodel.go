package props

import (
	"fmt"
	"go/types"
	"sort"
	"strings"

	"verif/third_party/xtools/go/ssa"

	"verif/internal/core"
)

// echModel resolves, by role, the functions and program points of the
// client-facing ECH logic that several properties talk about.
type echModel struct {
	p *core.Prog

	newConn, read, write, handle, process, inspect *ssa.Function
	parseCH, parseExt, marshal, marshalAAD         *ssa.Function

	// in process (the function that calls Receipient.Open)
	open      site            // the Open call
	setup     []site          // SetupReceipient calls
	loop      *ssa.BasicBlock // header of the candidate-key loop
	loopBody  map[*ssa.BasicBlock]bool
	keyStr    string         // canonical term of the loop's key element, e.g. p0.keys[...]
	innerCell *ssa.Alloc     // local holding the decrypted bytes
	accept    []*ssa.Store   // stores of Open's plaintext into innerCell
	helloP    *ssa.Parameter // the outer hello parameter of process
	retryP    *ssa.Parameter // the isRetry parameter of process

	fConn map[string]*types.Var
	fCH   map[string]*types.Var
	fExt  map[string]*types.Var

	problems []string
}

func newEchModel(p *core.Prog) *echModel {
	m := &echModel{p: p, fConn: map[string]*types.Var{}, fCH: map[string]*types.Var{}, fExt: map[string]*types.Var{}}
	get := func(name string) *ssa.Function {
		f := p.Func(Ech, name)
		if f == nil {
			m.problems = append(m.problems, "function "+name+" not found")
		}
		return f
	}
	m.newConn = get("NewConn")
	m.read = get("(*Conn).Read")
	m.write = get("(*Conn).Write")
	m.parseCH = get("parseClientHello")
	m.parseExt = get("(*clientHello).parseExtensions")
	m.marshal = get("(*clientHello).marshal")
	m.marshalAAD = get("(*clientHello).marshalAAD")
	for _, n := range []string{"Conn", "outer", "inner", "hpkeCtx", "hpkeConfig", "keys", "readBuf", "readErr", "writeBuf", "retryCount", "readPassthrough", "writePassthrough"} {
		if v := field(p, Ech, "Conn", n); v != nil {
			m.fConn[n] = v
		} else {
			m.problems = append(m.problems, "field Conn."+n+" not found")
		}
	}
	for _, n := range []string{"LegacyVersion", "Random", "LegacySessionID", "CipherSuite", "LegacyCompressionMethods", "Extensions", "ServerName", "ALPNProtos", "hasECHOuterExtensions", "tls13", "echExt"} {
		if v := field(p, Ech, "clientHello", n); v != nil {
			m.fCH[n] = v
		} else {
			m.problems = append(m.problems, "field clientHello."+n+" not found")
		}
	}
	for _, n := range []string{"Type", "CipherSuite", "ConfigID", "Enc", "Payload"} {
		if v := field(p, Ech, "echExt", n); v != nil {
			m.fExt[n] = v
		} else {
			m.problems = append(m.problems, "field echExt."+n+" not found")
		}
	}
	// role: the function of package ech that calls Receipient.Open
	var opens []site
	for _, fn := range p.PkgFuncs(Ech) {
		opens = append(opens, callSites(p, []*ssa.Function{fn}, `\(\*hpke\.Receipient\)\.Open`)...)
	}
	if len(opens) != 1 {
		m.problems = append(m.problems, fmt.Sprintf("expected exactly one call of Receipient.Open in package ech, found %d", len(opens)))
		return m
	}
	m.open = opens[0]
	m.process = core.Root(m.open.Fn)
	if m.open.Fn != m.process {
		m.problems = append(m.problems, "Receipient.Open is called from a function literal")
	}
	if len(m.process.Params) != 3 {
		m.problems = append(m.problems, "unexpected signature of "+p.FuncName(m.process))
		return m
	}
	m.helloP, m.retryP = m.process.Params[1], m.process.Params[2]
	m.setup = callSites(p, core.Closures(m.process), `hpke\.SetupReceipient`)
	// role: the caller of process
	var callers []site
	for _, fn := range p.PkgFuncs(Ech) {
		for _, s := range allCalls(p, []*ssa.Function{fn}) {
			if s.X.Fn == m.process {
				callers = append(callers, s)
			}
		}
	}
	if len(callers) == 1 {
		m.handle = core.Root(callers[0].Fn)
	} else {
		m.problems = append(m.problems, fmt.Sprintf("expected one caller of %s, found %d", p.FuncName(m.process), len(callers)))
	}
	// role: the write-side inspector = the function that calls retryCount.Add
	for _, fn := range p.PkgFuncs(Ech) {
		for _, s := range callSites(p, []*ssa.Function{fn}, `\(\*sync/atomic\.Int32\)\.Add`) {
			if mentionsField(s.X, m.fConn["retryCount"]) {
				m.inspect = core.Root(s.Fn)
			}
		}
	}
	if m.inspect == nil {
		m.problems = append(m.problems, "no function increments Conn.retryCount")
	}
	// the key loop
	loops := core.Loops(m.process)
	best := -1
	for h, body := range loops {
		if body[m.open.Block()] && (best < 0 || len(body) < best) {
			m.loop, m.loopBody, best = h, body, len(body)
		}
	}
	if m.loop == nil {
		m.problems = append(m.problems, "Receipient.Open is not inside a loop over candidate keys")
		return m
	}
	// the decrypted bytes: stores of Open#0 into a local cell
	for _, b := range m.process.Blocks {
		for _, in := range b.Instrs {
			st, ok := in.(*ssa.Store)
			if !ok {
				continue
			}
			a := p.CellRoot(st.Addr)
			if a == nil {
				continue
			}
			if ex, ok := st.Val.(*ssa.Extract); ok && ex.Index == 0 && ex.Tuple == m.open.Instr.(ssa.Value) {
				if m.innerCell != nil && m.innerCell != a {
					m.problems = append(m.problems, "the plaintext of Open is kept in more than one local")
				}
				m.innerCell = a
				m.accept = append(m.accept, st)
			}
		}
	}
	if m.innerCell == nil {
		m.problems = append(m.problems, "the plaintext returned by Open is not kept in a local variable")
	}
	return m
}

func (m *echModel) ok(r *core.Run, rule string) bool {
	if len(m.problems) == 0 {
		return true
	}
	sort.Strings(m.problems)
	r.Undecided(rule, "ech-model", "-", "cannot resolve the ECH processing roles: %s", strings.Join(m.problems, "; "))
	return false
}

// assume builds a view of fn in which every branch on parameter prm takes
// the side for prm == val.
func assumeParam(fn *ssa.Function, prm *ssa.Parameter, val bool) *core.PrunedCFG {
	return core.Prune(fn, func(from *ssa.BasicBlock, succ int) bool {
		if len(from.Instrs) == 0 {
			return true
		}
		iff, ok := from.Instrs[len(from.Instrs)-1].(*ssa.If)
		if !ok {
			return true
		}
		c, pol := iff.Cond, true
		for {
			u, ok := c.(*ssa.UnOp)
			if !ok || u.Op.String() != "!" {
				break
			}
			c, pol = u.X, !pol
		}
		if c != ssa.Value(prm) {
			return true
		}
		taken := (succ == 0) == pol // edge taken when prm is true?
		return taken == val
	})
}

// factsIn normalises the guards of b computed in a pruned view.
func factsIn(p *core.Prog, c *core.PrunedCFG, b *ssa.BasicBlock) []core.Fact {
	var out []core.Fact
	for _, g := range c.Guards(b) {
		out = append(out, p.FactOf(g))
	}
	return out
}

// innerRef / outerRef: the expression is the accepted inner hello (the outer
// hello) of the connection: the Conn field, or - inside NewConn, which stores
// those fields once from the handler's results - the handler's result itself.
func (m *echModel) innerRef(e *core.Expr) bool {
	return e.Op == "field" && e.Obj == m.fConn["inner"] || e.Op == "ext" && e.Name == "#1" && len(e.Args) == 1 && e.Args[0].Op == "call" && e.Args[0].Fn == m.handle
}

func (m *echModel) outerRef(e *core.Expr) bool {
	return e.Op == "field" && e.Obj == m.fConn["outer"] || e.Op == "ext" && e.Name == "#0" && len(e.Args) == 1 && e.Args[0].Op == "call" && e.Args[0].Fn == m.handle
}

// innerFact: some fact compares the inner hello with nil using op.
func (m *echModel) innerFact(fs []core.Fact, op string) bool {
	for _, f := range fs {
		if f.Op == op && f.R != nil && f.R.Name == "nil" && m.innerRef(f.L) {
			return true
		}
	}
	return false
}
