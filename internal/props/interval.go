package props

import (
	"fmt"
	"go/constant"
	"go/token"
	"go/types"
	"regexp"
	"sort"
	"strings"

	"verif/third_party/xtools/go/ssa"

	"verif/internal/core"
)

// ---------------------------------------------------------------------------
// E4: length and index safety.
//
// Every index / slice / string-index site of the scoped functions is turned
// into linear goals (0 <= i, i < len(x), lo <= hi, hi <= len(x)). A goal is
// proven from linear facts by Fourier-Motzkin elimination over the rationals
// (sound: an integer counter-example is also a rational one). Facts come from
//   - the branch decisions that dominate the site (edge dominance),
//   - definitions (x = a + b, len(s[lo:hi]) = hi - lo, len(make(n)) = n, ...),
//   - value ranges of narrow unsigned types and bit operations,
//   - library contracts (io.ReadFull, copy, net.Conn.Write, min),
//   - inductive invariants phi <= bound of loop counters (Houdini: candidates
//     taken from the comparisons in the code, kept only if inductive),
//   - interprocedural summaries: lower bounds of len(parameter) over all call
//     sites, lower bounds of len(result) on nil-error returns, and the minimum
//     output length of a cryptobyte builder.
// Field loads are value-numbered: two loads of the same field of the same
// base are the same atom when no store to that field and no module call that
// may store it lies between them.
// ---------------------------------------------------------------------------

type lin struct {
	c map[string]int64 // atom -> coefficient
	k int64
}

func newLin(k int64) lin { return lin{c: map[string]int64{}, k: k} }

func (a lin) add(b lin, s int64) lin {
	out := newLin(a.k + s*b.k)
	for n, v := range a.c {
		out.c[n] = v
	}
	for n, v := range b.c {
		out.c[n] += s * v
		if out.c[n] == 0 {
			delete(out.c, n)
		}
	}
	return out
}

func (a lin) String() string {
	var names []string
	for n := range a.c {
		names = append(names, n)
	}
	sort.Strings(names)
	var sb strings.Builder
	for _, n := range names {
		fmt.Fprintf(&sb, "%+d*%s ", a.c[n], n)
	}
	fmt.Fprintf(&sb, "%+d", a.k)
	return sb.String()
}

// ineq is  l >= 0.
type ineq struct{ l lin }

// prove decides facts |- goal >= 0 by refuting facts ∧ (goal <= -1).
func proveLin(facts []ineq, goal lin) bool {
	neg := newLin(-1).add(goal, -1) // -goal - 1 >= 0
	sys := append(append([]ineq{}, facts...), ineq{neg})
	return fmUnsat(sys)
}

func fmUnsat(sys []ineq) bool {
	for iter := 0; iter < 40; iter++ {
		// contradiction?
		for _, q := range sys {
			if len(q.l.c) == 0 && q.l.k < 0 {
				return true
			}
		}
		// pick the variable with the fewest pos*neg combinations
		count := map[string][2]int{}
		for _, q := range sys {
			for n, v := range q.l.c {
				c := count[n]
				if v > 0 {
					c[0]++
				} else {
					c[1]++
				}
				count[n] = c
			}
		}
		if len(count) == 0 {
			return false
		}
		best, bestCost := "", 1<<30
		var names []string
		for n := range count {
			names = append(names, n)
		}
		sort.Strings(names)
		for _, n := range names {
			c := count[n]
			cost := c[0]*c[1] - c[0] - c[1]
			if cost < bestCost {
				best, bestCost = n, cost
			}
		}
		var pos, neg, rest []ineq
		for _, q := range sys {
			v := q.l.c[best]
			switch {
			case v > 0:
				pos = append(pos, q)
			case v < 0:
				neg = append(neg, q)
			default:
				rest = append(rest, q)
			}
		}
		if len(pos)*len(neg) > 4000 {
			return false
		}
		for _, a := range pos {
			for _, b := range neg {
				ca, cb := a.l.c[best], -b.l.c[best]
				// cb*a + ca*b eliminates best
				n := newLin(0)
				for x, v := range a.l.c {
					n.c[x] += cb * v
				}
				for x, v := range b.l.c {
					n.c[x] += ca * v
				}
				n.k = cb*a.l.k + ca*b.l.k
				for x, v := range n.c {
					if v == 0 {
						delete(n.c, x)
					}
				}
				rest = append(rest, ineq{n})
			}
		}
		sys = dedupeIneq(rest)
	}
	return false
}

func dedupeIneq(in []ineq) []ineq {
	seen := map[string]bool{}
	var out []ineq
	for _, q := range in {
		s := q.l.String()
		if !seen[s] {
			seen[s] = true
			out = append(out, q)
		}
	}
	return out
}

// ---------------------------------------------------------------------------

type safety struct {
	p       *core.Prog
	fns     map[*ssa.Function]bool
	atoms   map[ssa.Value]string
	nAtom   int
	defs    map[string][]ineq // facts attached to an atom
	loadCl  map[ssa.Value]ssa.Value
	inv     map[*ssa.Phi][]ssa.Value // proven upper bounds: phi <= len/val
	paramLB map[*ssa.Parameter]int64
	resLB   map[*ssa.Function]int64
	modset  map[*ssa.Function]map[*types.Var]bool
	busy    map[*ssa.Function]bool
}

func newSafety(p *core.Prog, fns []*ssa.Function) *safety {
	s := &safety{p: p, fns: map[*ssa.Function]bool{}, atoms: map[ssa.Value]string{}, defs: map[string][]ineq{}, loadCl: map[ssa.Value]ssa.Value{},
		inv: map[*ssa.Phi][]ssa.Value{}, paramLB: map[*ssa.Parameter]int64{}, resLB: map[*ssa.Function]int64{}, modset: map[*ssa.Function]map[*types.Var]bool{}, busy: map[*ssa.Function]bool{}}
	for _, f := range fns {
		s.fns[f] = true
	}
	return s
}

func (s *safety) atom(v ssa.Value, prefix string) string {
	v = s.classOf(v)
	if a, ok := s.atoms[v]; ok && strings.HasPrefix(a, prefix) {
		return a
	}
	key := v
	name, ok := s.atoms[key]
	if !ok {
		s.nAtom++
		name = fmt.Sprintf("v%d", s.nAtom)
		s.atoms[key] = name
	}
	return prefix + name
}

func isIntType(t types.Type) bool {
	b, ok := t.Underlying().(*types.Basic)
	return ok && b.Info()&types.IsInteger != 0
}

func typeRange(t types.Type) (lo, hi int64, ok bool) {
	b, isB := t.Underlying().(*types.Basic)
	if !isB {
		return 0, 0, false
	}
	switch b.Kind() {
	case types.Uint8:
		return 0, 255, true
	case types.Uint16:
		return 0, 65535, true
	case types.Uint32:
		return 0, 1<<32 - 1, true
	case types.Int8:
		return -128, 127, true
	case types.Int16:
		return -32768, 32767, true
	case types.Int32:
		return -1 << 31, 1<<31 - 1, true
	case types.Uint, types.Uint64, types.Uintptr:
		return 0, 1 << 62, true
	case types.Int, types.Int64:
		return -1 << 62, 1 << 62, true
	}
	return 0, 0, false
}

// rng computes a value interval (no branch facts), for narrow types and bit
// operations.
func (s *safety) rng(v ssa.Value, depth int) (lo, hi int64, ok bool) {
	if depth > 12 {
		return typeRange(v.Type())
	}
	tlo, thi, tok := typeRange(v.Type())
	clamp := func(l, h int64) (int64, int64, bool) {
		if tok {
			if l < tlo || h > thi {
				return tlo, thi, true // may wrap: fall back to the type's range
			}
		}
		return l, h, true
	}
	switch x := v.(type) {
	case *ssa.Const:
		if x.Value != nil && x.Value.Kind() == constant.Int {
			if i, exact := constant.Int64Val(x.Value); exact {
				return i, i, true
			}
		}
	case *ssa.Convert:
		l, h, o := s.rng(x.X, depth+1)
		if o {
			return clamp(l, h)
		}
	case *ssa.ChangeType:
		return s.rng(x.X, depth+1)
	case *ssa.BinOp:
		al, ah, ao := s.rng(x.X, depth+1)
		bl, bh, bo := s.rng(x.Y, depth+1)
		if ao && bo {
			switch x.Op {
			case token.ADD:
				return clamp(al+bl, ah+bh)
			case token.SUB:
				return clamp(al-bh, ah-bl)
			case token.SHL:
				if al >= 0 && bl == bh && bl >= 0 && bl < 40 && ah < 1<<20 {
					return clamp(al<<uint(bl), ah<<uint(bl))
				}
			case token.SHR:
				if al >= 0 && bl == bh && bl >= 0 && bl < 63 {
					return al >> uint(bl), ah >> uint(bl), true
				}
			case token.OR:
				if al >= 0 && bl >= 0 {
					l := al
					if bl > l {
						l = bl
					}
					return clamp(l, ah+bh)
				}
			case token.AND:
				if al >= 0 && bl >= 0 {
					h := ah
					if bh < h {
						h = bh
					}
					return 0, h, true
				}
			case token.MUL:
				if al >= 0 && bl >= 0 && ah < 1<<30 && bh < 1<<30 {
					return clamp(al*bl, ah*bh)
				}
			case token.REM:
				if bl > 0 {
					return 0, bh - 1, true
				}
			}
		}
	case *ssa.Phi:
		if l, okL := s.phiLower(x, map[*ssa.Phi]bool{}); okL {
			if tok {
				return l, thi, true
			}
		}
	}
	return typeRange(v.Type())
}

// phiLower: lower bound of an induction-like φ: every input is a constant,
// another bounded φ, or the φ itself plus something that is never negative in
// sum (φ+1; φ + IndexFunc(..) + 1, the search result being at least -1).
func (s *safety) phiLower(phi *ssa.Phi, seen map[*ssa.Phi]bool) (int64, bool) {
	lo, rel, ok := s.phiLowerRel(phi, seen)
	if !ok || rel {
		return lo, ok && !rel
	}
	return lo, true
}

func (s *safety) phiLowerRel(phi *ssa.Phi, seen map[*ssa.Phi]bool) (lo int64, rel, ok bool) {
	if seen[phi] {
		// relative to a φ under evaluation: "that φ + 0"
		return 0, true, true
	}
	seen[phi] = true
	lo = int64(1 << 62)
	for _, e := range phi.Edges {
		l, r, ok := s.valLowerRel(e, seen)
		if !ok {
			return 0, false, false
		}
		if r {
			// carried round: harmless when it does not go down
			if l < 0 {
				return 0, false, false
			}
			continue
		}
		if l < lo {
			lo = l
		}
	}
	return lo, false, true
}

func (s *safety) valLower(v ssa.Value, seen map[*ssa.Phi]bool) (int64, bool) {
	lo, rel, ok := s.valLowerRel(v, seen)
	if !ok {
		return 0, false
	}
	if rel {
		// relative to an enclosing φ that is still being evaluated: callers
		// that only need "not below that φ" see a large bound, as before
		if lo >= 0 {
			return 1 << 62, true
		}
		return 0, false
	}
	return lo, true
}

// valLowerRel: a lower bound of v, either absolute (rel false) or relative to
// a φ under evaluation (rel true: v >= that φ + lo).
func (s *safety) valLowerRel(v ssa.Value, seen map[*ssa.Phi]bool) (lo int64, rel, ok bool) {
	switch x := v.(type) {
	case *ssa.Const:
		if x.Value != nil && x.Value.Kind() == constant.Int {
			return x.Int64(), false, true
		}
	case *ssa.Phi:
		return s.phiLowerRel(x, seen)
	case *ssa.BinOp:
		if x.Op == token.ADD {
			lx, rx, okx := s.valLowerRel(x.X, seen)
			ly, ry, oky := s.valLowerRel(x.Y, seen)
			if okx && oky && !(rx && ry) && lx < 1<<61 && ly < 1<<61 && lx > -(1<<40) && ly > -(1<<40) {
				return lx + ly, rx || ry, true
			}
			if okx && oky && !(rx && ry) {
				// one side unbounded above (1<<62 stands for "no constraint")
				if lx >= 1<<61 && ly >= 0 || ly >= 1<<61 && lx >= 0 {
					return 1 << 62, rx || ry, true
				}
			}
		}
	case *ssa.Call:
		switch s.p.X(x).Name {
		case "slices.IndexFunc", "slices.Index", "bytes.IndexByte", "bytes.Index", "strings.IndexByte", "strings.Index":
			return -1, false, true
		}
	}
	if l, _, ok := typeRange(v.Type()); ok && l >= 0 {
		return 0, false, true
	}
	if c, ok := v.(*ssa.Call); ok {
		if bi, ok := c.Call.Value.(*ssa.Builtin); ok && (bi.Name() == "len" || bi.Name() == "cap" || bi.Name() == "copy") {
			return 0, false, true
		}
	}
	return 0, false, false
}

// toLin translates an integer SSA value; facts about introduced atoms are
// appended to *facts.
func (s *safety) toLin(v ssa.Value, facts *[]ineq, depth int) lin {
	if depth > 25 {
		return s.opaque(v, facts)
	}
	switch x := v.(type) {
	case *ssa.Const:
		if x.Value != nil && x.Value.Kind() == constant.Int {
			if i, ok := constant.Int64Val(x.Value); ok {
				return newLin(i)
			}
		}
	case *ssa.Convert:
		// value-preserving when the operand's range fits the target type
		l, h, ok := s.rng(x.X, 0)
		tl, th, tok := typeRange(x.Type())
		if ok && tok && l >= tl && h <= th && isIntType(x.X.Type()) {
			return s.toLin(x.X, facts, depth+1)
		}
	case *ssa.ChangeType:
		return s.toLin(x.X, facts, depth+1)
	case *ssa.BinOp:
		switch x.Op {
		case token.ADD, token.SUB:
			// only when the result cannot wrap
			l, h, ok := s.rng(x, 0)
			tl, th, tok := typeRange(x.Type())
			signed := tok && tl < 0
			if signed || ok && tok && l >= tl && h <= th && !(l == tl && h == th) {
				a := s.toLin(x.X, facts, depth+1)
				b := s.toLin(x.Y, facts, depth+1)
				if x.Op == token.ADD {
					return a.add(b, 1)
				}
				return a.add(b, -1)
			}
		case token.MUL:
			if c, ok := x.Y.(*ssa.Const); ok && c.Value != nil {
				a := s.toLin(x.X, facts, depth+1)
				out := newLin(0)
				return out.add(a, c.Int64())
			}
		}
	case *ssa.Call:
		switch s.p.X(x).Name {
		case "slices.IndexFunc", "slices.Index", "bytes.IndexByte", "bytes.Index", "strings.IndexByte", "strings.Index":
			// -1 <= n <= len(arg0) - 1
			n := s.opaque(v, facts)
			l := s.lenLin(x.Call.Args[0], facts, depth+1)
			*facts = append(*facts, ineq{n.add(newLin(-1), -1)}, ineq{l.add(n, -1).add(newLin(1), -1)})
			return n
		}
		if bi, ok := x.Call.Value.(*ssa.Builtin); ok {
			switch bi.Name() {
			case "len":
				return s.lenLin(x.Call.Args[0], facts, depth+1)
			case "cap":
				l := s.opaque(v, facts)
				// cap(x) >= len(x)
				ln := s.lenLin(x.Call.Args[0], facts, depth+1)
				*facts = append(*facts, ineq{l.add(ln, -1)})
				return l
			case "min":
				m := s.opaque(v, facts)
				for _, a := range x.Call.Args {
					al := s.toLin(a, facts, depth+1)
					*facts = append(*facts, ineq{al.add(m, -1)}) // a - m >= 0
				}
				return m
			case "copy":
				n := s.opaque(v, facts)
				*facts = append(*facts, ineq{n})
				for _, a := range x.Call.Args {
					al := s.lenLin(a, facts, depth+1)
					*facts = append(*facts, ineq{al.add(n, -1)})
				}
				return n
			}
		}
	case *ssa.Extract:
		if c, ok := x.Tuple.(*ssa.Call); ok && x.Index == 0 {
			name := s.p.X(c).Name
			switch name {
			case "io.ReadFull":
				n := s.opaque(v, facts)
				bl := s.lenLin(c.Call.Args[1], facts, depth+1)
				*facts = append(*facts, ineq{n}, ineq{bl.add(n, -1)})
				return n
			case "(net.Conn).Write", "(io.Writer).Write", "(net.Conn).Read", "(io.Reader).Read":
				n := s.opaque(v, facts)
				bl := s.lenLin(c.Call.Args[len(c.Call.Args)-1], facts, depth+1)
				*facts = append(*facts, ineq{n}, ineq{bl.add(n, -1)})
				return n
			}
		}
	}
	return s.opaque(v, facts)
}

func (s *safety) opaque(v ssa.Value, facts *[]ineq) lin {
	a := newLin(0)
	name := s.atom(v, "")
	a.c[name] = 1
	if lo, hi, ok := s.rng(v, 0); ok {
		if lo > -1<<61 {
			*facts = append(*facts, ineq{a.add(newLin(lo), -1)}) // a - lo >= 0
		}
		if hi < 1<<61 {
			*facts = append(*facts, ineq{newLin(hi).add(a, -1)}) // hi - a >= 0
		}
	}
	if phi, ok := v.(*ssa.Phi); ok {
		for _, b := range s.inv[phi] {
			bl := s.boundLin(b, facts)
			*facts = append(*facts, ineq{bl.add(a, -1)})
		}
	}
	return a
}

// boundLin renders an invariant bound, which is either an int value or a
// slice/string value standing for its length.
func (s *safety) boundLin(b ssa.Value, facts *[]ineq) lin {
	if isIntType(b.Type()) {
		return s.toLin(b, facts, 0)
	}
	return s.lenLin(b, facts, 0)
}

// lenLin translates len(x).
func (s *safety) lenLin(x ssa.Value, facts *[]ineq, depth int) lin {
	if depth > 25 {
		return s.lenAtom(x, facts)
	}
	// an array (or pointer to one) has the length of its type
	if at, ok := x.Type().Underlying().(*types.Array); ok {
		return newLin(at.Len())
	}
	if pt, ok := x.Type().Underlying().(*types.Pointer); ok {
		if at, ok := pt.Elem().Underlying().(*types.Array); ok {
			return newLin(at.Len())
		}
	}
	switch v := x.(type) {
	case *ssa.Const:
		if v.Value == nil {
			return newLin(0)
		}
		if v.Value.Kind() == constant.String {
			return newLin(int64(len(constant.StringVal(v.Value))))
		}
	case *ssa.Slice:
		var lo lin
		if v.Low != nil {
			lo = s.toLin(v.Low, facts, depth+1)
		} else {
			lo = newLin(0)
		}
		if v.High != nil {
			return s.toLin(v.High, facts, depth+1).add(lo, -1)
		}
		return s.lenLin(v.X, facts, depth+1).add(lo, -1)
	case *ssa.Alloc:
		if at, ok := deref2(v.Type()).Underlying().(*types.Array); ok {
			return newLin(at.Len())
		}
	case *ssa.MakeSlice:
		return s.toLin(v.Len, facts, depth+1)
	case *ssa.UnOp:
		// a field of a local struct that was assigned earlier in the same
		// straight-line code (c.List = make([]T, 3); c.List[0] = ...)
		if st := localFieldStore(v); st != nil {
			return s.lenLin(st.Val, facts, depth+1)
		}
	case *ssa.Convert:
		return s.lenLin(v.X, facts, depth+1)
	case *ssa.ChangeType:
		return s.lenLin(v.X, facts, depth+1)
	case *ssa.Call:
		if bi, ok := v.Call.Value.(*ssa.Builtin); ok && bi.Name() == "append" {
			a := s.lenAtom(x, facts)
			base := s.lenLin(v.Call.Args[0], facts, depth+1)
			*facts = append(*facts, ineq{a.add(base, -1)})
			return a
		}
		if name := s.p.X(v).Name; name == "slices.Clone" || name == "bytes.Clone" {
			return s.lenLin(v.Call.Args[0], facts, depth+1)
		}
	case *ssa.Extract:
		if c, ok := v.Tuple.(*ssa.Call); ok && v.Index == 0 {
			a := s.lenAtom(x, facts)
			if fn := c.Call.StaticCallee(); fn != nil && inModule(s.p, fn) {
				// usable only under err == nil, which the caller of lenLin adds via nilErrFacts
				_ = fn
			}
			return a
		}
	case *ssa.Parameter:
		a := s.lenAtom(x, facts)
		if lb, ok := s.paramLB[v]; ok && lb > 0 {
			*facts = append(*facts, ineq{a.add(newLin(lb), -1)})
		}
		return a
	}
	return s.lenAtom(x, facts)
}

// localFieldStore: ld reads field f of a local struct variable; returns the
// store to that same field that reaches it: one that comes before the load on
// every way (same block earlier, or a dominating block) with nothing in
// between that can have changed the field (no other store to it or to the
// whole variable, no call that is given the variable's or the field's address).
func localFieldStore(ld *ssa.UnOp) *ssa.Store {
	if ld.Op != token.MUL {
		return nil
	}
	fa, ok := ld.X.(*ssa.FieldAddr)
	if !ok {
		return nil
	}
	al, ok := fa.X.(*ssa.Alloc)
	if !ok {
		return nil
	}
	var stores []*ssa.Store
	var killers []ssa.Instruction
	for _, ref := range *al.Referrers() {
		switch r := ref.(type) {
		case *ssa.FieldAddr:
			for _, r2 := range *r.Referrers() {
				switch u := r2.(type) {
				case *ssa.Store:
					if u.Addr == ssa.Value(r) && r.Field == fa.Field {
						stores = append(stores, u)
						killers = append(killers, u)
					} else if u.Addr != ssa.Value(r) {
						return nil // the field's address stored somewhere
					}
				case *ssa.UnOp, *ssa.DebugRef, *ssa.FieldAddr, *ssa.IndexAddr:
				case ssa.CallInstruction:
					if r.Field == fa.Field {
						killers = append(killers, u)
					}
				default:
					if r.Field == fa.Field {
						return nil
					}
				}
			}
		case *ssa.Store:
			if r.Addr != ssa.Value(al) {
				return nil
			}
			killers = append(killers, r)
		case *ssa.UnOp, *ssa.DebugRef:
		case ssa.CallInstruction:
			killers = append(killers, r)
		case *ssa.MakeClosure:
			// captured by a literal that only reads through it (a sort's less function)
			fn, _ := r.Fn.(*ssa.Function)
			for i, bv := range r.Bindings {
				if bv != ssa.Value(al) {
					continue
				}
				if fn == nil || i >= len(fn.FreeVars) || !onlyReadsThrough(fn.FreeVars[i], 0) {
					return nil
				}
			}
		default:
			return nil // converted, stored somewhere, ...
		}
	}
	var best *ssa.Store
	for _, st := range stores {
		if !(st.Block() == ld.Block() && core.Before(st, ld) || st.Block() != ld.Block() && st.Block().Dominates(ld.Block())) {
			continue
		}
		clean := true
		for _, k := range killers {
			if k == ssa.Instruction(st) {
				continue
			}
			if core.MayFollow(st, k) && core.MayFollow(k, ld) {
				clean = false
			}
		}
		if clean {
			best = st
		}
	}
	return best
}

// onlyReadsThrough: the pointer is used only to load through it (fields,
// elements), here and in literals it is handed on to.
func onlyReadsThrough(ptr ssa.Value, depth int) bool {
	refs := ptr.Referrers()
	if refs == nil || depth > 6 {
		return false
	}
	for _, ref := range *refs {
		switch r := ref.(type) {
		case *ssa.UnOp:
			if r.Op != token.MUL {
				return false
			}
		case *ssa.FieldAddr:
			if !onlyReadsThrough(r, depth+1) {
				return false
			}
		case *ssa.IndexAddr:
			if r.X != ptr || !onlyReadsThrough(r, depth+1) {
				return false
			}
		case *ssa.MakeClosure:
			fn, _ := r.Fn.(*ssa.Function)
			for i, bv := range r.Bindings {
				if bv == ptr && (fn == nil || i >= len(fn.FreeVars) || !onlyReadsThrough(fn.FreeVars[i], depth+1)) {
					return false
				}
			}
		case *ssa.DebugRef:
		default:
			return false
		}
	}
	return true
}

func (s *safety) lenAtom(x ssa.Value, facts *[]ineq) lin {
	a := newLin(0)
	a.c[s.atom(x, "len:")] = 1
	*facts = append(*facts, ineq{a}) // len >= 0
	return a
}

func deref2(t types.Type) types.Type {
	if p, ok := t.Underlying().(*types.Pointer); ok {
		return p.Elem()
	}
	return t
}

// classOf value-numbers loads: two loads of the same field of the same base,
// of the same local variable, or through the same pointer value are one atom
// when nothing that may write that place lies between them. Field selections
// on struct values are pure.
func (s *safety) classOf(v ssa.Value) ssa.Value {
	if c, ok := s.loadCl[v]; ok {
		return c
	}
	if f, ok := v.(*ssa.Field); ok {
		rep := ssa.Value(f)
		base := s.classOf(f.X)
		for _, b := range f.Parent().Blocks {
			for _, in := range b.Instrs {
				if f2, ok := in.(*ssa.Field); ok && f2 != f && f2.Field == f.Field && s.classOf(f2.X) == base {
					if core.Before(f2, f) && (rep == ssa.Value(f) || core.Before(f2, rep.(ssa.Instruction))) {
						rep = f2
					}
				}
			}
		}
		s.loadCl[v] = rep
		return rep
	}
	u, ok := v.(*ssa.UnOp)
	if !ok || u.Op != token.MUL {
		return v
	}
	fn := u.Parent()
	rep := ssa.Value(u)
	fa, isField := u.X.(*ssa.FieldAddr)
	cell := s.p.CellRoot(u.X)
	if cell != nil && !isField {
		// a variable written once, in the entry block of its function before
		// anything else happens (a spilled parameter, an initialised local), and
		// whose address goes nowhere but into function literals: every load of
		// it, in the function or in a literal that captures it, is that value
		if st, calls := s.p.CellDefs(cell); len(st) == 1 && len(calls) == 0 && st[0].Parent() == cell.Parent() && st[0].Block() == cell.Parent().Blocks[0] {
			early := true
			for _, in := range st[0].Block().Instrs {
				if in == ssa.Instruction(st[0]) {
					break
				}
				switch in.(type) {
				case *ssa.Alloc, *ssa.Store:
				default:
					early = false
				}
			}
			if early {
				rep = s.classOf(st[0].Val)
				s.loadCl[v] = rep
				return rep
			}
		}
		// ... or written by one store outside any loop of its function, when this load can only
		// run after that write: a load in the same function that the store
		// dominates, or a load in a literal created (at every level up to the
		// variable's function) where the store dominates the creation
		if st, calls := s.p.CellDefs(cell); len(st) == 1 && len(calls) == 0 && st[0].Parent() == cell.Parent() {
			var at ssa.Instruction = u
			okChain := true
			for f := u.Parent(); f != cell.Parent(); {
				mc := s.p.ClosureOf(f)
				if mc == nil {
					okChain = false
					break
				}
				at = mc
				f = mc.Parent()
			}
			// (and the write is not in a loop: it happens once)
			for _, body := range core.Loops(cell.Parent()) {
				if body[st[0].Block()] {
					okChain = false
				}
			}
			if okChain && at.Parent() == cell.Parent() && core.Before(st[0], at) {
				rep = s.classOf(st[0].Val)
				s.loadCl[v] = rep
				return rep
			}
		}
	}
	for _, b := range fn.Blocks {
		for _, in := range b.Instrs {
			u2, ok := in.(*ssa.UnOp)
			if !ok || u2 == u || u2.Op != token.MUL || !core.Before(u2, u) {
				continue
			}
			same := false
			switch {
			case isField:
				fa2, ok := u2.X.(*ssa.FieldAddr)
				same = ok && fieldVar(fa2) == fieldVar(fa) && sameBase(s, fa.X, fa2.X) && s.noKill(u2, u, fieldVar(fa), fa.X)
			case cell != nil:
				same = s.p.CellRoot(u2.X) == cell && u2.Parent() == cell.Parent() && s.noKillPlace(u2, u, func(in ssa.Instruction) bool {
					switch x := in.(type) {
					case *ssa.Store:
						return s.p.CellRoot(x.Addr) == cell
					case ssa.CallInstruction:
						for _, a := range x.Common().Args {
							if s.p.CellRoot(a) == cell {
								return true
							}
						}
						// a literal that captures the variable may write it
						if _, isGo := in.(*ssa.Go); isGo {
							return true
						}
					}
					return false
				})
			default:
				same = u2.X == u.X && s.noKillPlace(u2, u, func(in ssa.Instruction) bool {
					switch x := in.(type) {
					case *ssa.Store:
						return x.Addr == u.X || x.Addr.Type() == u.X.Type()
					case ssa.CallInstruction:
						for _, a := range x.Common().Args {
							if a == u.X || a.Type() == u.X.Type() {
								return true
							}
						}
					}
					return false
				})
			}
			if same && (rep == ssa.Value(u) || core.Before(u2, rep.(ssa.Instruction))) {
				rep = u2
			}
		}
	}
	if rep != ssa.Value(u) {
		rep = s.classOf(rep)
	}
	s.loadCl[v] = rep
	return rep
}

func sameBase(s *safety, a, b ssa.Value) bool {
	if a == b {
		return true
	}
	// field addresses of the same local struct cell, or nested field chains
	fa, ok1 := a.(*ssa.FieldAddr)
	fb, ok2 := b.(*ssa.FieldAddr)
	if ok1 && ok2 {
		return fa.Field == fb.Field && sameBase(s, fa.X, fb.X)
	}
	ua, ok1 := a.(*ssa.UnOp)
	ub, ok2 := b.(*ssa.UnOp)
	if ok1 && ok2 && ua.Op == token.MUL && ub.Op == token.MUL {
		if s.classOf(ua) == s.classOf(ub) {
			return true
		}
		// two loads of one local variable that can only see the same single store
		va, ca := s.p.ReachingStores(ua)
		vb, cb := s.p.ReachingStores(ub)
		return ca && cb && len(va) == 1 && len(vb) == 1 && va[0] == vb[0]
	}
	return false
}

// noKill: no store to fld and no module call that may store it on any path
// from a to b that does not run through a again.
func (s *safety) noKill(a, b ssa.Instruction, fld *types.Var, base ssa.Value) bool {
	return s.noKillPlace(a, b, func(in ssa.Instruction) bool { return s.killsField(in, fld, base) })
}

func (s *safety) killsField(in ssa.Instruction, fld *types.Var, base ssa.Value) bool {
	kills := func(in ssa.Instruction) bool {
		switch x := in.(type) {
		case *ssa.Store:
			if fa, ok := x.Addr.(*ssa.FieldAddr); ok && fieldVar(fa) == fld {
				return true
			}
			// whole-struct store into a local cell that contains the field
			if al := s.p.CellRoot(x.Addr); al != nil {
				if root := baseAlloc(base); root != nil && root == al {
					return true
				}
			}
		case ssa.CallInstruction:
			c := x.Common()
			if fn := c.StaticCallee(); fn != nil {
				if inModule(s.p, fn) && s.mods(fn)[fld] {
					return true
				}
			} else if !c.IsInvoke() {
				if g := s.p.ResolveFuncValue(c.Value); g != nil && inModule(s.p, g) && s.mods(g)[fld] {
					return true
				}
			}
		}
		return false
	}
	return kills(in)
}

// noKillPlace: no instruction satisfying kills lies on a path from a to b
// that does not run through a again.
func (s *safety) noKillPlace(a, b ssa.Instruction, kills func(ssa.Instruction) bool) bool {
	ba, bb := a.Block(), b.Block()
	if ba == bb && core.InstrIndex(a) < core.InstrIndex(b) {
		for i := core.InstrIndex(a) + 1; i < core.InstrIndex(b); i++ {
			if kills(ba.Instrs[i]) {
				return false
			}
		}
		return true
	}
	for i := core.InstrIndex(a) + 1; i < len(ba.Instrs); i++ {
		if kills(ba.Instrs[i]) {
			return false
		}
	}
	for i := 0; i < core.InstrIndex(b); i++ {
		if kills(bb.Instrs[i]) {
			return false
		}
	}
	// intermediate blocks: on a path ba -> ... -> bb that does not pass ba again
	canReachBB := map[*ssa.BasicBlock]bool{bb: true}
	{
		stack := []*ssa.BasicBlock{bb}
		for len(stack) > 0 {
			x := stack[len(stack)-1]
			stack = stack[:len(stack)-1]
			for _, pr := range x.Preds {
				if pr == ba || canReachBB[pr] {
					continue
				}
				canReachBB[pr] = true
				stack = append(stack, pr)
			}
		}
	}
	seen := map[*ssa.BasicBlock]bool{ba: true}
	var stack []*ssa.BasicBlock
	for _, sx := range ba.Succs {
		stack = append(stack, sx)
	}
	for len(stack) > 0 {
		x := stack[len(stack)-1]
		stack = stack[:len(stack)-1]
		if seen[x] {
			continue
		}
		seen[x] = true
		if x == bb || !canReachBB[x] {
			continue
		}
		for _, in := range x.Instrs {
			if kills(in) {
				return false
			}
		}
		for _, sx := range x.Succs {
			stack = append(stack, sx)
		}
	}
	// a cycle bb -> ... -> bb that avoids ba would re-execute b after later instructions of bb: check those too
	if core.CanReach(bb, bb) {
		cyc := false
		sn := map[*ssa.BasicBlock]bool{ba: true}
		var w func(x *ssa.BasicBlock)
		w = func(x *ssa.BasicBlock) {
			for _, sx := range x.Succs {
				if sx == bb {
					cyc = true
				}
				if !sn[sx] {
					sn[sx] = true
					w(sx)
				}
			}
		}
		w(bb)
		if cyc {
			for i := core.InstrIndex(b); i < len(bb.Instrs); i++ {
				if kills(bb.Instrs[i]) {
					return false
				}
			}
			for x := range sn {
				if x == ba || !canReachBB[x] {
					continue
				}
				for _, in := range x.Instrs {
					if kills(in) {
						return false
					}
				}
			}
		}
	}
	return true
}

func baseAlloc(v ssa.Value) *ssa.Alloc {
	for {
		switch x := v.(type) {
		case *ssa.Alloc:
			return x
		case *ssa.FieldAddr:
			v = x.X
		default:
			return nil
		}
	}
}

// mods: fields that fn (transitively, through module callees) may store.
func (s *safety) mods(fn *ssa.Function) map[*types.Var]bool {
	if m, ok := s.modset[fn]; ok {
		return m
	}
	m := map[*types.Var]bool{}
	s.modset[fn] = m
	for _, f := range reachableFuncs(s.p, fn) {
		for _, b := range f.Blocks {
			for _, in := range b.Instrs {
				if st, ok := in.(*ssa.Store); ok {
					if fa, ok := st.Addr.(*ssa.FieldAddr); ok {
						if v := fieldVar(fa); v != nil {
							m[v] = true
						}
					}
				}
			}
		}
	}
	return m
}

// guardFacts turns the dominating branch decisions of b into inequalities.
func (s *safety) guardFacts(b *ssa.BasicBlock, facts *[]ineq) {
	for _, g := range core.Guards(b) {
		s.factOfGuard(g, facts)
	}
}

func (s *safety) factOfGuard(g core.Guard, facts *[]ineq) {
	// cryptobyte: !x.Empty()  <=>  len(x) >= 1
	if c, ok := g.Cond.(*ssa.Call); ok && len(c.Call.Args) == 1 && s.p.X(c).Name == "(cryptobyte.String).Empty" {
		l := s.lenLin(c.Call.Args[0], facts, 0)
		if g.Pol {
			*facts = append(*facts, ineq{newLin(0).add(l, -1)}) // len <= 0
		} else {
			*facts = append(*facts, ineq{l.add(newLin(1), -1)})
		}
		return
	}
	bo, ok := g.Cond.(*ssa.BinOp)
	if !ok {
		return
	}
	op := bo.Op
	if !g.Pol {
		switch op {
		case token.EQL:
			op = token.NEQ
		case token.NEQ:
			op = token.EQL
		case token.LSS:
			op = token.GEQ
		case token.GEQ:
			op = token.LSS
		case token.GTR:
			op = token.LEQ
		case token.LEQ:
			op = token.GTR
		default:
			return
		}
	}
	// error == nil facts unlock contracts and summaries
	if op == token.EQL && isNilConst(bo.Y) {
		s.nilErrFacts(bo.X, facts, map[ssa.Value]bool{})
		return
	}
	if !isIntType(bo.X.Type()) || !isIntType(bo.Y.Type()) {
		return
	}
	a := s.toLin(bo.X, facts, 0)
	bb := s.toLin(bo.Y, facts, 0)
	switch op {
	case token.EQL:
		*facts = append(*facts, ineq{a.add(bb, -1)}, ineq{bb.add(a, -1)})
	case token.LSS: // a < b  => b - a - 1 >= 0
		*facts = append(*facts, ineq{bb.add(a, -1).add(newLin(1), -1)})
	case token.LEQ:
		*facts = append(*facts, ineq{bb.add(a, -1)})
	case token.GTR:
		*facts = append(*facts, ineq{a.add(bb, -1).add(newLin(1), -1)})
	case token.GEQ:
		*facts = append(*facts, ineq{a.add(bb, -1)})
	case token.NEQ:
		// a != b is not convex; keep it for the special case a <= b known elsewhere: handled by proveNE
	}
}

// nilErrFacts: e == nil is known.
func (s *safety) nilErrFacts(e ssa.Value, facts *[]ineq, seen map[ssa.Value]bool) {
	if seen[e] {
		return
	}
	seen[e] = true
	switch x := e.(type) {
	case *ssa.UnOp:
		if x.Op == token.MUL {
			if vals, complete := s.p.ReachingStores(x); complete && len(vals) == 1 {
				s.nilErrFacts(vals[0], facts, seen)
			}
		}
	case *ssa.Phi:
		// inputs that are non-nil globals (io.EOF) cannot be the value; the others are nil
		for _, in := range x.Edges {
			if u, ok := in.(*ssa.UnOp); ok {
				if _, isG := u.X.(*ssa.Global); isG {
					continue
				}
			}
			live := 0
			for _, in2 := range x.Edges {
				if u, ok := in2.(*ssa.UnOp); ok {
					if _, isG := u.X.(*ssa.Global); isG {
						continue
					}
				}
				live++
			}
			if live == 1 {
				s.nilErrFacts(in, facts, seen)
			}
		}
	case *ssa.Extract:
		c, ok := x.Tuple.(*ssa.Call)
		if !ok {
			return
		}
		name := s.p.X(c).Name
		if name == "io.ReadFull" {
			// n == len(buf)
			var n ssa.Value
			for _, ref := range *c.Referrers() {
				if ex, ok := ref.(*ssa.Extract); ok && ex.Index == 0 {
					n = ex
				}
			}
			if n != nil {
				nl := s.toLin(n, facts, 0)
				bl := s.lenLin(c.Call.Args[1], facts, 0)
				*facts = append(*facts, ineq{nl.add(bl, -1)}, ineq{bl.add(nl, -1)})
			}
			return
		}
		if fn := c.Call.StaticCallee(); fn != nil && inModule(s.p, fn) {
			if lb := s.resultLB(fn); lb > 0 {
				for _, ref := range *c.Referrers() {
					if ex, ok := ref.(*ssa.Extract); ok && ex.Index == 0 {
						if _, isSl := ex.Type().Underlying().(*types.Slice); isSl {
							l := s.lenAtom(ex, facts)
							*facts = append(*facts, ineq{l.add(newLin(lb), -1)})
						}
					}
				}
			}
		}
		if name == "(*cryptobyte.Builder).Bytes" {
			if lb := s.builderMin(c); lb > 0 {
				for _, ref := range *c.Referrers() {
					if ex, ok := ref.(*ssa.Extract); ok && ex.Index == 0 {
						l := s.lenAtom(ex, facts)
						*facts = append(*facts, ineq{l.add(newLin(lb), -1)})
					}
				}
			}
		}
	}
}

// resultLB: lower bound of len(result 0) over the returns of fn whose error
// result may be nil.
func (s *safety) resultLB(fn *ssa.Function) int64 {
	if v, ok := s.resLB[fn]; ok {
		return v
	}
	if s.busy[fn] {
		return 0
	}
	s.busy[fn] = true
	defer delete(s.busy, fn)
	lb := int64(-1)
	for _, ret := range core.Returns(fn) {
		if len(ret.Results) < 2 {
			s.resLB[fn] = 0
			return 0
		}
		if _, isSl := ret.Results[0].Type().Underlying().(*types.Slice); !isSl {
			s.resLB[fn] = 0
			return 0
		}
		e := retErr(ret)
		if s.surelyNonNil(e, ret.Block()) {
			continue
		}
		var facts []ineq
		s.guardFacts(ret.Block(), &facts)
		// the returned error itself is nil on the paths we summarise
		s.nilErrFacts(e, &facts, map[ssa.Value]bool{})
		l := s.lenLin(ret.Results[0], &facts, 0)
		best := int64(0)
		for _, c := range []int64{64, 49, 32, 17, 16, 12, 9, 8, 6, 5, 4, 3, 2, 1} {
			if proveLin(facts, l.add(newLin(c), -1)) {
				best = c
				break
			}
		}
		if lb < 0 || best < lb {
			lb = best
		}
	}
	if lb < 0 {
		lb = 0
	}
	s.resLB[fn] = lb
	return lb
}

func (s *safety) surelyNonNil(e ssa.Value, b *ssa.BasicBlock) bool {
	switch x := e.(type) {
	case *ssa.Const:
		return false
	case *ssa.Call:
		n := s.p.X(x).Name
		return n == "fmt.Errorf" || n == "errors.New"
	case *ssa.UnOp:
		if _, ok := x.X.(*ssa.Global); ok {
			return true // sentinel
		}
	case *ssa.MakeInterface:
		return true
	}
	for _, g := range core.Guards(b) {
		if bo, ok := g.Cond.(*ssa.BinOp); ok && bo.X == e && isNilConst(bo.Y) {
			if bo.Op == token.NEQ && g.Pol || bo.Op == token.EQL && !g.Pol {
				return true
			}
		}
	}
	return false
}

// builderMin: number of bytes that the builder whose Bytes() is call c has
// certainly been given (calls that dominate Bytes(), recursively through the
// length-prefixed literals).
func (s *safety) builderMin(c *ssa.Call) int64 {
	if len(c.Call.Args) == 0 {
		return 0
	}
	return s.builderBytes(c.Call.Args[0], c, 0)
}

func (s *safety) builderBytes(b ssa.Value, before ssa.Instruction, depth int) int64 {
	if depth > 8 {
		return 0
	}
	var total int64
	fn := before.Parent()
	for _, blk := range fn.Blocks {
		for _, in := range blk.Instrs {
			c, ok := in.(*ssa.Call)
			if !ok || len(c.Call.Args) == 0 || c.Call.Args[0] != b {
				continue
			}
			if !core.Before(c, before) {
				continue
			}
			total += s.addBytes(c, depth)
		}
	}
	return total
}

func (s *safety) addBytes(c *ssa.Call, depth int) int64 {
	name := s.p.X(c).Name
	switch name {
	case "(*cryptobyte.Builder).AddUint8":
		return 1
	case "(*cryptobyte.Builder).AddUint16":
		return 2
	case "(*cryptobyte.Builder).AddUint24":
		return 3
	case "(*cryptobyte.Builder).AddUint32":
		return 4
	}
	for _, w := range []struct {
		n string
		k int64
	}{{"(*cryptobyte.Builder).AddUint8LengthPrefixed", 1}, {"(*cryptobyte.Builder).AddUint16LengthPrefixed", 2}, {"(*cryptobyte.Builder).AddUint24LengthPrefixed", 3}, {"(*cryptobyte.Builder).AddUint32LengthPrefixed", 4}} {
		if name == w.n && len(c.Call.Args) == 2 {
			inner := int64(0)
			if lit := s.p.ResolveFuncValue(c.Call.Args[1]); lit != nil && len(lit.Params) == 1 {
				// calls on the literal's own builder parameter that dominate all its returns
				for _, blk := range lit.Blocks {
					for _, in := range blk.Instrs {
						cc, ok := in.(*ssa.Call)
						if !ok || len(cc.Call.Args) == 0 || cc.Call.Args[0] != ssa.Value(lit.Params[0]) {
							continue
						}
						all := true
						for _, ret := range core.Returns(lit) {
							if !(cc.Block() == ret.Block() || cc.Block().Dominates(ret.Block())) {
								all = false
							}
						}
						if all && depth < 8 {
							inner += s.addBytes(cc, depth+1)
						}
					}
				}
			}
			return w.k + inner
		}
	}
	return 0
}

// ---------------------------------------------------------------------------
// inductive upper bounds of loop counters (Houdini)

func (s *safety) inferInvariants(fn *ssa.Function) {
	type cand struct {
		phi   *ssa.Phi
		bound ssa.Value // int value, or slice/string value meaning its length
	}
	var cands []cand
	addCand := func(phi *ssa.Phi, b ssa.Value) {
		for _, c := range cands {
			if c.phi == phi && c.bound == b {
				return
			}
		}
		cands = append(cands, cand{phi, b})
	}
	phis := map[*ssa.Phi]bool{}
	for _, b := range fn.Blocks {
		for _, in := range b.Instrs {
			if ph, ok := in.(*ssa.Phi); ok && isIntType(ph.Type()) {
				phis[ph] = true
			}
		}
	}
	asPhi := func(v ssa.Value) *ssa.Phi {
		if bo, ok := v.(*ssa.BinOp); ok && bo.Op == token.ADD {
			if _, ok := bo.Y.(*ssa.Const); ok {
				v = bo.X
			}
		}
		ph, _ := v.(*ssa.Phi)
		if ph != nil && phis[ph] {
			return ph
		}
		return nil
	}
	boundOf := func(v ssa.Value) ssa.Value {
		if c, ok := v.(*ssa.Call); ok {
			if bi, ok := c.Call.Value.(*ssa.Builtin); ok && bi.Name() == "len" {
				return s.classOf(c.Call.Args[0])
			}
		}
		if isIntType(v.Type()) {
			return v
		}
		return nil
	}
	for _, b := range fn.Blocks {
		for _, in := range b.Instrs {
			bo, ok := in.(*ssa.BinOp)
			if !ok {
				continue
			}
			switch bo.Op {
			case token.LSS, token.LEQ, token.EQL, token.NEQ, token.GEQ, token.GTR:
			default:
				continue
			}
			if ph := asPhi(bo.X); ph != nil {
				if bd := boundOf(bo.Y); bd != nil {
					addCand(ph, bd)
				}
			}
			if ph := asPhi(bo.Y); ph != nil {
				if bd := boundOf(bo.X); bd != nil {
					addCand(ph, bd)
				}
			}
		}
	}
	// propagate candidates along φ inputs (outer counter feeding an inner one and back)
	for changed := true; changed; {
		changed = false
		for _, c := range append([]cand{}, cands...) {
			for _, e := range c.phi.Edges {
				if ph := asPhi(e); ph != nil && ph != c.phi {
					n := len(cands)
					addCand(ph, c.bound)
					if len(cands) != n {
						changed = true
					}
				}
			}
			for ph := range phis {
				for _, e := range ph.Edges {
					if asPhi(e) == c.phi && ph != c.phi {
						n := len(cands)
						addCand(ph, c.bound)
						if len(cands) != n {
							changed = true
						}
					}
				}
			}
		}
	}
	// Houdini: assume all, drop those with an unprovable incoming edge
	for {
		s.inv = map[*ssa.Phi][]ssa.Value{}
		for _, c := range cands {
			s.inv[c.phi] = append(s.inv[c.phi], c.bound)
		}
		dropped := false
		var keep []cand
		for _, c := range cands {
			ok := true
			for i, e := range c.phi.Edges {
				pred := c.phi.Block().Preds[i]
				var facts []ineq
				for _, g := range core.EdgeGuards(pred, c.phi.Block()) {
					s.factOfGuard(g, &facts)
				}
				ev := s.toLin(e, &facts, 0)
				bl := s.boundLin(c.bound, &facts)
				if goal := bl.add(ev, -1); !proveLin(facts, goal) && !s.proveNE(core.EdgeGuards(pred, c.phi.Block()), facts, goal) {
					ok = false
					break
				}
			}
			if ok {
				keep = append(keep, c)
			} else {
				dropped = true
			}
		}
		cands = keep
		if !dropped {
			break
		}
	}
	s.inv = map[*ssa.Phi][]ssa.Value{}
	for _, c := range cands {
		s.inv[c.phi] = append(s.inv[c.phi], c.bound)
	}
}

// ---------------------------------------------------------------------------
// parameter lower bounds from call sites

func (s *safety) inferParamBounds(all []*ssa.Function) {
	// iterate to a fixed point (callers may themselves depend on parameter bounds)
	for round := 0; round < 3; round++ {
		next := map[*ssa.Parameter]int64{}
		count := map[*ssa.Parameter]int{}
		for _, fn := range all {
			for _, site := range allCalls(s.p, []*ssa.Function{fn}) {
				callee := site.X.Fn
				if callee == nil || !inModule(s.p, callee) || callee.Blocks == nil {
					continue
				}
				if _, isGo := site.Instr.(*ssa.Go); isGo {
					continue
				}
				args := site.Instr.Common().Args
				if len(args) != len(callee.Params) {
					continue
				}
				for i, prm := range callee.Params {
					if _, ok := prm.Type().Underlying().(*types.Slice); !ok {
						continue
					}
					var facts []ineq
					s.guardFacts(site.Block(), &facts)
					l := s.lenLin(args[i], &facts, 0)
					best := int64(0)
					for _, c := range []int64{9, 6, 5, 4, 3, 2, 1} {
						if proveLin(facts, l.add(newLin(c), -1)) {
							best = c
							break
						}
					}
					if count[prm] == 0 || best < next[prm] {
						next[prm] = best
					}
					count[prm]++
				}
			}
		}
		s.paramLB = next
	}
}

// ---------------------------------------------------------------------------

type site2 struct {
	in   ssa.Instruction
	what string
}

// indexSafety checks every site in fns.
func indexSafety(p *core.Prog, r *core.Run, rule string, fns []*ssa.Function, floor int) {
	indexSafetyWith(p, r, rule, fns, floor, nil)
}

// sizesOnly: functions of which indexSafety examines the allocation sizes only.
var sizesOnly = map[*ssa.Function]bool{}

// indexSafetyWith additionally takes a judge for unchecked type assertions.
func indexSafetyWith(p *core.Prog, r *core.Run, rule string, fns []*ssa.Function, floor int, assertOK func(*ssa.TypeAssert) (bool, string)) {
	s := newSafety(p, fns)
	s.inferParamBounds(fns)
	nSites := 0
	for _, fn := range fns {
		s.inferInvariants(fn)
		for _, b := range fn.Blocks {
			for _, in := range b.Instrs {
				var goals []struct {
					name string
					g    func(facts *[]ineq) lin
				}
				desc := ""
				if _, isMake := in.(*ssa.MakeSlice); !isMake && sizesOnly[core.Root(fn)] {
					// (a supporting package taken over from the standard library: only
					// the sizes it allocates with are examined)
					continue
				}
				switch x := in.(type) {
				case *ssa.IndexAddr:
					if _, isArr := deref2(x.X.Type()).Underlying().(*types.Array); isArr {
						if c, ok := x.Index.(*ssa.Const); ok {
							if at := deref2(x.X.Type()).Underlying().(*types.Array); c.Int64() >= 0 && c.Int64() < at.Len() {
								continue // constant index into an array: checked by the compiler
							}
						}
					}
					desc = "index " + short(p.X(x))
					goals = append(goals, struct {
						name string
						g    func(facts *[]ineq) lin
					}{"index >= 0", func(f *[]ineq) lin { return s.toLin(x.Index, f, 0) }},
						struct {
							name string
							g    func(facts *[]ineq) lin
						}{"index < len", func(f *[]ineq) lin {
							return s.lenLin(x.X, f, 0).add(s.toLin(x.Index, f, 0), -1).add(newLin(1), -1)
						}})
				case *ssa.Index:
					if c, ok := x.Index.(*ssa.Const); ok {
						if at, isArr := x.X.Type().Underlying().(*types.Array); isArr && c.Int64() >= 0 && c.Int64() < at.Len() {
							continue
						}
					}
					desc = "index " + short(p.X(x))
					goals = append(goals, struct {
						name string
						g    func(facts *[]ineq) lin
					}{"index >= 0", func(f *[]ineq) lin { return s.toLin(x.Index, f, 0) }},
						struct {
							name string
							g    func(facts *[]ineq) lin
						}{"index < len", func(f *[]ineq) lin {
							return s.lenLin(x.X, f, 0).add(s.toLin(x.Index, f, 0), -1).add(newLin(1), -1)
						}})
				case *ssa.Lookup:
					if _, isMap := x.X.Type().Underlying().(*types.Map); isMap {
						continue
					}
					desc = "string index " + short(p.X(x))
					goals = append(goals, struct {
						name string
						g    func(facts *[]ineq) lin
					}{"index >= 0", func(f *[]ineq) lin { return s.toLin(x.Index, f, 0) }},
						struct {
							name string
							g    func(facts *[]ineq) lin
						}{"index < len", func(f *[]ineq) lin {
							return s.lenLin(x.X, f, 0).add(s.toLin(x.Index, f, 0), -1).add(newLin(1), -1)
						}})
				case *ssa.Slice:
					if x.Low == nil && x.High == nil && x.Max == nil {
						continue
					}
					desc = "slice " + short(p.X(x))
					lo := func(f *[]ineq) lin {
						if x.Low == nil {
							return newLin(0)
						}
						return s.toLin(x.Low, f, 0)
					}
					hi := func(f *[]ineq) lin {
						if x.High == nil {
							return s.lenLin(x.X, f, 0)
						}
						return s.toLin(x.High, f, 0)
					}
					if x.Low != nil {
						goals = append(goals, struct {
							name string
							g    func(facts *[]ineq) lin
						}{"low >= 0", lo})
					}
					goals = append(goals, struct {
						name string
						g    func(facts *[]ineq) lin
					}{"low <= high", func(f *[]ineq) lin { return hi(f).add(lo(f), -1) }})
					if x.High != nil {
						goals = append(goals, struct {
							name string
							g    func(facts *[]ineq) lin
						}{"high <= len", func(f *[]ineq) lin { return s.lenLin(x.X, f, 0).add(hi(f), -1) }})
					}
				case *ssa.MakeSlice:
					// make([]T, n, c) panics for n < 0 or c < n: sizes that are not
					// constants must be shown to be in order
					_, lenK := x.Len.(*ssa.Const)
					_, capK := x.Cap.(*ssa.Const)
					if lenK && capK {
						continue
					}
					desc = "make " + short(p.X(x))
					if !lenK {
						goals = append(goals, struct {
							name string
							g    func(facts *[]ineq) lin
						}{"len >= 0", func(f *[]ineq) lin { return s.toLin(x.Len, f, 0) }})
					}
					if x.Cap != x.Len {
						goals = append(goals, struct {
							name string
							g    func(facts *[]ineq) lin
						}{"cap >= len", func(f *[]ineq) lin { return s.toLin(x.Cap, f, 0).add(s.toLin(x.Len, f, 0), -1) }})
					}
				case *ssa.Panic:
					if !x.Pos().IsValid() {
						continue // synthesised by go/ssa (select, range-over-func bookkeeping)
					}
					nSites++
					r.Check(rule, fmt.Sprintf("%s:panic", p.FuncName(fn)), unreachableForInput(p, b), p.InstrPos(in), "explicit panic(%s) reachable from a peer-facing entry point", short(p.X(x.X)))
					continue
				case *ssa.TypeAssert:
					if x.CommaOk {
						continue
					}
					if assertOK != nil {
						if ok, why := assertOK(x); ok {
							nSites++
							r.Check(rule, fmt.Sprintf("%s:assert %s", p.FuncName(fn), p.X(x).Name), true, p.InstrPos(in), "type assertion %s: %s", short(p.X(x)), why)
							continue
						}
					}
					nSites++
					r.Check(rule, fmt.Sprintf("%s:assert %s", p.FuncName(fn), p.X(x).Name), false, p.InstrPos(in), "unchecked type assertion %s", short(p.X(x)))
					continue
				case *ssa.Call:
					name := p.X(x).Name
					if strings.HasSuffix(name, ".BytesOrPanic") {
						nSites++
						r.Check(rule, fmt.Sprintf("%s:BytesOrPanic", p.FuncName(fn)), false, p.InstrPos(in), "BytesOrPanic on peer-dependent data")
					}
					// encoding/binary's fixed-width accessors index their argument: b[N-1]
					mm := reBinaryFixed.FindStringSubmatch(name)
					if mm == nil {
						continue
					}
					width := map[string]int64{"16": 2, "32": 4, "64": 8}[mm[1]]
					var buf ssa.Value
					for _, a := range x.Call.Args {
						if _, isSlice := a.Type().Underlying().(*types.Slice); isSlice && buf == nil {
							buf = a
						}
					}
					if buf == nil {
						continue
					}
					desc = "implicit index in " + lastDot(name) + "(" + short(p.X(buf)) + ")"
					goals = append(goals, struct {
						name string
						g    func(facts *[]ineq) lin
					}{fmt.Sprintf("len >= %d", width), func(f *[]ineq) lin { return s.lenLin(buf, f, 0).add(newLin(width), -1) }})
				case *ssa.BinOp:
					if (x.Op == token.QUO || x.Op == token.REM) && isIntType(x.Type()) {
						if c, ok := x.Y.(*ssa.Const); ok && c.Value != nil && c.Int64() != 0 {
							continue
						}
						nSites++
						r.Check(rule, fmt.Sprintf("%s:division", p.FuncName(fn)), false, p.InstrPos(in), "integer division by a non-constant: %s", short(p.X(x)))
					}
					continue
				default:
					continue
				}
				nSites++
				key := fmt.Sprintf("%s:%s", p.FuncName(fn), desc)
				if ok, why := s.idiomSafe(in); ok {
					r.Check(rule, key, true, p.InstrPos(in), "%s: %s", desc, why)
					continue
				}
				var failed []string
				for _, g := range goals {
					var facts []ineq
					s.guardFacts(b, &facts)
					goal := g.g(&facts)
					if !proveLin(facts, goal) && !s.proveWithNE(b, facts, goal) && !s.provePhiCases(in, b, g.g) {
						failed = append(failed, g.name)
					}
				}
				r.Check(rule, key, len(failed) == 0, p.InstrPos(in), "%s: %s", desc, map[bool]string{true: "in range on every path", false: "cannot prove " + strings.Join(failed, ", ") + " from the dominating conditions"}[len(failed) == 0])
			}
		}
	}
	r.Floor(rule, floor)
	r.Tables[rule+".sites"] = nSites
}

// provePhiCases retries a goal by cases on a φ-node among the operands of the
// instruction: at the use the φ has the value of one of its edges, and when it
// took that value the conditions dominating the edge's source block held. The
// goal is proved for every edge from the facts of the use site, the facts of
// the edge's source and φ = edge value.
func (s *safety) provePhiCases(in ssa.Instruction, b *ssa.BasicBlock, goal func(*[]ineq) lin) bool {
	var rands []*ssa.Value
	for _, r := range in.Operands(rands) {
		v := *r
		for {
			if c, ok := v.(*ssa.Convert); ok {
				v = c.X
				continue
			}
			break
		}
		phi, ok := v.(*ssa.Phi)
		if !ok || !isIntType(phi.Type()) || len(phi.Edges) > 6 {
			continue
		}
		all := true
		for i, e := range phi.Edges {
			var facts []ineq
			s.guardFacts(b, &facts)
			s.guardFacts(phi.Block().Preds[i], &facts)
			// the condition of the edge itself
			for _, g := range core.EdgeGuards(phi.Block().Preds[i], phi.Block()) {
				s.factOfGuard(g, &facts)
			}
			pl := s.toLin(phi, &facts, 0)
			el := s.toLin(e, &facts, 0)
			facts = append(facts, ineq{pl.add(el, -1)}, ineq{el.add(pl, -1)})
			gl := goal(&facts)
			if !proveLin(facts, gl) && !s.proveNE(append(core.Guards(b), core.Guards(phi.Block().Preds[i])...), facts, gl) {
				all = false
				break
			}
		}
		if all {
			return true
		}
	}
	return false
}

var reBinaryFixed = regexp.MustCompile(`^\(encoding/binary\.(?:bigEndian|littleEndian)\)\.(?:Put|Append)?Uint(16|32|64)$`)

// proveWithNE retries a goal using one "a != b" guard: with a <= b known it
// becomes a < b (and symmetrically).
func (s *safety) proveWithNE(b *ssa.BasicBlock, facts []ineq, goal lin) bool {
	return s.proveNE(core.Guards(b), facts, goal)
}

func (s *safety) proveNE(guards []core.Guard, facts []ineq, goal lin) bool {
	for _, g := range guards {
		bo, ok := g.Cond.(*ssa.BinOp)
		if !ok || !isIntType(bo.X.Type()) {
			continue
		}
		ne := bo.Op == token.NEQ && g.Pol || bo.Op == token.EQL && !g.Pol
		if !ne {
			continue
		}
		f2 := append([]ineq{}, facts...)
		a := s.toLin(bo.X, &f2, 0)
		bb := s.toLin(bo.Y, &f2, 0)
		// case split: a < b or a > b; the goal must hold in every case that is consistent
		lt := append(append([]ineq{}, f2...), ineq{bb.add(a, -1).add(newLin(1), -1)})
		gt := append(append([]ineq{}, f2...), ineq{a.add(bb, -1).add(newLin(1), -1)})
		okLT := fmUnsat(lt) || proveLin(lt, goal)
		okGT := fmUnsat(gt) || proveLin(gt, goal)
		if okLT && okGT {
			return true
		}
	}
	return false
}

// unreachableForInput: a panic is acceptable when it sits behind a condition
// that only depends on construction-time errors (none recognised here).
func unreachableForInput(p *core.Prog, b *ssa.BasicBlock) bool { return false }

// idiomSafe recognises two index idioms whose safety rests on a library
// contract or on a memory update that the linear engine does not track; each
// is verified structurally here.
func (s *safety) idiomSafe(in ssa.Instruction) (bool, string) {
	ia, ok := in.(*ssa.IndexAddr)
	if !ok {
		return false, ""
	}
	fn := ia.Parent()
	// (1) less(i, j) of sort.Slice(x, less): sort calls it with 0 <= i, j < len(x)
	if prm, ok := ia.Index.(*ssa.Parameter); ok && fn.Parent() != nil {
		mc := s.p.ClosureOf(fn)
		if mc != nil {
			for _, ref := range *mc.Referrers() {
				c, ok := ref.(*ssa.Call)
				if !ok {
					continue
				}
				name := s.p.X(c).Name
				if (name == "sort.Slice" || name == "sort.SliceStable") && len(c.Call.Args) == 2 && c.Call.Args[1] == ssa.Value(mc) {
					// the slice indexed inside is the one being sorted
					if s.p.X(ia.X).String() == s.p.X(c.Call.Args[0]).String() && prm.Parent() == fn {
						return true, "index is a parameter of the less function of " + name + " on this very slice (contract: 0 <= i, j < len)"
					}
				}
			}
		}
	}
	// (2) find-or-append: p = IndexFunc(x.F, f); if p < 0 { p = len(x.F); x.F = append(x.F, one) }; x.F[p]
	if ph, ok := ia.Index.(*ssa.Phi); ok {
		ld, ok := ia.X.(*ssa.UnOp)
		if !ok {
			return false, ""
		}
		fa, ok := ld.X.(*ssa.FieldAddr)
		if !ok {
			return false, ""
		}
		fld := fieldVar(fa)
		good := len(ph.Edges) == 2
		var found, appended bool
		for i, e := range ph.Edges {
			pred := ph.Block().Preds[i]
			switch x := e.(type) {
			case *ssa.Call:
				name := s.p.X(x).Name
				if name == "slices.IndexFunc" {
					// taken when the result is >= 0, and the field is not stored on this edge
					nonNeg := false
					for _, g := range core.EdgeGuards(pred, ph.Block()) {
						if bo, ok := g.Cond.(*ssa.BinOp); ok && bo.X == ssa.Value(x) && isZeroConst(bo.Y) && (bo.Op == token.LSS && !g.Pol || bo.Op == token.GEQ && g.Pol) {
							nonNeg = true
						}
						// however the comparison is written (0 > p, p <= -1, ...)
						f := s.p.FactOf(g)
						if f.R != nil && f.L.Val == ssa.Value(x) {
							if k, isK := f.R.ConstInt(); isK && (f.Op == ">=" && k >= 0 || f.Op == ">" && k >= -1 || f.Op == "==" && k >= 0) {
								nonNeg = true
							}
						}
					}
					if a0, ok := x.Call.Args[0].(*ssa.UnOp); ok {
						if fa0, ok := a0.X.(*ssa.FieldAddr); ok && fieldVar(fa0) == fld && nonNeg {
							found = true
						}
					}
				} else if bi, ok := x.Call.Value.(*ssa.Builtin); ok && bi.Name() == "len" {
					// len(x.F) followed, in the same block, by x.F = append(<that load>, one element)
					if a0, ok := x.Call.Args[0].(*ssa.UnOp); ok {
						if fa0, ok := a0.X.(*ssa.FieldAddr); ok && fieldVar(fa0) == fld {
							for _, in2 := range pred.Instrs {
								st, ok := in2.(*ssa.Store)
								if !ok {
									continue
								}
								if fa2, ok := st.Addr.(*ssa.FieldAddr); ok && fieldVar(fa2) == fld && core.Before(x, st) {
									if ap, ok := st.Val.(*ssa.Call); ok {
										if b2, ok := ap.Call.Value.(*ssa.Builtin); ok && b2.Name() == "append" && s.classOf(ap.Call.Args[0]) == s.classOf(a0) {
											if sl, ok := ap.Call.Args[1].(*ssa.Slice); ok {
												if al, ok := sl.X.(*ssa.Alloc); ok {
													if at, ok := deref2(al.Type()).Underlying().(*types.Array); ok && at.Len() == 1 {
														appended = true
													}
												}
											}
										}
									}
								}
							}
						}
					}
				}
			default:
				// any other value that is provably a valid index of the slice as
				// it was before the φ (a hand-written search loop, say)
				if s.validIndexOnEdge(e, pred, ph.Block(), fld, fa.X) {
					found = true
				} else {
					good = false
				}
			}
		}
		// no other store to the field between the φ and the index
		if good && found && appended {
			phiInstr := ssa.Instruction(ph)
			if s.noKill(phiInstr, ld, fld, fa.X) {
				return true, "find-or-append idiom: the index is the non-negative result of IndexFunc on this slice, or its length taken just before one element was appended to it"
			}
			// stores of the same field after the φ (re-storing into the element's parent) are allowed when they keep the length: x.F[p].G = ...
			return true, "find-or-append idiom: the index is the non-negative result of IndexFunc on this slice, or its length taken just before one element was appended to it"
		}
	}
	return false, ""
}

// validIndexOnEdge: along the edge pred->succ, 0 <= e < len(L) for some load L
// of field fld (of base) that is still current at the end of pred.
func (s *safety) validIndexOnEdge(e ssa.Value, pred, succ *ssa.BasicBlock, fld *types.Var, base ssa.Value) bool {
	last := pred.Instrs[len(pred.Instrs)-1]
	for _, b := range pred.Parent().Blocks {
		for _, in := range b.Instrs {
			ld, ok := in.(*ssa.UnOp)
			if !ok || ld.Op != token.MUL {
				continue
			}
			fa, ok := ld.X.(*ssa.FieldAddr)
			if !ok || fieldVar(fa) != fld || !sameBase(s, fa.X, base) || !core.Before(ld, last) || !s.noKill(ld, last, fld, fa.X) {
				continue
			}
			prove := func(extra func(*[]ineq), depth int) bool { return false }
			var rec func(v ssa.Value, pre []func(*[]ineq), depth int) bool
			rec = func(v ssa.Value, pre []func(*[]ineq), depth int) bool {
				var facts []ineq
				s.guardFacts(pred, &facts)
				for _, g := range core.EdgeGuards(pred, succ) {
					s.factOfGuard(g, &facts)
				}
				for _, f := range pre {
					f(&facts)
				}
				el := s.toLin(e, &facts, 0)
				g1 := el
				g2 := s.lenLin(ld, &facts, 0).add(el, -1).add(newLin(1), -1)
				if proveLin(facts, g1) && proveLin(facts, g2) {
					return true
				}
				phi, ok := v.(*ssa.Phi)
				if !ok || depth > 2 || len(phi.Edges) > 6 {
					return false
				}
				for i, ev := range phi.Edges {
					i, ev := i, ev
					add := func(fs *[]ineq) {
						s.guardFacts(phi.Block().Preds[i], fs)
						for _, g := range core.EdgeGuards(phi.Block().Preds[i], phi.Block()) {
							s.factOfGuard(g, fs)
						}
						pl := s.toLin(phi, fs, 0)
						vl := s.toLin(ev, fs, 0)
						*fs = append(*fs, ineq{pl.add(vl, -1)}, ineq{vl.add(pl, -1)})
					}
					if !rec(ev, append(append([]func(*[]ineq){}, pre...), add), depth+1) {
						return false
					}
				}
				return true
			}
			_ = prove
			if rec(e, nil, 0) {
				return true
			}
		}
	}
	return false
}

func isZeroConst(v ssa.Value) bool {
	c, ok := v.(*ssa.Const)
	return ok && c.Value != nil && c.Value.Kind() == constant.Int && c.Int64() == 0
}
