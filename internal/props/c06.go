package props

import (
	"fmt"

	"verif/third_party/xtools/go/ssa"

	"verif/internal/core"
)

func init() {
	register(&Property{
		ID: "C06",
		Info: core.Info{
			Explanation: "Decides per-transition necessary conditions of the Conn state machine (not an exploration of its histories): " +
				"(M1) the retry counter is incremented at exactly one site, in the write-side inspector, only under {record type 22, message type 2, IsHelloRetryRequest()}; nothing else writes it; the inspector is called only from Write's record loop; " +
				"(M2) the retry-mode hello handler is called at exactly one site, in Read, only under {no read error, r[0]==22, r[5]==1, retryCount.Load()==1}, and readPassthrough is set in that same branch (at most one retry); the other call site passes isRetry=false; " +
				"(M3) census of all stores to the two passthrough flags: NewConn (inner == nil), Read under r[0]==23 and in the retry branch, inspector under record type 23 and under HelloRetryRequest - any other store or a weaker guard is reported; " +
				"(M4) with isRetry assumed true in the processor: missing ECH extension returns missing_extension; differing config id, differing cipher suite or non-empty enc return illegal_parameter; no SetupReceipient call is reachable; 'nothing opened' returns decrypt_error; " +
				"(M5) with isRetry assumed true in the handler, the successful return is guarded by inner != nil, inner.echExt != nil, c.inner.ServerName == inner.ServerName and slices.Equal(c.inner.ALPNProtos, inner.ALPNProtos), and each violation returns illegal_parameter; " +
				"(M6) errors of the retried hello are written as alerts (shared with C04.ALERT.deliver). " +
				"Not decided: behaviour over interleavings of records; these are conditions every single transition satisfies.",
		},
		Rules: c06Rules,
	})
}

func c06Rules(p *core.Prog, r *core.Run) {
	m := newEchModel(p)
	if !m.ok(r, "C06.model") {
		return
	}
	c06State(p, r, m, "C06")
	// the alert of a refused second hello goes out through Write whatever the
	// read side has recorded
	directionOwnership(p, r, m, "C06.M6")
	// the retry comparison looks at the lists as the client sent them
	c05SniAlpn(p, r, m, "C06.M4.parse")
	// the alert that answers each class of error (missing_extension,
	// illegal_parameter, decrypt_error for the retry rules)
	c04AlertMap(p, r, m, "C06.M4.alerts")
}

// c06State holds the rules on the inspection state machine; pre is the
// property prefix under which they are reported (C06, and C01 for the part
// a HelloRetryRequest handshake depends on).
func c06State(p *core.Prog, r *core.Run, m *echModel, pre string) {
	r.Analysed(p.FuncName(m.read), p.FuncName(m.write), p.FuncName(m.inspect), p.FuncName(m.handle), p.FuncName(m.process))
	pkg := p.PkgFuncs(Ech)
	retryCount := m.fConn["retryCount"]

	// --- M1
	var adds []site
	for _, s := range callSites(p, pkg, `\(\*sync/atomic\.Int32\)\.(Add|Store|Swap|CompareAndSwap|And|Or)`) {
		if mentionsField(s.X, retryCount) {
			adds = append(adds, s)
		}
	}
	r.Check(pre+".M1", "retryCount:writers", len(adds) == 1, p.Pos(m.inspect.Pos()), "exactly one site modifies the retry counter (found %d)", len(adds))
	for i, s := range adds {
		fs := p.Facts(s.Block())
		rec22 := core.HasFact(fs, "==", `p1\[0\]`, "22")
		msg2 := false
		for _, f := range fs {
			if f.Op == "==" && f.R.Name == "2" {
				for _, a := range f.L.Alts() {
					if a.Op == "index" && a.Args[0].Op == "param" && a.Args[0].Name == "p1" && a.Args[1].Name == "5" {
						msg2 = true
					}
				}
			}
		}
		hrr := false
		for _, f := range fs {
			if f.Op == "true" && f.L.Op == "call" && f.L.Name == "(ech.serverHello).IsHelloRetryRequest" {
				// applied to the hello parsed from this record
				if f.L.Args[0].Any(func(e *core.Expr) bool {
					return e.Op == "call" && e.Name == "ech.parseServerHello" && e.Args[0].Op == "slice" && e.Args[0].Args[0].Op == "param" && e.Args[0].Args[0].Name == "p1"
				}) {
					hrr = true
				}
			}
		}
		one := s.X.Name == "(*sync/atomic.Int32).Add" && len(s.X.Args) == 2 && s.X.Args[1].Name == "1"
		r.Check(pre+".M1", fmt.Sprintf("retryCount:add#%d", i), core.Root(s.Fn) == m.inspect && rec22 && msg2 && hrr && one, p.InstrPos(s.Instr),
			"retryCount.Add(1) (%v) in the write inspector (%v) under record type 22 (%v), message type 2 (%v) and IsHelloRetryRequest() of the ServerHello parsed from this record (%v)", one, core.Root(s.Fn) == m.inspect, rec22, msg2, hrr)
	}
	for i, st := range fieldStores(p, pkg, retryCount) {
		r.Check(pre+".M1", fmt.Sprintf("retryCount:store#%d", i), core.Root(st.Parent()) == m.newConn, p.InstrPos(st), "the counter object is installed only by NewConn")
	}
	var inspCalls []site
	for _, s := range allCalls(p, pkg) {
		if s.X.Fn == m.inspect {
			inspCalls = append(inspCalls, s)
		}
	}
	okInsp := len(inspCalls) == 1 && core.Root(inspCalls[0].Fn) == m.write
	if okInsp {
		// its argument is the complete record writeBuf[:sz]
		a := inspCalls[0].X.Args[1]
		okInsp = a.Op == "slice" && a.Args[0].Op == "field" && a.Args[0].Obj == m.fConn["writeBuf"] && a.Args[1].Name == "_"
	}
	if okInsp {
		// the record is inspected (and the counter bumped) before it is put on the wire:
		// the peer's answer to a HelloRetryRequest may be read by the other direction at once
		first := false
		for _, w := range callSites(p, []*ssa.Function{m.write}, `\(net\.Conn\)\.Write`) {
			if w.X.Args[1].Op == "slice" && core.Before(inspCalls[0].Instr, w.Instr) {
				first = true
			}
		}
		r.Check(pre+".M1", "inspector:before-forwarding", first, p.InstrPos(inspCalls[0].Instr), "a record is inspected before it is forwarded, so the retry counter is already set when the client can answer the HelloRetryRequest")
	}
	r.Check(pre+".M1", "inspector:caller", okInsp, p.Pos(m.inspect.Pos()), "the write inspector is called from exactly one place, Write's record loop, with the complete record writeBuf[:sz]")
	c06HRR(p, r, pre+".M1")
	r.Floor(pre+".M1", 5)

	// --- M2
	var handleCalls []site
	for _, s := range allCalls(p, pkg) {
		if s.X.Fn == m.handle {
			handleCalls = append(handleCalls, s)
		}
	}
	nRetry := 0
	for i, s := range handleCalls {
		mode := s.X.Args[2]
		key := fmt.Sprintf("handle:call#%d", i)
		switch {
		case mode.Op == "const" && mode.Name == "false":
			r.Check(pre+".M2", key, core.Root(s.Fn) == m.newConn, p.InstrPos(s.Instr), "first-hello mode is used by NewConn only")
		case mode.Op == "const" && mode.Name == "true":
			nRetry++
			fs := p.Facts(s.Block())
			rec := `ech\.readRecord\(p0\.Conn\)#0`
			noErr := core.HasFact(fs, "==", `ech\.readRecord\(p0\.Conn\)#1`, "nil")
			t22 := core.HasFact(fs, "==", rec+`\[0\]`, "22")
			m1 := core.HasFact(fs, "==", rec+`\[5\]`, "1")
			cnt := core.HasFact(fs, "==", `\(\*sync/atomic\.Int32\)\.Load\(p0\.retryCount\)`, "1")
			sameRec := s.X.Args[1].String() == "ech.readRecord(p0.Conn)#0"
			// the counter is read after the record has arrived: a reader already
			// blocked in readRecord when the HelloRetryRequest goes out must still see it
			fresh := false
			for _, f := range fs {
				if f.Op == "==" && f.R != nil && f.R.Name == "1" && f.L.Op == "call" && f.L.Name == "(*sync/atomic.Int32).Load" {
					if ld, ok := f.L.Val.(ssa.Instruction); ok {
						for _, rr := range callSites(p, []*ssa.Function{s.Fn}, `ech\.readRecord`) {
							if core.Before(rr.Instr, ld) {
								fresh = true
							}
						}
					}
				}
			}
			cnt = cnt && fresh
			// readPassthrough = true in the same block (before or after)
			latched := false
			for _, in := range s.Block().Instrs {
				if st, ok := in.(*ssa.Store); ok {
					if fa, ok := st.Addr.(*ssa.FieldAddr); ok && fieldVar(fa) == m.fConn["readPassthrough"] {
						if c, ok := st.Val.(*ssa.Const); ok && c.Value != nil && c.Value.ExactString() == "true" {
							latched = true
						}
					}
				}
			}
			r.Check(pre+".M2", key, core.Root(s.Fn) == m.read && noErr && t22 && m1 && cnt && sameRec && latched, p.InstrPos(s.Instr),
				"retry mode is entered in Read (%v) with the record just read (%v) only under: no read error (%v), handshake record (%v), ClientHello (%v), exactly one HelloRetryRequest seen (%v); readPassthrough is latched in the same branch so at most one retry is processed (%v)",
				core.Root(s.Fn) == m.read, sameRec, noErr, t22, m1, cnt, latched)
		default:
			r.Check(pre+".M2", key, false, p.InstrPos(s.Instr), "the retry mode of the hello handler is not a constant here: %s", short(mode))
		}
	}
	r.Check(pre+".M2", "handle:retry-sites", nRetry == 1, p.Pos(m.handle.Pos()), "exactly one retry-mode call site (found %d)", nRetry)
	r.Floor(pre+".M2", 3)

	// --- M3: census of flag stores
	for _, flag := range []string{"readPassthrough", "writePassthrough"} {
		for i, st := range fieldStores(p, pkg, m.fConn[flag]) {
			key := fmt.Sprintf("%s:store#%d@%s", flag, i, p.FuncName(core.Root(st.Parent())))
			fs := p.Facts(st.Block())
			v := p.X(st.Val)
			switch core.Root(st.Parent()) {
			case m.newConn:
				ok := v.Op == "bin" && v.Name == "==" && v.Args[1].Name == "nil" && m.innerRef(v.Args[0])
				r.Check(pre+".M3", key, ok, p.InstrPos(st), "NewConn: %s = (inner == nil): %s", flag, short(v))
			case m.read:
				isTrue := v.Op == "const" && v.Name == "true"
				app := core.HasFact(fs, "==", `ech\.readRecord\(p0\.Conn\)#0\[0\]`, "23") && core.HasFact(fs, "==", `ech\.readRecord\(p0\.Conn\)#1`, "nil")
				retry := core.HasFact(fs, "==", `\(\*sync/atomic\.Int32\)\.Load\(p0\.retryCount\)`, "1")
				r.Check(pre+".M3", key, flag == "readPassthrough" && isTrue && (app || retry), p.InstrPos(st), "Read stops inspecting only on an application_data record (type == 23: %v) or when it processes the retried hello (%v)", app, retry)
			case m.inspect:
				isTrue := v.Op == "const" && v.Name == "true"
				app := core.HasFact(fs, "==", `p1\[0\]`, "23")
				hrr := false
				for _, f := range fs {
					if f.Op == "true" && f.L.Op == "call" && f.L.Name == "(ech.serverHello).IsHelloRetryRequest" {
						hrr = true
					}
				}
				r.Check(pre+".M3", key, flag == "writePassthrough" && isTrue && (app || hrr), p.InstrPos(st), "the write side stops inspecting only on an application_data record (%v) or a HelloRetryRequest (%v)", app, hrr)
			default:
				r.Check(pre+".M3", key, false, p.InstrPos(st), "unexpected writer of %s", flag)
			}
		}
	}
	r.Floor(pre+".M3", 6)
	// ... and an application_data record always does: whatever else is known
	// about the connection, once the client's record of type 23 has been read no
	// later record of the client is looked at
	{
		isRec0 := func(e *core.Expr) bool {
			return e.Op == "index" && e.Args[1].Name == "0" && e.Args[0].Op == "ext" && e.Args[0].Name == "#0" && e.Args[0].Args[0].Op == "call" && e.Args[0].Args[0].Name == "ech.readRecord"
		}
		isRecErr := func(e *core.Expr) bool {
			return e.Op == "ext" && e.Name == "#1" && e.Args[0].Op == "call" && e.Args[0].Name == "ech.readRecord"
		}
		cfg, _ := pruneBy(p, m.read, []assumption{
			cmpAssume("err == nil", "==", isRecErr, isConstName("nil")),
			cmpAssume("record[0] == 23", "==", isRec0, isConstName("23")),
		})
		latch := map[*ssa.BasicBlock]bool{}
		for _, st := range fieldStores(p, []*ssa.Function{m.read}, m.fConn["readPassthrough"]) {
			if v := p.X(st.Val); v.Op == "const" && v.Name == "true" && st.Parent() == m.read {
				latch[st.Block()] = true
			}
		}
		n := 0
		for _, s := range callSites(p, []*ssa.Function{m.read}, `ech\.readRecord`) {
			if s.Fn != m.read || !cfg.Live(s.Block()) {
				continue
			}
			n++
			open := ""
			for b := range cfg.ReachableAvoiding(s.Block(), latch) {
				if ret, ok := b.Instrs[len(b.Instrs)-1].(*ssa.Return); ok && b != s.Block() {
					open = p.InstrPos(ret)
				}
			}
			r.Check(pre+".M3", fmt.Sprintf("Read:appdata-latches#%d", n), open == "", p.InstrPos(s.Instr), "after an application_data record of the client has been read (no error, type 23) every way out of Read has set readPassthrough (a way out that has not: %s)", open)
		}
		r.Check(pre+".M3", "Read:appdata-latches", n >= 1, p.Pos(m.read.Pos()), "Read reads the client's records with readRecord (%d sites)", n)
	}

	// the list the retry is compared with cannot be edited from outside
	connAccessorsCopy(p, r, m, pre+".M5")

	// --- M4: processor under isRetry
	isRetry := boolAssume("isRetry", true, func(e *core.Expr) bool { return e.Val == ssa.Value(m.retryP) }).asContext()
	// on a retry every way out without an error counts as "not aborted", also
	// the (nil, nil) return that means "no ECH, pass through"
	procOK := func(ret *ssa.Return) bool { return lastResultNil(ret) }
	helloExt := func(names ...string) func(*core.Expr) bool {
		return func(e *core.Expr) bool {
			for i := len(names) - 1; i >= 0; i-- {
				if e.Op != "field" || e.Name != names[i] {
					return false
				}
				e = e.Args[0]
			}
			return e.Op == "field" && e.Obj == m.fCH["echExt"] && e.Args[0].Val == ssa.Value(m.helloP)
		}
	}
	storedExt := func(names ...string) func(*core.Expr) bool {
		return func(e *core.Expr) bool {
			for i := len(names) - 1; i >= 0; i-- {
				if e.Op != "field" || e.Name != names[i] {
					return false
				}
				e = e.Args[0]
			}
			return e.Op == "field" && e.Obj == m.fCH["echExt"] && e.Args[0].Op == "field" && e.Args[0].Obj == m.fConn["outer"]
		}
	}
	abortUnder(p, r, pre+".M4", "process:retry-without-ech", m.process, []assumption{isRetry,
		cmpAssume("h.echExt == nil", "==", func(e *core.Expr) bool {
			return e.Op == "field" && e.Obj == m.fCH["echExt"] && e.Args[0].Val == ssa.Value(m.helloP)
		}, isConstName("nil"))}, "ech.ErrMissingExtension", procOK)
	abortUnder(p, r, pre+".M4", "process:retry-config-id", m.process, []assumption{isRetry,
		cmpAssume("c.outer.echExt.ConfigID != h.echExt.ConfigID", "!=", storedExt("ConfigID"), helloExt("ConfigID"))}, "ech.ErrIllegalParameter", procOK)
	// the cipher suite: compared as a whole, or KDF and AEAD each
	whole := false
	for _, b := range m.process.Blocks {
		if iff, ok := b.Instrs[len(b.Instrs)-1].(*ssa.If); ok {
			f := p.FactOf(core.Guard{Cond: iff.Cond, Pol: true, If: iff})
			if f.R != nil && (storedExt("CipherSuite")(f.L) && helloExt("CipherSuite")(f.R) || storedExt("CipherSuite")(f.R) && helloExt("CipherSuite")(f.L)) {
				whole = true
			}
		}
	}
	if whole {
		abortUnder(p, r, pre+".M4", "process:retry-cipher-suite", m.process, []assumption{isRetry,
			cmpAssume("c.outer.echExt.CipherSuite != h.echExt.CipherSuite", "!=", storedExt("CipherSuite"), helloExt("CipherSuite"))}, "ech.ErrIllegalParameter", procOK)
	} else {
		for _, part := range []string{"KDF", "AEAD"} {
			abortUnder(p, r, pre+".M4", "process:retry-cipher-suite-"+part, m.process, []assumption{isRetry,
				cmpAssume("c.outer.echExt.CipherSuite."+part+" != h.echExt.CipherSuite."+part, "!=", storedExt("CipherSuite", part), helloExt("CipherSuite", part))}, "ech.ErrIllegalParameter", procOK)
		}
	}
	abortUnder(p, r, pre+".M4", "process:retry-enc", m.process, []assumption{isRetry,
		cmpAssume("len(h.echExt.Enc) > 0", ">", func(e *core.Expr) bool { return e.Op == "call" && e.Name == "len" && helloExt("Enc")(e.Args[0]) }, isConstName("0"))}, "ech.ErrIllegalParameter", procOK)
	abortUnder(p, r, pre+".M4", "process:retry-open-failed", m.process, []assumption{isRetry,
		cmpAssume("decrypted bytes == nil", "==", func(e *core.Expr) bool {
			a, ok := p.IsCellLoad(e.Val)
			return ok && a == m.innerCell
		}, isConstName("nil"))}, "ech.ErrDecryptError", func(ret *ssa.Return) bool { return !isNilConst(ret.Results[0]) })
	view := assumeParam(m.process, m.retryP, true)
	for i, s := range m.setup {
		r.Check(pre+".M4", fmt.Sprintf("process:no-setup-on-retry#%d", i), !view.Live(s.Block()), p.InstrPos(s.Instr), "no new HPKE context is set up for a retried hello (the stored context, hence the next sequence number, is used)")
	}
	// the stored outer hello that the comparison uses is the first flight's: c.outer is stored only by NewConn
	for i, st := range fieldStores(p, pkg, m.fConn["outer"]) {
		r.Check(pre+".M4", fmt.Sprintf("outer:store#%d", i), core.Root(st.Parent()) == m.newConn, p.InstrPos(st), "c.outer is the first hello (stored by NewConn only)")
	}
	// "at the next sequence number": the shared context advances only on a successful open
	c02HpkeOpen(p, r, pre+".M4.seq")
	r.Floor(pre+".M4", 7)

	// --- M5: handler under isRetry
	hview := assumeParam(m.handle, m.handle.Params[2], true)
	isProc0 := func(e *core.Expr) bool {
		return e.Op == "ext" && e.Name == "#0" && e.Args[0].Op == "call" && e.Args[0].Fn == m.process
	}
	for _, ret := range core.Returns(m.handle) {
		if !lastResultNil(ret) || !hview.Live(ret.Block()) {
			continue
		}
		fs := factsIn(p, hview, ret.Block())
		var nn, ext, sni, alpn bool
		for _, f := range fs {
			if f.Op == "!=" && f.R.Name == "nil" && isProc0(f.L) {
				nn = true
			}
			if f.Op == "!=" && f.R.Name == "nil" && f.L.Op == "field" && f.L.Obj == m.fCH["echExt"] && isProc0(f.L.Args[0]) {
				ext = true
			}
			if f.Op == "==" && f.R != nil {
				for _, pr := range [][2]*core.Expr{{f.L, f.R}, {f.R, f.L}} {
					a, b := pr[0], pr[1]
					if a.Op == "field" && a.Obj == m.fCH["ServerName"] && a.Args[0].Op == "field" && a.Args[0].Obj == m.fConn["inner"] &&
						b.Op == "field" && b.Obj == m.fCH["ServerName"] && isProc0(b.Args[0]) {
						sni = true
					}
				}
			}
			if f.Op == "true" && f.L.Op == "call" && f.L.Name == "slices.Equal" && len(f.L.Args) == 2 {
				for _, pr := range [][2]*core.Expr{{f.L.Args[0], f.L.Args[1]}, {f.L.Args[1], f.L.Args[0]}} {
					a, b := pr[0], pr[1]
					if a.Op == "field" && a.Obj == m.fCH["ALPNProtos"] && a.Args[0].Op == "field" && a.Args[0].Obj == m.fConn["inner"] &&
						b.Op == "field" && b.Obj == m.fCH["ALPNProtos"] && isProc0(b.Args[0]) {
						alpn = true
					}
				}
			}
		}
		r.Check(pre+".M5", "handle:retry-success", nn && ext && sni && alpn, p.InstrPos(ret), "a retried hello is accepted only if it decrypted (inner != nil: %v), carries the inner ECH extension (%v), keeps the first inner server name (%v) and the first inner ALPN list (%v)", nn, ext, sni, alpn)
		// and what it returns as inner is the processor's result
		r.Check(pre+".M5", "handle:retry-returns-inner", len(ret.Results) == 3 && isProc0(p.X(ret.Results[1])), p.InstrPos(ret), "the hello handed back is the reconstructed inner hello of this record")
	}
	hOK := func(ret *ssa.Return) bool { return lastResultNil(ret) }
	hRetry := boolAssume("isRetry", true, func(e *core.Expr) bool { return e.Val == ssa.Value(m.handle.Params[2]) }).asContext()
	abortUnder(p, r, pre+".M5", "handle:retry-not-decrypted", m.handle, []assumption{hRetry, cmpAssume("inner == nil", "==", isProc0, isConstName("nil"))}, "ech.ErrIllegalParameter", hOK)
	abortUnder(p, r, pre+".M5", "handle:retry-sni-changed", m.handle, []assumption{hRetry, cmpAssume("c.inner.ServerName != inner.ServerName", "!=",
		func(e *core.Expr) bool {
			return e.Op == "field" && e.Obj == m.fCH["ServerName"] && e.Args[0].Op == "field" && e.Args[0].Obj == m.fConn["inner"]
		},
		func(e *core.Expr) bool { return e.Op == "field" && e.Obj == m.fCH["ServerName"] && isProc0(e.Args[0]) })}, "ech.ErrIllegalParameter", hOK)
	abortUnder(p, r, pre+".M5", "handle:retry-alpn-changed", m.handle, []assumption{hRetry, boolAssume("slices.Equal(c.inner.ALPNProtos, inner.ALPNProtos)", false,
		func(e *core.Expr) bool { return e.Op == "call" && e.Name == "slices.Equal" })}, "ech.ErrIllegalParameter", hOK)
	// c.inner is the first flight's inner hello
	for i, st := range fieldStores(p, pkg, m.fConn["inner"]) {
		r.Check(pre+".M5", fmt.Sprintf("inner:store#%d", i), core.Root(st.Parent()) == m.newConn, p.InstrPos(st), "c.inner is the first hello's inner (stored by NewConn only)")
	}
	// Read replaces the record by the marshalled inner hello of the retry
	okRepl := false
	for _, st := range fieldStores(p, []*ssa.Function{m.read}, m.fConn["readBuf"]) {
		for _, a := range p.X(st.Val).Alts() {
			if a.Op == "ext" && a.Name == "#0" && a.Args[0].Op == "call" && a.Args[0].Name == "(*ech.clientHello).Marshal" {
				h := a.Args[0].Args[0]
				if h.Op == "ext" && h.Name == "#1" && h.Args[0].Op == "call" && h.Args[0].Fn == m.handle {
					okRepl = true
				}
			}
		}
	}
	r.Check(pre+".M5", "Read:replace-by-inner", okRepl, p.Pos(m.read.Pos()), "the retried record is replaced by Marshal() of the inner hello the handler returned")
	r.Floor(pre+".M5", 7)

	// --- M6
	c04AlertDeliver(p, r, m, pre+".M6")
}

// c06HRR checks IsHelloRetryRequest and the magic value (RFC 8446 4.1.3).
func c06HRR(p *core.Prog, r *core.Run, rule string) {
	fn := p.Func(Ech, "(serverHello).IsHelloRetryRequest")
	if fn == nil {
		r.Undecided(rule, "IsHelloRetryRequest", "-", "method not found")
		return
	}
	ok := false
	for _, ret := range core.Returns(fn) {
		x := p.X(ret.Results[0])
		if x.Op == "call" && x.Name == "bytes.Equal" && len(x.Args) == 2 {
			a, b := x.Args[0], x.Args[1]
			if a.Op == "field" && a.Name == "Random" && b.Op == "global" && b.Name == "ech.helloRetryRequest" || b.Op == "field" && b.Name == "Random" && a.Op == "global" && a.Name == "ech.helloRetryRequest" {
				ok = true
			}
		}
	}
	r.Check(rule, "IsHelloRetryRequest:body", ok, p.Pos(fn.Pos()), "IsHelloRetryRequest compares the ServerHello random with the helloRetryRequest table")
	got := globalBytes(p, Ech, "helloRetryRequest")
	want := "cf21ad74e59a6111be1d8c021e65b891c2a211167abb8c5e079e09e2c8a8339c"
	r.Check(rule, "helloRetryRequest:value", got == want, p.Pos(fn.Pos()), "the table equals the RFC 8446 4.1.3 HelloRetryRequest random (got %s)", got)
}
