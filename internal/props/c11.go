package props

import (
	"fmt"
	"go/token"
	"go/types"
	"strings"

	"verif/third_party/xtools/go/ssa"

	"verif/internal/core"
)

func init() {
	register(&Property{
		ID: "C11",
		Info: core.Info{
			Explanation: "Decides for the ECH config codec (config.go): " +
				"(GRAMMAR) the wire grammars extracted from ConfigSpec.Bytes and parseConfig equal the draft-ietf-tls-esni section 4 ECHConfig grammar, field by field (Version, length-prefixed contents: ID, KEM, PublicKey<2>, cipher suites<2> of (KDF, AEAD), maximum_name_length, PublicName<1>, extensions<2> emitted empty), and ConfigList / ParseConfigList are both a uint16 length-prefixed sequence of configs built with the builder's checked length prefix; " +
				"(MNL) the emitted maximum_name_length is a function of len(PublicName) only and equals min(len+16, 255) for every len in 1..255 (exhaustive evaluation of the extracted expression with uint8 wrapping); " +
				"(CONST) version 0xfe0d on both sides (the parser refuses anything else with decode_error); NewConfig uses KEM 0x0020, KDF 1, AEADs {3,2,1} and the X25519 public key of the key it returns; " +
				"(GUARD) both builders refuse public names of length 0 or above 255; " +
				"(SAFE) cryptobyte discipline for parseConfig and ParseConfigList (every read tested, failure returns ErrDecodeError), every index/slice site in the config functions proven in range (there are no raw indexes on input bytes), and the list parser's loop consumes input on every iteration. " +
				"Not decided: acceptance by crypto/tls (needs running it).",
		},
		Rules: c11Rules,
	})
}

const echConfigContents = "u8:ConfigSpec.ID u16:ConfigSpec.KEM p16{ bytes:ConfigSpec.PublicKey } p16{ loop{ u16:CipherSuite.KDF u16:CipherSuite.AEAD } }"

func c11Rules(p *core.Prog, r *core.Run) {
	bytesFn := p.Func(Ech, "(ConfigSpec).Bytes")
	parse := p.Func(Ech, "parseConfig")
	list := p.Func(Ech, "ConfigList")
	plist := p.Func(Ech, "ParseConfigList")
	newc := p.Func(Ech, "NewConfig")
	spec := p.Func(Ech, "(Config).Spec")
	if bytesFn == nil || parse == nil || list == nil || plist == nil || newc == nil || spec == nil {
		r.Undecided("C11.GRAMMAR", "config", "-", "config codec functions not found")
		return
	}
	fns := []*ssa.Function{bytesFn, parse, list, plist, newc, spec}
	var all []*ssa.Function
	for _, f := range fns {
		all = append(all, core.Closures(f)...)
	}
	r.Analysed(funcNames(p, all)...)

	// --- GRAMMAR
	newBuilder := func(fn *ssa.Function) ssa.Value { return builderRoot(p, fn) }
	bt := normTokens(builderTokens(p, bytesFn, newBuilder(bytesFn), nil, 0))
	// maximum_name_length: the one token that is computed
	mnlRe := "u8:"
	want := "u16:ConfigSpec.Version p16{ " + echConfigContents + " " + mnlRe
	okB := strings.HasPrefix(bt, want) && strings.HasSuffix(bt, " p8{ bytes:ConfigSpec.PublicName } u16:=0 }")
	r.Check("C11.GRAMMAR", "Bytes:grammar", okB, p.Pos(bytesFn.Pos()), "ConfigSpec.Bytes emits: %s (ECHConfig: version, uint16-prefixed contents, ..., maximum_name_length, public_name<1..255>, empty extensions<0..2^16-1>)", bt)
	pt := normTokens(parserTokens(p, parse, parse.Params[0]))
	wantP := "u16:ConfigSpec.Version p16{ " + echConfigContents + " u8:ConfigSpec.MaximumNameLength p8{ bytes:ConfigSpec.PublicName } }"
	r.Check("C11.GRAMMAR", "parseConfig:grammar", pt == wantP, p.Pos(parse.Pos()), "parseConfig reads: %s (expected %s); the extensions that follow inside the length-prefixed contents are skipped with them", pt, wantP)
	lt := normTokens(builderTokens(p, list, newBuilder(list), nil, 0))
	okL := strings.HasPrefix(lt, "p16{ loop{ bytes:") && strings.HasSuffix(lt, "} }") && strings.Count(lt, "bytes:") == 1 && !strings.Contains(lt, "u16:")
	// (slices.Concat(configs...) is the configs one after the other, as given)
	concat := lt == "p16{ bytes:Concat($p0) }"
	okL = okL || concat
	// each config goes in as it was given: the element of the argument itself,
	// not a part of it and not a re-encoding
	r.Check("C11.GRAMMAR", "ConfigList:element-as-given", lt == "p16{ loop{ bytes:$p0[] } }" || concat, p.Pos(list.Pos()), "the list's entries are the caller's configs themselves: %s", lt)
	r.Check("C11.GRAMMAR", "ConfigList:grammar", okL, p.Pos(list.Pos()), "ConfigList emits ECHConfig<..2^16-1> as a builder length-prefixed block (overflow is an error, not a wrapped length): %s", lt)
	// what the encoders return is what their builder holds: no way out hands
	// back something else (nothing, for an empty list, say) as a success
	for _, fn := range []*ssa.Function{list, bytesFn} {
		returnsEncoding(p, r, "C11.GRAMMAR", fn)
	}
	// parser of the list
	var root ssa.Value
	var first token.Pos
	for _, s := range callSites(p, []*ssa.Function{plist}, `\(\*cryptobyte\.String\)\.Read.*`) {
		if !first.IsValid() || s.Instr.Pos() < first {
			first, root = s.Instr.Pos(), cursorOf(p, s.Instr.Common().Args[0])
		}
	}
	plt := normTokens(parserTokens(p, plist, root))
	r.Check("C11.GRAMMAR", "ParseConfigList:grammar", plt == "p16{ loop{ call:parseConfig(_) } }", p.Pos(plist.Pos()), "ParseConfigList reads: %s (a uint16-prefixed sequence of configs, each parsed by parseConfig on the child cursor)", plt)
	// a list (and a config) is only returned after its length-prefixed frame was
	// read: empty or truncated input is an error, not an empty list
	for _, fn := range []*ssa.Function{plist, parse} {
		for i, ret := range core.Returns(fn) {
			if !lastResultNil(ret) {
				continue
			}
			framed := false
			for _, f := range p.Facts(ret.Block()) {
				if f.Op == "true" && f.L != nil && f.L.Op == "call" && strings.Contains(f.L.Name, "cryptobyte.String).ReadUint16LengthPrefixed") {
					framed = true
				}
			}
			r.Check("C11.GRAMMAR", fmt.Sprintf("%s:framed#%d", p.FuncName(fn), i), framed, p.InstrPos(ret), "a successful return of %s lies behind a successful read of the uint16-prefixed frame (%v)", p.FuncName(fn), framed)
		}
	}
	r.Tables["config_tokens"] = map[string]string{"Bytes": bt, "parseConfig": pt, "ConfigList": lt, "ParseConfigList": plt}
	// the cipher-suite vector is read to its end
	vectorLoopsRunDry(p, r, parse, "C11.SAFE.loops")
	vectorLoopsRunDry(p, r, plist, "C11.SAFE.loops")
	// every parsed config starts from the zero ConfigSpec: the struct the parser
	// appends cipher suites to is allocated per parse (inside parseConfig, or by the
	// caller in the same loop iteration as the call), never carried over from the
	// previous config of a list
	nAcc := 0
	accSeen := map[*ssa.Call]bool{}
	for _, b := range parse.Blocks {
		for _, in := range b.Instrs {
			st, ok := in.(*ssa.Store)
			if !ok {
				continue
			}
			fa, ok := st.Addr.(*ssa.FieldAddr)
			if !ok {
				continue
			}
			// a list field of the result starts empty and owns its storage: what
			// is put there is nil or an append onto the field itself, never a
			// slice handed in from outside (one array behind every config of a list)
			if _, isSlice := fieldVar(fa).Type().Underlying().(*types.Slice); isSlice && fieldVar(fa).Name() == "CipherSuites" {
				v := p.X(st.Val)
				selfAppend := v.Op == "call" && v.Name == "append" && len(v.Args) >= 1 && v.Args[0].Op == "field" && v.Args[0].Obj == fieldVar(fa)
				okInit := isNilConst(st.Val) || selfAppend || v.Op == "new" && v.Name != ""
				// (a local list grown from nothing and handed over when complete)
				localAcc := false
				if v.Op == "phi" || v.Op == "cell" {
					localAcc = true
					var expand func(e *core.Expr, depth int)
					expand = func(e *core.Expr, depth int) {
						if e == nil || depth > 8 {
							localAcc = false
							return
						}
						switch {
						case e.Op == "phi" || e.Op == "cell":
							for _, a := range e.Args {
								expand(a, depth+1)
							}
						case e.Op == "call" && e.Name == "append" && len(e.Args) > 0:
							expand(e.Args[0], depth+1)
						case e.Op == "const" || e.Op == "rec":
						default:
							localAcc = false
						}
					}
					expand(v, 0)
					okInit = okInit || localAcc
				}
				if !selfAppend && v.Any(func(e *core.Expr) bool { return e.Op == "param" && e.Name != "p0" }) {
					okInit = false
				}
				r.Check("C11.SAFE.fresh", "parseConfig:suites-storage@"+p.InstrPos(st), okInit, p.InstrPos(st), "the cipher-suite list of a parsed config is nil or grown from itself, not backed by storage supplied from outside: %s", short(v))
				// every suite read is listed, as read: between the top of the
				// suite loop and the append nothing decides but the reads themselves
				// (a skipped suite changes which suites the server accepts, and a
				// skip between the two halves of a suite misaligns the rest)
				if selfAppend {
					var hdr *ssa.BasicBlock
					for h, body := range core.Loops(st.Parent()) {
						if body[st.Block()] && (hdr == nil || core.Loops(st.Parent())[hdr][h]) {
							hdr = h
						}
					}
					extra := ""
					if hdr != nil {
						base := map[string]bool{}
						for _, f := range p.Facts(hdr) {
							base[f.String()] = true
						}
						for _, f := range p.EdgeFacts(hdr, hdr.Succs[0]) {
							base[f.String()] = true
						}
						for _, f := range p.Facts(st.Block()) {
							if base[f.String()] || (f.Op == "true" && f.L != nil && f.L.Op == "call" && strings.Contains(f.L.Name, "cryptobyte.String).Read")) {
								continue
							}
							// (the loop's own "cursor not empty")
							if f.Op == "false" && f.L != nil && f.L.Op == "call" && strings.HasSuffix(f.L.Name, "cryptobyte.String).Empty") {
								continue
							}
							extra = f.String()
						}
					}
					r.Check("C11.GRAMMAR", "parseConfig:every-suite@"+p.FuncName(st.Parent()), hdr != nil && extra == "", p.InstrPos(st), "every cipher suite read is appended (a condition that stands between: %s)", extra)
				}
			}
			c, ok := st.Val.(*ssa.Call)
			if !ok {
				// the list may be grown in a local variable first
				if ph, isPhi := st.Val.(*ssa.Phi); isPhi && fieldVar(fa) != nil && fieldVar(fa).Name() == "CipherSuites" {
					for _, e := range ph.Edges {
						if ec, isCall := e.(*ssa.Call); isCall {
							if bi, isB := ec.Call.Value.(*ssa.Builtin); isB && bi.Name() == "append" {
								c, ok = ec, true
							}
						}
					}
				}
				if !ok {
					continue
				}
			}
			if bi, ok := c.Call.Value.(*ssa.Builtin); !ok || bi.Name() != "append" {
				continue
			}
			if accSeen[c] {
				continue // the same list handed over on another way out
			}
			accSeen[c] = true
			nAcc++
			fresh, why := false, ""
			switch base := fa.X.(type) {
			case *ssa.Alloc:
				fresh = innermostLoop(parse, base.Block()) == nil
				why = "allocated in parseConfig"
			case *ssa.Parameter:
				fresh = true
				why = "supplied by the caller:"
				idx := -1
				for i, pa := range parse.Params {
					if pa == base {
						idx = i
					}
				}
				for _, cs := range allCalls(p, p.PkgFuncs(Ech)) {
					if !sameFn(cs.X.Fn, parse) || idx < 0 {
						continue
					}
					arg := cs.Instr.Common().Args[idx]
					al, isAl := arg.(*ssa.Alloc)
					okSite := isAl && innermostLoop(cs.Fn, al.Block()) == innermostLoop(cs.Fn, cs.Instr.Block())
					why += fmt.Sprintf(" %s fresh=%v", p.InstrPos(cs.Instr), okSite)
					if !okSite {
						fresh = false
					}
				}
			default:
				why = "cannot tell where " + short(p.X(fa.X)) + " comes from"
			}
			r.Check("C11.GRAMMAR", "parseConfig:fresh-spec", fresh, p.InstrPos(st), "the list parseConfig appends to (%s) belongs to a ConfigSpec that starts out zero for every config parsed (%s)", short(p.X(fa)), why)
		}
	}
	r.Check("C11.GRAMMAR", "parseConfig:accumulators", nAcc == 1, p.Pos(parse.Pos()), "parseConfig accumulates into one list (found %d)", nAcc)
	// Spec() = parseConfig on the config's own bytes
	okSpec := false
	for _, s := range allCalls(p, []*ssa.Function{spec}) {
		if s.X.Fn == parse {
			okSpec = true
		}
	}
	r.Check("C11.GRAMMAR", "Spec:uses-parseConfig", okSpec, p.Pos(spec.Pos()), "Config.Spec parses with parseConfig")

	// --- MNL
	for _, fn := range []*ssa.Function{bytesFn, newc} {
		var e *core.Expr
		where := ""
		if fn == bytesFn {
			for _, s := range callSites(p, core.Closures(fn), `\(\*cryptobyte\.Builder\)\.AddUint8`) {
				if s.X.Args[1].Op != "field" && s.X.Args[1].Op != "const" {
					e, where = s.X.Args[1], p.InstrPos(s.Instr)
				}
			}
		} else {
			for _, b := range fn.Blocks {
				for _, in := range b.Instrs {
					if st, ok := in.(*ssa.Store); ok {
						if a := p.X(st.Addr); a.Op == "field" && a.Name == "MaximumNameLength" {
							e, where = p.X(st.Val), p.InstrPos(st)
						}
					}
				}
			}
		}
		key := p.FuncName(fn) + ":maximum_name_length"
		if e == nil {
			r.Check("C11.MNL", key, false, p.Pos(fn.Pos()), "no computed maximum_name_length found")
			continue
		}
		// depends on len(public name) only
		onlyLen := true
		for _, l := range e.Leaves() {
			if l.Op == "const" {
				continue
			}
			onlyLen = false
		}
		var lenNode string
		e.Walk(func(x *core.Expr) bool {
			if x.Op == "call" && x.Name == "len" {
				b := bindOf(p, x.Args[0])
				if strings.HasSuffix(b, "PublicName") || strings.HasPrefix(b, "$p") {
					lenNode = x.String()
					return false
				}
			}
			return true
		})
		bad := ""
		nOK := 0
		for l := int64(1); l <= 255 && lenNode != ""; l++ {
			v, ok := evalInt(p, e, func(x *core.Expr) (int64, bool) {
				if x.String() == lenNode {
					return l, true
				}
				return 0, false
			})
			w := l + 16
			if w > 255 {
				w = 255
			}
			if !ok {
				bad = "expression cannot be evaluated"
				break
			}
			if v != w {
				bad = fmt.Sprintf("len=%d gives %d, want %d", l, v, w)
				break
			}
			nOK++
		}
		_ = onlyLen
		r.Check("C11.MNL", key, lenNode != "" && bad == "", where, "maximum_name_length = %s equals min(len(public_name)+16, 255) for all %d lengths 1..255 %s", short(e), nOK, bad)
	}

	// --- CONST
	abortUnder(p, r, "C11.CONST", "parseConfig:version", parse, []assumption{cmpAssume("version != 0xfe0d", "!=", func(e *core.Expr) bool { return e.Op == "field" && e.Name == "Version" }, isConstName("65037"))}, "ech.ErrDecodeError", lastResultNil)
	consts := map[string]string{}
	var aeads []string
	for _, b := range newc.Blocks {
		for _, in := range b.Instrs {
			st, ok := in.(*ssa.Store)
			if !ok {
				continue
			}
			a := p.X(st.Addr)
			if a.Op != "field" {
				continue
			}
			v := p.X(st.Val)
			switch a.Name {
			case "Version", "KEM":
				consts[a.Name] = v.Name
			case "KDF":
				for _, a := range v.Alts() {
					consts["KDF:"+a.Name] = "1"
				}
			case "AEAD":
				for _, a := range v.Alts() {
					aeads = append(aeads, a.Name)
				}
			case "PublicKey":
				consts["PublicKey"] = v.String()
			}
		}
	}
	okC := consts["Version"] == "65037" && consts["KEM"] == "32" && consts["KDF:1"] == "1" && len(consts) == 4+0 && strings.Join(aeads, ",") == "3,2,1" && strings.Contains(consts["PublicKey"], "PublicKey") && strings.Contains(consts["PublicKey"], "X25519")
	r.Check("C11.CONST", "NewConfig:constants", okC, p.Pos(newc.Pos()), "NewConfig: version %s, KEM %s, KDF only 1 (%v), AEADs %v, public key %s", consts["Version"], consts["KEM"], consts["KDF:1"] == "1", aeads, shortStr(consts["PublicKey"]))

	// --- GUARD
	for _, fn := range []*ssa.Function{bytesFn, newc} {
		isLen := func(e *core.Expr) bool {
			if e.Op != "call" || e.Name != "len" {
				return false
			}
			b := bindOf(p, e.Args[0])
			return strings.HasSuffix(b, "PublicName") || strings.HasPrefix(b, "$p")
		}
		for _, a := range []assumption{cmpAssume("len(public_name) == 0", "==", isLen, isConstName("0")), cmpAssume("len(public_name) > 255", ">", isLen, isConstName("255"))} {
			cfg, hits := pruneBy(p, fn, []assumption{a})
			ok := len(hits[a.name]) > 0
			for _, ret := range core.Returns(fn) {
				if cfg.Live(ret.Block()) && lastResultNil(ret) {
					ok = false
				}
			}
			r.Check("C11.GUARD", p.FuncName(fn)+":"+a.name, ok, p.Pos(fn.Pos()), "%s returns an error when %s", p.FuncName(fn), a.name)
		}
	}

	// --- SAFE
	c04ParserDiscipline(p, r, "C11.SAFE.reads", []*ssa.Function{parse, plist}, map[string]bool{"ech.ErrDecodeError": true})
	r.Floors["C11.SAFE.reads"] = 10
	indexSafetyWith(p, r, "C11.SAFE.index", all, 0, nil)
	loopRules(p, r, "C11.SAFE.loops", all, nil)
	c11SpecViews(p, r, "C11.VIEWS")
	// the list loop consumes: parseConfig reads at least the version on success
	r.Check("C11.SAFE.loops", "parseConfig:consumes", consumesOnSuccess(p, parse), p.Pos(parse.Pos()), "every successful parseConfig has performed a successful fixed-size read, so the list loop makes progress")
}

// c11SpecViews: what Config.Spec hands out (PublicName, PublicKey) are views
// into the Config's own bytes, with the rest of the Config behind them as
// spare capacity. Nothing in the package may work in place on such a view, or
// append to it without limiting its capacity: that would rewrite the caller's
// Config, which would then no longer be the structure NewConfig produced.
func c11SpecViews(p *core.Prog, r *core.Run, rule string) {
	isSpec := func(e *core.Expr) bool {
		return e.Op == "call" && (strings.HasSuffix(e.Name, ").Spec") || strings.HasSuffix(e.Name, ".parseConfig"))
	}
	var view func(e *core.Expr, depth int) bool
	view = func(e *core.Expr, depth int) bool {
		if e == nil || depth > 12 {
			return false
		}
		switch e.Op {
		case "field":
			return e.Args[0].Any(isSpec)
		case "slice", "conv":
			return view(e.Args[0], depth+1)
		case "phi", "cell":
			for _, a := range e.Args {
				if view(a, depth+1) {
					return true
				}
			}
		case "call":
			if e.Name == "append" && len(e.Args) > 0 {
				return view(e.Args[0], depth+1)
			}
		}
		return false
	}
	fns := p.PkgFuncs(Ech)
	nBad, nViews := 0, 0
	specPos := ""
	if f := p.Func(Ech, "(Config).Spec"); f != nil {
		specPos = p.Pos(f.Pos())
	}
	for _, s := range allCalls(p, fns) {
		if len(s.X.Args) == 0 {
			continue
		}
		for _, a := range s.X.Args {
			if view(a, 0) {
				nViews++
				break
			}
		}
		if !matches(`append|sort\.(Slice|SliceStable|Sort|Stable)|slices\.(Sort.*|Reverse|DeleteFunc|Delete|Compact.*|Insert|Replace|Grow)|copy|clear`, s.X.Name) || !view(s.X.Args[0], 0) {
			continue
		}
		if s.X.Name == "append" {
			if sl, ok := s.Instr.Common().Args[0].(*ssa.Slice); ok && sl.Max != nil {
				continue
			}
		}
		nBad++
		r.Check(rule, fmt.Sprintf("spec-view:in-place#%d", nBad), false, p.InstrPos(s.Instr), "%s works in place on a view Config.Spec handed out (%s): it writes into the caller's Config", s.X.Name, short(s.X.Args[0]))
	}
	for _, fn := range fns {
		for _, b := range fn.Blocks {
			for _, in := range b.Instrs {
				st, ok := in.(*ssa.Store)
				if !ok {
					continue
				}
				if ia, ok := st.Addr.(*ssa.IndexAddr); ok && view(p.X(ia.X), 0) {
					nBad++
					r.Check(rule, fmt.Sprintf("spec-view:in-place#%d", nBad), false, p.InstrPos(st), "element store into a view Config.Spec handed out (%s): it writes into the caller's Config", short(p.X(ia.X)))
				}
			}
		}
	}
	r.Check(rule, "spec-view:read-only", nBad == 0 && nViews >= 1, specPos, "no in-place operation on the byte views of a parsed Config (%d found; %d uses of such views examined)", nBad, nViews)
}

// returnsEncoding: an encoder hands back exactly what its builder produced,
// or an error; nothing reworks the bytes between the builder and the caller.
func returnsEncoding(p *core.Prog, r *core.Run, rule string, fn *ssa.Function) {
	for i, ret := range core.Returns(fn) {
		if len(ret.Results) != 2 {
			continue
		}
		v := p.X(ret.Results[0])
		fromBuilder := v.Op == "ext" && v.Name == "#0" && v.Args[0].Op == "call" && v.Args[0].Name == "(*cryptobyte.Builder).Bytes"
		failed := !lastResultNil(ret)
		if ee := p.X(retErr(ret)); failed && ee.Op == "ext" {
			// the builder's own error, handed on: only when it was seen to be non-nil
			failed = false
			for _, f := range p.Facts(ret.Block()) {
				if f.Op == "!=" && f.R != nil && f.R.Name == "nil" && f.L.String() == ee.String() {
					failed = true
				}
			}
		}
		r.Check(rule, fmt.Sprintf("%s:returns-encoding#%d", p.FuncName(fn), i), fromBuilder || failed, p.InstrPos(ret), "%s returns its builder's bytes, or an error: %s", p.FuncName(fn), short(v))
	}
}
