package props

import (
	"fmt"
	"go/token"
	"go/types"
	"sort"
	"strings"

	"verif/third_party/xtools/go/ssa"

	"verif/internal/core"
)

func init() {
	register(&Property{
		ID: "C04",
		Info: core.Info{
			Explanation: "Decides, one obligation per rule of the statement, that the guard exists and blocks forwarding with the mandated error class, and that the error class reaches the client as the RFC 8446 alert: " +
				"(G1,G2,G5,G6) under the offending condition no successful return of the handler/processor is reachable in the control-flow graph with the contradicting branch edges removed, and the returns it leads to carry exactly the sentinel; " +
				"(G3,G8,G10,G11) per-iteration conditions: the edge on which the condition holds leads only to returns carrying the sentinel, never back into the loop; " +
				"(G4) the decrypted bytes are recorded only under string(cfg.PublicName) == h.ServerName and the opposite edge returns illegal_parameter, for first and retried hellos alike; " +
				"(G7) the bytes tested for zero are the remainder of the ClientHello body cursor after the extensions block, each byte is tested (per-byte compare or OR-fold; other folds are not accepted) and a non-zero byte returns illegal_parameter; " +
				"(G9) a second ech_outer_extensions marker aborts: the flag tested is set on the marker path; (G11 with S2 of C03) references are resolved by a forward-only cursor that is advanced past each match; " +
				"(G12) every cryptobyte read in the hello parsers and the reference list is tested and its failing edge returns decode_error (or illegal_parameter); " +
				"(ALERT.map) convertErrorsToAlerts maps each sentinel to the RFC 8446 alert number at level fatal, default handshake_failure, exhaustively over the sentinels that can be returned; sendAlert writes 15 03 03 00 02 level desc and closes on fatal; " +
				"(ALERT.deliver) NewConn hands the value of its error result at return time (not at defer time) to convertErrorsToAlerts on every return, and Read does so for the retried hello. " +
				"Not decided: the bytes a client observes on a real socket, multi-fault interactions beyond first-guard-wins.",
			Assumptions: []string{"errors.Is follows %w wrapping (fmt.Errorf contract)"},
		},
		Rules: c04Rules,
	})
}

var alertTable = map[string]int64{ // RFC 8446 section 6
	"ech.ErrUnexpectedMessage": 10,
	"ech.ErrIllegalParameter":  47,
	"ech.ErrDecodeError":       50,
	"ech.ErrDecryptError":      51,
	"ech.ErrMissingExtension":  109,
}

func c04Rules(p *core.Prog, r *core.Run) {
	m := newEchModel(p)
	if !m.ok(r, "C04.model") {
		return
	}
	r.Analysed(p.FuncName(m.handle), p.FuncName(m.process), p.FuncName(m.parseCH), p.FuncName(m.parseExt), p.FuncName(m.newConn), p.FuncName(m.read))
	const IP, DE = "ech.ErrIllegalParameter", "ech.ErrDecodeError"

	// the checks of 7.1.1 apply to the second hello only if retry mode is
	// entered for it: the mode rules of C06 (counter set before the
	// HelloRetryRequest goes out, read after the record came in, ...)
	c06State(p, r, m, "C04.hrr")
	// an aborted second hello is not delivered later either
	// vectors in the hello are read to their end (a truncated last item is a
	// decode error, not something to drop)
	for _, fn := range []*ssa.Function{m.parseCH, m.parseExt, m.process} {
		if fn != nil {
			vectorLoopsRunDry(p, r, fn, "C04.G7.vectors")
		}
	}
	refusedNotBuffered(p, r, m, "C04.hrr.abort")
	directionOwnership(p, r, m, "C04.hrr.alert")

	// the outer hello in handle = result 0 of parseClientHello(record[5:])
	isOuter := func(e *core.Expr) bool {
		return e.Op == "ext" && e.Name == "#0" && e.Args[0].Op == "call" && e.Args[0].Fn == m.parseCH
	}
	fieldOf := func(base func(*core.Expr) bool, names ...string) func(*core.Expr) bool {
		return func(e *core.Expr) bool {
			for i := len(names) - 1; i >= 0; i-- {
				if e.Op != "field" || e.Name != names[i] {
					return false
				}
				e = e.Args[0]
			}
			return base(e)
		}
	}
	handleOK := func(ret *ssa.Return) bool { return lastResultNil(ret) }

	// G1: outer hello carries ech_outer_extensions
	abortUnder(p, r, "C04.G1", "handle:outer-has-ech_outer_extensions", m.handle,
		[]assumption{boolAssume("outer.hasECHOuterExtensions", true, fieldOf(isOuter, "hasECHOuterExtensions"))}, IP, handleOK)
	// the flag is set exactly for extension type 0xfd00
	flagStores := fieldStores(p, []*ssa.Function{m.parseExt}, m.fCH["hasECHOuterExtensions"])
	nTrue := 0
	for _, st := range flagStores {
		if c, ok := st.Val.(*ssa.Const); ok && c.Value != nil && c.Value.ExactString() == "true" {
			nTrue++
			okT := false
			for _, f := range p.Facts(st.Block()) {
				if f.Op == "==" && f.R.Name == "64768" && f.L.Op == "field" && f.L.Name == "Type" {
					okT = true
				}
			}
			r.Check("C04.G1", "parseExtensions:flag-0xfd00", okT, p.InstrPos(st), "hasECHOuterExtensions is set under extension type == 0xfd00")
		}
	}
	r.Check("C04.G1", "parseExtensions:flag-set", nTrue == 1, p.Pos(m.parseExt.Pos()), "exactly one place sets hasECHOuterExtensions (found %d)", nTrue)

	// G2: keys and ECH type inner
	abortUnder(p, r, "C04.G2", "handle:keys-and-type-inner", m.handle, []assumption{
		cmpAssume("len(c.keys) > 0", ">", func(e *core.Expr) bool {
			return e.Op == "call" && e.Name == "len" && e.Args[0].Op == "field" && e.Args[0].Obj == m.fConn["keys"]
		}, isConstName("0")),
		cmpAssume("outer.echExt != nil", "!=", fieldOf(isOuter, "echExt"), isConstName("nil")),
		cmpAssume("outer.echExt.Type == 1", "==", fieldOf(isOuter, "echExt", "Type"), isConstName("1")),
	}, IP, handleOK)

	// G3: unknown ECH type, in the extension parser
	immediateAbort(p, r, "C04.G3", "parseExtensions:ech-type>1", m.parseExt,
		cmpAssume("echExt.Type > 1", ">", func(e *core.Expr) bool { return e.Op == "field" && e.Obj == m.fExt["Type"] }, isConstName("1")), IP,
		func(ret *ssa.Return) bool { return lastResultNil(ret) })

	// G4: public name
	for i, st := range m.accept {
		ok := false
		for _, f := range p.Facts(st.Block()) {
			if f.Op == "==" && ((f.L.Op == "conv" && isCfgField(f.L.Args[0], "PublicName") && f.R.Op == "field" && f.R.Obj == m.fCH["ServerName"]) ||
				(f.R.Op == "conv" && isCfgField(f.R.Args[0], "PublicName") && f.L.Op == "field" && f.L.Obj == m.fCH["ServerName"])) {
				ok = true
			}
		}
		r.Check("C04.G4", fmtKey("process:accept#%d", i), ok, p.InstrPos(st), "the decrypted bytes are recorded only when the outer SNI equals the config's public name (on every path, first hello and retry)")
	}
	immediateAbort(p, r, "C04.G4", "process:public-name-mismatch", m.process,
		cmpAssume("string(cfg.PublicName) != h.ServerName", "!=", func(e *core.Expr) bool { return e.Op == "conv" && isCfgField(e.Args[0], "PublicName") },
			func(e *core.Expr) bool { return e.Op == "field" && e.Obj == m.fCH["ServerName"] }), IP,
		func(ret *ssa.Return) bool { return !isNilConst(ret.Results[0]) })

	// the inner hello in process = result 0 of parseClientHello(builder bytes)
	isInner := func(e *core.Expr) bool {
		return e.Op == "ext" && e.Name == "#0" && e.Args[0].Op == "call" && e.Args[0].Fn == m.parseCH
	}
	procOK := func(ret *ssa.Return) bool { return !isNilConst(ret.Results[0]) }
	// G5: inner lacks type-1 ECH
	abortUnder(p, r, "C04.G5", "process:inner-without-ech", m.process,
		[]assumption{cmpAssume("inner.echExt == nil", "==", fieldOf(isInner, "echExt"), isConstName("nil"))}, IP, procOK)
	abortUnder(p, r, "C04.G5", "process:inner-ech-type", m.process,
		[]assumption{cmpAssume("inner.echExt.Type != 1", "!=", fieldOf(isInner, "echExt", "Type"), isConstName("1"))}, IP, procOK)
	// G6: inner without TLS 1.3
	abortUnder(p, r, "C04.G6", "process:inner-without-tls13", m.process,
		[]assumption{boolAssume("inner.tls13", false, fieldOf(isInner, "tls13"))}, IP, procOK)
	// the tls13 test must come after the re-parse of the spliced extensions
	c04AfterReparse(p, r, m)
	// ... and means what it says: set for a supported_versions entry >= 0x0304 only
	c05SniAlpn(p, r, m, "C04.G6.parse")
	// "sent to a server that has keys": the keys are all the keys it was given
	c09Keys(p, r, m, "C04.keys")

	// G7: padding
	c04Padding(p, r, m)

	// G8-G11: reference list
	c04References(p, r, m, "C04.")

	// G12: parser discipline
	c04ParserDiscipline(p, r, "C04.G12", []*ssa.Function{m.parseCH, m.parseExt, m.process}, map[string]bool{DE: true, IP: true})

	// every loop that reads from a cursor runs until that cursor is empty and
	// consumes on every iteration: no trailing byte of a vector is ignored
	for _, fn := range []*ssa.Function{m.parseCH, m.parseExt, m.process} {
		loops := core.Loops(fn)
		for _, lc := range classifyLoops(p, fn) {
			reads := false
			for b := range loops[lc.Header] {
				for _, in := range b.Instrs {
					if c, ok := in.(*ssa.Call); ok && matches(`\(\*cryptobyte\.String\)\.Read.*`, p.X(c).Name) {
						// reads of an inner loop belong to that loop
						inner := false
						for h2, body2 := range loops {
							if h2 != lc.Header && loops[lc.Header][h2] && body2[b] {
								inner = true
							}
						}
						// a cursor created afresh inside the loop body is not what the loop iterates over
						fresh := false
						if cell := p.CellRoot(c.Call.Args[0]); cell != nil {
							st, calls := p.CellDefs(cell)
							for _, d := range st {
								if loops[lc.Header][d.Block()] {
									fresh = true
								}
							}
							for _, d := range calls {
								if loops[lc.Header][d.Block()] && d != ssa.CallInstruction(c) {
									for i, a := range d.Common().Args {
										if i >= 1 && p.CellRoot(a) == cell {
											fresh = true
										}
									}
								}
							}
						}
						if !inner && !fresh {
							reads = true
						}
					}
				}
			}
			if !reads {
				continue
			}
			r.Check("C04.G12", fmt.Sprintf("%s:vector-loop@b%d", p.FuncName(fn), lc.Header.Index), lc.Kind == "cursor", p.InstrPos(lc.Header.Instrs[len(lc.Header.Instrs)-1]), "a vector is parsed until its cursor is empty, each element read being checked (so a truncated or dangling element is a decode error, not silently ignored): %s", map[bool]string{true: lc.Why, false: "loop is not of that form - " + lc.Why}[lc.Kind == "cursor"])
		}
	}

	// ALERT.map
	c04AlertMap(p, r, m, "C04.ALERT.map")

	// ALERT.deliver
	c04AlertDeliver(p, r, m, "C04.ALERT.deliver")
}

func c04AfterReparse(p *core.Prog, r *core.Run, m *echModel) {
	re := callSites(p, []*ssa.Function{m.process}, `\(\*ech\.clientHello\)\.parseExtensions`)
	r.Check("C04.G6", "process:reparse", len(re) == 1, p.Pos(m.process.Pos()), "the processor re-parses the spliced extension list exactly once (found %d)", len(re))
	if len(re) != 1 {
		return
	}
	for _, b := range m.process.Blocks {
		if len(b.Instrs) == 0 {
			continue
		}
		iff, ok := b.Instrs[len(b.Instrs)-1].(*ssa.If)
		if !ok {
			continue
		}
		x := p.X(iff.Cond)
		if x.Op == "field" && x.Obj == m.fCH["tls13"] && x.Args[0].Op == "ext" && x.Args[0].Args[0].Fn == m.parseCH {
			load, _ := iff.Cond.(ssa.Instruction)
			r.Check("C04.G6", "process:tls13-after-reparse", load != nil && core.Before(re[0].Instr, load), p.InstrPos(iff), "inner.tls13 is read after the re-parse (it reflects the spliced extension list)")
		}
	}
}

// c04Padding checks rule G7 in parseClientHello.
func c04Padding(p *core.Prog, r *core.Run, m *echModel) {
	fn := m.parseCH
	// the body cursor: receiver cell of the ReadBytes(&hello.Random, 32) call
	var body *ssa.Alloc
	var bodyReads []site
	for _, s := range callSites(p, []*ssa.Function{fn}, `\(\*cryptobyte\.String\)\.(Read.*|Skip)`) {
		if s.X.Name == "(*cryptobyte.String).ReadBytes" {
			if a := p.CellRoot(s.Instr.Common().Args[0]); a != nil {
				body = a
			}
		}
	}
	if body == nil {
		r.Undecided("C04.G7", "parseClientHello:body-cursor", p.Pos(fn.Pos()), "cannot identify the ClientHello body cursor (receiver of the 32-byte random read)")
		return
	}
	for _, s := range callSites(p, []*ssa.Function{fn}, `\(\*cryptobyte\.String\)\.(Read.*|Skip)`) {
		if p.CellRoot(s.Instr.Common().Args[0]) == body {
			bodyReads = append(bodyReads, s)
		}
	}
	// the body cursor holds the 24-bit length-prefixed handshake body
	st, bodyCalls := p.CellDefs(body)
	fromBody := false
	// (the cursor is itself the target of the uint24 length-prefixed read ...
	for _, c := range bodyCalls {
		if callX(p, c).Name == "(*cryptobyte.String).ReadUint24LengthPrefixed" && len(c.Common().Args) == 2 && p.CellRoot(c.Common().Args[1]) == body {
			fromBody = true
		}
	}
	// ... or is re-pointed to that target)
	for _, s := range st {
		if a, ok := p.IsCellLoad(s.Val); ok {
			_, calls := p.CellDefs(a)
			for _, c := range calls {
				if callX(p, c).Name == "(*cryptobyte.String).ReadUint24LengthPrefixed" {
					fromBody = true
				}
			}
		}
	}
	r.Check("C04.G7", "parseClientHello:body-cursor", fromBody && len(bodyReads) >= 6, p.Pos(fn.Pos()), "body cursor = contents of the uint24 length-prefixed handshake message (%v), %d reads on it (version, random, session id, suites, compression, extensions)", fromBody, len(bodyReads))

	// returns with illegal_parameter guarded by a byte test on the cursor remainder
	found := 0
	for _, ret := range core.Returns(fn) {
		if got := errorSentinels(p, retErr(ret)); len(got) != 1 || got[0] != "ech.ErrIllegalParameter" {
			continue
		}
		fs := p.Facts(ret.Block())
		for _, f := range fs {
			// library form: slices.ContainsFunc(rest, func(b byte) bool { return b != 0 })
			if f.Op == "true" && f.L.Op == "call" && (f.L.Name == "slices.ContainsFunc" || f.L.Name == "bytes.ContainsFunc") && len(f.L.Args) == 2 {
				call, _ := f.L.Val.(*ssa.Call)
				pred := f.L.Args[1].Fn
				nonZero := pred != nil && len(core.Returns(pred)) > 0
				if pred != nil {
					for _, pr := range core.Returns(pred) {
						e := p.X(pr.Results[0])
						if !(e.Op == "bin" && e.Name == "!=" && e.Args[0].Op == "param" && e.Args[1].Name == "0") {
							nonZero = false
						}
					}
				}
				var load *ssa.UnOp
				if call != nil {
					v := call.Call.Args[0]
					for {
						if ct, ok := v.(*ssa.ChangeType); ok {
							v = ct.X
							continue
						}
						break
					}
					load, _ = v.(*ssa.UnOp)
				}
				isBody, after := false, true
				if load != nil && load.Op == token.MUL && p.CellRoot(load.X) == body {
					isBody = true
					for _, rd := range bodyReads {
						if !core.Before(rd.Instr, load) {
							after = false
						}
					}
				}
				inner := core.HasFact(fs, "==", `.*\.echExt\.Type`, "1")
				found++
				r.Check("C04.G7", "parseClientHello:padding-test", nonZero && isBody && after && inner, p.InstrPos(ret),
					"ContainsFunc with a non-zero predicate (%v) over the bytes that follow the extensions block inside the hello body (cursor is the body cursor: %v, read after all body fields: %v, only for ECH type inner: %v) returns illegal_parameter", nonZero, isBody, after, inner)
				continue
			}
			if f.Op != "!=" || f.R.Name != "0" {
				continue
			}
			var elem *core.Expr
			how := ""
			switch {
			case f.L.Op == "index":
				elem, how = f.L, "per-byte compare"
			case f.L.Op == "phi":
				// OR-fold: acc = φ{0 | (acc | x[i])}
				for _, a := range f.L.Args {
					if a.Op == "bin" && a.Name == "|" {
						for _, o := range a.Args {
							if o.Op == "index" {
								elem, how = o, "OR-fold"
							}
						}
					} else if a.Op == "bin" {
						how = "fold with operator " + a.Name
					}
				}
			}
			if elem == nil {
				if how != "" {
					r.Check("C04.G7", "parseClientHello:padding-test", false, p.InstrPos(ret), "the padding is tested with a %s, which does not detect every non-zero byte pattern", how)
					found++
				}
				continue
			}
			// elem.Args[0] must be a load of the body cursor taken after all reads on it
			base := elem.Args[0]
			var load *ssa.UnOp
			if ia, ok := elem.Val.(*ssa.UnOp); ok { // load of IndexAddr
				if idx, ok := ia.X.(*ssa.IndexAddr); ok {
					src := idx.X
					for {
						// (the remainder handed to a helper as []byte is the cursor's value under a type change)
						if ct, isCT := src.(*ssa.ChangeType); isCT {
							src = ct.X
							continue
						}
						break
					}
					load, _ = src.(*ssa.UnOp)
				}
			}
			_ = base
			isBody := false
			after := true
			if load != nil && load.Op == token.MUL && p.CellRoot(load.X) == body {
				isBody = true
				for _, rd := range bodyReads {
					if !core.Before(rd.Instr, load) {
						after = false
					}
				}
			}
			inner := core.HasFact(fs, "==", `.*\.echExt\.Type`, "1")
			found++
			r.Check("C04.G7", "parseClientHello:padding-test", isBody && after && inner, p.InstrPos(ret),
				"%s of the bytes that follow the extensions block inside the hello body (cursor is the body cursor: %v, read after all body fields: %v, only for ECH type inner: %v) returns illegal_parameter", how, isBody, after, inner)
		}
	}
	r.Check("C04.G7", "parseClientHello:padding-check", found >= 1, p.Pos(fn.Pos()), "a zero test of the EncodedClientHelloInner padding exists (found %d)", found)
}

// c04References checks G8-G11 on the Appendix B loop of the processor.
func c04References(p *core.Prog, r *core.Run, m *echModel, pre string) {
	fn := m.process
	ok := func(ret *ssa.Return) bool { return !isNilConst(ret.Results[0]) }
	isRef := func(e *core.Expr) bool {
		// the uint16 read from the reference list: out of ReadUint16
		for _, a := range e.Alts() {
			if a.Op == "out" && a.Name == "(*cryptobyte.String).ReadUint16" {
				return true
			}
		}
		return false
	}
	immediateAbort(p, r, pre+"G10", "process:reference-names-0xfe0d", fn, cmpAssume("reference == 0xfe0d", "==", isRef, isConstName("65037")), "ech.ErrIllegalParameter", ok)
	immediateAbort(p, r, pre+"G10", "process:reference-names-0xfd00", fn, cmpAssume("reference == 0xfd00", "==", isRef, isConstName("64768")), "ech.ErrIllegalParameter", ok)
	// G8: malformed list: failing reads return decode_error (also in G12)
	for _, name := range []string{"(*cryptobyte.String).ReadUint8LengthPrefixed", "(*cryptobyte.String).ReadUint16"} {
		n := name
		immediateAbort(p, r, pre+"G8", "process:"+lastDot(n)+"-fails", fn, boolAssume(lastDot(n)+" fails", false, func(e *core.Expr) bool { return e.Op == "call" && e.Name == n }), "ech.ErrDecodeError", ok)
	}
	// G9: second marker. The If tests a boolean that is loop-carried; on the
	// marker path the value carried to the next iteration is true.
	n9 := 0
	for _, b := range fn.Blocks {
		if len(b.Instrs) == 0 {
			continue
		}
		iff, isIf := b.Instrs[len(b.Instrs)-1].(*ssa.If)
		if !isIf {
			continue
		}
		phi, isPhi := iff.Cond.(*ssa.Phi)
		if !isPhi {
			continue
		}
		// under marker type
		marker := false
		for _, f := range p.Facts(b) {
			if f.Op == "==" && f.R.Name == "64768" && f.L.Op == "field" && f.L.Name == "Type" {
				marker = true
			}
		}
		if !marker {
			continue
		}
		n9++
		// positive edge returns illegal_parameter
		good := true
		for blk := range core.Reachable(b.Succs[0], nil) {
			if blk == b {
				good = false
			}
			if ret, isRet := blk.Instrs[len(blk.Instrs)-1].(*ssa.Return); isRet {
				got := errorSentinels(p, retErr(ret))
				if len(got) != 1 || got[0] != "ech.ErrIllegalParameter" {
					good = false
				}
			}
		}
		// every back edge coming from the marker path carries true
		setOnMarker := true
		sawMarkerEdge := false
		// (a counted loop comes back through its post block: the value it
		// carries is itself a φ of the ways into that block)
		seenPhi := map[*ssa.Phi]bool{}
		var carried func(ph *ssa.Phi)
		carried = func(ph *ssa.Phi) {
			if seenPhi[ph] {
				return
			}
			seenPhi[ph] = true
			for i, e := range ph.Edges {
				pred := ph.Block().Preds[i]
				if !phi.Block().Dominates(pred) {
					continue // entry edge
				}
				fromMarker := pred == b.Succs[1] || b.Succs[1].Dominates(pred)
				if !fromMarker {
					if inner, isPhi := e.(*ssa.Phi); isPhi && inner != phi && phi.Block().Dominates(inner.Block()) {
						carried(inner)
					}
					continue
				}
				sawMarkerEdge = true
				if c, isC := e.(*ssa.Const); !isC || c.Value == nil || c.Value.ExactString() != "true" {
					setOnMarker = false
				}
			}
		}
		carried(phi)
		r.Check(pre+"G9", "process:second-marker", good && setOnMarker && sawMarkerEdge, p.InstrPos(iff), "a marker seen before aborts with illegal_parameter (%v) and the first marker sets the flag for the following iterations (%v)", good, setOnMarker && sawMarkerEdge)
	}
	r.Check(pre+"G9", "process:marker-flag", n9 == 1, p.Pos(fn.Pos()), "exactly one 'marker already seen' test on the ech_outer_extensions path (found %d)", n9)

	// G11 / S2: forward-only cursor
	refCursor(p, r, m, pre+"G11")
}

// refCursor checks the Appendix B cursor discipline (shared with C03.S2):
// the appended outer extension is h.Extensions[p] for a cursor p that starts
// at a constant per marker, is only ever incremented, is advanced past the
// match before the next reference, and "not found" aborts.
func refCursor(p *core.Prog, r *core.Run, m *echModel, rule string) {
	fn := m.process
	var appends []*ssa.Call
	for _, s := range callSites(p, []*ssa.Function{fn}, `append`) {
		c, ok := s.Instr.(*ssa.Call)
		if !ok || len(c.Call.Args) != 2 {
			continue
		}
		x := p.X(c)
		// element appended comes from the outer hello's Extensions
		if x.Args[1].Any(func(e *core.Expr) bool { return e.Op == "new" }) {
			// variadic array: look at what was stored in it
			if sl, ok := c.Call.Args[1].(*ssa.Slice); ok {
				if al, ok := sl.X.(*ssa.Alloc); ok {
					for _, ref := range *al.Referrers() {
						if ia, ok := ref.(*ssa.IndexAddr); ok {
							for _, r2 := range *ia.Referrers() {
								if st, ok := r2.(*ssa.Store); ok {
									v := p.X(st.Val)
									if v.Op == "index" && v.Args[0].Op == "field" && v.Args[0].Obj == m.fCH["Extensions"] && v.Args[0].Args[0].Val == ssa.Value(m.helloP) {
										appends = append(appends, c)
										checkCursor(p, r, m, rule, c, st, v)
									}
								}
							}
						}
					}
				}
			}
		}
	}
	r.Check(rule, "process:outer-append", len(appends) == 1, p.Pos(fn.Pos()), "exactly one place appends a referenced outer extension (found %d)", len(appends))
}

func checkCursor(p *core.Prog, r *core.Run, m *echModel, rule string, app *ssa.Call, st *ssa.Store, elem *core.Expr) {
	idx := elem.Args[1]
	pos := p.InstrPos(app)
	phi, ok := idx.Val.(*ssa.Phi)
	if bo, isSum := idx.Val.(*ssa.BinOp); !ok && isSum && bo.Op == token.ADD {
		if checkCursorSearch(p, r, m, rule, app, st, bo) {
			return
		}
	}
	if !ok {
		r.Check(rule, "process:cursor", false, pos, "the index of the appended outer extension is not a cursor carried through the reference loop (it is %s): references could be resolved out of order or repeatedly", short(idx))
		return
	}
	// every value flowing into the cursor is a constant (start of a marker) or cursor+1
	mono := true
	var incs []*ssa.BinOp
	seen := map[*ssa.Phi]bool{}
	var visit func(ph *ssa.Phi)
	visit = func(ph *ssa.Phi) {
		if seen[ph] {
			return
		}
		seen[ph] = true
		for _, e := range ph.Edges {
			switch v := e.(type) {
			case *ssa.Const:
				if v.Value == nil || v.Value.ExactString() != "0" {
					mono = false
				}
			case *ssa.Phi:
				visit(v)
			case *ssa.BinOp:
				one, isC := v.Y.(*ssa.Const)
				if v.Op != token.ADD || !isC || one.Value == nil || one.Value.ExactString() != "1" {
					mono = false
				} else {
					incs = append(incs, v)
					if ph2, ok := v.X.(*ssa.Phi); ok {
						visit(ph2)
					} else {
						mono = false
					}
				}
			default:
				mono = false
			}
		}
	}
	visit(phi)
	r.Check(rule, "process:cursor-monotonic", mono, pos, "the outer-extension cursor starts at 0 for a marker and is only ever incremented (never reset or set from a search result)")
	// advanced past the match: an increment of this cursor value follows the append in the same block or on all paths to the next reference
	advanced := false
	for _, inc := range incs {
		if inc.X == ssa.Value(phi) && inc.Block() == app.Block() && core.InstrIndex(inc) > core.InstrIndex(st) {
			advanced = true
		}
		if inc.X == ssa.Value(phi) && inc.Block() != app.Block() && app.Block().Dominates(inc.Block()) {
			// must be on every path back to the loop: inc block post-dominates... accept only same-block or single-successor chain
			b := app.Block()
			for len(b.Succs) == 1 && b != inc.Block() {
				b = b.Succs[0]
			}
			if b == inc.Block() {
				advanced = true
			}
		}
	}
	// (where the increment is computed does not matter - `x := e[p]; p++; use(x)`
	// computes it before the append -: what the cursor is on the way on from
	// the append does)
	if !advanced {
		b := app.Block()
		for n := 0; n < 8 && len(b.Succs) == 1 && !advanced; n++ {
			next := b.Succs[0]
			idx := -1
			for i, pr := range next.Preds {
				if pr == b {
					idx = i
				}
			}
			stop := false
			for _, in := range next.Instrs {
				ph2, isPhi := in.(*ssa.Phi)
				if !isPhi || !seen[ph2] || idx < 0 {
					continue
				}
				stop = true
				for _, inc := range incs {
					if ph2.Edges[idx] == ssa.Value(inc) && inc.X == ssa.Value(phi) {
						advanced = true
					}
				}
			}
			if stop {
				break
			}
			b = next
		}
	}
	r.Check(rule, "process:cursor-advance", advanced, pos, "after the match the cursor is advanced past it, so an extension cannot be referenced twice and later references search forward only")
	// guards of the append: cursor in range and (from the search loop) type equality; not-found aborts
	fs := p.Facts(app.Block())
	inRange := false
	for _, f := range fs {
		if f.L.Val == ssa.Value(phi) && f.R != nil && f.R.Op == "call" && f.R.Name == "len" && f.R.Args[0].Op == "field" && f.R.Args[0].Obj == m.fCH["Extensions"] && (f.Op == "!=" || f.Op == "<") {
			inRange = true
		}
	}
	r.Check(rule, "process:cursor-in-range", inRange, pos, "the append is guarded by cursor != len(h.Extensions) (not found aborts)")
	immediateAbort(p, r, rule, "process:reference-not-found", m.process, cmpAssume("cursor == len(h.Extensions)", "==",
		func(e *core.Expr) bool { return e.Val == ssa.Value(phi) },
		func(e *core.Expr) bool {
			return e.Op == "call" && e.Name == "len" && e.Args[0].Op == "field" && e.Args[0].Obj == m.fCH["Extensions"]
		}),
		"ech.ErrIllegalParameter", func(ret *ssa.Return) bool { return !isNilConst(ret.Results[0]) })
	// the search loop: leaves only when cursor out of range or type matches; body only increments
	searchOK := false
	for h, body := range core.Loops(m.process) {
		if h != phi.Block() {
			continue
		}
		// exits
		typeCmp, rangeCmp := false, false
		for b := range body {
			for _, s := range b.Succs {
				if body[s] {
					continue
				}
				for _, f := range p.EdgeFacts(b, s)[:1] {
					if f.Op == ">=" && f.L.Val == ssa.Value(phi) {
						rangeCmp = true
					}
					if f.Op == "==" && f.L.Op == "field" && f.L.Name == "Type" && f.L.Args[0].Op == "index" && f.L.Args[0].Args[1].Val == ssa.Value(phi) {
						typeCmp = isRefValue(f.R)
					}
				}
			}
		}
		searchOK = typeCmp && rangeCmp
	}
	r.Check(rule, "process:search-loop", searchOK, pos, "the search loop stops only at the end of the outer extensions or at an extension whose type equals the reference")
}

// checkCursorSearch: the same discipline with the search done by the library:
//
//	i := slices.IndexFunc(h.Extensions[p:], func(e extension) bool { return e.Type == extType })
//	if i < 0 { abort }; p += i; append(h.Extensions[p]); p++
//
// the element appended is h.Extensions[p+i] with p the carried cursor and i the
// (non-negative) position of the first extension of the referenced type at or
// after the cursor; the cursor continues one past the match.
func checkCursorSearch(p *core.Prog, r *core.Run, m *echModel, rule string, app *ssa.Call, st *ssa.Store, sum *ssa.BinOp) bool {
	pos := p.InstrPos(app)
	cur, okC := sum.X.(*ssa.Phi)
	find, okF := sum.Y.(*ssa.Call)
	if !okC || !okF {
		cur, okC = sum.Y.(*ssa.Phi)
		find, okF = sum.X.(*ssa.Call)
	}
	if !okC || !okF {
		return false
	}
	fx := p.X(find)
	if fx.Name != "slices.IndexFunc" || len(fx.Args) != 2 {
		return false
	}
	// searched: h.Extensions[cursor:]
	hay := fx.Args[0]
	fromCursor := hay.Op == "slice" && hay.Args[0].Op == "field" && hay.Args[0].Obj == m.fCH["Extensions"] && hay.Args[0].Args[0].Val == ssa.Value(m.helloP) && hay.Args[1].Val == ssa.Value(cur) && hay.Args[2].Name == "_"
	r.Check(rule, "process:cursor", fromCursor, pos, "the referenced extension is searched for in the outer extensions from the carried cursor on: %s", short(hay))
	// predicate: the element's type equals the reference just read
	okPred := false
	if mc, isMC := find.Call.Args[1].(*ssa.MakeClosure); isMC {
		if pred, isFn := mc.Fn.(*ssa.Function); isFn && len(pred.Params) == 1 {
			okPred = true
			p.WithCreator(mc, func() {
				for _, ret := range core.Returns(pred) {
					x := p.X(ret.Results[0])
					if !(x.Op == "bin" && x.Name == "==" && x.Args[0].Op == "field" && x.Args[0].Name == "Type" && x.Args[0].Args[0].Val == ssa.Value(pred.Params[0]) && isRefValue(x.Args[1])) {
						okPred = false
					}
				}
			})
		}
	}
	r.Check(rule, "process:search-loop", okPred, pos, "the search stops at the first extension whose type equals the reference")
	// cursor: 0 at a marker, or match position + 1
	mono, advanced := true, false
	seen := map[*ssa.Phi]bool{}
	var visit func(ph *ssa.Phi)
	visit = func(ph *ssa.Phi) {
		if seen[ph] {
			return
		}
		seen[ph] = true
		for _, e := range ph.Edges {
			switch v := e.(type) {
			case *ssa.Const:
				if v.Value == nil || v.Value.ExactString() != "0" {
					mono = false
				}
			case *ssa.Phi:
				visit(v)
			case *ssa.BinOp:
				one, isC := v.Y.(*ssa.Const)
				if v.Op == token.ADD && isC && one.Value != nil && one.Value.ExactString() == "1" && v.X == ssa.Value(sum) {
					advanced = true
				} else {
					mono = false
				}
			default:
				mono = false
			}
		}
	}
	visit(cur)
	r.Check(rule, "process:cursor-monotonic", mono, pos, "the outer-extension cursor starts at 0 for a marker and otherwise continues from a match (never reset or moved back)")
	r.Check(rule, "process:cursor-advance", advanced, pos, "after the match the cursor is advanced past it, so an extension cannot be referenced twice and later references search forward only")
	found := false
	for _, f := range p.Facts(app.Block()) {
		if f.L.Val == ssa.Value(find) && f.R != nil {
			if k, isK := f.R.ConstInt(); isK && (f.Op == ">=" && k == 0 || f.Op == ">" && k == -1 || f.Op == "!=" && k == -1) {
				found = true
			}
		}
	}
	r.Check(rule, "process:cursor-in-range", found, pos, "the append is guarded by 'found' (a negative search result aborts)")
	immediateAbort(p, r, rule, "process:reference-not-found", m.process, cmpAssume("search result < 0", "<",
		func(e *core.Expr) bool { return e.Val == ssa.Value(find) }, isConstName("0")),
		"ech.ErrIllegalParameter", func(ret *ssa.Return) bool { return !isNilConst(ret.Results[0]) })
	return true
}

func isRefValue(e *core.Expr) bool {
	for _, a := range e.Alts() {
		if a.Op == "out" && a.Name == "(*cryptobyte.String).ReadUint16" {
			return true
		}
	}
	return false
}

// c04ParserDiscipline: every cryptobyte read is tested; the failing edge
// returns an allowed sentinel.
func c04ParserDiscipline(p *core.Prog, r *core.Run, rule string, fns []*ssa.Function, allowed map[string]bool) {
	n := 0
	for _, fn := range fns {
		if fn == nil {
			r.Undecided(rule, "parser", "-", "one of the parsers this rule covers was not found (renamed or dissolved)")
			continue
		}
		if p.DeadLiteral(fn) {
			// (a local helper all of whose calls were inlined: judged in the copies)
			continue
		}
		for _, s := range callSites(p, []*ssa.Function{fn}, `\(\*cryptobyte\.String\)\.(Read.*|Skip|Copy.*)`) {
			c, ok := s.Instr.(*ssa.Call)
			if !ok {
				continue
			}
			n++
			key := fmt.Sprintf("%s:%s@%s", p.FuncName(fn), lastDot(s.X.Name), readTarget(p, s))
			pos := p.InstrPos(c)
			var judge func(c *ssa.Call, depth int) (bool, string)
			judge = func(c *ssa.Call, depth int) (bool, string) {
				// find the If that tests the result (directly or through !)
				var iff *ssa.If
				neg := false
				var follow func(v ssa.Value, n bool)
				follow = func(v ssa.Value, nn bool) {
					for _, ref := range *v.Referrers() {
						switch x := ref.(type) {
						case *ssa.If:
							iff, neg = x, nn
						case *ssa.UnOp:
							if x.Op == token.NOT {
								follow(x, !nn)
							}
						}
					}
				}
				follow(c, false)
				if iff == nil {
					return false, "its result is not tested: a truncated input is read as zero values"
				}
				fail := iff.Block().Succs[1]
				if neg {
					fail = iff.Block().Succs[0]
				}
				// `ok := s.ReadX(..) && s.ReadY(..) && ...; if !ok { return err }`: the
				// failing edge enters a merge that records "false" and tests it at
				// once: the way on is the one a false flag takes
				from := iff.Block()
				for hop := 0; hop < 3; hop++ {
					var flag *ssa.Phi
					val, known := false, false
					for _, in := range fail.Instrs {
						ph, isPhi := in.(*ssa.Phi)
						if !isPhi {
							break
						}
						for k, pr := range fail.Preds {
							if pr != from {
								continue
							}
							if cst, isC := ph.Edges[k].(*ssa.Const); isC && cst.Value != nil && (cst.Value.ExactString() == "true" || cst.Value.ExactString() == "false") {
								flag, val, known = ph, cst.Value.ExactString() == "true", true
							}
						}
					}
					if !known {
						break
					}
					next, isIf := fail.Instrs[len(fail.Instrs)-1].(*ssa.If)
					if !isIf {
						break
					}
					cond, inv := next.Cond, false
					for {
						u, isNot := cond.(*ssa.UnOp)
						if !isNot || u.Op != token.NOT {
							break
						}
						cond, inv = u.X, !inv
					}
					if cond != ssa.Value(flag) {
						break
					}
					// only the flag (and its negation) may be computed in between
					pure := true
					for _, in := range fail.Instrs[:len(fail.Instrs)-1] {
						switch x := in.(type) {
						case *ssa.Phi:
						case *ssa.UnOp:
							if x.Op != token.NOT {
								pure = false
							}
						default:
							pure = false
						}
					}
					if !pure {
						break
					}
					taken := val != inv
					from = fail
					if taken {
						fail = fail.Succs[0]
					} else {
						fail = fail.Succs[1]
					}
				}
				good := true
				why := ""
				reach := core.Reachable(fail, nil)
				if reach[iff.Block()] {
					good, why = false, "the failing branch continues the loop"
				}
				rets := 0
				for blk := range reach {
					ret, isRet := blk.Instrs[len(blk.Instrs)-1].(*ssa.Return)
					if !isRet {
						continue
					}
					rets++
					// a local read helper (a literal that reports success as a bool): its
					// "false" is judged where the helper is called
					if lit := blk.Parent(); lit.Parent() != nil && depth < 2 && len(ret.Results) == 1 {
						if cst, isC := ret.Results[0].(*ssa.Const); isC && cst.Value != nil && cst.Value.ExactString() == "false" {
							nCalls := 0
							for _, cs := range allCalls(p, core.Closures(core.Root(lit))) {
								cc, isCall := cs.Instr.(*ssa.Call)
								if !isCall || (cs.X.Fn != lit && p.ResolveFuncValue(cc.Call.Value) != lit) {
									continue
								}
								nCalls++
								if g2, w2 := judge(cc, depth+1); !g2 {
									good, why = false, "through the helper "+lit.Name()+": "+w2
								}
							}
							if nCalls == 0 {
								good, why = false, "the helper "+lit.Name()+" is not called directly"
							}
							continue
						}
					}
					got := errorSentinels(p, retErr(ret))
					if len(got) != 1 || !allowed[got[0]] {
						good, why = false, fmt.Sprintf("the failing branch returns %v", got)
					}
				}
				if rets == 0 {
					good, why = false, "the failing branch does not return"
				}
				return good, why
			}
			good, why := judge(c, 0)
			r.Check(rule, key, good, pos, "failed %s returns decode_error/illegal_parameter %s", lastDot(s.X.Name), why)
		}
	}
	r.Floor(rule, 20)
}

func readTarget(p *core.Prog, s site) string {
	if len(s.X.Args) < 2 {
		return "-"
	}
	a := s.Instr.Common().Args[1]
	if al := p.CellRoot(a); al != nil {
		return "local:" + al.Comment
	}
	x := p.X(a)
	if x.Op == "field" {
		return x.Name
	}
	return short(x)
}

// alertTargets: the connection an alert is written to exists on every path
// that gets there: NewConn's own transport parameter, or the receiver of the
// Conn method that reports the error. (NewConn's result is still nil when the
// first record is refused.)
func alertTargets(p *core.Prog, r *core.Run, rule string) {
	conv := p.Func(Ech, "convertErrorsToAlerts")
	if conv == nil {
		r.Undecided(rule, "alert-target", "-", "convertErrorsToAlerts not found")
		return
	}
	n := 0
	for _, s := range allCalls(p, p.PkgFuncs(Ech)) {
		if s.X.Fn != conv || len(s.X.Args) < 1 {
			continue
		}
		n++
		a := s.X.Args[0]
		root := core.Root(s.Fn)
		ok := false
		switch {
		case a.Op == "param" && root.Signature.Recv() != nil && a.Name == "p0":
			ok = true // the method's receiver
		case a.Op == "param":
			// a parameter of interface type handed in by the caller (the transport)
			if prm, isP := a.Val.(*ssa.Parameter); isP {
				_, isIface := prm.Type().Underlying().(*types.Interface)
				ok = isIface
			}
		}
		r.Check(rule, fmt.Sprintf("alert-target:%s#%d", p.FuncName(root), n), ok, p.InstrPos(s.Instr), "the alert goes to %s: the caller's transport or the method's receiver, which exist on every path (a connection object under construction may still be nil)", short(a))
	}
	r.Check(rule, "alert-targets", n >= 1, p.Pos(conv.Pos()), "%d callers of the alert conversion", n)
}

// isTableTest: the fact tests errors.Is(err, tbl[i].f) for a local literal table.
func isTableTest(p *core.Prog, f core.Fact) *tableRef {
	if f.L == nil || f.L.Op != "call" || f.L.Name != "errors.Is" || len(f.L.Args) != 2 || f.L.Args[0].Op != "param" {
		return nil
	}
	call, ok := f.L.Val.(*ssa.Call)
	if !ok || len(call.Call.Args) != 2 {
		return nil
	}
	return structTableField(p, call.Call.Args[1])
}

func c04AlertMap(p *core.Prog, r *core.Run, m *echModel, rule string) {
	alertTargets(p, r, rule)
	conv := p.Func(Ech, "convertErrorsToAlerts")
	send := p.Func(Ech, "sendAlert")
	if conv == nil || send == nil {
		r.Undecided(rule, "convertErrorsToAlerts", "-", "convertErrorsToAlerts / sendAlert not found")
		return
	}
	r.Analysed(p.FuncName(conv), p.FuncName(send))
	seen := map[string]bool{}
	deflt := false
	got := map[string]any{}
	for _, s := range callSites(p, []*ssa.Function{conv}, `ech\.sendAlert`) {
		if len(s.X.Args) != 3 {
			continue
		}
		level, _ := s.X.Args[1].ConstInt()
		okConn := s.X.Args[0].Op == "param" && s.X.Args[0].Name == "p0"
		// the description: a constant per call site, or one call site whose
		// description was selected beforehand (a φ over constants): one case per
		// way the value gets there, with the conditions of that way
		type acase struct {
			desc int64
			okD  bool
			fs   []core.Fact
			raw  ssa.Value
			from *ssa.BasicBlock // where the value comes from (a φ edge), or nil: the call's block
		}
		var cases []acase
		var expand func(v ssa.Value, fs []core.Fact, depth int, from *ssa.BasicBlock)
		expand = func(v ssa.Value, fs []core.Fact, depth int, from *ssa.BasicBlock) {
			if ph, ok := v.(*ssa.Phi); ok && depth < 4 {
				for i, e := range ph.Edges {
					expand(e, append(append([]core.Fact{}, fs...), p.EdgeFacts(ph.Block().Preds[i], ph.Block())...), depth+1, ph.Block().Preds[i])
				}
				return
			}
			d, okD := p.X(v).ConstInt()
			cases = append(cases, acase{d, okD, fs, v, from})
		}
		expand(s.Instr.Common().Args[2], p.Facts(s.Block()), 0, nil)
		for _, c := range cases {
			desc, okD := c.desc, c.okD
			var pos, negs []string
			errNonNil := false
			var tpos []*tableRef
			for _, f := range c.fs {
				if f.L.Op == "call" && f.L.Name == "errors.Is" && len(f.L.Args) == 2 && f.L.Args[0].Op == "param" && f.L.Args[1].Op == "global" {
					if f.Op == "true" {
						pos = append(pos, f.L.Args[1].Name)
					} else {
						negs = append(negs, f.L.Args[1].Name)
					}
				} else if tr := isTableTest(p, f); tr != nil && f.Op == "true" {
					tpos = append(tpos, tr)
				}
				if f.Op == "!=" && f.L.Op == "param" && f.R.Name == "nil" {
					errNonNil = true
				}
			}
			// table-driven form: `for _, a := range table { if errors.Is(err,
			// a.target) { sendAlert(.., a.description) } }` stands for one case per row
			if td := structTableField(p, c.raw); td != nil && !okD && len(pos) == 0 && len(tpos) == 1 && tpos[0].same(td) {
				for k, row := range td.Rows {
					name := "-"
					if row[tpos[0].Field] != nil {
						if g := p.X(row[tpos[0].Field]); g.Op == "global" {
							name = g.Name
						}
					}
					var d int64 = -1
					okRow := false
					if row[td.Field] != nil {
						d, okRow = p.X(row[td.Field]).ConstInt()
					}
					want, known := alertTable[name]
					if seen[name] {
						// an earlier row (or case) already answers for this sentinel
						r.Check(rule, fmt.Sprintf("map:row#%d", k), false, p.InstrPos(s.Instr), "row %d repeats sentinel %s", k, name)
						continue
					}
					seen[name] = true
					got[name] = d
					r.Check(rule, "map:"+name, known && okRow && d == want && level == 2 && okConn && errNonNil, p.InstrPos(s.Instr), "%s -> alert %d at level %d (RFC 8446: %d, fatal=2), row %d of the table", name, d, level, want, k)
				}
				continue
			}
			// the default after such a loop: every way round the loop is a failed
			// test of that row's sentinel
			if len(pos) == 0 && len(tpos) == 0 {
				origin := s.Block()
				if c.from != nil {
					origin = c.from
				}
				for h, body := range core.Loops(conv) {
					// (the value may also come straight from the loop's head, on the
					// edge taken when the table is exhausted: `d := 40; for ... { if
					// match { d = row.d; break } }`)
					if (body[origin] && origin != h) || !h.Dominates(origin) {
						continue
					}
					var tr *tableRef
					allBack := true
					// the loop is left towards this case only when the table is exhausted
					for b := range body {
						for _, x := range b.Succs {
							if body[x] || b == h {
								continue
							}
							if x == origin || core.Reachable(x, nil)[origin] {
								allBack = false
							}
						}
					}
					for _, pr := range h.Preds {
						if !body[pr] {
							continue
						}
						found := false
						for _, f := range p.EdgeFacts(pr, h) {
							if t := isTableTest(p, f); t != nil && f.Op == "false" && rangeLoopOver(h, t.Index) {
								found, tr = true, t
							}
						}
						if !found {
							allBack = false
						}
					}
					if allBack && tr != nil {
						for _, row := range tr.Rows {
							if row[tr.Field] != nil {
								if g := p.X(row[tr.Field]); g.Op == "global" {
									negs = append(negs, g.Name)
								}
							}
						}
					}
				}
			}
			negs = uniqStrings(negs)
			pos = uniqStrings(pos)
			switch {
			case len(pos) == 1:
				want, known := alertTable[pos[0]]
				seen[pos[0]] = true
				got[pos[0]] = desc
				r.Check(rule, "map:"+pos[0], known && okD && desc == want && level == 2 && okConn && errNonNil, p.InstrPos(s.Instr), "%s -> alert %d at level %d (RFC 8446: %d, fatal=2)", pos[0], desc, level, want)
			case len(pos) == 0:
				deflt = true
				sort.Strings(negs)
				all := len(negs) == len(alertTable)
				got["default"] = desc
				r.Check(rule, "map:default", okD && desc == 40 && level == 2 && all && errNonNil, p.InstrPos(s.Instr), "any other non-nil error -> alert %d (handshake_failure = 40) at level %d, after all %d sentinels were tested (%d)", desc, level, len(alertTable), len(negs))
			default:
				r.Check(rule, "map:ambiguous", false, p.InstrPos(s.Instr), "alert sent under several sentinels at once: %v", pos)
			}
		}
	}
	r.Tables["alert_map"] = got
	for name := range alertTable {
		r.Check(rule, "covered:"+name, seen[name], p.Pos(conv.Pos()), "sentinel %s has an alert mapping", name)
	}
	r.Check(rule, "default", deflt, p.Pos(conv.Pos()), "a default alert exists")
	// exhaustive over sentinels that the handler can return
	used := map[string]bool{}
	for _, fn := range reachableFuncs(p, m.handle) {
		for _, ret := range core.Returns(fn) {
			if len(ret.Results) == 0 {
				continue
			}
			if retErr(ret).Type().String() != "error" {
				continue
			}
			for _, g := range errorSentinels(p, retErr(ret)) {
				if strings.HasPrefix(g, "ech.Err") {
					used[g] = true
				}
			}
		}
	}
	for g := range used {
		_, known := alertTable[g]
		r.Check(rule, "used:"+g, known && seen[g], p.Pos(conv.Pos()), "sentinel %s, returned somewhere under the hello handler, is mapped to its own alert", g)
	}
	// an error belongs to one class: the alert sent is the first class that
	// matches, the caller may test for any; an error that wraps two errors is of
	// one class only if both are
	for _, fn := range reachableFuncs(p, m.newConn, m.read, m.handle) {
		if !inModule(p, fn) {
			continue
		}
		nJoin := 0
		for _, s := range callSites(p, []*ssa.Function{fn}, `fmt\.Errorf|errors\.Join`) {
			c, isCall := s.Instr.(*ssa.Call)
			if !isCall {
				continue
			}
			ops, known := wrappedOperands(p, c)
			if !known || len(ops) < 2 {
				continue
			}
			nJoin++
			classes := map[string]bool{}
			opaque := 0
			for _, o := range ops {
				got := errorSentinels(p, o)
				if len(got) == 0 {
					opaque++
				}
				for _, g := range got {
					classes[g] = true
				}
			}
			r.Check(rule, fmt.Sprintf("one-class:%s#%d", p.FuncName(fn), nJoin), len(classes) <= 1 && opaque == 0, p.InstrPos(s.Instr), "an error made of several errors belongs to one class only (classes %v, %d operand(s) of unknown class): the alert sent is the first class that matches", keysOf(classes), opaque)
		}
	}
	// sendAlert: record bytes and close
	var arr []string
	for _, b := range send.Blocks {
		for _, in := range b.Instrs {
			if st, ok := in.(*ssa.Store); ok {
				if _, isIdx := st.Addr.(*ssa.IndexAddr); isIdx {
					arr = append(arr, p.X(st.Val).String())
				}
			}
		}
	}
	want := []string{"21", "3", "3", "0", "2", "p1", "p2"}
	r.Check(rule, "sendAlert:record", strings.Join(arr, ",") == strings.Join(want, ","), p.Pos(send.Pos()), "sendAlert writes the record 15 03 03 00 02 level description (got %v)", arr)
	writes := callSites(p, []*ssa.Function{send}, `\(io\.WriteCloser\)\.Write|\(net\.Conn\)\.Write|\(io\.Writer\)\.Write`)
	closes := callSites(p, []*ssa.Function{send}, `\(io\.WriteCloser\)\.Close|\(net\.Conn\)\.Close|\(io\.Closer\)\.Close`)
	okW := len(writes) == 1 && len(p.Facts(writes[0].Block())) == 0
	okC := false
	for _, c := range closes {
		fs := p.Facts(c.Block())
		if len(fs) == 1 && fs[0].Op == "==" && fs[0].L.Name == "p1" && fs[0].R.Name == "2" && len(writes) == 1 && core.Before(writes[0].Instr, c.Instr) {
			okC = true
		}
	}
	// nothing else happens to the connection there: no read, no deadline, no
	// half-close (the alert is sent on NewConn's way out, after the context
	// watcher was stopped: whatever blocks here blocks NewConn for good)
	nExtra := 0
	for _, l := range core.Closures(send) {
		for _, s := range allCalls(p, []*ssa.Function{l}) {
			if _, isB := s.Instr.Common().Value.(*ssa.Builtin); isB {
				continue
			}
			if matches(`\(io\.WriteCloser\)\.(Write|Close)|\(net\.Conn\)\.(Write|Close)|\(io\.Writer\)\.Write|\(io\.Closer\)\.Close`, s.X.Name) {
				continue
			}
			nExtra++
			r.Check(rule, fmt.Sprintf("sendAlert:only-write-close#%d", nExtra), false, p.InstrPos(s.Instr), "sendAlert also calls %s: sending an alert is one write and, for a fatal alert, the close", s.X.Name)
		}
		for _, b := range l.Blocks {
			for _, in := range b.Instrs {
				if ta, ok := in.(*ssa.TypeAssert); ok {
					nExtra++
					r.Check(rule, fmt.Sprintf("sendAlert:only-write-close#%d", nExtra), false, p.InstrPos(ta), "sendAlert looks for further abilities of the connection (%s): sending an alert is one write and, for a fatal alert, the close", short(p.X(ta)))
				}
			}
		}
	}
	r.Check(rule, "sendAlert:only-write-close", nExtra == 0, p.Pos(send.Pos()), "sendAlert does nothing to the connection but write the record and close (%d other operations)", nExtra)
	r.Check(rule, "sendAlert:write", okW, p.Pos(send.Pos()), "the alert is written unconditionally")
	r.Check(rule, "sendAlert:close", okC, p.Pos(send.Pos()), "the connection is closed after a fatal (level 2) alert, so the client sees end of stream")
	r.Floor(rule, 14)
}

func c04AlertDeliver(p *core.Prog, r *core.Run, m *echModel, rule string) {
	nc := m.newConn
	errCell := namedResultCell(nc, nc.Signature.Results().Len()-1)
	// the class of the error the caller gets and the alert the client gets are
	// decided by the return statements: no deferred function replaces the error
	if errCell != nil {
		nRew := 0
		for _, l := range core.Closures(nc) {
			if l == nc {
				continue
			}
			for _, b := range l.Blocks {
				for _, in := range b.Instrs {
					if st, ok := in.(*ssa.Store); ok && p.CellRoot(st.Addr) == errCell {
						nRew++
						r.Check(rule, fmt.Sprintf("NewConn:error-rewritten#%d", nRew), false, p.InstrPos(st), "a function literal of NewConn replaces the error result (%s): the alert and the class the caller tests are those of the return statement", short(p.X(st.Val)))
					}
				}
			}
		}
		r.Check(rule, "NewConn:error-as-returned", nRew == 0, p.Pos(nc.Pos()), "no function literal of NewConn stores to its error result (%d stores)", nRew)
	}
	rets := core.Returns(nc)
	delivered := false
	for _, b := range nc.Blocks {
		for _, in := range b.Instrs {
			d, ok := in.(*ssa.Defer)
			if !ok {
				continue
			}
			x := p.CallExpr(d)
			all := true
			for _, ret := range rets {
				if !b.Dominates(ret.Block()) {
					all = false
				}
			}
			if x.Name == "ech.convertErrorsToAlerts" {
				r.Check(rule, "NewConn:defer-evaluated-error", false, p.InstrPos(d), "`defer convertErrorsToAlerts(conn, err)` evaluates err when the defer statement runs (always nil), so no alert is ever sent; defer a function literal that reads the result at return time")
				continue
			}
			fn := p.ResolveFuncValue(d.Call.Value)
			if fn == nil {
				continue
			}
			for _, s := range callSites(p, []*ssa.Function{fn}, `ech\.convertErrorsToAlerts`) {
				a := s.Instr.Common().Args
				isErr := false
				if u, ok := a[1].(*ssa.UnOp); ok && u.Op == token.MUL && errCell != nil && p.CellRoot(u.X) == errCell {
					isErr = true
				}
				isConn := p.X(a[0]).Val == ssa.Value(nc.Params[1])
				uncond := true
				for _, f := range p.Facts(s.Block()) {
					if !(f.Op == "!=" && f.R.Name == "nil") {
						uncond = false
					}
				}
				okD := isErr && isConn && uncond && all
				if okD {
					delivered = true
				}
				r.Check(rule, "NewConn:deferred-alert", okD, p.InstrPos(s.Instr), "a deferred literal registered on all paths (%v) passes the error result as it is at return time (%v) and the client connection (%v) to convertErrorsToAlerts, unconditionally (%v)", all, isErr, isConn, uncond)
			}
		}
	}
	r.Check(rule, "NewConn:delivers", delivered, p.Pos(nc.Pos()), "every return of NewConn delivers its error as an alert")
	// Read: errors of the retried hello
	for i, s := range callSites(p, []*ssa.Function{m.read}, regexpQuote(p.FuncName(m.handle))) {
		c := s.Instr.(*ssa.Call)
		okR := false
		for _, ret := range core.Returns(m.read) {
			ex, isEx := retErr(ret).(*ssa.Extract)
			if !isEx || ex.Tuple != ssa.Value(c) {
				continue
			}
			// same block: convertErrorsToAlerts(c, err) before the return
			for _, a := range callSites(p, []*ssa.Function{m.read}, `ech\.convertErrorsToAlerts`) {
				if a.Block() == ret.Block() && a.Instr.Common().Args[1] == ssa.Value(ex) && a.X.Args[0].Op == "param" {
					okR = true
				}
			}
		}
		r.Check(rule, fmtKey("Read:retry-error#%d", i), okR, p.InstrPos(c), "an error of the retried hello is converted to an alert on the connection before Read returns it")
	}
	r.Floor(rule, 3)
}

func regexpQuote(s string) string { return core.Q(s) }

func uniqStrings(in []string) []string {
	seen := map[string]bool{}
	var out []string
	for _, x := range in {
		if !seen[x] {
			seen[x] = true
			out = append(out, x)
		}
	}
	return out
}
