package props

import (
	"fmt"
	"go/token"
	"go/types"
	"strings"

	"verif/third_party/xtools/go/ssa"

	"verif/internal/core"
)

func init() {
	register(&Property{
		ID: "C16",
		Info: core.Info{
			Explanation: "Decides structural necessary conditions; histories and schedules are NOT explored (no execution, no race detector): " +
				"(LOCK) lockset argument: a forward lock-state dataflow ({none, R, W} per cacheValue mutex, through RLock/RUnlock/Lock/Unlock and deferred unlocks) shows every read of cacheValue.expiration/result happens under RLock or Lock of that same value and every write under Lock; census of all accesses package-wide; " +
				"(TTL) the expiry stored is timeNow() + ttl seconds with ttl taken unchanged from the lookup, and the lookup's ttl is a true minimum over ALL answer records: a loop-carried value updated with the record's TTL only under 'first record' or 'current > record's TTL', by a comparison that every iteration passes through (no record is skipped, e.g. by an earlier continue), starting from the no-answer default; " +
				"(NOFAIL) stores to a cache entry are dominated by 'the lookup returned no error', and a non-zero response code can only produce an error; " +
				"(FRESH) a cached value is returned only under timeNow().Before(expiration), so a zero TTL is never served and expiry forces a new lookup; " +
				"(SHARE) results handed out are shared with the cache: their only method, Targets, writes nothing reachable from them (C15.PURE), RoundTrip filters a clone, and no sort/copy/append/element store works in place on the slice resolveOne returns (it is the cache's own); " +
				"(KEY) every cache operation of resolveOne is addressed by a struct value holding the name asked for and the record type asked for in two fields of their own, so two questions never share an entry; " +
				"(RACE0) functions reachable from Resolve store to no package-level variable and to no Resolver field; the shared mutable state they touch is the LRU (internally locked, trusted) and the cacheValue fields (LOCK).",
			Assumptions: []string{"hashicorp/golang-lru TwoQueueCache is safe for concurrent use", "sync.RWMutex semantics"},
		},
		Rules: c16Rules,
	})
}

const (
	lkNone = iota
	lkR
	lkW
	lkTop // unknown / conflicting
)

func c16Rules(p *core.Prog, r *core.Run) {
	exp := field(p, Ech, "cacheValue", "expiration")
	res := field(p, Ech, "cacheValue", "result")
	mu := field(p, Ech, "cacheValue", "mu")
	one := p.Func(Ech, "(*Resolver).resolveOne")
	noc := p.Func(Ech, "(*Resolver).resolveOneNoCache")
	if exp == nil || res == nil || mu == nil || one == nil || noc == nil {
		r.Undecided("C16.LOCK", "cache", "-", "cacheValue fields or resolveOne/resolveOneNoCache not found")
		return
	}
	r.Analysed(p.FuncName(one), p.FuncName(noc))
	pkg := p.PkgFuncs(Ech)

	c16CacheKey(p, r, one)

	// --- LOCK
	nAcc := 0
	for _, fn := range pkg {
		var accesses []ssa.Instruction
		for _, b := range fn.Blocks {
			for _, in := range b.Instrs {
				switch x := in.(type) {
				case *ssa.UnOp:
					if fa, ok := x.X.(*ssa.FieldAddr); ok && x.Op == token.MUL && (fieldVar(fa) == exp || fieldVar(fa) == res) {
						accesses = append(accesses, x)
					}
				case *ssa.Store:
					if fa, ok := x.Addr.(*ssa.FieldAddr); ok && (fieldVar(fa) == exp || fieldVar(fa) == res) {
						accesses = append(accesses, x)
					}
				case *ssa.Field:
					if st, ok := x.X.Type().Underlying().(*types.Struct); ok && x.Field < st.NumFields() && (st.Field(x.Field) == exp || st.Field(x.Field) == res) {
						accesses = append(accesses, x)
					}
				}
			}
		}
		if len(accesses) == 0 {
			continue
		}
		state := lockStates(p, fn, mu)
		for _, in := range accesses {
			nAcc++
			st := state[in]
			write := false
			var name string
			switch x := in.(type) {
			case *ssa.Store:
				write = true
				name = p.X(x.Addr).Name
			case *ssa.UnOp:
				name = p.X(x.X).Name
			case *ssa.Field:
				name = p.X(x).Name
			}
			ok := st == lkW || (!write && st == lkR)
			kind := map[bool]string{true: "write", false: "read"}[write]
			r.Check("C16.LOCK", fmt.Sprintf("%s:%s %s", p.FuncName(fn), kind, name), ok && core.Root(fn) == one, p.InstrPos(in), "%s of cacheValue.%s with the entry's lock in state %s (needs %s); in resolveOne: %v", kind, name, []string{"none", "RLock", "Lock", "unknown"}[st], map[bool]string{true: "Lock", false: "RLock or Lock"}[write], core.Root(fn) == one)
		}
	}
	r.Check("C16.LOCK", "census", nAcc >= 6, p.Pos(one.Pos()), "%d accesses to the guarded fields found", nAcc)

	// --- TTL: the stored expiry
	var nocCall ssa.Value
	for _, s := range allCalls(p, []*ssa.Function{one}) {
		if s.X.Fn == noc {
			if c, ok := s.Instr.(*ssa.Call); ok && len(p.Facts(c.Block())) >= 1 && !core.HasFact(p.Facts(c.Block()), "==", `p0\.cache`, "nil") {
				nocCall = c
			}
		}
	}
	for i, st := range fieldStores(p, pkg, exp) {
		v := p.X(st.Val)
		ok := false
		// (time.Time).Add(timeNow(), 1e9 * time.Duration(noCache#1))
		if v.Op == "call" && v.Name == "(time.Time).Add" && len(v.Args) == 2 && v.Args[0].Op == "call" && v.Args[0].Name == "dyn" && v.Args[0].Args[0].Name == "ech.timeNow" {
			d := v.Args[1]
			if d.Op == "bin" && d.Name == "*" {
				a, b := d.Args[0], d.Args[1]
				if a.Op != "const" {
					a, b = b, a
				}
				if a.Name == "1000000000" && b.Op == "conv" && b.Args[0].Op == "ext" && b.Args[0].Name == "#1" && b.Args[0].Args[0].Val == nocCall {
					ok = true
				}
			}
		}
		r.Check("C16.TTL", fmt.Sprintf("expiry:store#%d", i), ok, p.InstrPos(st), "expiration = timeNow() + ttl seconds with ttl exactly as returned by the lookup (not raised afterwards): %s", short(v))
	}
	c16Minimum(p, r, noc)
	// the TTLs the minimum is taken over are the ones the records arrived with:
	// between the decoder and the lookup nothing rewrites a record's TTL
	{
		ttlF := field(p, DNS, "RR", "TTL")
		nTTL := 0
		var all []*ssa.Function
		all = append(all, p.PkgFuncs(DNS)...)
		all = append(all, pkg...)
		for _, st := range fieldStores(p, all, ttlF) {
			root := core.Root(st.Parent())
			name := p.FuncName(root)
			if strings.HasPrefix(name, "(dns.decoder).") || name == "dns.DecodeMessage" {
				// (in the decoder: the value read, nothing derived from it - for the
				// OPT record the field holds the extended RCODE and flags)
				asRead := false
				for _, a := range p.X(st.Val).Alts() {
					asRead = a.Op == "out" && strings.Contains(a.Name, "ReadUint32")
					if !asRead {
						break
					}
				}
				if asRead {
					continue
				}
			}
			nTTL++
			r.Check("C16.TTL", fmt.Sprintf("ttl:rewritten@%s#%d", name, nTTL), false, p.InstrPos(st), "%s rewrites the TTL of a record (%s): the cache lifetime is no longer the TTL the response carried", name, short(p.X(st.Val)))
		}
		r.Check("C16.TTL", "ttl:as-decoded", ttlF != nil && nTTL == 0, p.Pos(noc.Pos()), "record TTLs are written by the decoder only (%d other writers)", nTTL)
	}

	// --- NOFAIL
	for _, fv := range []*types.Var{exp, res} {
		for i, st := range fieldStores(p, pkg, fv) {
			ok := false
			for _, f := range p.Facts(st.Block()) {
				if ex, isEx := f.L.Val.(*ssa.Extract); isEx && ex.Tuple == nocCall && ex.Index == 2 && f.Op == "==" && f.R.Name == "nil" {
					ok = true
				}
			}
			r.Check("C16.NOFAIL", fmt.Sprintf("%s:store#%d", fv.Name(), i), ok, p.InstrPos(st), "the cache entry is written only when the lookup returned no error")
		}
	}
	// result stored = lookup's result
	for i, st := range fieldStores(p, pkg, res) {
		v := p.X(st.Val)
		r.Check("C16.NOFAIL", fmt.Sprintf("result:value#%d", i), v.Op == "ext" && v.Name == "#0" && v.Args[0].Val == nocCall, p.InstrPos(st), "the cached result is the lookup's result")
	}
	// a non-zero rcode cannot yield success
	cfg, hits := pruneBy(p, noc, []assumption{cmpAssume("ResponseCode() != 0", "!=", func(e *core.Expr) bool { return e.Op == "call" && e.Name == "(dns.Message).ResponseCode" }, isConstName("0"))})
	okRC := len(hits["ResponseCode() != 0"]) > 0
	for _, ret := range core.Returns(noc) {
		if okRC && cfg.Live(ret.Block()) && cfg.ReachableFrom(hits["ResponseCode() != 0"][0].Block())[ret.Block()] && lastResultNil(ret) {
			okRC = false
		}
	}
	// ... and the code looked at is the whole extended code
	if rcf := p.Func(DNS, "(Message).ResponseCode"); rcf != nil {
		c13RCode(p, r, rcf, "C16.NOFAIL.rcode")
	}
	r.Check("C16.NOFAIL", "lookup:rcode-is-error", okRC, p.Pos(noc.Pos()), "a response with a non-zero (extended) response code always produces an error, whatever the code, so it is never cached as an empty answer")
	// DoH error propagates
	okE := false
	for _, ret := range core.Returns(noc) {
		e := p.X(retErr(ret))
		if e.Op == "ext" && e.Args[0].Name == "dns.DoH" {
			okE = true
		}
	}
	r.Check("C16.NOFAIL", "lookup:transport-error", okE, p.Pos(noc.Pos()), "a transport error of the DoH request is returned")

	// --- FRESH
	nCached := 0
	for _, ret := range core.Returns(one) {
		v := p.X(ret.Results[0])
		if !(v.Op == "field" && v.Obj == res) {
			continue
		}
		nCached++
		fresh, sameHold := false, false
		for _, f := range p.Facts(ret.Block()) {
			if f.Op == "true" && f.L.Op == "call" && f.L.Name == "(time.Time).Before" && len(f.L.Args) == 2 && f.L.Args[0].Op == "call" && f.L.Args[0].Args[0].Name == "ech.timeNow" && f.L.Args[1].Op == "field" && f.L.Args[1].Obj == exp {
				fresh = true
				// the answer returned was read while the lock that protected the
				// expiry just tested was still held: no release between the two reads
				ldExp, ok1 := f.L.Args[1].Val.(ssa.Instruction)
				resV := ret.Results[0]
				if u, isLoad := resV.(*ssa.UnOp); isLoad {
					// functions with defers return through result cells: take the value stored last
					if cell, isCell := u.X.(*ssa.Alloc); isCell {
						for _, in := range ret.Block().Instrs {
							if st, isSt := in.(*ssa.Store); isSt && st.Addr == ssa.Value(cell) {
								resV = st.Val
							}
						}
					}
				}
				// a value parked in a local that is written once (the named result
				// of an inlined accessor) is the value that was parked
				for n := 0; n < 4; n++ {
					u, isLoad := resV.(*ssa.UnOp)
					if !isLoad || u.Op != token.MUL {
						break
					}
					cell, isCell := u.X.(*ssa.Alloc)
					if !isCell {
						break
					}
					stores, calls := p.CellDefs(cell)
					if len(stores) != 1 || len(calls) != 0 {
						break
					}
					resV = stores[0].Val
				}
				ldRes, ok2 := resV.(ssa.Instruction)
				if ok1 && ok2 {
					sameHold = true
					for _, u := range callSites(p, []*ssa.Function{one}, `\(\*sync\.RWMutex\)\.(RUnlock|Unlock)`) {
						if _, isDefer := u.Instr.(*ssa.Defer); isDefer {
							continue
						}
						if core.Before(ldExp, u.Instr) && core.Before(u.Instr, ldRes) || core.Before(ldRes, u.Instr) && core.Before(u.Instr, ldExp) {
							sameHold = false
						}
					}
				}
			}
		}
		r.Check("C16.FRESH", fmt.Sprintf("cached-return#%d", nCached), fresh && sameHold, p.InstrPos(ret), "a cached answer is returned only under timeNow().Before(expiration) (%v), and it is the answer read under the same hold of the entry's lock as that expiry (%v)", fresh, sameHold)
	}
	r.Check("C16.FRESH", "cached-returns", nCached == 2, p.Pos(one.Pos()), "fast path and re-check under the write lock (found %d cached returns)", nCached)

	// --- SHARE
	c15Pure(p, r, "C16.SHARE")
	if rt := p.Func(Ech, "(*Transport).RoundTrip"); rt != nil {
		for _, s := range callSites(p, core.Closures(rt), `slices\.DeleteFunc`) {
			a := s.X.Args[0]
			ok := a.Any(func(e *core.Expr) bool { return e.Op == "call" && e.Name == "(ech.ResolveResult).clone" })
			r.Check("C16.SHARE", "RoundTrip:filter-on-clone", ok, p.InstrPos(s.Instr), "RoundTrip's in-place filter runs on clone() of the shared result: %s", short(a))
		}
	}
	// clone copies all reference fields
	if cl := p.Func(Ech, "(ResolveResult).clone"); cl != nil {
		fresh := 0
		for _, b := range cl.Blocks {
			for _, in := range b.Instrs {
				if st, ok := in.(*ssa.Store); ok {
					v := p.X(st.Val)
					if v.Op == "call" && (v.Name == "slices.Clone" || v.Name == "maps.Clone") {
						fresh++
					}
					// the same by hand: append onto a new empty slice, a new map filled
					// entry by entry
					if v.Op == "call" && v.Name == "append" && len(v.Args) >= 1 {
						if _, isSl := st.Val.(*ssa.Call).Call.Args[0].(*ssa.Slice); isSl {
							if base := v.Args[0]; base.Op == "slice" && base.Args[0].Op == "new" {
								fresh++
							}
						} else if _, isMk := st.Val.(*ssa.Call).Call.Args[0].(*ssa.MakeSlice); isMk {
							fresh++
						}
					}
					if _, isMap := st.Val.(*ssa.MakeMap); isMap {
						if fa, ok := st.Addr.(*ssa.FieldAddr); ok && fieldVar(fa) != nil && fieldVar(fa).Name() == "Additional" {
							fresh++
						}
					}
				}
			}
		}
		r.Check("C16.SHARE", "clone:copies", fresh == 3, p.Pos(cl.Pos()), "clone() copies Address, HTTPS and Additional (%d fresh copies)", fresh)
	}

	// the slice resolveOne returns IS the cached one: nobody may reorder or overwrite it
	fromCache := func(e *core.Expr) bool {
		return e.Any(func(x *core.Expr) bool {
			return x.Op == "call" && x.Fn != nil && (sameFn(x.Fn, one) || sameFn(x.Fn, noc)) || x.Op == "field" && x.Obj == res
		})
	}
	nUse, nMut := 0, 0
	for _, fn := range pkg {
		for _, b := range fn.Blocks {
			for _, in := range b.Instrs {
				switch x := in.(type) {
				case *ssa.Call:
					cx := p.X(x)
					var dst *core.Expr
					switch {
					case matches(`^(sort\.(Slice|SliceStable|Sort|Stable|Strings|Ints)|slices\.(Sort.*|Reverse|DeleteFunc|Delete|Compact.*|Insert|Replace|Grow|Clip))$`, cx.Name) && len(cx.Args) > 0:
						dst = cx.Args[0]
					case cx.Op == "call" && (cx.Name == "copy" || cx.Name == "clear" || cx.Name == "append") && len(cx.Args) > 0:
						if _, isB := x.Call.Value.(*ssa.Builtin); isB {
							dst = cx.Args[0]
						}
					}
					if dst == nil {
						continue
					}
					if fromCache(dst) {
						nMut++
						r.Check("C16.SHARE", "cached-slice-readonly:"+p.FuncName(fn)+":"+cx.Name, false, p.InstrPos(x), "%s works in place on the slice kept in the cache (%s): concurrent Resolve calls and earlier results share it", cx.Name, short(dst))
					}
				case *ssa.Store:
					if ia, ok := x.Addr.(*ssa.IndexAddr); ok {
						if base := p.X(ia.X); fromCache(base) {
							nMut++
							r.Check("C16.SHARE", "cached-slice-readonly:"+p.FuncName(fn)+":store", false, p.InstrPos(x), "an element of the slice kept in the cache is overwritten (%s)", short(base))
						}
					}
				case *ssa.Range, *ssa.Index, *ssa.IndexAddr:
					var base ssa.Value
					switch y := x.(type) {
					case *ssa.Range:
						base = y.X
					case *ssa.Index:
						base = y.X
					case *ssa.IndexAddr:
						base = y.X
					}
					if fromCache(p.X(base)) {
						nUse++
					}
				}
			}
		}
	}
	// what a result hands out (the lists of a ResolveResult, of its HTTPS records
	// and of the Targets made from them) is shared with the cache and with every
	// other holder of the result: the only code that may work on such a list in
	// place is code that owns a fresh copy (a local being built, clone())
	sharedField := func(e *core.Expr) bool {
		if e.Op != "field" {
			return false
		}
		switch e.Name {
		case "ALPN", "ECH", "IPv4Hint", "IPv6Hint", "Address", "HTTPS", "Additional":
			return true
		}
		return false
	}
	var rootOf func(e *core.Expr, depth int) string
	rootOf = func(e *core.Expr, depth int) string {
		if e == nil || depth > 12 {
			return "?"
		}
		switch e.Op {
		case "field", "index", "slice", "deref", "conv", "lookup":
			return rootOf(e.Args[0], depth+1)
		case "new":
			return "local"
		case "call":
			switch {
			case e.Name == "append" && len(e.Args) > 0:
				if len(e.Args) > 0 && (e.Args[0].Name == "nil" || e.Args[0].Op == "const") {
					return "fresh"
				}
				return rootOf(e.Args[0], depth+1)
			case matches(`slices\.(Clone|Concat)|maps\.Clone|bytes\.Clone|\(ech\.ResolveResult\)\.clone`, e.Name):
				return "fresh"
			}
			return "call"
		case "phi", "cell":
			worst := "fresh"
			for _, a := range e.Args {
				if k := rootOf(a, depth+1); k != "fresh" && k != "local" {
					worst = k
				}
			}
			return worst
		case "const":
			return "fresh"
		}
		return e.Op
	}
	nShared := 0
	for _, fn := range pkg {
		for _, s := range allCalls(p, []*ssa.Function{fn}) {
			cx := s.X
			if len(cx.Args) == 0 || !matches(`^(sort\.(Slice|SliceStable|Sort|Stable|Strings|Ints)|slices\.(Sort.*|Reverse|DeleteFunc|Delete|Compact.*|Insert|Replace)|append|copy|clear)$`, cx.Name) {
				continue
			}
			dst := cx.Args[0]
			if cx.Name == "append" {
				if sl, ok := s.Instr.Common().Args[0].(*ssa.Slice); ok && sl.Max != nil {
					continue
				}
			}
			// the lists the destination can be: through re-slicing, the ways of a
			// merge and earlier appends onto the same list
			var leaves []*core.Expr
			var expand func(e *core.Expr, depth int)
			expand = func(e *core.Expr, depth int) {
				if e == nil || depth > 8 {
					return
				}
				switch {
				case e.Op == "slice" || e.Op == "conv":
					expand(e.Args[0], depth+1)
				case e.Op == "phi" || e.Op == "cell":
					for _, a := range e.Args {
						expand(a, depth+1)
					}
				case e.Op == "call" && e.Name == "append" && len(e.Args) > 0:
					expand(e.Args[0], depth+1)
				default:
					leaves = append(leaves, e)
				}
			}
			expand(dst, 0)
			root := ""
			for _, base := range leaves {
				if !sharedField(base) {
					continue
				}
				k := rootOf(base, 0)
				// (clone() and slices.Clone copy one level: the lists inside the
				// elements of a copied list are still the shared ones)
				if k == "fresh" && base.Args[0].Op == "index" {
					inner := base.Args[0].Args[0]
					for inner.Op == "slice" || inner.Op == "conv" {
						inner = inner.Args[0]
					}
					if sharedField(inner) && rootOf(inner, 0) == "fresh" {
						k = "a shallow copy"
					}
				}
				if k != "local" && k != "fresh" {
					root = k
				}
			}
			if root == "" {
				continue
			}
			nShared++
			r.Check("C16.SHARE", fmt.Sprintf("result-lists-readonly:%s:%s#%d", p.FuncName(core.Root(fn)), cx.Name, nShared), false, p.InstrPos(s.Instr), "%s works in place on %s, a list a resolution result shares with the cache and its other holders (it comes from %s, not from a copy)", cx.Name, short(dst), root)
		}
	}
	r.Check("C16.SHARE", "result-lists-readonly", nShared == 0, p.Pos(one.Pos()), "in-place operations on lists of shared results outside their owners: %d", nShared)
	r.Check("C16.SHARE", "cached-slice-readonly", nMut == 0 && nUse >= 3, p.Pos(one.Pos()), "the slices handed out by resolveOne (the cache's own) are only read: %d element reads, %d in-place operations", nUse, nMut)

	// --- RACE0
	rs := p.Func(Ech, "(*Resolver).Resolve")
	nBad := 0
	resolverType := p.ByPath[Ech].Pkg.Scope().Lookup("Resolver")
	for _, fn := range reachableFuncs(p, rs) {
		for _, b := range fn.Blocks {
			for _, in := range b.Instrs {
				st, ok := in.(*ssa.Store)
				if !ok {
					continue
				}
				switch a := st.Addr.(type) {
				case *ssa.Global:
					nBad++
					r.Check("C16.RACE0", "store-global:"+a.Name(), false, p.InstrPos(st), "Resolve writes package-level variable %s", a.Name())
				case *ssa.FieldAddr:
					if nt, ok := deref2(a.X.Type()).(*types.Named); ok && resolverType != nil && nt.Obj() == resolverType {
						nBad++
						r.Check("C16.RACE0", "store-resolver-field", false, p.InstrPos(st), "Resolve writes a Resolver field")
					}
				}
			}
		}
	}
	r.Check("C16.RACE0", "census", nBad == 0, p.Pos(rs.Pos()), "functions reachable from Resolve store to no global and no Resolver field (%d found)", nBad)

	// ... of its own: two resolvers (for two services) never share answers
	ownState(p, r, "C16.OWN", Ech, "Resolver", "cache")
	// the container all lookups share: each of its operations takes the
	// container's own lock first, or the resolver holds a lock of its own
	// around the call
	cacheF := field(p, Ech, "Resolver", "cache")
	var resolverMus []*types.Var
	if resolverType != nil {
		if st, ok := resolverType.Type().Underlying().(*types.Struct); ok {
			for i := 0; i < st.NumFields(); i++ {
				if t := st.Field(i).Type().String(); t == "sync.Mutex" || t == "sync.RWMutex" {
					resolverMus = append(resolverMus, st.Field(i))
				}
			}
		}
	}
	nOps := 0
	for _, fn := range reachableFuncs(p, rs) {
		if !inModule(p, fn) {
			continue
		}
		var states []map[ssa.Instruction]int
		for _, s := range allCalls(p, []*ssa.Function{fn}) {
			c := s.Instr.Common()
			if cacheF == nil || len(c.Args) == 0 || c.IsInvoke() {
				continue
			}
			recv := p.X(c.Args[0])
			if !(recv.Op == "field" && recv.Obj == cacheF) {
				continue
			}
			nOps++
			callee := c.StaticCallee()
			own := false
			if callee != nil && len(callee.Blocks) > 0 && len(callee.Params) > 0 {
				for _, in := range callee.Blocks[0].Instrs {
					cc, isCall := in.(*ssa.Call)
					if !isCall {
						continue
					}
					if sc := cc.Call.StaticCallee(); sc != nil && len(cc.Call.Args) == 1 {
						switch sc.String() {
						case "(*sync.RWMutex).RLock", "(*sync.RWMutex).Lock", "(*sync.Mutex).Lock":
							if fa, isFA := cc.Call.Args[0].(*ssa.FieldAddr); isFA && fa.X == ssa.Value(callee.Params[0]) {
								own = true
							}
						}
					}
					break // the first call decides
				}
			}
			held := false
			if !own {
				if states == nil {
					for _, mu := range resolverMus {
						states = append(states, lockStates(p, fn, mu))
					}
				}
				for _, st := range states {
					if st[s.Instr] == lkW {
						held = true
					}
				}
			}
			r.Check("C16.RACE0", fmt.Sprintf("container:%s:%s#%d", p.FuncName(fn), lastDot(s.X.Name), nOps), own || held, p.InstrPos(s.Instr), "%s on the cache all lookups share begins by taking the container's own lock (%v) or runs under a lock of the resolver (%v)", s.X.Name, own, held)
		}
	}
	r.Check("C16.RACE0", "container", nOps >= 3, p.Pos(rs.Pos()), "operations on the shared cache found under Resolve: %d", nOps)
}

// lockStates computes, for every instruction of fn, the state of the mutex
// field mu (of whatever single entry the function locks).
func lockStates(p *core.Prog, fn *ssa.Function, mu *types.Var) map[ssa.Instruction]int {
	in := map[*ssa.BasicBlock]int{}
	out := map[*ssa.BasicBlock]int{}
	for _, b := range fn.Blocks {
		in[b], out[b] = -1, -1
	}
	state := map[ssa.Instruction]int{}
	onMu := func(c *ssa.CallCommon) bool {
		if len(c.Args) == 0 {
			return false
		}
		fa, ok := c.Args[0].(*ssa.FieldAddr)
		return ok && fieldVar(fa) == mu
	}
	transfer := func(b *ssa.BasicBlock, s int) int {
		for _, ins := range b.Instrs {
			state[ins] = s
			if c, ok := ins.(*ssa.Call); ok && onMu(&c.Call) {
				switch p.X(c).Name {
				case "(*sync.RWMutex).RLock":
					s = lkR
				case "(*sync.RWMutex).Lock", "(*sync.Mutex).Lock":
					s = lkW
				case "(*sync.RWMutex).RUnlock", "(*sync.RWMutex).Unlock", "(*sync.Mutex).Unlock":
					s = lkNone
				}
			}
		}
		return s
	}
	if len(fn.Blocks) == 0 {
		return state
	}
	in[fn.Blocks[0]] = lkNone
	for changed := true; changed; {
		changed = false
		for _, b := range fn.Blocks {
			s := in[b]
			if b != fn.Blocks[0] {
				s = -1
				for _, pr := range b.Preds {
					o := out[pr]
					if o < 0 {
						continue
					}
					if s < 0 {
						s = o
					} else if s != o {
						s = lkTop
					}
				}
			}
			if s < 0 {
				continue
			}
			in[b] = s
			o := transfer(b, s)
			if o != out[b] {
				out[b] = o
				changed = true
			}
		}
	}
	for ins, s := range state {
		if s == lkTop {
			state[ins] = lkNone
		}
	}
	return state
}

// c16Minimum checks that the ttl returned by the lookup is a minimum over all
// answer records.
func c16Minimum(p *core.Prog, r *core.Run, noc *ssa.Function) {
	var ttlPhi *ssa.Phi
	for _, ret := range core.Returns(noc) {
		if !lastResultNil(ret) || len(ret.Results) != 3 {
			continue
		}
		ph, ok := ret.Results[1].(*ssa.Phi)
		if !ok {
			r.Check("C16.TTL", "lookup:ttl-shape", false, p.InstrPos(ret), "the ttl returned with an answer is not a value accumulated over the answer loop: %s", short(p.X(ret.Results[1])))
			return
		}
		ttlPhi = ph
	}
	if ttlPhi == nil {
		r.Undecided("C16.TTL", "lookup:ttl", p.Pos(noc.Pos()), "no successful return with a ttl")
		return
	}
	loops := core.Loops(noc)
	body := loops[ttlPhi.Block()]
	if body == nil {
		r.Check("C16.TTL", "lookup:ttl-shape", false, p.InstrPos(ttlPhi), "the ttl is not carried by the answer loop")
		return
	}
	isTTL := func(e *core.Expr) bool {
		return e.Op == "field" && e.Name == "TTL" && e.Args[0].Op == "index" && e.Args[0].Args[0].Op == "field" && e.Args[0].Args[0].Name == "Answer"
	}
	// walk the values that can flow into the header φ from inside the loop
	okAll := true
	var cmpBlocks []*ssa.BasicBlock
	var visit func(v ssa.Value, from *ssa.BasicBlock, to *ssa.BasicBlock, seen map[ssa.Value]bool)
	visit = func(v ssa.Value, from, to *ssa.BasicBlock, seen map[ssa.Value]bool) {
		if v == ssa.Value(ttlPhi) {
			return // unchanged
		}
		if ph, ok := v.(*ssa.Phi); ok {
			if seen[ph] {
				return
			}
			seen[ph] = true
			for i, e := range ph.Edges {
				visit(e, ph.Block().Preds[i], ph.Block(), seen)
			}
			return
		}
		// min(running value, record's TTL): the comparison and the update in one
		if c, ok := v.(*ssa.Call); ok && len(c.Call.Args) == 2 {
			if bi, isB := c.Call.Value.(*ssa.Builtin); isB && bi.Name() == "min" {
				a0, a1 := c.Call.Args[0], c.Call.Args[1]
				if a0 == ssa.Value(ttlPhi) && isTTL(p.X(a1)) || a1 == ssa.Value(ttlPhi) && isTTL(p.X(a0)) {
					cmpBlocks = append(cmpBlocks, c.Block())
					return
				}
			}
		}
		x := p.X(v)
		if !isTTL(x) {
			okAll = false
			r.Check("C16.TTL", "lookup:ttl-update", false, p.InstrPos(ttlPhi), "the ttl is updated with %s, which is not an answer record's TTL", short(x))
			return
		}
		// the edge on which the record's TTL is taken: first record, or current > TTL
		var okEdge func(from, to *ssa.BasicBlock, depth int) bool
		okEdge = func(from, to *ssa.BasicBlock, depth int) bool {
			for _, f := range p.EdgeFacts(from, to) {
				if f.Op == ">" && f.L.Val == ssa.Value(ttlPhi) && isTTL(f.R) || f.Op == "<" && isTTL(f.L) && f.R.Val == ssa.Value(ttlPhi) {
					cmpBlocks = append(cmpBlocks, f.G.If.Block())
					return true
				}
				if f.Op == "==" && f.R.Name == "0" && f.L.Op == "bin" && f.L.Name == "+" { // range index == 0
					return true
				}
			}
			if depth > 3 || len(from.Preds) < 2 {
				return false
			}
			for _, pr := range from.Preds {
				if !okEdge(pr, from, depth+1) {
					return false
				}
			}
			return true
		}
		if !okEdge(from, to, 0) {
			okAll = false
			r.Check("C16.TTL", "lookup:ttl-update", false, p.InstrPos(ttlPhi), "a record's TTL replaces the running value on an edge that is neither 'first record' nor 'running value > TTL': %s", shortStr(core.FactStrings(p.EdgeFacts(from, to))))
		}
	}
	hdr := ttlPhi.Block()
	init := ""
	for i, e := range ttlPhi.Edges {
		pred := hdr.Preds[i]
		if !body[pred] {
			init = p.X(e).String()
			continue
		}
		visit(e, pred, hdr, map[ssa.Value]bool{})
	}
	r.Check("C16.TTL", "lookup:ttl-minimum", okAll && len(cmpBlocks) > 0, p.InstrPos(ttlPhi), "the returned ttl is a running minimum of the answer records' TTLs (initial value %s for responses without answers)", init)
	// every iteration passes through the comparison
	uniq := map[*ssa.BasicBlock]bool{}
	for _, cb := range cmpBlocks {
		if uniq[cb] {
			continue
		}
		uniq[cb] = true
		all := true
		for b := range body {
			for _, s := range b.Succs {
				if s == hdr && !(cb == b || cb.Dominates(b)) {
					all = false
				}
			}
		}
		// the comparison chain starts at the loop body's entry: allow the "first record" test in front of it
		r.Check("C16.TTL", "lookup:ttl-every-record", all || firstTestDominates(p, cb, hdr, body), p.InstrPos(cb.Instrs[len(cb.Instrs)-1]), "every answer record takes part in the minimum: no way round the loop (for example an earlier `continue` for CNAME records) bypasses the TTL comparison")
	}
}

// firstTestDominates: the comparison block is reached from an `i == 0` test
// that itself dominates every back edge.
func firstTestDominates(p *core.Prog, cb, hdr *ssa.BasicBlock, body map[*ssa.BasicBlock]bool) bool {
	for _, pr := range cb.Preds {
		iff, ok := pr.Instrs[len(pr.Instrs)-1].(*ssa.If)
		if !ok {
			continue
		}
		f := p.FactOf(core.Guard{Cond: iff.Cond, Pol: true, If: iff})
		if f.Op == "==" && f.R != nil && f.R.Name == "0" {
			all := true
			for b := range body {
				for _, s := range b.Succs {
					if s == hdr && !(pr == b || pr.Dominates(b)) {
						all = false
					}
				}
			}
			return all
		}
	}
	return false
}

// c16CacheKey: an answer is filed under the question it answers. The key of
// every cache operation in resolveOne is a struct value that carries the name
// and the record type asked for in two fields of their own, so that two
// different questions never share an entry (a key glued together from both,
// or one that leaves a part out, lets one question's answer be served for
// another).
func c16CacheKey(p *core.Prog, r *core.Run, one *ssa.Function) {
	var strs []*ssa.Parameter
	for _, prm := range one.Params {
		if b, ok := prm.Type().Underlying().(*types.Basic); ok && b.Kind() == types.String {
			strs = append(strs, prm)
		}
	}
	if len(strs) != 2 {
		r.Undecided("C16.KEY", "resolveOne:question", p.Pos(one.Pos()), "resolveOne does not take exactly a name and a record type (%d string parameters)", len(strs))
		return
	}
	mentions := func(v ssa.Value, prm *ssa.Parameter) bool {
		return p.X(v).Any(func(e *core.Expr) bool { return e.Val == ssa.Value(prm) })
	}
	n := 0
	for _, s := range allCalls(p, core.Closures(one)) {
		if !matches(`\(\*.*lru\.\w+(\[.*\])?\)\.(Get|Add|Peek|Contains|ContainsOrAdd|PeekOrAdd|Remove)`, s.X.Name) {
			continue
		}
		args := s.Instr.Common().Args
		if len(args) < 2 {
			continue
		}
		n++
		key := args[1]
		st, isStruct := key.Type().Underlying().(*types.Struct)
		ok := false
		why := "the key is not a struct value"
		if isStruct {
			nameF, typF := -1, -1
			why = "no field holds the name alone and another the type alone"
			for i := 0; i < st.NumFields(); i++ {
				vals := core.StructFieldValues(key, i)
				if len(vals) == 0 {
					continue
				}
				allName, allTyp := true, true
				for _, v := range vals {
					mn, mt := mentions(v, strs[0]), mentions(v, strs[1])
					allName = allName && mn && !mt
					allTyp = allTyp && mt && !mn
				}
				if allName && nameF < 0 {
					nameF = i
				} else if allTyp && typF < 0 {
					typF = i
				}
			}
			ok = nameF >= 0 && typF >= 0
		}
		if ok {
			why = "name and type each in a field of its own"
		}
		r.Check("C16.KEY", fmt.Sprintf("resolveOne:%s#%d", s.X.Name[strings.LastIndex(s.X.Name, ".")+1:], n), ok, p.InstrPos(s.Instr), "the cache is addressed by the question asked (%s): %s", why, short(p.X(key)))
	}
	r.Check("C16.KEY", "resolveOne:cache-operations", n >= 2, p.Pos(one.Pos()), "cache operations examined in resolveOne (%d)", n)
}
