package props

import (
	"fmt"
	"go/ast"
	"go/constant"
	"sort"
	"strings"

	"verif/third_party/xtools/go/ssa"

	"verif/internal/core"
)

func init() {
	register(&Property{
		ID: "C01",
		Info: core.Info{
			Explanation: "Decides necessary conditions of an end-to-end split-mode handshake that a sampled handshake test cannot pin down (it seals and opens with the same package, uses one curve list, one certificate size): " +
				"(tables) the HelloRetryRequest random equals the RFC 8446 value and IsHelloRetryRequest compares ServerHello.random with it, read at the right offset; internal/hpke's AEAD table has Nk/Nn of RFC 9180 7.3 for ids 1,2,3, the KEM table Nsecret 32 for 0x0020, the KDF table id 1, and the labels fed to LabeledExtract/LabeledExpand are exactly the RFC 9180 labels; " +
				"(route) ServerName/ALPNProtos/ECHAccepted report the inner hello's values exactly when inner != nil, else the outer's; inner/outer are the handler's results; the first flight is inner.Marshal() iff inner != nil; " +
				"(hrr) the HelloRetryRequest path stays armed: rules M1-M3 of C06 (counter incremented only for an HRR, retry mode entered for the next ClientHello record, read side not switched to passthrough by anything but application_data - for example not by the compatibility change_cipher_spec a real client sends before its second hello); " +
				"(inner) the reconstruction rules S1-S5 of C03 (a resumption handshake fails if the referenced outer extensions are not spliced in exactly where the marker stood); (stale) a hello that does not decrypt leaves the processor with errNoMatch, which the handler swallows, and nothing in the key loop aborts before a successful decryption, so the outer hello reaches the public-name server; " +
				"(pipe) passthrough reads and writes go straight to the underlying connection, and only when nothing is buffered (bytes of an incomplete record are never bypassed); (recsize) the record length limit is 2^14+256 in both directions with a buffer to match (rule B1 of C07: a 40 KB certificate chain produces full-size protected records). " +
				"Not decided: that a handshake actually completes for any client/backend configuration, PSK resumption interop, key-share sizes, application data flow - those need two executing TLS stacks.",
		},
		Rules: c01Rules,
	})
}

func c01Rules(p *core.Prog, r *core.Run) {
	m := newEchModel(p)
	if !m.ok(r, "C01.model") {
		return
	}
	r.Analysed(p.FuncName(m.newConn), p.FuncName(m.read), p.FuncName(m.write), p.FuncName(m.inspect), p.FuncName(m.handle), p.FuncName(m.process))
	// tables
	c06HRR(p, r, "C01.tables")
	hpkeTables(p, r, "C01.tables")
	serverHelloPrefix(p, r, "C01.tables")
	// route
	c01Accessors(p, r, m, "C01.route")
	c01Route(p, r, m, "C01.route")
	// ... and the names reported (and compared with the config's public name)
	// are the names as the client wrote them
	c05SniAlpn(p, r, m, "C01.route.parse")
	// hrr
	c06State(p, r, m, "C01.hrr")
	// the reconstructed inner hello is exact (extension order matters: pre_shared_key must stay last)
	c03Splice(p, r, m, "C01.inner")
	// every key the server was given is a candidate
	c09Keys(p, r, m, "C01.keys")
	// stale
	keyLoopExits(p, r, m, "C01.stale")
	// recsize
	recordLimit(p, r, m, "C01.recsize")
	// application data flows: passthrough is direct and never bypasses buffered bytes
	c05Direct(p, r, m, "C01.pipe")
	c07Buffers(p, r, m, "C01.pipe.buffers")
	// the connection NewConn hands over is usable in both directions: what the
	// context watcher set on it is undone completely (a leftover write deadline
	// makes the backend's first flight fail)
	watcherRules(p, r, "C01.ctx")
	// the HelloRetryRequest of the backend is seen: nothing reaches the
	// transport past Write
	transportCensus(p, r, m, "C01.pipe.census")
}

// c01Accessors checks ServerName, ALPNProtos, ECHAccepted.
func c01Accessors(p *core.Prog, r *core.Run, m *echModel, rule string) {
	type acc struct{ name, fld string }
	for _, a := range []acc{{"ServerName", "ServerName"}, {"ALPNProtos", "ALPNProtos"}} {
		fn := p.Func(Ech, "(*Conn)."+a.name)
		if fn == nil {
			r.Undecided(rule, "accessor:"+a.name, "-", "method not found")
			continue
		}
		r.Analysed(p.FuncName(fn))
		fld := m.fCH[a.fld]
		source := func(e *core.Expr) string {
			// the hello the value is read from: inner / outer / other
			for e.Op == "call" && (e.Name == "slices.Clone" || e.Name == "append") && len(e.Args) > 0 {
				e = e.Args[len(e.Args)-1]
				if e.Op == "call" {
					continue
				}
			}
			if e.Op == "field" && e.Obj == fld && e.Args[0].Op == "field" {
				switch e.Args[0].Obj {
				case m.fConn["inner"]:
					return "inner"
				case m.fConn["outer"]:
					return "outer"
				}
			}
			if e.Op == "const" {
				return "none"
			}
			return "other"
		}
		var innerRet, outerRet bool
		for _, ret := range core.Returns(fn) {
			src := source(p.X(ret.Results[0]))
			fs := p.Facts(ret.Block())
			switch src {
			case "inner":
				ok := false
				for _, f := range fs {
					if f.Op == "!=" && f.R.Name == "nil" && f.L.Op == "field" && f.L.Obj == m.fConn["inner"] {
						ok = true
					}
				}
				innerRet = innerRet || ok
				r.Check(rule, a.name+":inner", ok, p.InstrPos(ret), "%s() reports the inner hello's value under inner != nil", a.name)
			case "outer":
				outerRet = true
			case "none":
			default:
				r.Check(rule, a.name+":other", false, p.InstrPos(ret), "%s() returns a value that is neither the inner nor the outer hello's: %s", a.name, short(p.X(ret.Results[0])))
			}
		}
		// with inner != nil (and the receiver non-nil) assumed, the outer's value cannot be returned
		cfg, hits := pruneBy(p, fn, []assumption{
			cmpAssume("c.inner != nil", "!=", func(e *core.Expr) bool { return e.Op == "field" && e.Obj == m.fConn["inner"] }, isConstName("nil")),
			cmpAssume("c != nil", "!=", func(e *core.Expr) bool { return e.Op == "param" && e.Name == "p0" }, isConstName("nil")),
		})
		leak := len(hits["c.inner != nil"]) == 0
		for _, ret := range core.Returns(fn) {
			if cfg.Live(ret.Block()) && source(p.X(ret.Results[0])) != "inner" {
				leak = true
			}
		}
		r.Check(rule, a.name+":prefers-inner", !leak && innerRet && outerRet, p.Pos(fn.Pos()), "%s(): whenever an inner hello exists its value is the one reported, the outer's otherwise", a.name)
	}
	fn := p.Func(Ech, "(*Conn).ECHAccepted")
	if fn == nil {
		r.Undecided(rule, "accessor:ECHAccepted", "-", "method not found")
		return
	}
	ok := false
	for _, ret := range core.Returns(fn) {
		x := p.X(ret.Results[0])
		x.Walk(func(e *core.Expr) bool {
			if e.Op == "bin" && e.Name == "!=" && e.Args[1].Name == "nil" && e.Args[0].Op == "field" && e.Args[0].Obj == m.fConn["inner"] {
				ok = true
			}
			return true
		})
	}
	// must not mention anything else of the Conn (e.g. outer)
	clean := true
	for _, ret := range core.Returns(fn) {
		if p.X(ret.Results[0]).Any(func(e *core.Expr) bool { return e.Op == "field" && e.Obj != m.fConn["inner"] }) {
			clean = false
		}
	}
	r.Check(rule, "ECHAccepted", ok && clean, p.Pos(fn.Pos()), "ECHAccepted() is exactly 'an inner hello exists'")
}

// hpkeTables compares internal/hpke's constant tables with RFC 9180 section 7.
func hpkeTables(p *core.Prog, r *core.Run, rule string) {
	pk := p.PkgByP[HPKE]
	if pk == nil {
		r.Undecided(rule, "hpke", "-", "package internal/hpke not loaded")
		return
	}
	// the package's constructors hand back a context or an error, never
	// neither: "no context, no error" means "first hello without enc" to the caller
	for _, n := range []string{"SetupReceipient", "ParseHPKEPrivateKey"} {
		if fn := p.Func(HPKE, n); fn != nil {
			valueOrError(p, r, rule, "hpke."+n, fn, nil)
		}
	}
	intOf := func(e ast.Expr) (int64, bool) {
		v, ok := constOf(p, HPKE, e)
		if !ok {
			return 0, false
		}
		return constant.Int64Val(constant.ToInt(v))
	}
	// AEADs
	wantAEAD := map[int64][2]int64{1: {16, 12}, 2: {32, 12}, 3: {32, 12}}
	got := map[int64][2]int64{}
	if e, _ := globalLit(p, HPKE, "SupportedAEADs"); e != nil {
		if cl, ok := e.(*ast.CompositeLit); ok {
			for _, el := range cl.Elts {
				kv, ok := el.(*ast.KeyValueExpr)
				if !ok {
					continue
				}
				id, ok1 := intOf(kv.Key)
				v, ok2 := kv.Value.(*ast.CompositeLit)
				if !ok1 || !ok2 {
					continue
				}
				var nk, nn int64 = -1, -1
				for i, fe := range v.Elts {
					if fkv, ok := fe.(*ast.KeyValueExpr); ok {
						if id2, ok := fkv.Key.(*ast.Ident); ok {
							if val, ok := intOf(fkv.Value); ok {
								switch id2.Name {
								case "keySize":
									nk = val
								case "nonceSize":
									nn = val
								}
							}
						}
					} else if val, ok := intOf(fe); ok {
						if i == 0 {
							nk = val
						} else if i == 1 {
							nn = val
						}
					}
				}
				got[id] = [2]int64{nk, nn}
			}
		}
	}
	r.Tables["hpke_aead_nk_nn"] = fmt.Sprint(got)
	okA := len(got) == len(wantAEAD)
	for id, w := range wantAEAD {
		if got[id] != w {
			okA = false
		}
	}
	r.Check(rule, "hpke:SupportedAEADs", okA, p.Pos(pk.Syntax[0].Pos()), "AEAD table (id -> Nk, Nn) = %v, RFC 9180 7.3 says %v", got, wantAEAD)
	// KEMs
	okK := false
	if e, _ := globalLit(p, HPKE, "SupportedKEMs"); e != nil {
		if cl, ok := e.(*ast.CompositeLit); ok && len(cl.Elts) >= 1 {
			for _, el := range cl.Elts {
				kv, ok := el.(*ast.KeyValueExpr)
				if !ok {
					continue
				}
				id, _ := intOf(kv.Key)
				if v, ok := kv.Value.(*ast.CompositeLit); ok && id == 0x20 && len(v.Elts) == 3 {
					ns, _ := intOf(v.Elts[2])
					curve := exprString(v.Elts[0])
					hash := exprString(v.Elts[1])
					okK = ns == 32 && curve == "ecdh.X25519()" && hash == "crypto.SHA256"
				}
			}
		}
	}
	r.Check(rule, "hpke:SupportedKEMs", okK, p.Pos(pk.Syntax[0].Pos()), "KEM 0x0020 = DHKEM(X25519, HKDF-SHA256) with Nsecret 32 (RFC 9180 7.1)")
	okD := false
	if e, _ := globalLit(p, HPKE, "SupportedKDFs"); e != nil {
		if cl, ok := e.(*ast.CompositeLit); ok && len(cl.Elts) == 1 {
			if kv, ok := cl.Elts[0].(*ast.KeyValueExpr); ok {
				id, _ := intOf(kv.Key)
				okD = id == 1 && strings.Contains(exprString(kv.Value), "crypto.SHA256")
			}
		}
	}
	r.Check(rule, "hpke:SupportedKDFs", okD, p.Pos(pk.Syntax[0].Pos()), "KDF 0x0001 = HKDF-SHA256 (RFC 9180 7.2)")
	// labels
	fns := p.PkgFuncs(HPKE)
	var ext, exp []string
	for _, s := range callSites(p, fns, `\(\*hpke\.hkdfKDF\)\.LabeledExtract`) {
		if len(s.X.Args) == 5 {
			ext = append(ext, s.X.Args[3].Name)
		}
	}
	for _, s := range callSites(p, fns, `\(\*hpke\.hkdfKDF\)\.LabeledExpand`) {
		if len(s.X.Args) == 6 {
			exp = append(exp, s.X.Args[3].Name)
		}
	}
	sort.Strings(ext)
	sort.Strings(exp)
	wantExt := `"eae_prk","info_hash","psk_id_hash","secret"`
	wantExp := `"base_nonce","exp","key","shared_secret"`
	r.Check(rule, "hpke:labels-extract", strings.Join(ext, ",") == wantExt, p.Pos(pk.Syntax[0].Pos()), "LabeledExtract labels %v = RFC 9180 %s", ext, wantExt)
	r.Check(rule, "hpke:labels-expand", strings.Join(exp, ",") == wantExp, p.Pos(pk.Syntax[0].Pos()), "LabeledExpand labels %v = RFC 9180 %s", exp, wantExp)
	// version label and suite id prefixes
	consts := map[string]int{}
	for _, fn := range fns {
		for _, b := range fn.Blocks {
			for _, in := range b.Instrs {
				for _, op := range in.Operands(nil) {
					if c, ok := (*op).(*ssa.Const); ok && c.Value != nil && c.Value.Kind() == constant.String {
						consts[constant.StringVal(c.Value)]++
					}
				}
			}
		}
	}
	r.Check(rule, "hpke:version-label", consts["HPKE-v1"] == 2 && consts["KEM"] == 1 && consts["HPKE"] == 1, p.Pos(pk.Syntax[0].Pos()), `"HPKE-v1" in both labelled functions (%d), suite id prefixes "KEM" (%d) and "HPKE" (%d)`, consts["HPKE-v1"], consts["KEM"], consts["HPKE"])
}

func exprString(e ast.Expr) string {
	var b strings.Builder
	ast.Inspect(e, func(n ast.Node) bool {
		switch n := n.(type) {
		case *ast.Ident:
			b.WriteString(n.Name)
		case *ast.SelectorExpr:
			b.WriteString(exprString(n.X) + "." + n.Sel.Name)
			return false
		case *ast.CallExpr:
			b.WriteString(exprString(n.Fun) + "()")
			return false
		}
		return true
	})
	return b.String()
}

// serverHelloPrefix: the random compared by IsHelloRetryRequest is read at
// the right place: msg_type(1) length(3) legacy_version(2) random(32).
func serverHelloPrefix(p *core.Prog, r *core.Run, rule string) {
	fn := p.Func(Ech, "parseServerHello")
	if fn == nil {
		r.Undecided(rule, "parseServerHello", "-", "function not found")
		return
	}
	r.Analysed(p.FuncName(fn))
	var seq []string
	sites := callSites(p, []*ssa.Function{fn}, `\(\*cryptobyte\.String\)\.(Read.*|Skip)`)
	sort.SliceStable(sites, func(i, j int) bool { return core.Before(sites[i].Instr, sites[j].Instr) })
	for _, s := range sites {
		tok := lastDot(s.X.Name)
		switch tok {
		case "Skip":
			tok += "(" + s.X.Args[1].Name + ")"
		case "ReadBytes":
			tok += "(" + readTarget(p, s) + "," + s.X.Args[2].Name + ")"
		case "ReadUint8", "ReadUint16":
			tok += "(" + readTarget(p, s) + ")"
		}
		seq = append(seq, tok)
		if len(seq) == 4 {
			break
		}
	}
	want := "ReadUint8(local:msgType) Skip(3) ReadUint16(LegacyVersion) ReadBytes(Random,32)"
	r.Check(rule, "parseServerHello:prefix", strings.Join(seq, " ") == want, p.Pos(fn.Pos()), "ServerHello is read as msg_type(1) length(3) legacy_version(2) random(32): %s", strings.Join(seq, " "))
	// the extensions are carried, not interpreted: a HelloRetryRequest has the
	// ServerHello's shape but other extension bodies (its key_share is a bare
	// group), so a parser that looks inside them refuses real retries
	dataCursors := map[*ssa.Alloc]bool{}
	for _, b := range fn.Blocks {
		for _, in := range b.Instrs {
			st, ok := in.(*ssa.Store)
			if !ok {
				continue
			}
			a := p.X(st.Addr)
			if !(a.Op == "field" && a.Name == "Data") {
				continue
			}
			p.X(st.Val).Walk(func(e *core.Expr) bool {
				if e.Op == "out" && strings.Contains(e.Name, "LengthPrefixed") {
					if c, ok := e.Val.(*ssa.Call); ok && e.Idx >= 0 && e.Idx < len(c.Call.Args) {
						if al := p.CellRoot(c.Call.Args[e.Idx]); al != nil {
							dataCursors[al] = true
						}
					}
				}
				return true
			})
		}
	}
	nInside := 0
	for _, s := range callSites(p, []*ssa.Function{fn}, `\(\*?cryptobyte\.String\)\.(Read.*|Skip|Empty)`) {
		args := s.Instr.Common().Args
		if len(args) == 0 {
			continue
		}
		recv := args[0]
		if u, ok := recv.(*ssa.UnOp); ok {
			recv = u.X
		}
		if al := p.CellRoot(recv); al != nil && dataCursors[al] {
			nInside++
			r.Check(rule, fmt.Sprintf("parseServerHello:extension-body#%d", nInside), false, p.InstrPos(s.Instr), "%s looks inside an extension's body; a HelloRetryRequest's extensions do not have the ServerHello's layout", s.X.Name)
		}
	}
	r.Check(rule, "parseServerHello:extensions-carried", len(dataCursors) >= 1 && nInside == 0, p.Pos(fn.Pos()), "extension bodies are stored as they are and not parsed (%d reads inside them)", nInside)
}
