package props

import (
	"fmt"
	"go/token"
	"strings"

	"verif/third_party/xtools/go/ssa"

	"verif/internal/core"
)

// An assumption is a condition on the input whose consequences are studied
// by removing, from the control-flow graph, every branch edge that
// contradicts it. match is given the fact that holds on the TRUE edge of an
// If and answers +1 (that fact is the assumed condition: keep the true edge
// only), -1 (it is its negation: keep the false edge only) or 0 (unrelated).
type assumption struct {
	name    string
	match   func(f core.Fact) int
	context bool // sets the scene (e.g. isRetry) but is not itself the defect
}

func (a assumption) asContext() assumption { a.context = true; return a }

// pruneBy builds the view of fn under the assumptions and reports which Ifs
// each assumption decided.
func pruneBy(p *core.Prog, fn *ssa.Function, as []assumption) (*core.PrunedCFG, map[string][]*ssa.If) {
	decide := map[*ssa.BasicBlock]int{} // block -> which succ index to keep (+1: 0, -1: 1)
	hits := map[string][]*ssa.If{}
	implied := map[string][]*ssa.If{}
	for _, b := range fn.Blocks {
		if len(b.Instrs) == 0 {
			continue
		}
		iff, ok := b.Instrs[len(b.Instrs)-1].(*ssa.If)
		if !ok {
			continue
		}
		f := p.FactOf(core.Guard{Cond: iff.Cond, Pol: true, If: iff})
		direct := false
		for _, a := range as {
			if d := a.match(f); d != 0 {
				direct = true
				decide[b] = d
				if d == 1 || d == -1 {
					hits[a.name] = append(hits[a.name], iff)
				} else {
					implied[a.name] = append(implied[a.name], iff)
				}
			}
		}
		if !direct {
			// a condition computed beforehand (onlyIPv4 := network == "tcp4" || ...)
			// and tested through a variable: evaluate its definition
			if val, known, used := evalCondUnder(p, iff.Cond, as, 0); known {
				if val {
					decide[b] = 2
				} else {
					decide[b] = -2
				}
				for _, a := range used {
					implied[a] = append(implied[a], iff)
				}
			}
		}
	}
	// a condition that is never tested as such may still be decided by a case
	// analysis (x > 1 by "case 0, case 1, default"): those tests stand in
	for _, a := range as {
		if len(hits[a.name]) == 0 && len(implied[a.name]) > 0 {
			hits[a.name] = implied[a.name]
		}
	}
	cfg := core.Prune(fn, func(from *ssa.BasicBlock, succ int) bool {
		d, ok := decide[from]
		if !ok {
			return true
		}
		return (d > 0) == (succ == 0)
	})
	return cfg, hits
}

// abortUnder decides: under the assumptions, fn cannot return successfully,
// and the returns that the assumptions lead to carry exactly the sentinel.
func abortUnder(p *core.Prog, r *core.Run, rule, key string, fn *ssa.Function, as []assumption, sentinel string, isSuccess func(*ssa.Return) bool) {
	if fn == nil {
		r.Undecided(rule, key, "-", "function not found")
		return
	}
	cfg, hits := pruneBy(p, fn, as)
	pos := p.Pos(fn.Pos())
	var names []string
	for _, a := range as {
		names = append(names, a.name)
		if len(hits[a.name]) == 0 {
			r.Check(rule, key, false, pos, "no branch of %s tests the condition %q: a hello with that defect is not detected", p.FuncName(fn), a.name)
			return
		}
		pos = p.InstrPos(hits[a.name][0])
	}
	what := strings.Join(names, " ∧ ")
	for _, ret := range core.Returns(fn) {
		if cfg.Live(ret.Block()) && isSuccess(ret) {
			r.Check(rule, key, false, p.InstrPos(ret), "under %q the successful return at %s is still reachable (guards there: %s)", what, p.InstrPos(ret), shortStr(core.FactStrings(factsIn(p, cfg, ret.Block()))))
			return
		}
	}
	caused := 0
	from := map[*ssa.BasicBlock]bool{}
	for _, a := range as {
		if a.context {
			continue
		}
		for _, iff := range hits[a.name] {
			if !cfg.Live(iff.Block()) {
				continue
			}
			for b := range cfg.ReachableFrom(iff.Block()) {
				from[b] = true
			}
		}
	}
	for _, ret := range core.Returns(fn) {
		if !from[ret.Block()] {
			continue
		}
		caused++
		got := errorSentinels(p, retErr(ret))
		ok := len(got) == 1 && got[0] == sentinel
		if !ok {
			r.Check(rule, key, false, p.InstrPos(ret), "under %q the call returns %v at %s, want exactly %s", what, got, p.InstrPos(ret), sentinel)
			return
		}
	}
	r.Check(rule, key, caused >= 1, pos, "under %q no successful return of %s is reachable and the %d return(s) it leads to carry %s", what, p.FuncName(fn), caused, sentinel)
}

// immediateAbort decides the per-iteration form: some If tests the
// condition, and the edge on which it holds leads - without any way back
// into a loop or to a successful return - only to returns carrying the
// sentinel.
func immediateAbort(p *core.Prog, r *core.Run, rule, key string, fn *ssa.Function, a assumption, sentinel string, isSuccess func(*ssa.Return) bool) {
	if fn == nil {
		r.Undecided(rule, key, "-", "function not found")
		return
	}
	n := 0
	for _, b := range fn.Blocks {
		if len(b.Instrs) == 0 {
			continue
		}
		iff, ok := b.Instrs[len(b.Instrs)-1].(*ssa.If)
		if !ok {
			continue
		}
		tf := p.FactOf(core.Guard{Cond: iff.Cond, Pol: true, If: iff})
		d := a.match(tf)
		if d != 1 && d != -1 {
			continue // unrelated, or only decided by implication
		}
		n++
		target := b.Succs[0]
		if d < 0 {
			target = b.Succs[1]
		}
		reach := core.Reachable(target, nil)
		if reach[b] {
			r.Check(rule, key, false, p.InstrPos(iff), "when %q holds, control can return to the test (the defect is skipped over instead of aborting)", a.name)
			return
		}
		rets := 0
		for blk := range reach {
			if len(blk.Instrs) == 0 {
				continue
			}
			ret, ok := blk.Instrs[len(blk.Instrs)-1].(*ssa.Return)
			if !ok {
				continue
			}
			rets++
			got := errorSentinels(p, retErr(ret))
			if isSuccess(ret) || len(got) != 1 || got[0] != sentinel {
				r.Check(rule, key, false, p.InstrPos(ret), "when %q holds, the return at %s carries %v (success: %v), want exactly %s", a.name, p.InstrPos(ret), got, isSuccess(ret), sentinel)
				return
			}
		}
		if rets == 0 {
			r.Check(rule, key, false, p.InstrPos(iff), "when %q holds, no return is reached", a.name)
			return
		}
	}
	if n == 0 {
		// no single test of the condition: it may be decided by a case analysis
		// (x > 1 by "case 0 ... case 1 ... default"). Under the assumption, from
		// the first deciding test on, only returns with the sentinel may be
		// reachable, and control may not come back to a deciding test.
		cfg, hits := pruneBy(p, fn, []assumption{a})
		if len(hits[a.name]) > 0 {
			okAll, rets := true, 0
			why := ""
			for _, iff := range hits[a.name] {
				if !cfg.Live(iff.Block()) {
					continue
				}
				for b := range cfg.ReachableFrom(iff.Block()) {
					if b != iff.Block() {
						for _, h := range hits[a.name] {
							if h.Block() == b && core.CanReach(b, iff.Block()) && cfg.ReachableFrom(b)[iff.Block()] {
								okAll, why = false, "control can return to the case analysis"
							}
						}
					}
					if len(b.Instrs) == 0 {
						continue
					}
					ret, ok := b.Instrs[len(b.Instrs)-1].(*ssa.Return)
					if !ok {
						continue
					}
					rets++
					got := errorSentinels(p, retErr(ret))
					if isSuccess(ret) || len(got) != 1 || got[0] != sentinel {
						okAll, why = false, fmt.Sprintf("the return at %s carries %v", p.InstrPos(ret), got)
					}
				}
			}
			r.Check(rule, key, okAll && rets > 0, p.InstrPos(hits[a.name][0]), "%q is decided by a case analysis (%d tests); under it only returns carrying %s are reachable (%d returns) %s", a.name, len(hits[a.name]), sentinel, rets, why)
			return
		}
	}
	r.Check(rule, key, n >= 1, p.Pos(fn.Pos()), "%d branch(es) of %s test %q and each leads only to returns carrying %s", n, p.FuncName(fn), a.name, sentinel)
}

// lastResultNil: the error result is the nil constant, also when the function
// spills its results into cells (functions with defer).
func lastResultNil(ret *ssa.Return) bool {
	e := retErr(ret)
	if isNilConst(e) {
		return true
	}
	if curProg != nil {
		x := curProg.X(e)
		return x.Op == "const" && x.Name == "nil"
	}
	return false
}

// curProg is the program under analysis (set by RunOn).
var curProg *core.Prog

// cmpAssume builds an assumption "L op R" where l and r are predicates on
// expressions; op is one of == != < <= > >=. Both operand orders and the
// negated form are recognised.
func cmpAssume(name, op string, l, rr func(*core.Expr) bool) assumption {
	neg := map[string]string{"==": "!=", "!=": "==", "<": ">=", ">=": "<", ">": "<=", "<=": ">"}
	swap := map[string]string{"==": "==", "!=": "!=", "<": ">", ">": "<", "<=": ">=", ">=": "<="}
	return assumption{name: name, match: func(f core.Fact) int {
		if f.R == nil {
			return 0
		}
		try := func(fop string, a, b *core.Expr) int {
			if d := impliedByRange(op, fop, l, rr, a, b); d != 0 {
				return d
			}
			if op == "==" && l(a) && b.Op == "const" && !rr(b) && (fop == "==" || fop == "!=") {
				// the assumed x == K decides a test of x against another constant
				// (the cases of a switch): -2/+2 = decided, but not a test of the
				// assumed condition itself
				if fop == "==" {
					return -2
				}
				return 2
			}
			if !l(a) || !rr(b) {
				return 0
			}
			if fop == op {
				return 1
			}
			if fop == neg[op] {
				return -1
			}
			// x == y assumed decides the order tests of the same two operands: a
			// search `for i < n` left with i >= n is the "i == n" case
			if op == "==" {
				// (decided, but not the test of the condition itself: +-2)
				switch fop {
				case ">=", "<=":
					return 2
				case "<", ">":
					return -2
				}
			}
			// the same constant under another operator (x > 0 for x != 0 once
			// lengths are normalised, x >= 1 ...): decided by the ranges
			if k, ok := b.ConstInt(); ok {
				switch rangeDecides(op, k, fop, k) {
				case 2:
					return 1
				case -2:
					return -1
				}
			}
			return 0
		}
		if d := try(f.Op, f.L, f.R); d != 0 {
			return d
		}
		return try(swap[f.Op], f.R, f.L)
	}}
}

// boolAssume builds an assumption "x is true/false" for a boolean term.
func boolAssume(name string, want bool, x func(*core.Expr) bool) assumption {
	return assumption{name: name, match: func(f core.Fact) int {
		if f.R != nil || !x(f.L) {
			return 0
		}
		if (f.Op == "true") == want {
			return 1
		}
		return -1
	}}
}

func isConstName(names ...string) func(*core.Expr) bool {
	return func(e *core.Expr) bool {
		if e.Op != "const" {
			return false
		}
		for _, n := range names {
			if e.Name == n {
				return true
			}
		}
		return false
	}
}

func fmtKey(format string, a ...any) string { return fmt.Sprintf(format, a...) }

// impliedByRange: the assumed condition "x op K" (K an integer constant named
// by rr) decides a test "x fop K2" against another integer constant: +2 if
// every x satisfying the assumption satisfies the test, -2 if none does.
func impliedByRange(op, fop string, l, rr func(*core.Expr) bool, a, b *core.Expr) int {
	if !l(a) || b.Op != "const" || rr(b) {
		return 0
	}
	k2, ok := b.ConstInt()
	if !ok {
		return 0
	}
	// find K: the constant rr accepts, among a few candidates around k2 is not
	// possible in general; probe integers in a small window
	var k int64
	found := false
	for d := int64(-70000); d <= 70000 && !found; d++ {
		c := &core.Expr{Op: "const", Name: fmt.Sprint(k2 + d)}
		if rr(c) {
			k, found = k2+d, true
		}
	}
	if !found {
		return 0
	}
	return rangeDecides(op, k, fop, k2)
}

// rangeDecides: does "x op k" decide "x fop k2"? +2 implied, -2 excluded.
func rangeDecides(op string, k int64, fop string, k2 int64) int {
	const inf = int64(1) << 62
	rng := func(o string, c int64) (lo, hi int64, ok bool) {
		switch o {
		case ">":
			return c + 1, inf, true
		case ">=":
			return c, inf, true
		case "<":
			return -inf, c - 1, true
		case "<=":
			return -inf, c, true
		case "==":
			return c, c, true
		}
		return 0, 0, false
	}
	alo, ahi, ok := rng(op, k)
	if !ok {
		return 0
	}
	if fop == "!=" {
		if k2 < alo || k2 > ahi {
			return 2
		}
		if alo == ahi && alo == k2 {
			return -2
		}
		return 0
	}
	tlo, thi, ok := rng(fop, k2)
	if !ok {
		return 0
	}
	if alo >= tlo && ahi <= thi {
		return 2
	}
	if ahi < tlo || alo > thi {
		return -2
	}
	return 0
}

// evalCondUnder evaluates a boolean SSA value under the assumptions: a
// comparison the assumptions decide, a negation, a variable written once, or
// a φ-node of a short-circuit expression all of whose feasible edges agree. It
// returns the names of the assumptions it used.
func evalCondUnder(p *core.Prog, v ssa.Value, as []assumption, depth int) (val, known bool, used []string) {
	if depth > 6 {
		return false, false, nil
	}
	switch x := v.(type) {
	case *ssa.Const:
		if x.Value != nil && (x.Value.ExactString() == "true" || x.Value.ExactString() == "false") {
			return x.Value.ExactString() == "true", true, nil
		}
	case *ssa.UnOp:
		if x.Op == token.NOT {
			b, ok, u := evalCondUnder(p, x.X, as, depth+1)
			return !b, ok, u
		}
		if x.Op == token.MUL {
			if cell, isCell := p.IsCellLoad(x); isCell {
				if stores, calls := p.CellDefs(cell); len(stores) == 1 && len(calls) == 0 {
					return evalCondUnder(p, stores[0].Val, as, depth+1)
				}
			}
		}
	case *ssa.BinOp:
		f := p.FactOf(core.Guard{Cond: x, Pol: true})
		for _, a := range as {
			if d := a.match(f); d != 0 {
				return d > 0, true, []string{a.name}
			}
		}
	case *ssa.Phi:
		var out, have bool
		for i, e := range x.Edges {
			feasible := true
			var edgeUsed []string
			for _, f := range p.EdgeFacts(x.Block().Preds[i], x.Block()) {
				for _, a := range as {
					if d := a.match(f); d < 0 {
						feasible = false
						edgeUsed = append(edgeUsed, a.name)
					}
				}
			}
			if !feasible {
				used = append(used, edgeUsed...)
				continue
			}
			b, ok, u := evalCondUnder(p, e, as, depth+1)
			if !ok {
				return false, false, nil
			}
			used = append(used, u...)
			if have && b != out {
				return false, false, nil
			}
			out, have = b, true
		}
		return out, have, used
	case *ssa.Call:
		// a boolean call the assumptions speak about (slices.Equal(...), s.Empty())
		f := p.FactOf(core.Guard{Cond: x, Pol: true})
		for _, a := range as {
			if d := a.match(f); d != 0 {
				return d > 0, true, []string{a.name}
			}
		}
	}
	return false, false, nil
}
