// Command echverif decides the properties of /verif/properties.jsonl for the
// current working tree of c2FmZQ/ech by static analysis (see DESIGN.md).
//
//	echverif [-repo /repo] [-verif /verif] quick|thorough <ID>
//	echverif [-repo /repo] dump <pkgpath> <func>
package main

import (
	"flag"
	"fmt"
	"os"
	"path/filepath"
	"sort"
	"strings"

	"verif/internal/core"
	"verif/internal/props"
	"verif/third_party/xtools/go/ssa"
)

func main() {
	repo := flag.String("repo", "/repo", "repository to analyse")
	verif := flag.String("verif", "/verif", "verification directory (evidence, known findings)")
	replay := flag.String("replay", "", "replay file: only report the rule+construct named in it")
	anchors := flag.String("anchors", "", "list of anchor functions (default: anchors.txt beside the bin directory of this executable)")
	threadAll := flag.Bool("threadall", false, "experiment: thread every constant merge point")
	flag.Parse()
	ssa.ThreadAllMerges = *threadAll || os.Getenv("ECHVERIF_THREADALL") != ""
	core.AnchorsFile = *anchors
	if core.AnchorsFile == "" {
		if exe, err := os.Executable(); err == nil {
			core.AnchorsFile = filepath.Join(filepath.Dir(filepath.Dir(exe)), "anchors.txt")
		}
	}
	args := flag.Args()
	if len(args) < 1 {
		usage()
	}
	switch args[0] {
	case "dump":
		if len(args) != 3 {
			usage()
		}
		dir := *repo
		if args[1] == "github.com/c2FmZQ/ech/publish" {
			dir += "/publish"
		}
		p, err := core.Load(dir)
		if err != nil {
			fmt.Fprintln(os.Stderr, err)
			os.Exit(2)
		}
		fn := p.Func(args[1], args[2])
		if i := strings.Index(args[2], "$"); fn == nil && i > 0 {
			// a function literal: NewConn$2
			if base := p.Func(args[1], args[2][:i]); base != nil {
				for _, l := range core.Closures(base) {
					if l.Name() == args[2] || strings.HasSuffix(args[2], "."+l.Name()) {
						fn = l
					}
				}
			}
		}
		if fn == nil {
			fmt.Fprintln(os.Stderr, "no such function")
			os.Exit(2)
		}
		if os.Getenv("ECHVERIF_RAW") != "" {
			fn.WriteTo(os.Stdout)
			break
		}
		p.Dump(os.Stdout, fn)
	case "list":
		ids := make([]string, 0)
		for id := range props.Registry {
			ids = append(ids, id)
		}
		sort.Strings(ids)
		for _, id := range ids {
			fmt.Println(id)
		}
	case "anchors":
		// the anchor names of the tree as it is (to regenerate anchors.txt
		// deliberately, after the rule sets were adapted to a new function)
		core.AnchorsFile = ""
		for _, mod := range []string{"", "publish"} {
			p, err := core.Load(filepath.Join(*repo, mod))
			if err != nil {
				fmt.Fprintln(os.Stderr, err)
				os.Exit(2)
			}
			if os.Getenv("ECHVERIF_LAYOUTS") != "" {
				for _, l := range p.Layouts() {
					fmt.Println(l)
				}
				continue
			}
			sigs := p.AnchorSigs()
			for _, n := range p.AnchorNames() {
				if s, ok := sigs[n]; ok {
					fmt.Println(n + "\t" + s)
				} else {
					fmt.Println(n)
				}
			}
		}
	case "quick", "thorough":
		if len(args) != 2 {
			usage()
		}
		os.Exit(props.Main(*repo, *verif, args[0], args[1], *replay))
	default:
		usage()
	}
}

func usage() {
	fmt.Fprintln(os.Stderr, "usage: echverif [-repo dir] [-verif dir] quick|thorough <ID> | dump <pkg> <func> | list")
	os.Exit(2)
}
