#!/bin/bash
# tools_neutral_subset.sh <prefix> : all 20 checks on every neutral/<prefix>*
# variant, 8 at a time; prints the rules that fire (each is a false alarm).
cd "$(dirname "$0")"
one() { d="$1"; r=$(./seedtest.sh $PWD/$d/patch.diff $(${ECHVERIF:-./bin/echverif} list) 2>&1 | grep -E "^\[C[0-9]+\]   C" | sed -E 's/^\[C[0-9]+\]   (C[0-9A-Za-z.\-]+) .*/\1/' | sort -u | tr '\n' ' '); echo "$(basename $d): ${r:-clean}"; }
export -f one
ls -d neutral/$1*/ | sed 's:/$::' | xargs -P 8 -I{} bash -c 'one {}' | sort
