#!/bin/sh
# ./verif.sh quick|thorough <ID> [--replay <file>]
# Rebuilds the checker if needed, analyses /repo's current working tree
# (override with ECH_REPO), writes evidence/<ID>.json, prints VIOLATION lines.
set -u
cd "$(dirname "$0")"
VERIF="$(pwd)"
REPO="${ECH_REPO:-/repo}"
export GOFLAGS=-mod=mod GOPROXY=off GOWORK=off
unset GOTOOLCHAIN GOSUMDB 2>/dev/null || true
tier="$1"; id="$2"; shift 2
replay=""
if [ "${1:-}" = "--replay" ]; then replay="$2"; fi
mkdir -p bin evidence
if ! go build -o bin/echverif ./cmd/echverif >bin/build.log 2>&1; then
  cat bin/build.log
  echo "VIOLATION property=$id replay=$VERIF/bin/build.log"
  exit 1
fi
if [ -n "$replay" ]; then
  exec ./bin/echverif -repo "$REPO" -verif "$VERIF" -replay "$replay" "$tier" "$id"
fi
exec ./bin/echverif -repo "$REPO" -verif "$VERIF" "$tier" "$id"
