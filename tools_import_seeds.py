#!/usr/bin/env python3
"""tools_import_seeds.py <srcdir> <offset> <wave> [missed-before ...]
Imports sub-agent seeds <srcdir>/<P>/<k>/ that tools_confirm_seeds.sh confirmed
into /verif/seeded/<P>-<offset+k>/ (patch.diff, demo_test.go, meta.json).
'missed-before' lists P/k pairs the checks did not catch before they were
strengthened (recorded in meta.json, reported in MATRIX.md and DESIGN.md)."""
import json, os, shutil, sys
src, off, wave = sys.argv[1], int(sys.argv[2]), int(sys.argv[3])
missed = set(sys.argv[4:])
want = ["demo_without_patch_exit=0", "apply=ok", "build_vet_exit=0", "suite_with_patch_exit=0"]
for P in sorted(os.listdir(src)):
    for k in sorted(os.listdir(os.path.join(src, P))):
        d = os.path.join(src, P, k)
        cf = os.path.join(d, "confirm.txt")
        if not os.path.isfile(cf):
            print("skip (not confirmed yet)", d); continue
        res = open(cf).read().split()
        ok = all(w in res for w in want) and any(r.startswith("demo_with_patch_exit=") and r != "demo_with_patch_exit=0" for r in res)
        if not ok:
            print("NOT CONFIRMED", d, res); continue
        name = f"{P}-{off+int(k)}"
        dst = os.path.join("/verif/seeded", name)
        os.makedirs(dst, exist_ok=True)
        shutil.copy(os.path.join(d, "patch.diff"), dst)
        shutil.copy(os.path.join(d, "demo_test.go"), dst)
        m = json.load(open(os.path.join(d, "meta.json")))
        m["origin"] = "independent sub-agent given only the property text and a scratch worktree"
        m["wave"] = wave
        m["confirmed"] = {"how": "tools_confirm_seeds.sh in a scratch git worktree of /repo HEAD: demo passes without the patch; patch applies; go build && go vet clean; existing suite (root and publish modules) passes with the patch; demo fails with the patch", "result": res}
        m["detected_by"] = [P]
        m["caught_before_strengthening"] = f"{P}/{k}" not in missed
        json.dump(m, open(os.path.join(dst, "meta.json"), "w"), indent=1)
        print("imported", name, "" if m["caught_before_strengthening"] else "(missed before strengthening)")
