#!/usr/bin/env python3
"""Generates /verif/variants/<name>/{patch.diff,meta.json}: hand-written,
construct-keyed rewrites of the CURRENT /repo tree (DESIGN.md section 9), one
broken instance each. Every variant is applied to a scratch copy, must still
compile (go build ./... && go vet ./...), and is stored as a unified diff.
They complement the sub-agents' seeded variants: they exercise rules that no
agent happened to hit. Run after changing /repo or adding variants."""
import json, os, shutil, subprocess, sys, tempfile

V = []  # (name, property, rules, file, old, new, note)
def v(name, prop, rules, file, old, new, note=""):
    V.append((name, prop, rules, file, old, new, note))

# C01
v("C01-hrr-table-byte", "C01", ["C01.tables"], "tls.go", "0xCF, 0x21, 0xAD, 0x74", "0xCF, 0x21, 0xAD, 0x75", "one byte of the HelloRetryRequest random")
v("C01-alpn-prefers-outer", "C01", ["C01.route"], "ech.go", """	if c != nil && c.inner != nil {
		return slices.Clone(c.inner.ALPNProtos)
	}
	if c != nil && c.outer != nil {
		return slices.Clone(c.outer.ALPNProtos)
	}""", """	if c != nil && c.outer != nil {
		return slices.Clone(c.outer.ALPNProtos)
	}
	if c != nil && c.inner != nil {
		return slices.Clone(c.inner.ALPNProtos)
	}""")
# C02
v("C02-drop-config-id", "C02", ["C02.A5"], "ech.go", "if err != nil || cfg.ID != h.echExt.ConfigID || slices.IndexFunc", "if err != nil || slices.IndexFunc")
v("C02-aad-from-marshal", "C02", ["C02.A3"], "ech.go", "		aad, err := h.marshalAAD()\n", "		aad, err := h.Marshal()\n")
v("C02-info-prefix-only", "C02", ["C02.A4"], "ech.go", 'info := append([]byte("tls ech\\x00"), key.Config...)', 'info := []byte("tls ech\\x00")')
v("C02-accept-on-open-error", "C02", ["C02.A1"], "ech.go", """		opened, err := ctx.Open(aad, h.echExt.Payload)
		if err != nil {
			continue
		}""", """		opened, err := ctx.Open(aad, h.echExt.Payload)
		if err != nil && len(opened) == 0 {
			continue
		}""")
# C03
v("C03-append-after-increment", "C03", ["C03.S2"], "ech.go", """			newExt = append(newExt, h.Extensions[p])
			// Extensions cannot be referenced more than once.
			p++""", """			p++
			newExt = append(newExt, h.Extensions[p-1])""")
v("C03-skip-reparse", "C03", ["C03.S3"], "ech.go", """	if err := inner.parseExtensions(); err != nil {
		return nil, err
	}
	if !inner.tls13 {""", """	if !inner.tls13 {""")
# C04
v("C04-no-second-marker-test", "C04", ["C04.G9"], "ech.go", """		if eoeSeen {
			return nil, fmt.Errorf("%w: ech_outer_extensions appears more than once", ErrIllegalParameter)
		}
		eoeSeen = true""", """		_ = eoeSeen
		eoeSeen = true""")
v("C04-swap-alerts", "C04", ["C04.ALERT.map"], "tls.go", """		sendAlert(conn, 2 /* fatal */, 47 /* Illegal parameter */)
	case errors.Is(err, ErrDecodeError):
		sendAlert(conn, 2 /* fatal */, 50 /* Decode error */)""", """		sendAlert(conn, 2 /* fatal */, 50 /* Illegal parameter */)
	case errors.Is(err, ErrDecodeError):
		sendAlert(conn, 2 /* fatal */, 47 /* Decode error */)""")
v("C04-alert-no-close", "C04", ["C04.ALERT.map"], "tls.go", """	if level == 0x2 {
		w.Close()
	}""", """	_ = level""")
v("C04-inner-tls13-before-reparse", "C04", ["C04.G6"], "ech.go", """	inner.Extensions = newExt
	// Parse the decoded inner hello again to extract extensions data, e.g. ALPNProtos.
	if err := inner.parseExtensions(); err != nil {
		return nil, err
	}
	if !inner.tls13 {
		return nil, fmt.Errorf("%w: inner doesn't offer tls 1.3", ErrIllegalParameter)
	}""", """	if !inner.tls13 {
		return nil, fmt.Errorf("%w: inner doesn't offer tls 1.3", ErrIllegalParameter)
	}
	inner.Extensions = newExt
	// Parse the decoded inner hello again to extract extensions data, e.g. ALPNProtos.
	if err := inner.parseExtensions(); err != nil {
		return nil, err
	}""")
# C05
v("C05-sort-outer-extensions", "C05", ["C05.P2"], "ech.go", """	if outer.hasECHOuterExtensions {""", """	slices.SortFunc(outer.Extensions, func(a, b extension) int { return int(a.Type) - int(b.Type) })
	if outer.hasECHOuterExtensions {""")
v("C05-normalise-compression", "C05", ["C05.P1"], "client_hello.go", "				b.AddBytes(c.LegacyCompressionMethods)", "				b.AddBytes([]byte{0})")
# C06
v("C06-retry-count-at-least-one", "C06", ["C06.M2"], "ech.go", "c.retryCount.Load() == 1:", "c.retryCount.Load() >= 1:")
v("C06-no-suite-check-on-retry", "C06", ["C06.M4"], "ech.go", "c.outer.echExt.ConfigID != h.echExt.ConfigID || c.outer.echExt.CipherSuite != h.echExt.CipherSuite || len(h.echExt.Enc) > 0", "c.outer.echExt.ConfigID != h.echExt.ConfigID || len(h.echExt.Enc) > 0")
# C07
v("C07-advance-by-record-size", "C07", ["C07.B2"], "ech.go", "		c.writeBuf = c.writeBuf[n:]", "		c.writeBuf = c.writeBuf[sz:]")
v("C07-drop-partial-record", "C07", ["C07.B3"], "ech.go", """			c.debugf("Read error %v\\n", err)
			c.readErr = err""", """			c.debugf("Read error %v\\n", err)
			c.readErr = err
			r = nil""")
# C08
v("C08-debug-print-unguarded", "C08", ["C08.I1"], "ech.go", "		if len(r) >= 5 {\n			if r[0] == 22 && len(r) > 5 {", "		if len(r) >= 0 {\n			if r[0] == 22 && len(r) > 5 {")
v("C08-no-watcher-deadline", "C08", ["C08.I5.PROMPT", "C08.I5.RESET"], "ech.go", """			expired = true
			conn.SetDeadline(time.Now())""", """			expired = true""")
# C09
v("C09-store-context-before-open", "C09", ["C09.STATE", "C09.BIND"], "ech.go", """		aad, err := h.marshalAAD()
		if err != nil {
			return nil, err
		}
		opened, err""", """		c.hpkeCtx = ctx
		aad, err := h.marshalAAD()
		if err != nil {
			return nil, err
		}
		opened, err""")
v("C09-no-break", "C09", ["C09.LEAVE"], "ech.go", """		c.hpkeCtx, c.hpkeConfig = ctx, key.Config
		break
""", """		c.hpkeCtx, c.hpkeConfig = ctx, key.Config
""")
# C10
v("C10-no-join", "C10", ["C10.ASYNC"], "ech.go", """		close(done)
		<-stopped
""", """		close(done)
""")
v("C10-no-reset", "C10", ["C10.RESET"], "ech.go", """		if expired && err == nil {
			conn.SetDeadline(time.Time{})
		}
""", """		_ = expired
""")
# C11
v("C11-mnl-zero", "C11", ["C11.MNL"], "config.go", "		b.AddUint8(uint8(min(len(c.PublicName)+16, 255)))", "		b.AddUint8(0)")
v("C11-no-version-check", "C11", ["C11.CONST"], "config.go", """	if out.Version != 0xfe0d {
		return out, ErrDecodeError
	}
""", "")
# C12
v("C12-aaaa-as-bytes", "C12", ["C12.T4", "C12.T2"], "dns/message.go", """		v := net.IP(data)
		if len(v) != 16 {
			return rr, ErrDecodeError
		}
		rr.Data = v""", """		v := []byte(data)
		if len(v) != 16 {
			return rr, ErrDecodeError
		}
		rr.Data = v""")
v("C12-no-backwards-check", "C13", ["C13.PTR"], "dns/message.go", "			if int(offset) >= len(d.raw) || uintptr(unsafe.Pointer(&d.raw[offset])) >= current {", "			if _ = current; int(offset) >= len(d.raw) {", "only the budgets bound the walk now: termination still holds, C13.PTR reports the missing test")
# C13
v("C13-swap-hint-keys", "C13", ["C13.RDATA"], "dns/message.go", None, None, "swap keys 4 and 6 in encoder and decoder")
v("C13-padding-plus-three", "C13", ["C13.PAD"], "dns/message.go", "padSize := (128 - (len(m.Bytes())+4)%128) % 128", "padSize := (128 - (len(m.Bytes())+3)%128) % 128")
v("C13-flag-shift", "C13", ["C13.HDR"], "dns/message.go", "msg.RA = uint8((v & 0x0080) >> 7)", "msg.RA = uint8((v & 0x0040) >> 6)")
# C14
v("C14-no-owner-check", "C14", ["C14.N4"], "resolve.go", "		if name == want && a.Type == dns.RRType(typ) {", "		if a.Type == dns.RRType(typ) {")
v("C14-no-chain-limit", "C14", ["C14.N3", "C14.N6"], "resolve.go", """		if len(seen) >= 5 {
			log.Printf("ERR Resolve(%q): alias chain too long", name)
			want = name
			break
		}
""", "")
v("C14-nxdomain-fatal", "C14", ["C14.N3"], "resolve.go", "		if err != nil && !errors.Is(err, ErrNonExistentDomain) {", "		if err != nil {")
v("C14-rcode-table", "C14", ["C14.N5"], "resolve.go", "		2: ErrServerFailure,\n		3: ErrNonExistentDomain,", "		3: ErrServerFailure,\n		2: ErrNonExistentDomain,")
# C15
v("C15-no-family-filter", "C15", ["C15.GUARDS"], "resolve.go", """		if (network == "tcp4" || network == "udp4") && len(ip) != 4 {
			return netip.AddrPort{}
		}
""", "")
v("C15-yield-before-seen", "C15", ["C15.GUARDS"], "resolve.go", """			if seen[addr] {
				return true
			}
			seen[addr] = true
			return yield(Target{Address: addr, ECH: ech, ALPN: alpn})""", """			ok := yield(Target{Address: addr, ECH: ech, ALPN: alpn})
			seen[addr] = true
			return ok""")
v("C15-origin-address-for-target", "C15", ["C15.PAIR", "C15.GUARDS"], "resolve.go", "				for _, a := range r.Additional[h.Target] {", "				for _, a := range r.Address {")
# C16
v("C16-read-before-rlock", "C16", ["C16.LOCK"], "resolve.go", """	v.mu.RLock()
	exp, res := v.expiration, v.result
	v.mu.RUnlock()""", """	exp := v.expiration
	v.mu.RLock()
	res := v.result
	v.mu.RUnlock()""")
v("C16-store-before-error-test", "C16", ["C16.NOFAIL"], "resolve.go", """	res, ttl, err := r.resolveOneNoCache(ctx, name, typ)
	if err != nil {
		cache.Remove(key)
		return nil, err
	}
""", """	res, ttl, err := r.resolveOneNoCache(ctx, name, typ)
	v.result = res
	if err != nil {
		cache.Remove(key)
		return nil, err
	}
""")
v("C16-global-counter", "C16", ["C16.RACE0"], "resolve.go", None, None, "Resolve counts lookups in a package-level variable")
# C17
v("C17-server-name-unconditional", "C17", ["C17.SNI"], "dial.go", """				if tc.ServerName == "" {
					tc.ServerName = target.host
				}""", """				tc.ServerName = target.host""")
v("C17-drop-need-ech", "C17", ["C17.KEEP"], "dial.go", "				if needECH && target.resolved.ECH != nil {", "				if target.resolved.ECH != nil {")
v("C17-no-retried-flag", "C17", ["C17.RETRY", "C17.KEEP"], "dial.go", "len(echErr.RetryConfigList) > 0 && !retried {", "len(echErr.RetryConfigList) > 0 && (!retried || true) {")
# C18
v("C18-bare-conn-send", "C18", ["C18.K2", "C18.K4"], "dial.go", """		select {
		case <-ctx.Done():
			if c, ok := any(conn).(io.Closer); ok {
				c.Close()
			}
		case connChan <- conn:
		}""", """		connChan <- conn""")
v("C18-no-close-on-done", "C18", ["C18.K4"], "dial.go", """		case <-ctx.Done():
			if c, ok := any(conn).(io.Closer); ok {
				c.Close()
			}
		case connChan <- conn:""", """		case <-ctx.Done():
		case connChan <- conn:""")
v("C18-timeout-from-background", "C18", ["C18.K3"], "dial.go", "ctx, cancel := context.WithTimeout(ctx, timeout)", "ctx, cancel := context.WithTimeout(context.Background(), timeout)")
v("C18-no-deferred-cancel", "C18", ["C18.K3"], "dial.go", "	ctx, cancel := context.WithCancel(ctx)\n	defer cancel()\n", "	ctx, cancel := context.WithCancel(ctx)\n	_ = cancel\n")
v("C18-fixed-pool", "C18", ["C18.K5"], "dial.go", "	for range numWorkers {", "	_ = numWorkers\n	for range 8 {")
v("C18-no-pacing", "C18", ["C18.K6"], "dial.go", """			if !first {
				select {
				case <-ctx.Done():
					break
				case <-wakeChan:
				case <-time.After(delay):
				}
			}
			first = false
			targetChan <- target""", """			_, _ = first, delay
			targetChan <- target""")
# C19
v("C19-plain-dialer", "C19", ["C19.PLAIN"], "transport.go", """		DialContext: func(ctx context.Context, network, addr string) (net.Conn, error) {
			return nil, errors.New("attempting to dial a plaintext tcp connection")
		},""", """		DialContext: func(ctx context.Context, network, addr string) (net.Conn, error) {
			if addr == "" {
				return nil, errors.New("attempting to dial a plaintext tcp connection")
			}
			return (&net.Dialer{}).DialContext(ctx, network, addr)
		},""")
v("C19-host-after-rewrite", "C19", ["C19.AUTH"], "transport.go", None, None, "req.Host is filled after URL.Host was replaced by the pool key")
v("C19-continue-on-h2", "C19", ["C19.H3"], "transport.go", """			if !hh.NoDefaultALPN || slices.Contains(hh.ALPN, "h2") || slices.Contains(hh.ALPN, "http/1.1") {
				break
			}""", """			if !hh.NoDefaultALPN || slices.Contains(hh.ALPN, "http/1.1") {
				break
			}""")
v("C19-host-from-dns-target", "C19", ["C19.HOST"], "transport.go", """					host:   h,
					result: filterResult(map[string]bool{"h2": true, "http/1.1": true}, false),""", """					host:   firstTarget(res, h),
					result: filterResult(map[string]bool{"h2": true, "http/1.1": true}, false),""")
v("C19-response-bound-to-clone", "C19", ["C19.BIND"], "transport.go", "	resp.Request = origReq", "	_ = origReq\n	resp.Request = req")
# C20
v("C20-patch-before-no-change", "C20", ["C20.WHO"], "publish/cloudflare.go", None, None, "the write is issued before the no-change test")
v("C20-substring-ech", "C20", ["C20.PARAM"], "publish/cloudflare.go", """			if k, v, ok := strings.Cut(p, "="); ok && k == "ech" {""", """			if k, v, ok := strings.Cut(p, "="); ok && strings.Contains(k, "ech") {""")
v("C20-first-page-only", "C20", ["C20.PAGES"], "publish/cloudflare.go", "		if len(result.Result) == 0 || result.ResultInfo.Page >= result.ResultInfo.TotalPages", "		if page >= 1 || len(result.Result) == 0 || result.ResultInfo.Page >= result.ResultInfo.TotalPages")
v("C20-result-dropped-on-not-found", "C20", ["C20.ONE"], "publish/cloudflare.go", """		if !exists {
			result.Code = StatusNotFound
			results = append(results, result)
			continue
		}""", """		if !exists {
			continue
		}""")
v("C20-rewrite-target", "C20", ["C20.ONLY"], "publish/cloudflare.go", "		v.Data.Value = strings.Join(newParams, \" \")\n", "		v.Data.Value = strings.Join(newParams, \" \")\n		v.Data.Target = \".\"\n")

MULTI = {
 "C13-swap-hint-keys": [("dns/message.go", "				s.AddUint16(4)\n", "				s.AddUint16(6)\n"), ("dns/message.go", "				s.AddUint16(6)\n				s.AddUint16LengthPrefixed(func(s *cryptobyte.Builder) {\n					for _, ip := range data.IPv6Hint {", "				s.AddUint16(4)\n				s.AddUint16LengthPrefixed(func(s *cryptobyte.Builder) {\n					for _, ip := range data.IPv6Hint {"),
                        ("dns/message.go", "		case 4: // ipv4hint", "		case 6: // ipv4hint"), ("dns/message.go", "		case 6: // ipv6hint", "		case 4: // ipv6hint")],
 "C16-global-counter": [("resolve.go", "	timeNow = time.Now\n)", "	timeNow = time.Now\n\n	lookups int\n)"), ("resolve.go", "	result := ResolveResult{\n		Port: 443,\n	}\n	scheme := \"https\"", "	lookups++\n	result := ResolveResult{\n		Port: 443,\n	}\n	scheme := \"https\"")],
 "C19-host-after-rewrite": [("transport.go", """	if req.Host == "" {
		// This is the value sent in the Host / :authority header.
		req.Host = req.URL.Host
	}
""", ""), ("transport.go", """	req.URL.Host = fmt.Sprintf("_%s._%s.%s._", p, req.URL.Scheme, h)
""", """	req.URL.Host = fmt.Sprintf("_%s._%s.%s._", p, req.URL.Scheme, h)
	if req.Host == "" {
		req.Host = req.URL.Host
	}
""")],
 "C19-host-from-dns-target": [("transport.go", """					host:   h,
					result: filterResult(map[string]bool{"h2": true, "http/1.1": true}, false),""", """					host:   firstTarget(res, h),
					result: filterResult(map[string]bool{"h2": true, "http/1.1": true}, false),"""), ("transport.go", "type ctxTransportKey int", """func firstTarget(res ResolveResult, def string) string {
	for _, h := range res.HTTPS {
		if h.Target != "" {
			return h.Target
		}
	}
	return def
}

type ctxTransportKey int""")],
 "C20-patch-before-no-change": [("publish/cloudflare.go", """		if newValue == oldValue {
			result.Code = StatusNoChange
			results = append(results, result)
			continue
		}
		newParams = append(newParams, fmt.Sprintf(`ech="%s"`, newValue))
		v.Data.Value = strings.Join(newParams, " ")

		if err := cf.updateRecord(ctx, v.ZoneID, v.RecordID, v.Data); err != nil {""", """		newParams = append(newParams, fmt.Sprintf(`ech="%s"`, newValue))
		v.Data.Value = strings.Join(newParams, " ")

		err := cf.updateRecord(ctx, v.ZoneID, v.RecordID, v.Data)
		if newValue == oldValue {
			result.Code = StatusNoChange
			results = append(results, result)
			continue
		}
		if err != nil {""")],
}

def main():
    out = "/verif/variants"
    only = set(sys.argv[1:])
    os.makedirs(out, exist_ok=True)
    env = dict(os.environ, GOFLAGS="-mod=mod", GOPROXY="off")
    bad = 0
    for name, prop, rules, file, old, new, note in V:
        if only and name not in only:
            continue
        tmp = tempfile.mkdtemp(prefix="mkvar-")
        try:
            subprocess.run(["rsync", "-a", "--exclude", ".git", "/repo/", tmp + "/"], check=True)
            subprocess.run(["git", "init", "-q"], cwd=tmp, check=True)
            subprocess.run(["git", "add", "-A"], cwd=tmp, check=True)
            subprocess.run(["git", "-c", "user.email=x@x", "-c", "user.name=x", "commit", "-q", "-m", "base"], cwd=tmp, check=True)
            edits = MULTI.get(name) or [(file, old, new)]
            ok = True
            for f, o, n in edits:
                p = os.path.join(tmp, f)
                s = open(p).read()
                if s.count(o) < 1:
                    print(f"!! {name}: anchor not found in {f}: {o[:60]!r}")
                    ok = False
                    break
                s = s.replace(o, n, 1)
                open(p, "w").write(s)
            if not ok:
                bad += 1
                continue
            subprocess.run(["gofmt", "-w"] + sorted({os.path.join(tmp, f) for f, _, _ in edits}), check=False)
            moddir = os.path.join(tmp, "publish") if file.startswith("publish/") else tmp
            b = subprocess.run("go build ./... && go vet ./...", shell=True, cwd=moddir, env=env, capture_output=True, text=True)
            if b.returncode != 0:
                print(f"!! {name}: does not build:\n{b.stdout}{b.stderr}")
                bad += 1
                continue
            diff = subprocess.run(["git", "diff"], cwd=tmp, capture_output=True, text=True).stdout
            d = os.path.join(out, name)
            os.makedirs(d, exist_ok=True)
            open(os.path.join(d, "patch.diff"), "w").write(diff)
            json.dump({"property": prop, "summary": note or f"hand-written variant {name}", "origin": "tools_mkvariants.py (DESIGN.md section 9); compiles and vets; not checked against the repository's test suite",
                       "detected_by": [prop] if rules else [], "rules": rules}, open(os.path.join(d, "meta.json"), "w"), indent=1)
            print("ok", name)
        finally:
            shutil.rmtree(tmp, ignore_errors=True)
    print("failed:", bad)

main()
