#!/bin/bash
# tools_neutral_detail.sh <variant> <ID>... : print the violations the given
# checks report on a neutral variant (development aid).
cd "$(dirname "$0")"
v="$1"; shift
./seedtest.sh $PWD/neutral/$v/patch.diff "$@" 2>&1 | grep -v WARNING | cut -c1-${COLS:-420}
