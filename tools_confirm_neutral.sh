#!/bin/bash
# tools_confirm_neutral.sh <prefix> : for every neutral/<prefix>* confirm in a
# scratch worktree of /repo that the patch applies, builds, vets and that the
# unedited suite (root and publish modules) passes with it. Writes
# neutral/<name>/confirm.txt. Never touches /repo's working tree.
set -u
cd "$(dirname "$0")"
export GOFLAGS=-mod=mod GOPROXY=off
wt=/tmp/confirm-neutral-wt
git -C /repo worktree remove --force $wt 2>/dev/null
git -C /repo worktree add -q --detach $wt HEAD || exit 2
trap 'git -C /repo worktree remove --force $wt' EXIT
for d in neutral/$1*/; do
  d=${d%/}
  ( cd $wt && git checkout -q -- . && git clean -fdq )
  out=$PWD/$d/confirm.txt; : > $out
  if ! ( cd $wt && git apply --whitespace=nowarn $OLDPWD/$d/patch.diff ) 2>>$out; then echo "apply=FAIL" >> $out; echo "== $d: apply FAIL"; continue; fi
  echo "apply=ok" >> $out
  ( cd $wt && go build ./... && go vet ./... ) > /tmp/confirm-neutral-build.log 2>&1; echo "build_vet_exit=$?" >> $out
  rc=0
  for m in . publish; do ( cd $wt/$m && timeout 600 go test -vet=off -count=1 ./... ) > /tmp/confirm-neutral-suite.log 2>&1 || rc=1; done
  echo "suite_exit=$rc" >> $out
  echo "== $d: $(tr '\n' ' ' < $out)"
done
