#!/bin/bash
# tools_scratch.sh <patch.diff> [dir] : scratch copy of /repo with the patch
# applied (default /tmp/scr), for `bin/echverif -repo <dir> dump ...`.
# Development aid; remove the directory when done.
d="${2:-/tmp/scr}"
rm -rf "$d"; mkdir -p "$d"
rsync -a --exclude .git /repo/ "$d/"
(cd "$d" && git apply --whitespace=nowarn "$1") || echo "PATCH DOES NOT APPLY"
